#!/bin/sh
# MANIFEST.setup_cmd: regenerate the facts tables from /repo, generate the Makefile, full .vo build.
set -e
cd "$(dirname "$0")"
export PYTHONHASHSEED=0 PYTHONPATH=/repo/src PYTHONWARNINGS=ignore
mkdir -p build evidence
/venv/bin/python - <<'PY'
import sys
sys.path.insert(0, 'harness')
import facts, driver
facts.regenerate()
driver.ensure_makefile()
PY
cd coq
timeout 3000 make -k -j16 COQC="timeout 1500 coqc" 2>&1 | tail -n 40
