(* Base/MonTac.v — introduction forms of the wp rules and the symbolic-execution tactics used by the
   proofs about the life-cycle model. *)
From Coq Require Import List Bool.
From Plumpy Require Import Val Mon.
Import ListNotations.

Section Intro.
  Context {S : Type}.
  Implicit Types s : S.

  Lemma wp_ret_i {A} (a : A) (Q : result A -> S -> Prop) s : Q (Ok a) s -> wp (ret a) Q s.
  Proof. exact (fun H => H). Qed.
  Lemma wp_raise_i {A} e (Q : result A -> S -> Prop) s : Q (Err e) s -> wp (raise e) Q s.
  Proof. exact (fun H => H). Qed.
  Lemma wp_get_i (Q : result S -> S -> Prop) s : Q (Ok s) s -> wp get Q s.
  Proof. exact (fun H => H). Qed.
  Lemma wp_gets_i {A} (f : S -> A) (Q : result A -> S -> Prop) s : Q (Ok (f s)) s -> wp (gets f) Q s.
  Proof. exact (fun H => H). Qed.
  Lemma wp_put_i s' (Q : result unit -> S -> Prop) s : Q (Ok tt) s' -> wp (put s') Q s.
  Proof. exact (fun H => H). Qed.
  Lemma wp_modify_i f (Q : result unit -> S -> Prop) s : Q (Ok tt) (f s) -> wp (modify f) Q s.
  Proof. exact (fun H => H). Qed.
  Lemma wp_bind_i {A B} (m : M S A) (f : A -> M S B) Q s :
    wp m (fun r s' => match r with Ok a => wp (f a) Q s' | Err e => Q (Err e) s' end) s -> wp (bind m f) Q s.
  Proof. apply wp_bind. Qed.
  Lemma wp_try_catch_i {A} (m : M S A) h Q s :
    wp m (fun r s' => match r with Ok a => Q (Ok a) s' | Err e => wp (h e) Q s' end) s -> wp (try_catch m h) Q s.
  Proof. apply wp_try_catch. Qed.
  Lemma wp_finally_i {A} (m : M S A) f Q s :
    wp m (fun r s' => wp f (fun r2 s'' => match r2 with Ok _ => Q r s'' | Err e => Q (Err e) s'' end) s') s ->
    wp (finally m f) Q s.
  Proof. apply wp_finally. Qed.
  Lemma wp_attempt_i {A} (m : M S A) Q s : wp m (fun r s' => Q (Ok r) s') s -> wp (attempt m) Q s.
  Proof. apply wp_attempt. Qed.
  Lemma wp_when_i b m (Q : result unit -> S -> Prop) s :
    (b = true -> wp m Q s) -> (b = false -> Q (Ok tt) s) -> wp (when b m) Q s.
  Proof. destruct b; intros H1 H2; [apply H1 | apply H2]; reflexivity. Qed.

  (* use a specification: from wp m Q1 and Q1 => Q2 *)
  Lemma wp_use {A} (m : M S A) (Q1 Q2 : result A -> S -> Prop) s :
    wp m Q1 s -> (forall r s', Q1 r s' -> Q2 r s') -> wp m Q2 s.
  Proof. unfold wp; auto. Qed.

  (* wp is just the postcondition on the outcome *)
  Lemma wp_run {A} (m : M S A) (Q : result A -> S -> Prop) s : wp m Q s -> Q (fst (m s)) (snd (m s)).
  Proof. exact (fun H => H). Qed.
  Lemma wp_of_run {A} (m : M S A) (Q : result A -> S -> Prop) s : Q (fst (m s)) (snd (m s)) -> wp m Q s.
  Proof. exact (fun H => H). Qed.

  Lemma wp_mapM_inv {A} (f : A -> M S unit) (I : S -> Prop) (l : list A) (Q : result unit -> S -> Prop) s :
    I s ->
    (forall x s1, In x l -> I s1 -> wp (f x) (fun r s2 => r = Ok tt /\ I s2) s1) ->
    (forall s', I s' -> Q (Ok tt) s') ->
    wp (mapM_ f l) Q s.
  Proof.
    revert s. induction l as [|x l IH]; intros s Hs Hf HQ; cbn [mapM_].
    - apply wp_ret_i. auto.
    - apply wp_bind_i. eapply wp_use. { apply Hf; [left; reflexivity | exact Hs]. }
      intros r s' [-> Hs']. apply IH; auto. intros y s1 Hy. apply Hf. right; exact Hy.
  Qed.
End Intro.

(* one symbolic-execution step on a goal [wp m Q s] whose head is a monad primitive or a match *)
Ltac wp_prim :=
  lazymatch goal with
  | |- wp (bind _ _) _ _ => apply wp_bind_i
  | |- wp (ret _) _ _ => apply wp_ret_i
  | |- wp (raise _) _ _ => apply wp_raise_i
  | |- wp get _ _ => apply wp_get_i
  | |- wp (gets _) _ _ => apply wp_gets_i
  | |- wp (put _) _ _ => apply wp_put_i
  | |- wp (modify _) _ _ => apply wp_modify_i
  | |- wp (try_catch _ _) _ _ => apply wp_try_catch_i
  | |- wp (finally _ _) _ _ => apply wp_finally_i
  | |- wp (attempt _) _ _ => apply wp_attempt_i
  end; cbv beta iota zeta.

Ltac wp_case :=
  lazymatch goal with
  | |- wp (match ?x with _ => _ end) _ _ => destruct x eqn:?
  | |- wp (if ?x then _ else _) _ _ => destruct x eqn:?
  | |- wp (when ?b _) _ _ => apply wp_when_i; intro
  end.

Ltac wp_go := repeat (wp_prim || wp_case).
