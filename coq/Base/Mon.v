(* Base/Mon.v — the exception-state monad in which the life-cycle model is written, and the
   weakest-precondition calculus used to reason about it.  Python exceptions are values. *)
From Coq Require Import List Bool.
From Plumpy Require Import Val.
Import ListNotations.

Inductive result (A : Type) :=
| Ok (a : A)
| Err (e : exn).
Arguments Ok {A} a.
Arguments Err {A} e.

Section Mon.
  Variable S : Type.

  Definition M (A : Type) := S -> result A * S.

  Definition ret {A} (a : A) : M A := fun s => (Ok a, s).
  Definition raise {A} (e : exn) : M A := fun s => (Err e, s).
  Definition bind {A B} (m : M A) (f : A -> M B) : M B :=
    fun s => match m s with
             | (Ok a, s') => f a s'
             | (Err e, s') => (Err e, s')
             end.
  Definition get : M S := fun s => (Ok s, s).
  Definition put (s : S) : M unit := fun _ => (Ok tt, s).
  Definition modify (f : S -> S) : M unit := fun s => (Ok tt, f s).
  Definition gets {A} (f : S -> A) : M A := fun s => (Ok (f s), s).

  (* try: m except Exception as e: h e *)
  Definition try_catch {A} (m : M A) (h : exn -> M A) : M A :=
    fun s => match m s with
             | (Ok a, s') => (Ok a, s')
             | (Err e, s') => h e s'
             end.

  (* try: m finally: f   (f itself does not raise in the model) *)
  Definition finally {A} (m : M A) (f : M unit) : M A :=
    fun s => match m s with
             | (r, s') => match f s' with
                          | (Ok _, s'') => (r, s'')
                          | (Err e, s'') => (Err e, s'')
                          end
             end.

  (* run m and hand back its outcome as a value (never raises) *)
  Definition attempt {A} (m : M A) : M (result A) :=
    fun s => match m s with (r, s') => (Ok r, s') end.

  Definition when (b : bool) (m : M unit) : M unit := if b then m else ret tt.

  Fixpoint mapM_ {A} (f : A -> M unit) (l : list A) : M unit :=
    match l with
    | [] => ret tt
    | x :: r => bind (f x) (fun _ => mapM_ f r)
    end.

  (* ---- weakest preconditions ---- *)
  Definition wp {A} (m : M A) (Q : result A -> S -> Prop) (s : S) : Prop :=
    Q (fst (m s)) (snd (m s)).

  Lemma wp_ret {A} (a : A) Q s : wp (ret a) Q s <-> Q (Ok a) s.
  Proof. reflexivity. Qed.
  Lemma wp_raise {A} e (Q : result A -> S -> Prop) s : wp (raise e) Q s <-> Q (Err e) s.
  Proof. reflexivity. Qed.
  Lemma wp_get Q s : wp get Q s <-> Q (Ok s) s.
  Proof. reflexivity. Qed.
  Lemma wp_gets {A} (f : S -> A) Q s : wp (gets f) Q s <-> Q (Ok (f s)) s.
  Proof. reflexivity. Qed.
  Lemma wp_put s' Q s : wp (put s') Q s <-> Q (Ok tt) s'.
  Proof. reflexivity. Qed.
  Lemma wp_modify f Q s : wp (modify f) Q s <-> Q (Ok tt) (f s).
  Proof. reflexivity. Qed.
  Lemma wp_bind {A B} (m : M A) (f : A -> M B) Q s :
    wp (bind m f) Q s <->
    wp m (fun r s' => match r with Ok a => wp (f a) Q s' | Err e => Q (Err e) s' end) s.
  Proof. unfold wp, bind. destruct (m s) as [[a|e] s']; reflexivity. Qed.
  Lemma wp_try_catch {A} (m : M A) h Q s :
    wp (try_catch m h) Q s <->
    wp m (fun r s' => match r with Ok a => Q (Ok a) s' | Err e => wp (h e) Q s' end) s.
  Proof. unfold wp, try_catch. destruct (m s) as [[a|e] s']; reflexivity. Qed.
  Lemma wp_finally {A} (m : M A) f Q s :
    wp (finally m f) Q s <->
    wp m (fun r s' => wp f (fun r2 s'' => match r2 with Ok _ => Q r s'' | Err e => Q (Err e) s'' end) s') s.
  Proof.
    unfold wp, finally. destruct (m s) as [r s']. cbn.
    destruct (f s') as [[u|e] s'']; reflexivity.
  Qed.
  Lemma wp_attempt {A} (m : M A) Q s :
    wp (attempt m) Q s <-> wp m (fun r s' => Q (Ok r) s') s.
  Proof. unfold wp, attempt. destruct (m s); reflexivity. Qed.
  Lemma wp_mono {A} (m : M A) (Q Q' : result A -> S -> Prop) s :
    (forall r s', Q r s' -> Q' r s') -> wp m Q s -> wp m Q' s.
  Proof. unfold wp; auto. Qed.
  Lemma wp_when b m Q s : wp (when b m) Q s <-> if b then wp m Q s else Q (Ok tt) s.
  Proof. destruct b; reflexivity. Qed.
End Mon.

Arguments ret {S A} a.
Arguments raise {S A} e.
Arguments bind {S A B} m f.
Arguments get {S}.
Arguments put {S} s.
Arguments modify {S} f.
Arguments gets {S A} f.
Arguments try_catch {S A} m h.
Arguments finally {S A} m f.
Arguments attempt {S A} m.
Arguments when {S} b m.
Arguments mapM_ {S A} f l.
Arguments wp {S A} m Q s.

Declare Scope mon_scope.
Notation "x <- m ;; k" := (bind m (fun x => k)) (at level 61, m at next level, right associativity) : mon_scope.
Notation "m ;;; k" := (bind m (fun _ => k)) (at level 61, right associativity) : mon_scope.
