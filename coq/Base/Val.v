(* Base/Val.v — Python values and exceptions as seen by the models.  No proofs about plumpy here. *)
From Coq Require Import List ZArith String Bool Ascii.
Import ListNotations.
Local Open Scope string_scope.

(* Python values of the small domain the harness uses. [VDict] keeps insertion order (as Python
   dicts do); [VFrozen] is plumpy.utils.AttributesFrozendict. *)
Inductive val :=
| VNone
| VBool (b : bool)
| VInt (z : Z)
| VStr (s : string)
| VTup (l : list val)
| VList (l : list val)
| VDict (kvs : list (string * val))
| VFrozen (kvs : list (string * val)).

(* Exceptions are compared by kind (+ user tag): messages and tracebacks are never compared. *)
Inductive exn :=
| EUser (tag : string)        (* an exception raised by scripted user code, identified by its tag *)
| EInvalidState
| ERuntime                    (* RuntimeError, e.g. "Cannot transition from X to Y" *)
| EAssert
| EEventError
| EClosed
| EKilled (txt : string)
| EValue
| EType
| EIndex
| EKey
| EAttribute
| ECancelled
| ERejected
| EOutOfFuel.                 (* model artefact: explicit fuel exhausted; excluded by every theorem *)

Fixpoint val_eqb (a b : val) {struct a} : bool :=
  let fix list_eqb (l1 l2 : list val) {struct l1} : bool :=
    match l1, l2 with
    | [], [] => true
    | x :: l1', y :: l2' => val_eqb x y && list_eqb l1' l2'
    | _, _ => false
    end in
  let fix kvs_eqb (l1 l2 : list (string * val)) {struct l1} : bool :=
    match l1, l2 with
    | [], [] => true
    | (k1, x) :: l1', (k2, y) :: l2' => String.eqb k1 k2 && val_eqb x y && kvs_eqb l1' l2'
    | _, _ => false
    end in
  match a, b with
  | VNone, VNone => true
  | VBool x, VBool y => Bool.eqb x y
  | VInt x, VInt y => Z.eqb x y
  | VStr x, VStr y => String.eqb x y
  | VTup x, VTup y => list_eqb x y
  | VList x, VList y => list_eqb x y
  | VDict x, VDict y => kvs_eqb x y
  | VFrozen x, VFrozen y => kvs_eqb x y
  | _, _ => false
  end.

Definition exn_eqb (a b : exn) : bool :=
  match a, b with
  | EUser x, EUser y => String.eqb x y
  | EInvalidState, EInvalidState | ERuntime, ERuntime | EAssert, EAssert
  | EEventError, EEventError | EClosed, EClosed | EValue, EValue | EType, EType
  | EIndex, EIndex | EKey, EKey | EAttribute, EAttribute | ECancelled, ECancelled
  | ERejected, ERejected | EOutOfFuel, EOutOfFuel => true
  | EKilled x, EKilled y => String.eqb x y
  | _, _ => false
  end.

Definition option_eqb {A} (eqb : A -> A -> bool) (a b : option A) : bool :=
  match a, b with
  | None, None => true
  | Some x, Some y => eqb x y
  | _, _ => false
  end.

Fixpoint list_eqb {A} (eqb : A -> A -> bool) (l1 l2 : list A) : bool :=
  match l1, l2 with
  | [], [] => true
  | x :: l1', y :: l2' => eqb x y && list_eqb eqb l1' l2'
  | _, _ => false
  end.

Definition pair_eqb {A B} (ea : A -> A -> bool) (eb : B -> B -> bool) (p q : A * B) : bool :=
  ea (fst p) (fst q) && eb (snd p) (snd q).

Definition sum_eqb {A B} (ea : A -> A -> bool) (eb : B -> B -> bool) (p q : A + B) : bool :=
  match p, q with
  | inl x, inl y => ea x y
  | inr x, inr y => eb x y
  | _, _ => false
  end.

(* Python truthiness on the value domain. *)
Definition truthy (v : val) : bool :=
  match v with
  | VNone => false
  | VBool b => b
  | VInt z => negb (Z.eqb z 0)
  | VStr s => negb (String.eqb s "")
  | VTup l | VList l => match l with [] => false | _ => true end
  | VDict l | VFrozen l => match l with [] => false | _ => true end
  end.

(* association-list helpers (Python dict semantics: update in place, append new keys) *)
Fixpoint alist_get {A} (k : string) (l : list (string * A)) : option A :=
  match l with
  | [] => None
  | (k', v) :: l' => if String.eqb k k' then Some v else alist_get k l'
  end.

Fixpoint alist_set {A} (k : string) (v : A) (l : list (string * A)) : list (string * A) :=
  match l with
  | [] => [(k, v)]
  | (k', v') :: l' => if String.eqb k k' then (k, v) :: l' else (k', v') :: alist_set k v l'
  end.

Fixpoint alist_del {A} (k : string) (l : list (string * A)) : list (string * A) :=
  match l with
  | [] => []
  | (k', v') :: l' => if String.eqb k k' then l' else (k', v') :: alist_del k l'
  end.

Definition alist_mem {A} (k : string) (l : list (string * A)) : bool :=
  match alist_get k l with Some _ => true | None => false end.
