(* Base/Util.v — small shared helpers for the correspondence files. *)
From Coq Require Import List.
Import ListNotations.

(* indices of the cases on which [ok] is false *)
Fixpoint mismatches_from {X} (ok : X -> bool) (i : nat) (l : list X) : list nat :=
  match l with
  | [] => []
  | c :: l' => if ok c then mismatches_from ok (S i) l' else i :: mismatches_from ok (S i) l'
  end.
