(* Props/C02.v — property C02: all reports of a terminated process's outcome agree and waiters are released.
   Property theorems only.  Model: Life/Model.v + Life/Run.v (M1); proofs: Life/LifeOutcome.v, Life/LifeFx.v
   (symbolic execution of the model on every quiet world), Life/LifeSx.v, Life/LifePath.v, Life/LifeBook.v;
   Life/LifeAgree.v (the invariant over every run: C02_reports_agree_at_every_point and its corollaries).

   [outcome_agrees w s r w']: the operation returned normally, the state is s, the future reports exactly the outcome
   of s (outputs for FINISHED, the exception for EXCEPTED, KilledError with the kill text for KILLED), the process is
   closed, the registered cleanups ran exactly once, exactly one terminal notification of the matching kind was
   sent and none of another kind, stepping has ended. *)
From Coq Require Import List String Bool ZArith.
From Plumpy Require Import Val Mon PortModel Model Run LifeSx LifeFx LifePath LifeBook LifeOutcome LifeAgree LifeWake.
From Plumpy Require LifeEsc LifeReturn.
Import ListNotations.

(* AT EVERY POINT OF EVERY RUN — any program, any listener scripts (with re-entrant control calls: kill from a listener,
   pause inside a transition, ...), any callbacks, any schedule of environment events (control requests, cancellation of the
   future, late callbacks, completions of awaited futures) of any length, hooks that do not raise — between two environment
   events the reports of the outcome agree:
     FINISHED   : the future holds the outputs; closed; hooks released
     EXCEPTED e : the future holds e;           closed; hooks released
     KILLED m   : the future holds KilledError(text of m); closed; hooks released
     live       : the future is pending (or was cancelled by its owner, which kills the process one callback later);
                  not closed; hooks in place;
   and the trace holds exactly one terminal notification + one run of the registered cleanup in a terminal state, none before.
   The payload of the state is what result() / successful() / exception() / killed_msg() read. *)
Theorem C02_reports_agree_at_every_point :
  forall c es w, cf_fault c = None -> run c es = Some w ->
    match st w with
    | Some (SFinished _ _) =>
        pfut w = PfResult (outputs w) /\ closed w = true /\ hooks_alive w = false
        /\ marks (trace w) = [EvListener "on_process_finished"; EvCleanup 0] /\ cleanups w = []
    | Some (SExcepted e) =>
        pfut w = PfExn e /\ closed w = true /\ hooks_alive w = false
        /\ marks (trace w) = [EvListener "on_process_excepted"; EvCleanup 0] /\ cleanups w = []
    | Some (SKilled m) =>
        pfut w = PfExn (EKilled (killed_text m)) /\ closed w = true /\ hooks_alive w = false
        /\ marks (trace w) = [EvListener "on_process_killed"; EvCleanup 0] /\ cleanups w = []
    | _ => (pfut w = PfPending \/ pfut w = PfCancelled) /\ closed w = false /\ hooks_alive w = true
           /\ marks (trace w) = [] /\ cleanups w = [0]
    end.
Proof. exact reports_agree. Qed.
Print Assumptions C02_reports_agree_at_every_point.

(* listeners receive exactly one terminal notification — of the kind of the final state — and the registered cleanup runs exactly
   once, after it; neither happens while the process is live.  [is_mark] selects the three terminal notifications and the
   cleanup events of the trace (Life/LifeAgree.v) *)
Theorem C02_one_notification_one_cleanup :
  forall c es w, cf_fault c = None -> run c es = Some w ->
    filter is_mark (trace w) =
      match st w with
      | Some (SFinished _ _) => [EvListener "on_process_finished"; EvCleanup 0]
      | Some (SExcepted _) => [EvListener "on_process_excepted"; EvCleanup 0]
      | Some (SKilled _) => [EvListener "on_process_killed"; EvCleanup 0]
      | _ => []
      end.
Proof. exact one_notification_one_cleanup. Qed.
Print Assumptions C02_one_notification_one_cleanup.

(* conversely the future is never resolved while the process is live *)
Theorem C02_future_never_resolved_while_live :
  forall c es w, cf_fault c = None -> run c es = Some w -> is_terminated w = false ->
    pfut w = PfPending \/ pfut w = PfCancelled.
Proof. exact live_future_unresolved. Qed.
Print Assumptions C02_future_never_resolved_while_live.

(* terminated <-> closed <-> hooks released, at every point of every run *)
Theorem C02_terminated_iff_closed :
  forall c es w, cf_fault c = None -> run c es = Some w ->
    closed w = is_terminated w /\ hooks_alive w = negb (is_terminated w).
Proof. exact terminated_iff_closed. Qed.
Print Assumptions C02_terminated_iff_closed.

(* "step_until_terminated() returns": in every run, once the process has terminated and the loop has nothing left to run, the
   stepping task has returned — unless the task itself failed, or the step is still blocked in the program's own await of an
   environment future that nobody completed.  Consequence of the wake-up invariant W of Life/LifeWake.v (every suspended
   stepping task is going to be woken), which holds at every point of every run. *)
Theorem C02_stepping_task_returns :
  forall c es w, cf_fault c = None -> run c es = Some w -> is_terminated w = true -> ready w = [] ->
    t0 w = PcDone \/ (exists e, t0 w = PcFailed e)
    \/ (exists rest r k, t0 w = PcInStep rest r (Some k) /\ find (fun kw => Nat.eqb (fst kw) k) (exts w) = None).
Proof. exact stepping_returns. Qed.
Print Assumptions C02_stepping_task_returns.

(* ... and the task does not fail (Life/LifeEsc.v: in every run, with or without an injected fault, no exception escapes
   step_until_terminated(), provided the process future is not cancelled from outside — the recorded finding D3b of C04) *)
Theorem C02_stepping_task_never_fails :
  forall c es w e, run c es = Some w -> ~ In ECancelFuture es -> t0 w = PcFailed e -> e = EOutOfFuel.
Proof. exact LifeEsc.task_never_fails. Qed.
Print Assumptions C02_stepping_task_never_fails.

(* hence: terminated and nothing left to run => step_until_terminated() has returned (or the model's fuel ran out, or the
   step is blocked in the program's own await of a future nobody completed) *)
Theorem C02_stepping_task_returns_for_sure :
  forall c es w, cf_fault c = None -> run c es = Some w -> ~ In ECancelFuture es -> is_terminated w = true -> ready w = [] ->
    t0 w = PcDone \/ t0 w = PcFailed EOutOfFuel
    \/ (exists rest r k, t0 w = PcInStep rest r (Some k) /\ find (fun kw => Nat.eqb (fst kw) k) (exts w) = None).
Proof. exact LifeReturn.stepping_returns_for_sure. Qed.
Print Assumptions C02_stepping_task_returns_for_sure.

(* the hypotheses are met by a run that ends in each of the three terminal states and by a live one *)
Example C02_reports_agree_nonvacuous :
  let ns := PNs (mk_nattrs true None DNone None true true None) PNil in
  let c1 := mk_config [("run"%string, mk_script [AOut "x"%string (VInt 1%Z)] (RValue (VInt 5%Z)))] [] [] None ns in
  let c2 := mk_config [("run"%string, mk_script [] (RRaise (EUser "boom")))] [] [] None ns in
  let c3 := mk_config [("run"%string, mk_script [] (RWait None None VNone))] [] [mk_lscript "on_process_waiting" 0 (CKill (Some "k"%string))] None ns in
  option_map (fun w => (cur_label w, pfut w, closed w)) (run c1 [EDrain 10]) = Some (Some LFinished, PfResult [("x"%string, VInt 1%Z)], true)
  /\ option_map (fun w => (cur_label w, pfut w, closed w)) (run c2 [EDrain 10]) = Some (Some LExcepted, PfExn (EUser "boom"), true)
  /\ option_map (fun w => (cur_label w, pfut w, closed w)) (run c3 [EDrain 10]) = Some (Some LKilled, PfExn (EKilled "k"), true)
  /\ option_map (fun w => (cur_label w, pfut w, closed w)) (run c3 [ECancelFuture]) = Some (Some LCreated, PfCancelled, false).
Proof. vm_compute. repeat split; reflexivity. Qed.

Theorem C02_finished_successfully :
  forall w f a k v,
    quiet w -> st w = Some (SRunning f a k) -> lookup_script w f = Some (mk_script [] (RValue v)) ->
    outputs_valid w = true ->
    wp step_once (outcome_agrees w (SFinished v true)) w.
Proof. exact finishes_successful. Qed.
Print Assumptions C02_finished_successfully.

Theorem C02_finished_unsuccessfully :
  forall w f a k code,
    quiet w -> st w = Some (SRunning f a k) -> lookup_script w f = Some (mk_script [] (RUnsuccessful code)) ->
    wp step_once (outcome_agrees w (SFinished code false)) w.
Proof. exact finishes_unsuccessful. Qed.
Print Assumptions C02_finished_unsuccessfully.

Theorem C02_excepted :
  forall w f a k e,
    quiet w -> st w = Some (SRunning f a k) -> lookup_script w f = Some (mk_script [] (RRaise e)) ->
    wp step_once (outcome_agrees w (SExcepted e)) w.
Proof. exact ends_excepted. Qed.
Print Assumptions C02_excepted.

Theorem C02_killed_by_command :
  forall w f a k m,
    quiet w -> st w = Some (SRunning f a k) -> lookup_script w f = Some (mk_script [] (RKill m)) ->
    wp step_once (outcome_agrees w (SKilled m)) w.
Proof. exact ends_killed. Qed.
Print Assumptions C02_killed_by_command.

(* killed by a request between steps (also while paused: quiet does not constrain the program counter) *)
Theorem C02_killed_by_request :
  forall w s msg, quiet w -> stepping w = false -> st w = Some s -> live_state s ->
    wp (ctl_call (CKill msg))
       (fun r w' => r = Ok (CrBool true) /\ st w' = Some (SKilled (Some msg)) /\
                    pfut w' = PfExn (EKilled (kill_text msg)) /\ status w' = Some (kill_text msg) /\
                    closed w' = true /\ killing w' = None) w.
Proof. exact kill_now. Qed.
Print Assumptions C02_killed_by_request.

(* step_until_terminated() returns: on a terminated process the stepping loop ends with the task done *)
Theorem C02_stepping_returns :
  forall n w s (Q : result unit -> world -> Prop),
    st w = Some s -> terminal (label_of s) = true ->
    Q (Ok tt) (RecordSet.set t0 (fun _ => PcDone) w) -> wp (loop_head (S n)) Q w.
Proof. exact loop_iter_terminated. Qed.
Print Assumptions C02_stepping_returns.

(* the outcome never changes afterwards (C01), in every run *)
Theorem C02_outcome_is_final :
  forall c es1 es2 w1 w2, cf_fault c = None ->
    run c es1 = Some w1 -> is_terminated w1 = true -> run c (es1 ++ es2)%list = Some w2 ->
    cur_label w2 = cur_label w1 /\ entries (trace w2) = entries (trace w1).
Proof. exact terminal_final_entries. Qed.
Print Assumptions C02_outcome_is_final.

(* kill while paused, evaluated: the views agree and the stepping task has returned after the next loop callbacks *)
Example C02_kill_while_paused :
  let c := mk_config [("run"%string, mk_script [AYield] (RContinue "s1"%string [] [])); ("s1"%string, mk_script [] (RValue VNone))] [] [] None
                     (PNs (mk_nattrs true None DNone None true true None) PNil) in
  option_map (fun w => (cur_label w, pfut w, closed w, t0 w))
             (run c [ETick; ECtl (CPause None); EDrain 10; ECtl (CKill (Some "k"%string)); EDrain 10])
  = Some (Some LKilled, PfExn (EKilled "k"), true, PcDone).
Proof. vm_compute. reflexivity. Qed.
