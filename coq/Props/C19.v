(* Props/C19.v — property C19: any Savable round-trips its declared members through the named loader.
   Property theorems only.  Model: Persist/Savable.v (Savable.save / load, auto_persist member sets along
   the inheritance chain, LoadSaveContext, _ensure_object_loader, SavableFuture, object loaders with two
   identifier schemes); specification: `project` in Persist/SavableProofs.v (what must come back).
   "Copied at save time / later mutation does not show" is outside the functional model; it is observed on
   the implementation by the check's oracle (mutation of the original after save; identity probes). *)
From Coq Require Import List ZArith String Bool.
From Plumpy Require Import Val Savable SavableProofs.
Import ListNotations.
Local Open Scope string_scope.

(* The round trip: every declared member comes back — plain values equal, own methods rebound, nested
   Savables recursively, futures in the same state — for every class table, object, nesting depth and every
   loader configuration in which the loading side uses no context (then: the loader recorded in the saved
   state, else the global one) or the loader that saved. *)
Theorem C19_roundtrip :
  forall ct glob sctx lctx o n p fuel,
    table_ok ct = true -> classes_known ct o = true ->
    save_obj ct glob sctx o = Some n ->
    project ct o = Some p ->
    (lctx = None \/ lctx = Some (saved_with glob sctx)) ->
    depth o < fuel ->
    load_obj ct glob fuel lctx n = inr (MObj p).
Proof. exact roundtrip. Qed.
Print Assumptions C19_roundtrip.

Theorem C19_save_defined_iff_savable :
  forall ct glob sctx o,
    (exists n, save_obj ct glob sctx o = Some n) <-> (exists p, project ct o = Some p).
Proof. exact save_defined_iff. Qed.
Print Assumptions C19_save_defined_iff_savable.

(* futures: pending, resolved, failed or cancelled as they were *)
Theorem C19_future_roundtrip :
  forall ct glob sctx lctx f fuel,
    (lctx = None \/ lctx = Some (saved_with glob sctx)) -> 0 < fuel ->
    load_obj ct glob fuel lctx (save_future glob sctx f) = inr (MFut f).
Proof. exact future_roundtrip. Qed.
Print Assumptions C19_future_roundtrip.

(* loader precedence: the context's, else the one recorded in the saved state, else the global default *)
Theorem C19_loader_from_context : forall ct glob l meta, ensure_loader ct glob (Some l) meta = inr l.
Proof. exact ensure_loader_context. Qed.
Print Assumptions C19_loader_from_context.

Theorem C19_loader_recorded :
  forall ct glob l,
    ensure_loader ct glob None
      (KCons "user" (NDict (KCons "object_loader" (NVal (VStr (identify glob (loader_class_name l)))) KNil)) KNil) = inr l.
Proof. exact ensure_loader_recorded. Qed.
Print Assumptions C19_loader_recorded.

Theorem C19_loader_global :
  forall ct glob meta, nk_get "user" meta = None -> ensure_loader ct glob None meta = inr glob.
Proof. exact ensure_loader_global. Qed.
Print Assumptions C19_loader_global.

(* an unknown class — unknown to the loader's scheme, or no longer loadable — is a ValueError, never an object *)
Theorem C19_other_scheme_is_ValueError :
  forall ct glob sctx l o n fuel,
    save_obj ct glob sctx o = Some n -> l <> saved_with glob sctx -> 0 < fuel ->
    load_obj ct glob fuel (Some l) n = inl LValueError.
Proof. exact load_other_loader. Qed.
Print Assumptions C19_other_scheme_is_ValueError.

Theorem C19_unknown_class_is_ValueError :
  forall ct ct' glob sctx lctx cls attrs n fuel,
    save_obj ct glob sctx (SObj cls attrs) = Some n ->
    alist_mem cls ct' = false -> cls <> "SavableFuture" ->
    cls <> loader_class_name LDefault -> cls <> loader_class_name LCustom ->
    (lctx = None \/ lctx = Some (saved_with glob sctx)) -> 0 < fuel ->
    load_obj ct' glob fuel lctx n = inl LValueError.
Proof. exact load_unknown_class. Qed.
Print Assumptions C19_unknown_class_is_ValueError.
