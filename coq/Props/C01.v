(* Props/C01.v — property C01: state changes follow the life-cycle graph; terminal states are final.
   Property theorems only.  Model: Life/Model.v + Life/Run.v (M1: one process on one event loop; the
   program, the listeners' re-entrant control calls and the callbacks are data; the environment places
   control requests, late callbacks, cancellation of the process future and completions of awaited
   futures between any two loop callbacks).  Proofs: Life/LifePath.v.

   Quantifiers: every configuration c without an injected hook fault (cf_fault c = None: "life-cycle
   hooks that do not themselves raise"), i.e. every program, every set of listener scripts, every
   callback script; every list es of environment events (no bound on its length or on the number of
   control requests). *)
From Coq Require Import List String Bool.
From Plumpy Require Import Val Mon PortModel Model Run LifePath FactsMatch Facts.
Import ListNotations.

(* the tables of the model are the ones in /repo now (regenerated on every run) *)
Theorem C01_allowed_table_is_the_repos :
  x_allowed = map (fun l => (label_name l, map label_name (allowed l))) all_labels
  /\ x_terminal = map (fun l => (label_name l, terminal l)) all_labels.
Proof. exact (conj allowed_matches_repo terminal_matches_repo). Qed.
Print Assumptions C01_allowed_table_is_the_repos.

(* State.ALLOWED is exactly the documented graph of the property statement *)
Theorem C01_allowed_is_the_documented_graph :
  forall a b, is_allowed a b = true <-> lifecycle_edge a b.
Proof. exact allowed_is_documented. Qed.
Print Assumptions C01_allowed_is_the_documented_graph.

(* a process exists (the constructor does not fail) and starts in CREATED *)
Theorem C01_starts_created :
  forall c, cf_fault c = None -> exists w, run c [] = Some w /\ cur_label w = Some LCreated.
Proof. exact starts_created. Qed.
Print Assumptions C01_starts_created.

(* in every run the recorded state entries form a life-cycle history: the first entry is CREATED (entered
   from no state), every later entry leaves exactly the state the process was in and follows a documented
   edge, and the last entry is the current state *)
Theorem C01_graph :
  forall c es w, cf_fault c = None -> run c es = Some w ->
    history None (entries (trace w)) (cur_label w).
Proof. exact run_history. Qed.
Print Assumptions C01_graph.

(* once a terminal state has been entered, no further environment events — control calls pause / play /
   kill / resume / fail, late callbacks (also raising ones), cancellation, further stepping — change the
   state or enter any state *)
Theorem C01_terminal_final :
  forall c es1 es2 w1 w2, cf_fault c = None ->
    run c es1 = Some w1 -> is_terminated w1 = true -> run c (es1 ++ es2)%list = Some w2 ->
    cur_label w2 = cur_label w1 /\ entries (trace w2) = entries (trace w1).
Proof. exact terminal_final_entries. Qed.
Print Assumptions C01_terminal_final.

(* the same at every later sample point, stated on a single run: the trace only grows *)
Theorem C01_run_extends_prefix :
  forall c es1 es2 w1 w2, cf_fault c = None ->
    run c es1 = Some w1 -> run c (es1 ++ es2)%list = Some w2 ->
    exists tr, trace w2 = (trace w1 ++ tr)%list /\ walk (cur_label w1) tr = Some (cur_label w2).
Proof. exact run_extends. Qed.
Print Assumptions C01_run_extends_prefix.

(* the hypotheses are satisfiable on a non-trivial run: a process that waits is paused, killed while
   paused, then failed, resumed and played after termination: CREATED, RUNNING, WAITING, KILLED and
   nothing afterwards *)
Example C01_nonvacuous :
  let c := mk_config [("run"%string, mk_script [] (RWait (Some "s1"%string) None VNone))] [CbRaise (EUser "late")] [] None
                     (PNs (mk_nattrs true None DNone None true true None) PNil) in
  let es := [ETick; ECtl (CPause None); EDrain 10; ECtl (CKill (Some "k"%string)); EDrain 10; ECtl (CFail (EUser "f"));
             ECtl (CResume None); ECtl CPlay; ELate 0; EDrain 10] in
  cf_fault c = None /\
  option_map (fun w => entries (trace w)) (run c es)
  = Some [(None, LCreated); (Some LCreated, LRunning); (Some LRunning, LWaiting); (Some LWaiting, LKilled)].
Proof. vm_compute. split; reflexivity. Qed.
