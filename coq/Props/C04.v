(* Props/C04.v — property C04: a kill request is never lost and no live process is unkillable.
   Property theorems only.  Model: Life/Model.v + Life/Run.v (M1); proofs: Life/LifeBook.v (all runs),
   Life/LifeFx.v (symbolic execution on quiet worlds), Life/LifePath.v (C01).

   What is proved: kill() never raises, for every reachable world of every run (any program, listeners, schedule);
   what kill() does at once (between steps: KILLED on return, True, text recorded, future raising KilledError,
   closed) and when a step is in flight (a pending kill action is armed and returned), for every quiet world; a
   terminated process is never revived (C01).  Over all runs additionally: the bookkeeping is never stale (LifePtr), an
   armed kill survives everything but the stepping task's own callback (LifeArmed), the end of a step carries it out on
   every reachable world (LifeCarry), a kill between steps is carried out at once (LifeKill).  The open finding D3b is
   the case in which the future is cancelled from outside. *)
From Coq Require Import List String Bool ZArith.
From Plumpy Require Import Val Mon PortModel Model Run LifePath LifeBook LifeSx LifeFx LifeAgree LifePtr LifeKill LifeArmed.
From Plumpy Require LifeEsc LifeCarry LifeKillTotal.
Import ListNotations.

(* kill() requested between any two loop callbacks of any run returns a result, never an exception *)
Theorem C04_kill_never_raises :
  forall c es w msg, cf_fault c = None -> run c es = Some w ->
    exists x tr, trace (env_step w (ECtl (CKill msg))) = (tr ++ [EvCtl (CKill msg) x])%list /\ raised x = false.
Proof. intros c es w msg Hf Hr. exact (control_calls_total c es w (CKill msg) Hf Hr eq_refl). Qed.
Print Assumptions C04_kill_never_raises.

(* ... also when a life-cycle hook raises: for every run with ANY injected fault (any hook, occurrence, exception; no outside
   cancellation of the future) kill() returns a result — True, False or the pending action — never an exception: a hook that
   raises inside the transition to KILLED is absorbed by transition_to (the process then ends EXCEPTED with it, C03), it does
   not reach the caller of kill() *)
Theorem C04_kill_never_raises_even_with_a_fault :
  forall c es w msg, run c es = Some w -> ~ In ECancelFuture es ->
    exists x tr, trace (env_step w (ECtl (CKill msg))) = (tr ++ [EvCtl (CKill msg) x])%list /\ raised x = false.
Proof. exact LifeKillTotal.kill_never_raises_with_faults'. Qed.
Print Assumptions C04_kill_never_raises_even_with_a_fault.

(* between steps: the process is KILLED when kill() returns True; the text is recorded as status and in the
   KilledError the future raises; the process is closed *)
Theorem C04_kill_between_steps :
  forall w s msg, quiet w -> stepping w = false -> st w = Some s -> live_state s ->
    wp (ctl_call (CKill msg))
       (fun r w' => r = Ok (CrBool true) /\ st w' = Some (SKilled (Some msg)) /\
                    pfut w' = PfExn (EKilled (kill_text msg)) /\ status w' = Some (kill_text msg) /\
                    closed w' = true /\ killing w' = None) w.
Proof. exact kill_now. Qed.
Print Assumptions C04_kill_between_steps.

(* while a step is in flight: a pending kill action is armed as THE interrupt action and handed back; the state does
   not change yet *)
Theorem C04_kill_during_step :
  forall w s msg, quiet w -> stepping w = true -> st w = Some s -> live_state s ->
    wp (ctl_call (CKill msg))
       (fun r w' => r = Ok (CrAction (List.length (acts w))) /\
                    killing w' = Some (List.length (acts w)) /\ intr w' = Some (List.length (acts w)) /\
                    acts w' = (acts w ++ [mk_act (KKill msg) (next_id w) AfPending])%list /\
                    option_map label_of (st w') = option_map label_of (st w) /\ stepping w' = true /\ paused w' = None) w.
Proof. exact kill_deferred. Qed.
Print Assumptions C04_kill_during_step.

(* IN EVERY RUN — any program, listener scripts (re-entrant control calls), callbacks, any schedule of any length; hooks may
   even raise — the bookkeeping of pending requests is never stale: `_killing` (resp. `_pausing`), when set, is THE armed
   interrupt action, that action exists, is still pending (neither cancelled nor already run) and is a kill (resp. pause)
   action; and an interrupt action is armed only while a step is in flight.  The configuration in which kill() keeps
   answering with a dead future and the process can no longer be killed (defects D9, D16, D17 before their repair)
   is therefore unreachable.  Proof: Life/LifePtr.v (invariant P, compositional Hoare triples). *)
Theorem C04_requests_never_stale :
  forall c es w, run c es = Some w ->
    (stepping w = false -> intr w = None)
    /\ (forall a, pausing w = Some a -> intr w = Some a /\
                   exists ac, get_act w a = Some ac /\ a_fut ac = AfPending /\ is_pause (a_kind ac) = true)
    /\ (forall a, killing w = Some a -> intr w = Some a /\
                   exists ac, get_act w a = Some ac /\ a_fut ac = AfPending /\ is_kill (a_kind ac) = true)
    /\ (forall a, intr w = Some a -> a < List.length (acts w)).
Proof. exact run_pointers. Qed.
Print Assumptions C04_requests_never_stale.

(* between steps nothing is pending: a kill() or pause() made then is carried out at once *)
Theorem C04_nothing_pending_between_steps :
  forall c es w, run c es = Some w -> stepping w = false ->
    intr w = None /\ pausing w = None /\ killing w = None.
Proof. exact nothing_pending_between_steps. Qed.
Print Assumptions C04_nothing_pending_between_steps.

(* "whatever other control requests arrive after it": in every reachable world in which a kill is pending (`_killing` = action a),
   every event other than the stepping task's own callback — pause, play, resume, a further kill, fail (from outside, and whatever
   listeners do in reaction), cancellation of the future, late callbacks (also failing ones), the completion of awaited futures —
   leaves `_killing` at a, and a is still THE armed, pending kill action of a step in flight.  finish_step then runs it when the
   step yields (C04_kill_during_step), unless the step failed.  Proof: Life/LifeArmed.v. *)
Theorem C04_armed_kill_survives :
  forall c es w a e,
    run c es = Some w -> killing w = Some a -> not_the_stepping_task w e = true ->
    let w' := env_step w e in
    killing w' = Some a /\ intr w' = Some a /\ stepping w' = true /\
    exists ac, get_act w' a = Some ac /\ a_fut ac = AfPending /\ is_kill (a_kind ac) = true.
Proof. exact armed_kill_survives. Qed.
Print Assumptions C04_armed_kill_survives.

(* ... and the end of the step carries it out.  On EVERY reachable world of every run (any program, listeners, callbacks, any
   injected fault, any schedule that does not cancel the future from outside) on which a kill is pending, and however the
   state's execute() comes back — with a next state that is a legal successor (LifeEsc shows that the targets computed by steps
   are), with an interruption, or with an exception — the tail of step() returns normally (up to the fuel of the model) and
   leaves the process TERMINATED: KILLED by the action, or EXCEPTED when the step or the transition failed.
   With C04_armed_kill_survives and C06_suspended_task_is_woken: a kill requested during a step is not lost. *)
Theorem C04_armed_kill_is_carried_out :
  forall c es w a x,
    run c es = Some w -> ~ In ECancelFuture es -> killing w = Some a ->
    (forall next, x = XoNext next -> LifeEsc.legal w next) ->
    wp (finish_step x) (fun r w' => LifeEsc.okf r /\ is_terminated w' = true) w.
Proof. exact LifeCarry.armed_kill_carried_out_run. Qed.
Print Assumptions C04_armed_kill_is_carried_out.

(* the hypotheses are met: a step that calls kill() on itself and then yields leaves a reachable world with the kill armed; when
   the step ends the process is KILLED with the text *)
Example C04_armed_kill_nonvacuous :
  let ns := PNs (mk_nattrs true None DNone None true true None) PNil in
  let c := mk_config [("run"%string, mk_script [ACtl (CKill (Some "k"%string)); AYield] (RValue (VInt 5%Z)))] [] [] None ns in
  option_map (fun w => (killing w, cur_label w, stepping w)) (run c [ETick]) = Some (Some 0, Some LRunning, true)
  /\ option_map (fun w => (st w, pfut w)) (run c [ETick; EDrain 10]) = Some (Some (SKilled (Some (Some "k"%string))), PfExn (EKilled "k")).
Proof. vm_compute. split; reflexivity. Qed.

(* a kill() made between two steps of ANY reachable live process (any program, listener scripts, callbacks, any schedule
   before it; hooks that do not raise) is carried out at once: it answers True, the process is KILLED with the kill text, its
   future raises KilledError with that text, it is closed, its listeners were told exactly once and the cleanup ran.
   [wp m Q w] = the outcome and final world of running m from w satisfy Q (Base/Mon.v). *)
Theorem C04_kill_between_steps_every_run :
  forall c es w msg,
    cf_fault c = None -> run c es = Some w -> is_terminated w = false -> stepping w = false ->
    wp (ctl_call (CKill msg))
       (fun r w' => r = Ok (CrBool true) /\ st w' = Some (SKilled (Some msg))
                    /\ pfut w' = PfExn (EKilled (match msg with Some t => t | None => ""%string end))
                    /\ closed w' = true /\ hooks_alive w' = false
                    /\ marks (trace w') = [EvListener "on_process_killed"; EvCleanup 0] /\ transitioning w' = false) w.
Proof. exact kill_between_steps_every_run. Qed.
Print Assumptions C04_kill_between_steps_every_run.

(* a kill, like every other event, never moves a terminated process: the outcome of a killed process stays KILLED *)
Theorem C04_killed_is_final :
  forall c es1 es2 w1 w2, cf_fault c = None ->
    run c es1 = Some w1 -> is_terminated w1 = true -> run c (es1 ++ es2)%list = Some w2 ->
    cur_label w2 = cur_label w1 /\ entries (trace w2) = entries (trace w1).
Proof. exact terminal_final_entries. Qed.
Print Assumptions C04_killed_is_final.

(* non-vacuity and the races named in the property, evaluated on the model: kill then pause then play inside one
   step; pause then kill while a wait is in flight; cancellation of the future while waiting *)
Example C04_nonvacuous :
  let ospec := PNs (mk_nattrs true None DNone None true true None) PNil in
  let c1 := mk_config [("run"%string, mk_script [AYield; ACtl (CKill (Some "in"%string)); ACtl (CPause None); ACtl CPlay; AYield] (RValue VNone))]
                      [] [] None ospec in
  let c2 := mk_config [("run"%string, mk_script [] (RWait (Some "s1"%string) None VNone)); ("s1"%string, mk_script [] (RValue VNone))]
                      [] [] None ospec in
  option_map cur_label (run c1 [EDrain 10]) = Some (Some LKilled) /\
  option_map cur_label (run c2 [ETick; ECtl (CPause None); ECtl (CKill (Some "k"%string)); EDrain 10]) = Some (Some LKilled) /\
  option_map cur_label (run c2 [ETick; ECancelFuture; EDrain 10]) = Some (Some LKilled).
Proof. vm_compute. repeat split. Qed.
