(* Props/C08.v — property C08: resuming from any checkpoint reproduces the uninterrupted execution.
   Property theorems only; every proof is `exact <lemma>`.

   Model: Outline/StepperPersist.v on top of M2 (Outline/OutlineModel.v).  A live process at a step
   boundary is a configuration (pending continuation, stepper position, persisted user state); a
   restore is Bundle -> medium -> unbundle on a new instance: [wc_restore] / [proc_restore] save the
   configuration key by key as the code does and load it back with the code's rebinding-by-name and
   recreate_stepper.  [wc_run_r rs n 0 x] / [proc_run_r rs n 0 x] run the process step by step and
   perform [rs k] consecutive restores at boundary k: every subset of boundaries and every number of
   consecutive restores is some function [rs], on which the theorems are universally quantified.
   User step / predicate functions, the user state and the ToContext barrier are arbitrary Section
   variables of M2 whose only argument is the persisted state: "steps depend only on persisted
   state" is structural.  Hypotheses that remain, all explicit: the outline is well formed
   (non-empty bodies), every step function / continuation is the attribute of the class / instance
   that carries its __name__ ([methods_ok], [bound], [closed_program]; [nm] = (__name__ of a function
   object, getattr by name)), and writing the user state into the bundle and reading
   it back is the identity (the medium hypothesis, tested with deepcopy and pickle).
   [by_name] selects how a function stepper gets its function back: true = the code as it is (looked
   up on the class by the saved __name__), false = the proposed repair (the function of the
   instruction); the harness measures which one the implementation does. *)
From Coq Require Import List ZArith String Bool.
From Plumpy Require Import Val OutlineModel OutlineSem StepperPersist StepperPersistProofs.
Import ListNotations.

(* Every stepper a live workchain can be checkpointed with — reachable from the initial stepper of
   outline o through _do_step calls after which the chain goes on — is consistent with o: positions
   in range, every child of the shape of the instruction at the position. *)
Theorem C08_consistent :
  forall W A stepf predf o, wf_instr o = true -> forall sp,
    reach W A stepf predf o sp -> consistent o sp = true.
Proof. exact reach_consistent. Qed.
Print Assumptions C08_consistent.

(* Stepper position round trip, on the Python object tree: a consistent (outline, position) pair
   denotes an object tree s, and recreate_stepper applied to s.save() builds s again — same
   instruction pointers, positions and children at every depth. *)
Theorem C08_stepper_roundtrip :
  forall nm by_name o sp, (by_name = true -> methods_ok nm o = true) ->
    consistent o sp = true ->
    exists s, obj o sp = Some s /\ recreate nm by_name o (save_stepper nm s) = inr s.
Proof. exact stepper_roundtrip. Qed.
Print Assumptions C08_stepper_roundtrip.

(* The same on M2's representation of a stepper. *)
Theorem C08_position_roundtrip :
  forall nm by_name o sp, (by_name = true -> methods_ok nm o = true) ->
    consistent o sp = true ->
    exists n, save_pos nm o sp = inr n /\ recreate_pos nm by_name o n = inr sp.
Proof. exact pos_roundtrip. Qed.
Print Assumptions C08_position_roundtrip.

(* Pending continuation round trip: the CREATED / RUNNING / WAITING payload (function saved by
   name and rebound on the new instance, args, kwargs, msg, data) comes back as it was. *)
Theorem C08_payload_roundtrip :
  forall nm p, payload_ok nm p = true ->
    load_payload nm (save_payload nm p) = inr p.
Proof. exact payload_roundtrip. Qed.
Print Assumptions C08_payload_roundtrip.

(* A continuation whose __name__ is not an attribute of the new instance is an error at load time,
   never a wrong continuation. *)
Theorem C08_foreign_continuation_rejected :
  forall nm f a kw, attr_of nm (fname nm f) = None ->
    load_payload nm (save_payload nm (PRunning f a kw None)) = inl EAttribute.
Proof. exact foreign_function_rejected. Qed.
Print Assumptions C08_foreign_continuation_rejected.

(* Step functions, the code as it is (by_name = true).  A step function whose __name__ is not an
   attribute of the class (module-level function, lambda, wrapper) makes the restore fail ... *)
Theorem C08_foreign_step_rejected :
  forall nm f, attr_of nm (fname nm f) = None ->
    recreate nm true (IStep f) (save_stepper nm (SFun f)) = inl EAttribute.
Proof. exact foreign_step_rejected. Qed.
Print Assumptions C08_foreign_step_rejected.

(* ... and when that name denotes ANOTHER function of the class (a subclass overriding a step that
   the outline refers to through the parent class) nothing is rejected: the recreated stepper runs
   the other function.  This is finding C08-fnrebind: C08_stepper_roundtrip does not hold without
   [methods_ok] ("every step function of the outline is the attribute of the class that carries its
   __name__"), which is exactly what excludes it. *)
Theorem C08_stepper_roundtrip_refuted :
  forall nm f g, attr_of nm (fname nm f) = Some g -> g <> f ->
    recreate nm true (IStep f) (save_stepper nm (SFun f)) = inr (SFun g) /\ SFun g <> SFun f.
Proof. exact by_name_wrong_function. Qed.
Print Assumptions C08_stepper_roundtrip_refuted.

(* With the proposed repair (by_name = false) the function is the instruction's, whatever was
   saved, and no hypothesis on the step functions is left in any theorem of this file. *)
Theorem C08_by_instruction_total :
  forall nm f n, recreate nm false (IStep f) n = inr (SFun f).
Proof. exact by_instruction_total. Qed.
Print Assumptions C08_by_instruction_total.

(* Totality side: whatever recreate_stepper builds from ANY saved tree is a stepper of this outline
   (every stepper points to the instruction at the position its parent says, every function stepper
   holds its instruction's function).  It does not validate positions: a tree that save did not
   produce can yield an out-of-range position, which the next step() turns into an assertion /
   IndexError (EXCEPTED), not into the execution of foreign code. *)
Theorem C08_recreate_sound :
  forall nm o n s, recreate nm false o n = inr s -> obj o (pos_of s) = Some s.
Proof. exact recreate_sound. Qed.
Print Assumptions C08_recreate_sound.

(* C08 for workchains, exact form: with ANY placement and number of restores the run is, fuel for
   fuel, the run without restores (same final user state, trace of step and predicate calls, stepper,
   result; in particular no restore ever fails). *)
Theorem C08_resume_exact :
  forall W A stepf predf assign nm by_name WB wsave wload o,
    wf_instr o = true -> (by_name = true -> methods_ok nm o = true) ->
    bound nm run_name = true -> bound nm do_step_name = true ->
    (forall w, wload (wsave w) = inr w) ->
    forall sp, create o = inr sp -> forall rs n w,
      wc_run_r W A stepf predf assign nm by_name WB wsave wload o rs n 0 (wc_init W A sp w) =
      wc_run_r W A stepf predf assign nm by_name WB wsave wload o no_restores n 0 (wc_init W A sp w).
Proof. exact wc_resume. Qed.
Print Assumptions C08_resume_exact.

(* C08 for workchains against M2's run_chain (the chain of _do_step calls of property C09): what
   the uninterrupted chain does — trace, final user state, final stepper, result — is what every
   run with restores does, for every subset of boundaries and every number of consecutive
   restores. *)
Theorem C08_resume :
  forall W A stepf predf assign nm by_name WB wsave wload o,
    wf_instr o = true -> (by_name = true -> methods_ok nm o = true) ->
    bound nm run_name = true -> bound nm do_step_name = true ->
    (forall w, wload (wsave w) = inr w) ->
    forall sp, create o = inr sp -> forall n w s1 sp1 r,
      run_chain W A stepf predf assign n o sp (mk_ist W A w [] []) = Some (s1, sp1, r) ->
      exists m, forall rs,
        wc_run_r W A stepf predf assign nm by_name WB wsave wload o rs m 0 (wc_init W A sp w) =
        Some (RDone (s1, Some sp1, r)).
Proof. exact wc_resume_chain. Qed.
Print Assumptions C08_resume.

(* ... and conversely: a run with restores that ends, ends as the uninterrupted chain does. *)
Theorem C08_resume_conv :
  forall W A stepf predf assign nm by_name WB wsave wload o,
    wf_instr o = true -> (by_name = true -> methods_ok nm o = true) ->
    bound nm run_name = true -> bound nm do_step_name = true ->
    (forall w, wload (wsave w) = inr w) ->
    forall sp, create o = inr sp -> forall rs m w res,
      wc_run_r W A stepf predf assign nm by_name WB wsave wload o rs m 0 (wc_init W A sp w) = Some res ->
      exists n s1 sp1 r, res = RDone (s1, Some sp1, r) /\
        run_chain W A stepf predf assign n o sp (mk_ist W A w [] []) = Some (s1, sp1, r).
Proof. exact wc_resume_chain_conv. Qed.
Print Assumptions C08_resume_conv.

(* C08 for plain Process programs (chains of Continue(f, *args, **kwargs) / Wait(f, msg, data)),
   whether or not _action_command forwards the keyword arguments (finding D1), the same resume
   values being replayed after a restore. *)
Theorem C08_resume_process :
  forall U ufn nm keep_kwargs resume UB usave uload,
    closed_program U ufn nm -> (forall u, uload (usave u) = inr u) ->
    bound nm "run"%string = true -> forall rs n u,
      proc_run_r U ufn nm keep_kwargs resume UB usave uload rs n 0 (proc_init U u) =
      proc_run_r U ufn nm keep_kwargs resume UB usave uload no_restores n 0 (proc_init U u).
Proof. exact proc_resume. Qed.
Print Assumptions C08_resume_process.

(* Not restored, but unreachable: nothing in plumpy stores a command in Running._command; if one
   were stored, a Wait would come back without its continuation. *)
Theorem C08_wait_command_not_restored :
  forall nm f msg data,
    load_command nm (save_command nm (CmdWait (Present f) msg data)) = inr (CmdWait Absent msg data).
Proof. exact wait_command_loses_continuation. Qed.
Print Assumptions C08_wait_command_not_restored.
