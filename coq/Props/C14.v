(* Props/C14.v — property C14: persisters are a snapshot store keyed by (pid, tag), equivalent to each
   other.  Property theorems only.  Model: Persist/Persister.v (InMemoryPersister as nested dicts,
   PicklePersister as a directory of files named pickle_filename(pid, tag), and the abstract map). *)
From Coq Require Import List ZArith String Bool Permutation.
From Plumpy Require Import Val Persister PersisterProofs.
Import ListNotations.

(* refinement: over ANY history each persister answers, operation by operation, as the abstract map *)
Theorem C14_memory_refines_map :
  forall h, Forall2 out_equiv (run_hist mem_step [] h) (run_hist spec_step [] h).
Proof. exact mem_refines_spec. Qed.
Print Assumptions C14_memory_refines_map.

Theorem C14_pickle_refines_map :
  forall h, forallb op_ok h = true ->
    Forall2 out_equiv (run_hist pickle_step [] h) (run_hist spec_step [] h).
Proof. exact pickle_refines_spec. Qed.
Print Assumptions C14_pickle_refines_map.

(* hence: observational equivalence of the two persisters over any history of well-keyed operations *)
Theorem C14_equivalent :
  forall h, forallb op_ok h = true ->
    Forall2 out_equiv (run_hist mem_step [] h) (run_hist pickle_step [] h).
Proof. exact persisters_equivalent. Qed.
Print Assumptions C14_equivalent.

(* the file name is injective on separator-free ids and tags — the reason the pickle persister is a map *)
Theorem C14_filename_injective :
  forall p1 t1 p2 t2, key_ok p1 t1 = true -> key_ok p2 t2 = true ->
    pickle_filename p1 t1 = pickle_filename p2 t2 -> p1 = p2 /\ t1 = t2.
Proof. exact pickle_filename_injective. Qed.
Print Assumptions C14_filename_injective.

(* the abstract map is the snapshot store the property describes *)
Theorem C14_load_returns_latest_save :
  forall m p t s, snd (spec_step (fst (spec_step m (Save p t s))) (Load p t)) = OSnap s.
Proof. exact spec_load_latest. Qed.
Print Assumptions C14_load_returns_latest_save.

Theorem C14_save_touches_only_its_key :
  forall m p t s p' t', (p', t') <> (p, t) ->
    am_get (p', t') (fst (spec_step m (Save p t s))) = am_get (p', t') m.
Proof. exact spec_save_other. Qed.
Print Assumptions C14_save_touches_only_its_key.

Theorem C14_list_exact :
  forall m k, NoDup (map fst m) -> (In k (map fst m) <-> am_get k m <> None).
Proof. exact spec_list_exact. Qed.
Print Assumptions C14_list_exact.

Theorem C14_keys_unique : forall h, NoDup (map fst (final_state spec_step [] h)).
Proof. exact spec_keys_unique. Qed.
Print Assumptions C14_keys_unique.

Theorem C14_delete_idempotent :
  forall m p t, fst (spec_step (fst (spec_step m (Delete p t))) (Delete p t)) = fst (spec_step m (Delete p t)).
Proof. exact spec_delete_idempotent. Qed.
Print Assumptions C14_delete_idempotent.

Theorem C14_delete_local :
  forall m p t k, k <> (p, t) -> am_get k (fst (spec_step m (Delete p t))) = am_get k m.
Proof. exact spec_delete_local. Qed.
Print Assumptions C14_delete_local.

Theorem C14_delete_removes :
  forall m p t, am_get (p, t) (fst (spec_step m (Delete p t))) = None.
Proof. exact spec_delete_removes. Qed.
Print Assumptions C14_delete_removes.

Theorem C14_delete_pid_exact :
  forall m p k, am_get k (fst (spec_step m (DeletePid p))) = if String.eqb p (fst k) then None else am_get k m.
Proof. exact spec_delete_pid_exact. Qed.
Print Assumptions C14_delete_pid_exact.
