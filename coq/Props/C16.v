(* Props/C16.v — property C16: remote control equals direct control; each transition announced once, in order.
   Property theorems only.  Model: Comms/Rpc.v, a layer around M1 (Life/Model.v, Life/Run.v). *)
From Coq Require Import List ZArith String Bool Arith.
From RecordUpdate Require Import RecordUpdate.
From Plumpy Require Import Val Mon PortModel Adapters Model Run Rpc RpcProofs RpcInv Facts.
Import ListNotations.
Local Open Scope string_scope.
Local Open Scope list_scope.

(* the intent constants of the model are the ones extracted from /repo on this run *)
Theorem C16_facts_intents : x_intents = intent_table.
Proof. exact intents_match_repo. Qed.
Print Assumptions C16_facts_intents.

(* ---- dispatch (pure).  A message stands for a control call iff its intent is play / pause / kill, and then for
   exactly the documented call with exactly the text of the message. *)
Theorem C16_dispatch :
  forall m c,
    dispatch m = Some c <->
    (m_intent m = intent_play /\ c = CPlay) \/
    (m_intent m = intent_pause /\ c = CPause (m_text m)) \/
    (m_intent m = intent_kill /\ c = CKill (m_text m)).
Proof. exact dispatch_spec. Qed.
Print Assumptions C16_dispatch.

(* message_receive never touches the process: whatever the message, only the queues / replies change *)
Theorem C16_receive_pure : forall xw, base (x_step xw XRecv) = base xw.
Proof. exact recv_base. Qed.
Print Assumptions C16_receive_pure.

(* a play / pause / kill message schedules exactly its call, bound to the reply of that RPC *)
Theorem C16_dispatch_schedules :
  forall xw id m rest c,
    inflight xw = XmRpc id m :: rest -> dispatch m = Some c ->
    x_step xw XRecv = xw <| inflight := rest |> <| pending := pending xw ++ [(Some id, c)] |>.
Proof. exact recv_rpc_call. Qed.
Print Assumptions C16_dispatch_schedules.

(* status is answered on the spot with the current state and schedules nothing *)
Theorem C16_dispatch_status :
  forall xw id m rest,
    inflight xw = XmRpc id m :: rest -> m_intent m = intent_status ->
    x_step xw XRecv = xw <| inflight := rest |> <| replies := set_reply id (status_of (base xw)) (replies xw) |>.
Proof. exact recv_rpc_status. Qed.
Print Assumptions C16_dispatch_status.

(* an unknown intent is an error reply and schedules nothing *)
Theorem C16_dispatch_unknown :
  forall xw id m rest,
    inflight xw = XmRpc id m :: rest ->
    m_intent m <> intent_play -> m_intent m <> intent_pause -> m_intent m <> intent_kill -> m_intent m <> intent_status ->
    x_step xw XRecv = xw <| inflight := rest |> <| replies := set_reply id RpErr (replies xw) |>.
Proof. exact recv_rpc_unknown_intent. Qed.
Print Assumptions C16_dispatch_unknown.

(* broadcasts: the subject selects the call and the body gives the text; every other subject is ignored;
   the process's own announcements never come back to it *)
Theorem C16_dispatch_broadcast :
  forall b c,
    handle_bc b = BCall c <->
    (b_subject b = Some intent_play /\ c = CPlay) \/
    (exists t, b_subject b = Some intent_pause /\ b_body b = BDict t /\ c = CPause t) \/
    (exists t, b_subject b = Some intent_kill /\ b_body b = BDict t /\ c = CKill t).
Proof. exact handle_bc_spec. Qed.
Print Assumptions C16_dispatch_broadcast.

Theorem C16_broadcast_ignored :
  forall b, b_subject b <> Some intent_play -> b_subject b <> Some intent_pause -> b_subject b <> Some intent_kill ->
    handle_bc b = BIgnore.
Proof. exact handle_bc_unknown_subject. Qed.
Print Assumptions C16_broadcast_ignored.

Theorem C16_own_announcements_filtered : forall b, bc_filtered (Some (subject_of b)) = true.
Proof. exact announcements_filtered. Qed.
Print Assumptions C16_own_announcements_filtered.

(* ---- equivalence.  In every extended world, running the scheduled rpc callback leaves the process exactly as the
   direct call made at that point does ... *)
Theorem C16_equiv :
  forall xw oid c rest,
    pending xw = (oid, c) :: rest -> base (x_step xw XRunRpc) = env_step (base xw) (ECtl c).
Proof. exact run_rpc_base. Qed.
Print Assumptions C16_equiv.

(* ... and the reply of that RPC is the result of the direct call (no other reply is touched) ... *)
Theorem C16_equiv_reply :
  forall xw id c rest,
    pending xw = (Some id, c) :: rest -> id < List.length (replies xw) ->
    nth id (replies (x_step xw XRunRpc)) RpPending = reply_of_cret (direct_result c (base xw)) /\
    forall j, j <> id -> nth j (replies (x_step xw XRunRpc)) RpPending = nth j (replies xw) RpPending.
Proof. exact run_rpc_reply. Qed.
Print Assumptions C16_equiv_reply.

(* ... where a call that handed back an action future is answered with the final outcome of that action *)
Theorem C16_equiv_reply_unwrapped :
  forall w a ac,
    get_act w a = Some ac ->
    resolve w (RpAwait a) =
      match Model.a_fut ac with
      | AfPending => RpPending | AfVal b => RpVal b | AfExn _ => RpErr | AfCancelled => RpCancelled
      end.
Proof. exact resolve_await. Qed.
Print Assumptions C16_equiv_reply_unwrapped.

(* for every schedule of remote events, from every extended world: the process ends exactly as under the direct
   schedule, in which every run of a scheduled rpc callback is replaced by the direct call and sending / receiving
   are dropped *)
Theorem C16_equiv_run :
  forall es xw, base (x_run_from xw es) = run_from (base xw) (direct_schedule xw es).
Proof. exact remote_run_is_direct_run. Qed.
Print Assumptions C16_equiv_run.

(* ---- announcements.  For ANY trace: no announcement without its entry, none twice, none out of order ... *)
Theorem C16_announce_sound : forall tr, sublist (announce tr) (entered tr).
Proof. exact announce_sublist_entered. Qed.
Print Assumptions C16_announce_sound.

(* ... and when every entry got past its state hook, exactly the entries, once each, in order *)
Theorem C16_announce : forall tr, entries_complete tr = true -> announce tr = entered tr.
Proof. exact announce_complete. Qed.
Print Assumptions C16_announce.

(* the subject identifies the transition *)
Theorem C16_subject_injective : forall a b, subject_of a = subject_of b -> a = b.
Proof. exact subject_of_injective. Qed.
Print Assumptions C16_subject_injective.

Theorem C16_subject_example :
  subject_of (mk_bc None LCreated) = "state_changed.None.created" /\
  subject_of (mk_bc (Some LRunning) LKilled) = "state_changed.running.killed".
Proof. exact subject_examples. Qed.
Print Assumptions C16_subject_example.

(* ---- tolerated failures: on_entered goes on normally, nothing was sent, nothing else changed; any other
   exception escapes *)
Theorem C16_tolerated :
  forall b f sent, tolerated f = true -> send_announcement b (Some f) sent = (Ok tt, sent).
Proof. exact send_tolerated. Qed.
Print Assumptions C16_tolerated.

Theorem C16_not_tolerated : forall b e sent, send_announcement b (Some (BfOther e)) sent = (Err e, sent).
Proof. exact send_other. Qed.
Print Assumptions C16_not_tolerated.

Theorem C16_tolerated_delivered :
  forall fails tr, sublist (delivered fails tr) (announce tr) /\ delivered [] tr = announce tr.
Proof. exact delivered_spec. Qed.
Print Assumptions C16_tolerated_delivered.

(* an announcement arrives, at its place, when neither it nor an earlier one failed *)
Theorem C16_tolerated_others_arrive :
  forall fails tr k d,
    (forall j, j <= k -> existsb (Nat.eqb j) fails = false) -> nth k (delivered fails tr) d = nth k (announce tr) d.
Proof. exact delivered_nth. Qed.
Print Assumptions C16_tolerated_others_arrive.

(* ---- every run (all configurations incl. listener scripts and hook faults, all schedules of ticks, direct calls,
   messages sent / received / executed): the entries in the trace are consecutive and end in the current state, the
   announcements are a subsequence of them, and equal to them when every entry got past its state hook *)
Theorem C16_announce_run :
  forall c es xw, x_run c es = Some xw ->
    let tr := trace (base xw) in
    sublist (announce tr) (entered tr) /\ chained None (entered tr) = true /\
    (entries_complete tr = true -> announce tr = entered tr /\ chained None (announce tr) = true).
Proof. exact reachable_announcements. Qed.
Print Assumptions C16_announce_run.

Theorem C16_entries_end_in_current_state :
  forall c es xw, x_run c es = Some xw ->
    let w := base xw in
    chained None (entered (trace w)) = true /\
    cur_label w = match rev (entered (trace w)) with b :: _ => Some (bc_to b) | [] => None end.
Proof. exact reachable_entries. Qed.
Print Assumptions C16_entries_end_in_current_state.

(* ---- subscriptions, every run: both subscriptions are in place as long as the process is open, and both have been
   removed exactly once as soon as it is closed *)
Theorem C16_closed :
  forall c es xw, x_run c es = Some xw ->
    let w := base xw in
    (closed w = false /\ removals cleanup_rpc w = 0 /\ removals cleanup_broadcast w = 0 /\
     subscribed_rpc w = true /\ subscribed_broadcast w = true) \/
    (closed w = true /\ removals cleanup_rpc w = 1 /\ removals cleanup_broadcast w = 1 /\
     subscribed_rpc w = false /\ subscribed_broadcast w = false).
Proof. exact reachable_subscriptions. Qed.
Print Assumptions C16_closed.

(* a closed process is unroutable: the RPC is answered at once and nothing reaches the process or its queues *)
Theorem C16_closed_unroutable :
  forall xw m, subscribed_rpc (base xw) = false ->
    x_step xw (XSendRpc m) = xw <| replies := replies xw ++ [RpUnroutable] |>.
Proof. exact send_rpc_unsubscribed. Qed.
Print Assumptions C16_closed_unroutable.

Theorem C16_closed_no_broadcast :
  forall xw b, subscribed_broadcast (base xw) = false -> x_step xw (XSendBc b) = xw.
Proof. exact send_bc_unsubscribed. Qed.
Print Assumptions C16_closed_no_broadcast.

(* every run: a closed process receives nothing any more, an open one everything but the state-change announcements *)
Theorem C16_closed_receives_nothing :
  forall c es xw, x_run c es = Some xw -> closed (base xw) = true ->
    (forall m, x_step xw (XSendRpc m) = xw <| replies := replies xw ++ [RpUnroutable] |>) /\
    (forall b, x_step xw (XSendBc b) = xw).
Proof. exact closed_receives_nothing. Qed.
Print Assumptions C16_closed_receives_nothing.

Theorem C16_open_receives :
  forall c es xw, x_run c es = Some xw -> closed (base xw) = false ->
    (forall m, x_step xw (XSendRpc m) =
               xw <| inflight := inflight xw ++ [XmRpc (List.length (replies xw)) m] |> <| replies := replies xw ++ [RpPending] |>) /\
    (forall b, bc_filtered (b_subject b) = false -> x_step xw (XSendBc b) = xw <| inflight := inflight xw ++ [XmBc b] |>).
Proof. exact open_receives. Qed.
Print Assumptions C16_open_receives.

(* the hypotheses are satisfiable: a run with an in-step pause cancelled by play, status, pause_all / play_all,
   termination and an unroutable kill (evaluated) *)
Theorem C16_example :
  match x_run ex_cfg ex_events, x_start ex_cfg with
  | Some xw, Some xw0 =>
      final_replies xw = [RpCancelled; RpStatus false (Some LRunning); RpStatus false (Some LRunning); RpVal true; RpUnroutable]
      /\ map subject_of (announce (trace (base xw))) =
           ["state_changed.None.created"; "state_changed.created.running"; "state_changed.running.finished"]
      /\ entries_complete (trace (base xw)) = true
      /\ closed (base xw) = true
      /\ direct_schedule xw0 ex_events = [ETick; ECtl (CPause (Some "p")); ETick; ECtl CPlay; ECtl (CPause None); ECtl CPlay; EDrain 20]
  | _, _ => False
  end.
Proof. exact example_run. Qed.
Print Assumptions C16_example.
