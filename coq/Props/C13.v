(* Props/C13.v — property C13: a step's return value alone decides what happens next, with exact arguments.
   Property theorems only.  Model: Life/Model.v + Life/Run.v (M1); proofs: Life/LifeSx.v, Life/LifeSteps.v
   (symbolic execution of the model with the wp calculus on a world given by its fields), restore half:
   Outline/StepperPersist.v (payload of the CREATED / RUNNING / WAITING states, proved for property C08).

   Quantifiers: every program (map from step names to returned commands), every argument list, keyword
   arguments, message, data, result, resume value; every quiet world (no request pending, no listener scripts,
   no injected fault: what the property's schedules consist of — the only requests are the resumes). *)
From Coq Require Import List ZArith String Bool.
From Plumpy Require Import Val Mon PortModel Model Run LifeSx LifeSteps StepperPersist StepperPersistProofs.
Import ListNotations.
Local Open Scope string_scope.

(* the command mapping of Running._action_command, constructor by constructor *)
Theorem C13_command :
  (forall f a k wid, command_state (RContinue f a k) wid = inr (SRunning f a k)) /\
  (forall f m d wid, command_state (RWait f m d) wid = inr (SWaiting f m d wid WfPending)) /\
  (forall v wid, command_state (RValue v) wid = inr (SFinished v true)) /\
  (forall c wid, command_state (RUnsuccessful c) wid = inr (SFinished c false)) /\
  (forall v ok wid, command_state (RStop v ok) wid = inr (SFinished v ok)) /\
  (forall m wid, command_state (RKill m) wid = inr (SKilled m)).
Proof. repeat split. Qed.
Print Assumptions C13_command.

(* resume(v) stores exactly v in the waiting future (lang.NULL when called without a value) ... *)
Theorem C13_resume_stores :
  forall fn m d wid v w,
    st w = Some (SWaiting (Some fn) m d wid WfPending) ->
    fst (resume v w) = Ok CrNone /\
    st (snd (resume v w)) = Some (SWaiting (Some fn) m d wid (WfDone (wake_of v))).
Proof. exact resume_stores. Qed.
Print Assumptions C13_resume_stores.

(* ... a second resume does not replace it ... *)
Theorem C13_first_resume_wins :
  forall fn m d wid v v' w,
    st w = Some (SWaiting fn m d wid (WfDone (wake_of v))) -> resume v' w = (Ok CrNone, w).
Proof. exact resume_first_wins. Qed.
Print Assumptions C13_first_resume_wins.

(* ... and Waiting.execute turns it into the call f(v), or f() when there was no value *)
Theorem C13_resume_forwarded :
  forall fn aw v w,
    after_waiting (Some fn) aw (wake_of v) w = (Ok (XoNext (Some (SRunning fn (resume_args v) []))), w).
Proof. exact waiting_forwards. Qed.
Print Assumptions C13_resume_forwarded.

(* one iteration of the stepping loop from RUNNING(f, a, k): the step that runs is f with the positional arguments a and the keyword arguments k, and nothing else;
   the state entered next is exactly the one the returned command denotes (a successful result is downgraded
   when the outputs do not conform: C12); a live next state leaves the process quiet again *)
Theorem C13_one_step :
  forall n w f a k r (Q : result unit -> world -> Prop),
    quiet w -> st w = Some (SRunning f a k) -> lookup_script w f = Some (mk_script [] r) ->
    (forall w1,
        st w1 = Some (next_state_of w r) -> cfg w1 = cfg w ->
        (exists tr, trace w1 = (trace w ++ EvStep f a k false :: tr)%list /\ step_events tr = []) ->
        outputs w1 = outputs w -> ospec w1 = ospec w ->
        (terminal (label_of (next_state_of w r)) = false -> quiet w1 /\ ready w1 = ready w) ->
        wp (loop_head n) Q w1) ->
    wp (loop_head (S n)) Q w.
Proof. exact loop_iter_running. Qed.
Print Assumptions C13_one_step.

(* a resumed wait: the continuation is the next RUNNING state, with the resume value as its only argument *)
Theorem C13_resumed_wait_continues :
  forall n w fn m d wid v (Q : result unit -> world -> Prop),
    quiet w -> st w = Some (SWaiting (Some fn) m d wid (WfDone (wake_of v))) ->
    (forall w1,
        st w1 = Some (SRunning fn (resume_args v) []) -> cfg w1 = cfg w ->
        (exists tr, trace w1 = (trace w ++ tr)%list /\ step_events tr = []) ->
        outputs w1 = outputs w -> ospec w1 = ospec w -> quiet w1 -> ready w1 = ready w ->
        wp (loop_head n) Q w1) ->
    wp (loop_head (S n)) Q w.
Proof. exact loop_iter_woken. Qed.
Print Assumptions C13_resumed_wait_continues.

(* chains: from RUNNING(f, a, k) in a quiet world the loop executes exactly the steps of the reference
   interpreter of the commands, in order, with their arguments, and stops where it stops (a wait, or a terminal
   state with the denoted result / success flag / kill message), for every fuel *)
Theorem C13_chain :
  forall fuel w f a k steps out (Q : result unit -> world -> Prop),
    quiet w -> commands_only (cf_prog (cfg w)) -> st w = Some (SRunning f a k) ->
    ref_chain fuel (cf_prog (cfg w)) (outputs_valid w) f a k = Some (steps, out) ->
    (forall w', chain_post w steps out w' -> Q (Ok tt) w') ->
    wp (loop_head (S fuel)) Q w.
Proof. exact chain_runs. Qed.
Print Assumptions C13_chain.

(* whole runs: construct, first loop callback, then resume + loop callback for each value *)
Theorem C13_run :
  forall c vs steps out,
    cf_fault c = None -> cf_listeners c = [] -> commands_only (cf_prog c) ->
    ref_run (cf_prog c) (valid_port (fun _ _ => false) (cf_ospec c) (VDict [])) vs = Some (steps, out) ->
    exists w, run c (ETick :: resumes_schedule vs) = Some w /\
              step_events (trace w) = steps /\ option_map abs_state (st w) = Some out.
Proof. exact command_runs. Qed.
Print Assumptions C13_run.

(* the same after a checkpoint / restore between the return and the next step: the payload of the CREATED /
   RUNNING / WAITING state (function by name, args, kwargs, msg, data) comes back as it was (property C08) *)
Theorem C13_restore_payload :
  forall nm p, payload_ok nm p = true -> load_payload nm (save_payload nm p) = inr p.
Proof. exact payload_roundtrip. Qed.
Print Assumptions C13_restore_payload.

(* non-vacuity: a program with a Continue carrying positional and keyword arguments, two waits and an
   unsuccessful result; the reference interpreter is defined on it and the theorem applies *)
Example C13_nonvacuous :
  let prog := [("run", mk_script [] (RContinue "s1" [VInt 1; VStr "two"] [("k", VInt 5)]));
               ("s1", mk_script [] (RWait (Some "s2") (Some "waiting") VNone));
               ("s2", mk_script [] (RWait (Some "s3") None (VInt 7)));
               ("s3", mk_script [] (RUnsuccessful (VInt 3)))] in
  commands_only prog /\
  ref_run prog true [Some (VInt 42); None]
  = Some ([("run", [], []); ("s1", [VInt 1; VStr "two"], [("k", VInt 5)]); ("s2", [VInt 42], []); ("s3", [], [])],
          AFinished (VInt 3) false).
Proof.
  split; [|vm_compute; reflexivity].
  intros f s H. cbn in H.
  repeat match type of H with
         | (if ?b then _ else _) = _ => destruct b; [injection H as <-; reflexivity|]
         end. discriminate.
Qed.
