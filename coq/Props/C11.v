(* Props/C11.v — property C11: only spec-conforming inputs create a process; defaults applied; inputs
   immutable.  Property theorems only.  Model: Ports/PortModel.v (pre_process, validate, on_create of
   ports.py / processes.py); specification: Ports/PortSpec.v (conforms, expected_entry, frozen_levels).
   Validators are arbitrary ([veval] is universally quantified).  The aliasing half of the property
   (raw_inputs and the caller's dictionary untouched) is outside the functional model; it is observed on
   the implementation by the check's oracle on every case. *)
From Coq Require Import List ZArith String Bool.
From Plumpy Require Import Val PortModel PortSpec PortProofsC11.
Import ListNotations.

(* The validation algorithm (pop each declared name, clone, validate the rest dynamically, then the
   namespace validator) decides exactly the declarative reading of "the spec accepts these values". *)
Theorem C11_validate_is_conformance :
  forall (veval : vid -> val -> bool) (p : port) (v : val),
    wf_port p = true -> wf_val v = true ->
    valid_port veval p v = conforms veval p (Some v).
Proof. exact valid_port_conforms. Qed.
Print Assumptions C11_validate_is_conformance.

(* Construction succeeds exactly when the inputs, completed with the declared defaults, conform; and then
   `inputs` is that completion.  Otherwise the constructor raises (construct = inl _). *)
Theorem C11_accept_iff :
  forall (veval : vid -> val -> bool) (spec : port) (raw : option (list (string * val))) (parsed : val),
    wf_port spec = true -> wf_defaults_port spec = true ->
    wf_kvs (match raw with Some m => m | None => [] end) = true ->
    (construct veval spec raw = inr parsed <->
     exists a ps r, spec = PNs a ps
       /\ pre_process ps (match raw with Some m => m | None => [] end) = inr r
       /\ parsed = VFrozen r
       /\ conforms veval spec (Some parsed) = true).
Proof. exact construct_accept_iff. Qed.
Print Assumptions C11_accept_iff.

(* "Completed with exactly the declared defaults": every entry of the completed inputs is the supplied
   value, or the port's default (callable defaults evaluated), or — for a declared namespace — the frozen
   completion of the supplied / default / empty dictionary; a namespace with populate_defaults = False
   that was not supplied is left out; nothing else appears. *)
Theorem C11_defaults_exact :
  forall (ps : ports) (m r : list (string * val)),
    names_unique ps = true -> pre_process ps m = inr r ->
    forall n, option_map (@inr exn val) (alist_get n r) = expected_entry ps m n.
Proof. exact pre_process_entries. Qed.
Print Assumptions C11_defaults_exact.

(* read-only mappings at every declared namespace level *)
Theorem C11_frozen :
  forall (ps : ports) (m r : list (string * val)),
    names_unique ps = true -> wf_ports ps = true -> pre_process ps m = inr r ->
    frozen_levels_ports ps r = true.
Proof. exact pre_process_frozen. Qed.
Print Assumptions C11_frozen.

(* the completed inputs are again well-formed data (unique keys), so conformance applies to them *)
Theorem C11_completion_wf :
  forall (ps : ports) (m r : list (string * val)),
    wf_defaults ps = true -> wf_kvs m = true -> pre_process ps m = inr r -> wf_kvs r = true.
Proof. exact pre_process_wf. Qed.
Print Assumptions C11_completion_wf.
