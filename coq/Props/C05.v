(* Props/C05.v — property C05: pause/play is transparent: nothing runs while paused, no step lost or repeated.
   Property theorems only.  Model: Life/Model.v + Life/Run.v (M1); proofs: Life/LifeBook.v (invariant over
   all runs, wp calculus), Life/LifeFx.v + Life/LifeSteps.v (symbolic execution on quiet worlds).

   Quantifiers of the run theorems: every configuration without injected hook fault (any program, any listener
   scripts calling back into the process, any callback scripts) and every list of environment events (pause, play,
   resume, kill, fail, late callbacks, cancellation, completions, ticks) — no bound. *)
From Coq Require Import List String Bool ZArith.
From Plumpy Require Import Val Mon PortModel Model Run LifeBook LifeSx LifeFx LifeSteps LifePtr.
From Plumpy Require LifePaused.
Import ListNotations.

(* in every run, every step function / continuation that starts (EvStep) and every sample taken by code inside a
   step, also after an await (EvObserve), sees the process NOT paused: nothing runs while paused *)
Theorem C05_no_step_while_paused :
  forall c es w, cf_fault c = None -> run c es = Some w -> flags_ok (trace w).
Proof. exact no_step_while_paused. Qed.
Print Assumptions C05_no_step_while_paused.

(* while the process reports paused nothing is in flight and nothing is pending: in every run, between any two environment
   events, paused => no step is in flight, no interrupt action is armed, neither a pause nor a kill is pending (so the pause that
   took effect was the only request there was, and whatever was requested during the step has been carried out or withdrawn) *)
Theorem C05_paused_means_quiescent :
  forall c es w, cf_fault c = None -> run c es = Some w -> paused w <> None ->
    stepping w = false /\ intr w = None /\ pausing w = None /\ killing w = None.
Proof. exact LifePaused.paused_means_quiescent. Qed.
Print Assumptions C05_paused_means_quiescent.

(* pause() and play() (and kill()) requested between any two loop callbacks of any run return a result: they never
   raise *)
Theorem C05_pause_play_never_raise :
  forall c es w ctl', cf_fault c = None -> run c es = Some w -> benign ctl' = true ->
    exists x tr, trace (env_step w (ECtl ctl')) = (tr ++ [EvCtl ctl' x])%list /\ raised x = false.
Proof. exact control_calls_total. Qed.
Print Assumptions C05_pause_play_never_raise.

(* between loop callbacks a process whose step is in flight is never paused: a pause takes effect at a step
   boundary only *)
Theorem C05_pause_at_step_boundary :
  forall c es w, cf_fault c = None -> run c es = Some w -> stepping w = true ->
    paused w = None /\ suspended_in_step w.
Proof. exact stepping_not_paused. Qed.
Print Assumptions C05_pause_at_step_boundary.

(* in every run a pending pause (`_pausing` set) is the armed, still pending pause action of a step in flight — a pause
   request is never left pointing at a cancelled or finished action, and none is pending between steps (Life/LifePtr.v) *)
Theorem C05_pending_pause_is_armed :
  forall c es w a, run c es = Some w -> pausing w = Some a ->
    stepping w = true /\ intr w = Some a /\
    exists ac, get_act w a = Some ac /\ a_fut ac = AfPending /\ is_pause (a_kind ac) = true.
Proof. exact pending_pause_is_armed. Qed.
Print Assumptions C05_pending_pause_is_armed.

(* pause() between steps: paused at once, the message becomes the status, the previous status is remembered ... *)
Theorem C05_pause_now :
  forall w msg, quiet w -> stepping w = false -> is_terminated w = false ->
    wp (ctl_call (CPause msg))
       (fun r w' => r = Ok (CrBool true) /\ paused w' = Some (next_id w) /\ pausing w' = None /\
                    pre_paused_status w' = status w /\
                    status w' = (match msg with Some m => Some m | None => status w end) /\ st w' = st w) w.
Proof. exact pause_now. Qed.
Print Assumptions C05_pause_now.

(* ... and play() always leaves the process un-paused and restores exactly that status *)
Theorem C05_play_restores_status :
  forall w fid, cf_fault (cfg w) = None -> cf_listeners (cfg w) = [] -> paused w = Some fid ->
    wp (ctl_call CPlay)
       (fun r w' => r = Ok (CrBool true) /\ paused w' = None /\ status w' = pre_paused_status w /\
                    pre_paused_status w' = None /\ st w' = st w) w.
Proof. exact play_restores. Qed.
Print Assumptions C05_play_restores_status.

(* the uninterrupted run is the reference: for programs made of commands it is the reference interpreter's (C13) *)
Theorem C05_reference_run :
  forall c vs steps out,
    cf_fault c = None -> cf_listeners c = [] -> commands_only (cf_prog c) ->
    ref_run (cf_prog c) (valid_port (fun _ _ => false) (cf_ospec c) (VDict [])) vs = Some (steps, out) ->
    exists w, run c (ETick :: resumes_schedule vs) = Some w /\
              step_events (trace w) = steps /\ option_map abs_state (st w) = Some out.
Proof. exact command_runs. Qed.
Print Assumptions C05_reference_run.

(* non-vacuity: a run with pause / play / pause requests in one loop iteration while a wait is in flight *)
Example C05_nonvacuous :
  let c := mk_config [("run"%string, mk_script [AObserve] (RWait (Some "s1"%string) None VNone));
                      ("s1"%string, mk_script [AObserve] (RValue (VInt 1%Z)))] [] [] None
                     (PNs (mk_nattrs true None DNone None true true None) PNil) in
  let es := [ETick; ECtl (CPause (Some "p"%string)); ECtl CPlay; ECtl (CPause None); ECtl (CResume (Some (VInt 4%Z))); ETick;
             ECtl CPlay; EDrain 10] in
  cf_fault c = None /\
  option_map (fun w => (step_events (trace w), forallb flag_ok (trace w))) (run c es)
  = Some ([("run"%string, [], []); ("s1"%string, [VInt 4%Z], [])], true).
Proof. vm_compute. split; reflexivity. Qed.
