(* Props/C18.v — property C18: Process.current() is the process whose code is running.
   Property theorems only.  Model: Comms/Ctx.v (PROCESS_STACK as a per-task copied context value,
   _process_scope push/pop around _run_task and call_soon callbacks, launch, re-entrant execute(), the
   transitions after a step and on control calls with their hooks, arbitrary schedules).

   [run fl defs fuel s]: the configuration reached by the table of processes [defs] under the schedule [s]
   (which ready task runs next / the innermost nested loop returns / the environment acts) after at most
   [fuel] machine steps.  Every theorem quantifies over all of them, so it speaks about every reachable
   configuration of every finite set of processes under every interleaving.  [fl] = are hook dispatches inside
   the scope; plumpy as it is: [hooks_scoped_now] = false. *)
From Coq Require Import List Bool Arith.
From RecordUpdate Require Import RecordUpdate.
From Plumpy Require Import Ctx CtxProofs CtxExamples.
Import ListNotations.

(* While a step (run), a continuation, an output hook or a call_soon callback of process [who] executes,
   Process.current() is [who] — at every sample point, i.e. also after every await, inside nested executions,
   in launched children, whatever else is interleaved. *)
Theorem C18_current :
  forall defs fuel s who k cur,
    In (OCode who k cur) (c_trace (run hooks_scoped_now defs fuel s)) -> scoped k = true -> cur = Some who.
Proof. exact current_now. Qed.
Print Assumptions C18_current.

(* The general form: for the scoped kinds in both variants of the code, for every kind (life-cycle hooks
   included) in the variant where transition_to / _do_pause / play enter the scope (notes/C18-D13.patch). *)
Theorem C18_current_general :
  forall fl defs fuel s who k cur,
    In (OCode who k cur) (c_trace (run fl defs fuel s)) -> must_hold fl k = true -> cur = Some who.
Proof. exact current_is_running_process. Qed.
Print Assumptions C18_current_general.

Theorem C18_current_all_kinds_once_hooks_are_scoped :
  forall defs fuel s who k cur,
    In (OCode who k cur) (c_trace (run true defs fuel s)) -> cur = Some who.
Proof. exact current_all_kinds_when_hooks_scoped. Qed.
Print Assumptions C18_current_all_kinds_once_hooks_are_scoped.

(* FINDING D13: for life-cycle hooks the property fails in plumpy as it is.  A hook of a launched child sees its
   parent, a hook of a process started from outside sees None (concrete runs, evaluated). *)
Theorem C18_current_in_hooks_refuted :
  exists defs fuel s who h cur,
    In (OCode who (KHook h) cur) (c_trace (run false defs fuel s)) /\ cur <> Some who.
Proof. exact current_in_hooks_refuted. Qed.
Print Assumptions C18_current_in_hooks_refuted.

Theorem C18_hooks_see_another_process :
  In (OCode 1 (KHook HRun) (Some 0)) (c_trace (run false d13_defs 200 d13_sched))
  /\ In (OCode 1 (KHook HCreate) (Some 0)) (c_trace (run false d13_defs 200 d13_sched))
  /\ In (OCode 1 (KHook HFinish) (Some 0)) (c_trace (run false d13_defs 200 d13_sched)).
Proof. exact hooks_see_another_process. Qed.
Print Assumptions C18_hooks_see_another_process.

Theorem C18_hooks_see_no_process :
  In (OCode 0 (KHook HCreate) None) (c_trace (run false d13_defs 200 d13_sched))
  /\ In (OCode 0 (KHook HRun) None) (c_trace (run false d13_defs 200 d13_sched))
  /\ In (OCode 0 (KHook HFinished) None) (c_trace (run false d13_defs 200 d13_sched)).
Proof. exact hooks_see_no_process. Qed.
Print Assumptions C18_hooks_see_no_process.

(* `assert Process.current() is self` in the finally clause of _process_scope never fails *)
Theorem C18_scope_assert_never_fails :
  forall fl defs fuel s, c_assert (run fl defs fuel s) = 0.
Proof. exact scope_assert_never_fails. Qed.
Print Assumptions C18_scope_assert_never_fails.

(* "once that code returns or yields, the previous value is what other code observes".
   (a) balance: the stack of every task is, at every moment, the stack it inherited when it was created followed
       by the scopes it is inside of (innermost last); *)
Theorem C18_restore_balanced :
  forall fl defs fuel s t tk,
    nth_error (c_tasks (run fl defs fuel s)) t = Some tk ->
    t_ctx tk = t_base tk ++ rev (scopes (t_frames tk)).
Proof. exact stack_is_base_plus_open_scopes. Qed.
Print Assumptions C18_restore_balanced.

(*     so outside every scope — between steps, in the transition after a step, when the task has finished —
       the task sees exactly the inherited stack again; *)
Theorem C18_restore_outside_scopes :
  forall fl defs fuel s t tk,
    nth_error (c_tasks (run fl defs fuel s)) t = Some tk ->
    scopes (t_frames tk) = [] -> t_ctx tk = t_base tk.
Proof. exact outside_every_scope_the_stack_is_the_inherited_one. Qed.
Print Assumptions C18_restore_outside_scopes.

(* (b) return: in every reachable configuration, the machine step that leaves a scope of p (normal return or
       exception) finds p on top and puts back exactly the stack that was current when that scope was entered
       ([f_saved], recorded by the entering step below); *)
Theorem C18_restore_on_scope_exit :
  forall fl defs fuel s t tk fr frs p,
    let c := run fl defs fuel s in
    nth_error (c_tasks c) t = Some tk ->
    t_frames tk = fr :: frs -> f_code fr = [] -> f_scope fr = Some p ->
    t_ctx tk = f_saved fr ++ [p]
    /\ micro fl defs c t = c <| c_tasks := upd t (tk <| t_frames := frs |> <| t_ctx := f_saved fr |>) (c_tasks c) |>
                             <| c_trace ::= cons (OExit t p (f_saved fr)) |>.
Proof. exact scope_exit_restores_entry_stack. Qed.
Print Assumptions C18_restore_on_scope_exit.

(*     the same as a property of the log: in every run the scope entries / exits of every task are well bracketed
       (an exit matches the most recent unmatched entry of the same task and is for the same process) and every
       exit leaves exactly the stack the matching entry found ([bracketed], Comms/Ctx.v); *)
Theorem C18_restore_scope_events_bracketed :
  forall fl defs fuel s, bracketed (log_of (run fl defs fuel s)).
Proof. exact scope_events_bracketed. Qed.
Print Assumptions C18_restore_scope_events_bracketed.

Theorem C18_scope_entry :
  forall fl defs c t tk fr frs i code' p body,
    nth_error (c_tasks c) t = Some tk ->
    t_frames tk = fr :: frs -> f_code fr = i :: code' ->
    e_push (effect_of fl defs (c_procs c) (length (c_tasks c)) (top (t_ctx tk)) i) = Some (p, body) ->
    exists tk' fr1,
      nth_error (c_tasks (micro fl defs c t)) t = Some tk'
      /\ t_ctx tk' = t_ctx tk ++ [p] /\ t_base tk' = t_base tk
      /\ t_frames tk' = mk_frame (Some p) (t_ctx tk) body :: fr1 :: frs
      /\ f_scope fr1 = f_scope fr /\ f_saved fr1 = f_saved fr.
Proof. exact scope_entry_pushes. Qed.
Print Assumptions C18_scope_entry.

(*     the frames (hence the recorded entry stacks) below the innermost one are never touched; *)
Theorem C18_enclosing_frames_untouched :
  forall fl defs c t tk fr frs,
    nth_error (c_tasks c) t = Some tk -> t_frames tk = fr :: frs ->
    exists tk', nth_error (c_tasks (micro fl defs c t)) t = Some tk' /\ t_base tk' = t_base tk
      /\ (t_frames tk' = frs
          \/ exists fr1, f_scope fr1 = f_scope fr /\ f_saved fr1 = f_saved fr
                         /\ (t_frames tk' = fr1 :: frs \/ exists fr2, t_frames tk' = fr2 :: fr1 :: frs)).
Proof. exact micro_keeps_enclosing_frames. Qed.
Print Assumptions C18_enclosing_frames_untouched.

(* (c) yield / interleaving: whatever a task does — entering scopes, awaiting inside them, running a nested loop —
       the stack of every OTHER task stays what it was, and so it does when the scheduler switches tasks,
       returns from a nested loop or lets the environment act; *)
Theorem C18_other_tasks_untouched :
  forall fl defs c t t' tk',
    t' <> t -> nth_error (c_tasks c) t' = Some tk' ->
    exists tk'', nth_error (c_tasks (micro fl defs c t)) t' = Some tk''
                 /\ t_ctx tk'' = t_ctx tk' /\ t_base tk'' = t_base tk' /\ t_frames tk'' = t_frames tk'.
Proof. exact micro_leaves_other_tasks_alone. Qed.
Print Assumptions C18_other_tasks_untouched.

Theorem C18_scheduler_touches_no_stack :
  forall c it t' tk',
    nth_error (c_tasks c) t' = Some tk' ->
    exists tk'', nth_error (c_tasks (sched_step c it)) t' = Some tk''
                 /\ t_ctx tk'' = t_ctx tk' /\ t_base tk'' = t_base tk' /\ t_frames tk'' = t_frames tk'.
Proof. exact sched_step_leaves_stacks_alone. Qed.
Print Assumptions C18_scheduler_touches_no_stack.

(* (d) children and callbacks start from a copy of their creator's stack at the moment of creation *)
Theorem C18_spawned_task_inherits_creator_stack :
  forall fl defs c t tk n tk',
    nth_error (c_tasks c) t = Some tk -> length (c_tasks c) <= n ->
    nth_error (c_tasks (micro fl defs c t)) n = Some tk' ->
    t_ctx tk' = t_ctx tk /\ t_base tk' = t_ctx tk.
Proof. exact spawned_task_inherits_creator_stack. Qed.
Print Assumptions C18_spawned_task_inherits_creator_stack.

(* Non-vacuity: a concrete run with three processes, a callback, a re-entrant execute() interleaved with a
   concurrently stepping process; the schedule is accepted entirely and the samples are there. *)
Theorem C18_example_run_is_complete :
  snd (drive false ex_defs 400 (init ex_defs) ex_sched) = true
  /\ c_bad (run false ex_defs 400 ex_sched) = 0
  /\ c_running (run false ex_defs 400 ex_sched) = [].
Proof. exact example_run_is_complete. Qed.
Print Assumptions C18_example_run_is_complete.

Theorem C18_example_run_samples :
  let tr := c_trace (run false ex_defs 400 ex_sched) in
  In (OCode 0 KStep (Some 0)) tr /\ In (OCode 1 KStep (Some 1)) tr /\ In (OCode 2 KStep (Some 2)) tr
  /\ In (OCode 1 KCallback (Some 1)) tr /\ In (OCode 1 KOutEmitted (Some 1)) tr /\ In (OCode 0 KCont (Some 0)) tr
  /\ In ORet tr /\ In (OCode 2 (KHook HRun) (Some 0)) tr.
Proof. exact example_run_samples. Qed.
Print Assumptions C18_example_run_samples.

Theorem C18_example_run_scope_events :
  let tr := c_trace (run false ex_defs 400 ex_sched) in
  In (OEnter 4 2 [0]) tr /\ In (OExit 4 2 [0]) tr /\ In (OEnter 3 1 [0]) tr /\ In (OExit 3 1 [0]) tr
  /\ In (OEnter 1 0 []) tr /\ In (OExit 1 0 []) tr.
Proof. exact example_run_scope_events. Qed.
Print Assumptions C18_example_run_scope_events.

Theorem C18_example_run_stacks :
  map (fun tk => (t_base tk, t_ctx tk)) (c_tasks (run false ex_defs 400 ex_sched))
  = [([], []); ([], []); ([], []); ([0], [0]); ([0], [0])].
Proof. exact example_run_stacks. Qed.
Print Assumptions C18_example_run_stacks.
