(* Props/C09.v — property C09: a WorkChain executes its outline as the structured program it denotes.
   Property theorems only; every proof is `exact <lemma>`.  The model: Outline/OutlineModel.v
   (stepper machine of workchains.py); the specification: Outline/OutlineSem.v (big-step relation on
   the structured program).  User step/predicate functions, the user state and the effect of the
   ToContext barrier are arbitrary (Section variables of the model). *)
From Coq Require Import List ZArith String Bool.
From Plumpy Require Import Val OutlineModel OutlineSem OutlineProofs.
Import ListNotations.

(* The reference semantics is a function: the "structured program" has one meaning. *)
Theorem C09_reference_deterministic :
  forall W A stepf predf assign last o st st1 o1 st2 o2,
    exec_instr W A stepf predf assign last o st st1 o1 ->
    exec_instr W A stepf predf assign last o st st2 o2 -> st1 = st2 /\ o1 = o2.
Proof. exact exec_deterministic. Qed.
Print Assumptions C09_reference_deterministic.

(* Soundness: whatever a terminating chain of _do_step calls did — the ordered trace of step and
   predicate calls, the final user state, the result — is what the structured program does. *)
Theorem C09_sound :
  forall W A stepf predf assign o, wf_instr o = true -> forall n w s r,
    run_outline W A stepf predf assign n o w = Some (s, r) ->
    exists out, exec_instr W A stepf predf assign true o (w, []) (iw _ _ s, icalls _ _ s) out
                /\ chain_result A out = r.
Proof. exact run_outline_sound. Qed.
Print Assumptions C09_sound.

(* Completeness: every terminating execution of the structured program is reproduced by the
   stepper machine, for some number of process steps. *)
Theorem C09_complete :
  forall W A stepf predf assign o, wf_instr o = true -> forall w w' tr out,
    exec_instr W A stepf predf assign true o (w, []) (w', tr) out ->
    exists n s, run_outline W A stepf predf assign n o w = Some (s, chain_result A out)
                /\ iw _ _ s = w' /\ icalls _ _ s = tr.
Proof. exact run_outline_complete. Qed.
Print Assumptions C09_complete.
