(* Props/C07.v — property C07: save, load, save again yields the same bundle and the same observable process.
   Property theorems only.  Model: Persist/ProcSave.v (Process / WorkChain / ContextMixin / EventHelper / SavableFuture and the
   six states' save_instance_state / load_instance_state, Savable.save / save_members / load / load_members / _get_value,
   _ensure_object_loader, Process.recreate_from / recreate_state); proofs: Persist/ProcSaveProofs.v.

   Reading guide.  [proc S] is the persisted part of a process (S: the opaque stepper of a work chain); [save_proc] is
   Bundle(process, save_context) (None: the save raises), [load_proc] is bundle.unbundle(load_context) (None: it raises);
   g = the global object loader, c = the save context's loader, lctx = the load context's loader.
   [savable classes p]: the class of p is importable under its name ([classes]: name -> kind, methods), the step function /
   callback of its state is a method of that class, a work chain's wait holds no live awaitable.
   Hypotheses that are not proved here, stated explicitly in every theorem:
   - the stepper's own round trip  recreate_stepper (save_stepper g c s) = Some s   (property C08);
   - [medium] (deep copy, pickle, YAML) returns the bundle of a savable process unchanged — tested by the correspondence
     on every snapshot for each medium. *)
From Coq Require Import List ZArith String Bool.
From Plumpy Require Import Val Savable ProcSave ProcSaveProofs Facts.
Import ListNotations.
Local Open Scope string_scope.

(* the member lists and key constants the model saves under are the ones extracted from /repo on this run *)
Theorem C07_tables_match :
  (alist_get "Process" x_auto_persist = Some members_process /\
   alist_get "WorkChain" x_auto_persist = Some members_process /\
   alist_get "Created" x_auto_persist = Some members_created /\
   alist_get "Running" x_auto_persist = Some members_running /\
   alist_get "Waiting" x_auto_persist = Some members_waiting /\
   alist_get "WcWaiting" x_auto_persist = Some members_wcwaiting /\
   alist_get "Finished" x_auto_persist = Some members_finished /\
   alist_get "Excepted" x_auto_persist = Some members_excepted /\
   alist_get "Killed" x_auto_persist = Some members_killed /\
   alist_get "SavableFuture" x_auto_persist = Some members_future /\
   alist_get "EventHelper" x_auto_persist = Some members_helper) /\
  (alist_get "INPUTS_RAW" x_bundle_keys = Some key_inputs_raw /\
   alist_get "INPUTS_PARSED" x_bundle_keys = Some key_inputs_parsed /\
   alist_get "OUTPUTS" x_bundle_keys = Some key_outputs /\
   alist_get "META" x_bundle_keys = Some key_meta /\
   alist_get "META__CLASS_NAME" x_bundle_keys = Some key_class_name /\
   alist_get "META__OBJECT_LOADER" x_bundle_keys = Some key_object_loader /\
   alist_get "META__USER" x_bundle_keys = Some key_user /\
   alist_get "META__TYPES" x_bundle_keys = Some key_types /\
   alist_get "META__TYPE__METHOD" x_bundle_keys = Some ty_method /\
   alist_get "META__TYPE__SAVABLE" x_bundle_keys = Some ty_savable /\
   alist_get "WC_STEPPER_STATE" x_bundle_keys = Some key_stepper /\
   alist_get "CONTEXT" x_bundle_keys = Some key_context /\
   alist_get "RUN_FN" x_bundle_keys = Some key_run_fn /\
   alist_get "CREATED_RUN_FN" x_bundle_keys = Some key_run_fn /\
   alist_get "DONE_CALLBACK" x_bundle_keys = Some key_done_callback /\
   alist_get "EXC_VALUE" x_bundle_keys = Some key_ex_value /\
   alist_get "TRACEBACK" x_bundle_keys = Some key_traceback).
Proof. exact (conj facts_auto_persist facts_bundle_keys). Qed.
Print Assumptions C07_tables_match.

(* every savable process can be saved, under every loader configuration *)
Theorem C07_save_total :
  forall (S : Type) (save_stepper : loader -> option loader -> S -> node) (classes : cenv) g c (p : proc S),
    savable classes p = true -> exists n, save_proc save_stepper g c p = Some n.
Proof. exact save_total. Qed.
Print Assumptions C07_save_total.

(* the heart: loading the bundle gives back the process itself, field by field — pid, creation time, state with its
   payload (function rebound by name, args, kwargs, msg, data, result, successful, exception, kill message), in_state,
   raw / parsed inputs, outputs, ctx, stepper, status, pre-paused status, the paused future and the process future in
   the state they were in, the event helper's listeners — except that the traceback object of an excepted state is gone.
   The load context carries no loader, or the one the bundle was saved with. *)
Theorem C07_roundtrip :
  forall (S : Type) (save_stepper : loader -> option loader -> S -> node) (recreate_stepper : node -> option S),
    (forall g c s, recreate_stepper (save_stepper g c s) = Some s) ->
  forall (classes : cenv) g c lctx (p : proc S) n,
    savable classes p = true -> (lctx = None \/ lctx = Some (effective g c)) ->
    save_proc save_stepper g c p = Some n ->
    load_proc recreate_stepper classes g lctx n = Some (drop_tb p).
Proof. exact roundtrip. Qed.
Print Assumptions C07_roundtrip.

Theorem C07_load_total :
  forall (S : Type) (save_stepper : loader -> option loader -> S -> node) (recreate_stepper : node -> option S),
    (forall g c s, recreate_stepper (save_stepper g c s) = Some s) ->
  forall (classes : cenv) (medium : node -> node),
    (forall g c (p : proc S) n, savable classes p = true -> save_proc save_stepper g c p = Some n -> medium n = n) ->
  forall g c lctx (p : proc S) n,
    savable classes p = true -> (lctx = None \/ lctx = Some (effective g c)) ->
    save_proc save_stepper g c p = Some n ->
    exists p', load_proc recreate_stepper classes g lctx (medium n) = Some p'.
Proof. exact load_total. Qed.
Print Assumptions C07_load_total.

(* save (load (medium (save p))) = medium (save p), key by key over the whole bundle, up to the traceback text *)
Theorem C07_idempotent :
  forall (S : Type) (save_stepper : loader -> option loader -> S -> node) (recreate_stepper : node -> option S),
    (forall g c s, recreate_stepper (save_stepper g c s) = Some s) ->
  forall (classes : cenv) (medium : node -> node),
    (forall g c (p : proc S) n, savable classes p = true -> save_proc save_stepper g c p = Some n -> medium n = n) ->
  forall g c lctx (p p' : proc S) n,
    savable classes p = true -> (lctx = None \/ lctx = Some (effective g c)) ->
    save_proc save_stepper g c p = Some n ->
    load_proc recreate_stepper classes g lctx (medium n) = Some p' ->
    save_proc save_stepper g c p' = Some (strip_traceback (medium n)).
Proof. exact idempotent. Qed.
Print Assumptions C07_idempotent.

(* ... and exactly identical whenever there is no traceback object to lose *)
Theorem C07_idempotent_exact :
  forall (S : Type) (save_stepper : loader -> option loader -> S -> node) (recreate_stepper : node -> option S),
    (forall g c s, recreate_stepper (save_stepper g c s) = Some s) ->
  forall (classes : cenv) (medium : node -> node),
    (forall g c (p : proc S) n, savable classes p = true -> save_proc save_stepper g c p = Some n -> medium n = n) ->
  forall g c lctx (p p' : proc S) n,
    savable classes p = true -> (lctx = None \/ lctx = Some (effective g c)) ->
    save_proc save_stepper g c p = Some n ->
    (forall e, p_state p <> StExcepted e true) ->
    load_proc recreate_stepper classes g lctx (medium n) = Some p' ->
    save_proc save_stepper g c p' = Some (medium n).
Proof. exact idempotent_exact. Qed.
Print Assumptions C07_idempotent_exact.

(* the public accessors of the loaded process: pid, creation time, state label and payload, raw / parsed inputs,
   outputs, ctx, status, paused, future, result() / successful() / exception() / killed_msg() *)
Theorem C07_observe :
  forall (S : Type) (save_stepper : loader -> option loader -> S -> node) (recreate_stepper : node -> option S),
    (forall g c s, recreate_stepper (save_stepper g c s) = Some s) ->
  forall (classes : cenv) (medium : node -> node),
    (forall g c (p : proc S) n, savable classes p = true -> save_proc save_stepper g c p = Some n -> medium n = n) ->
  forall g c lctx (p p' : proc S) n,
    savable classes p = true -> (lctx = None \/ lctx = Some (effective g c)) ->
    save_proc save_stepper g c p = Some n ->
    load_proc recreate_stepper classes g lctx (medium n) = Some p' ->
    observe p' = observe p.
Proof. exact observe_same. Qed.
Print Assumptions C07_observe.

(* a process that was paused is paused again (same paused future state), with the same status / pre-paused status;
   the process future is in the same one of its states *)
Theorem C07_paused_restored :
  forall (S : Type) (save_stepper : loader -> option loader -> S -> node) (recreate_stepper : node -> option S),
    (forall g c s, recreate_stepper (save_stepper g c s) = Some s) ->
  forall (classes : cenv) (medium : node -> node),
    (forall g c (p : proc S) n, savable classes p = true -> save_proc save_stepper g c p = Some n -> medium n = n) ->
  forall g c lctx (p p' : proc S) n,
    savable classes p = true -> (lctx = None \/ lctx = Some (effective g c)) ->
    save_proc save_stepper g c p = Some n ->
    load_proc recreate_stepper classes g lctx (medium n) = Some p' ->
    p_paused p' = p_paused p /\ p_status p' = p_status p /\ p_pre_paused p' = p_pre_paused p /\ p_future p' = p_future p.
Proof. exact paused_restored. Qed.
Print Assumptions C07_paused_restored.

(* every further generation: the loaded process is savable again and is a fixed point of save ; medium ; load *)
Theorem C07_second_generation :
  forall (S : Type) (save_stepper : loader -> option loader -> S -> node) (recreate_stepper : node -> option S),
    (forall g c s, recreate_stepper (save_stepper g c s) = Some s) ->
  forall (classes : cenv) (medium : node -> node),
    (forall g c (p : proc S) n, savable classes p = true -> save_proc save_stepper g c p = Some n -> medium n = n) ->
  forall g c lctx (p p' : proc S) n n',
    savable classes p = true -> (lctx = None \/ lctx = Some (effective g c)) ->
    save_proc save_stepper g c p = Some n ->
    load_proc recreate_stepper classes g lctx (medium n) = Some p' ->
    save_proc save_stepper g c p' = Some n' ->
    savable classes p' = true /\ load_proc recreate_stepper classes g lctx (medium n') = Some p' /\
    n' = strip_traceback (medium n).
Proof. exact second_generation. Qed.
Print Assumptions C07_second_generation.

(* the boundary of the domain: a wait on live awaitables cannot be saved at all (as in the code: futures cannot be copied) *)
Theorem C07_live_awaitables_unsavable :
  forall (S : Type) (save_stepper : loader -> option loader -> S -> node) g c (p : proc S) fn msg data,
    p_state p = StWaiting fn msg data -> awaiting_of p <> 0 -> save_proc save_stepper g c p = None.
Proof. exact live_awaitables_unsavable. Qed.
Print Assumptions C07_live_awaitables_unsavable.

(* the hypotheses are satisfiable on non-trivial instances (stepper := its saved state, medium := identity):
   a paused work chain waiting to be resumed, saved with a custom loader in the save context and loaded with none *)
Example C07_nonvacuous_paused_workchain :
  let classes : cenv := [("m:Chain", (KWorkChain, ["run"; "_do_step"]))] in
  let stp := NDict (KCons "!!meta" (NDict (KCons "class_name" (NVal (VStr "X|plumpy.workchains:_BlockStepper")) KNil))
                   (KCons "_pos" (NVal (VInt 1)) KNil)) in
  let p := mk_proc "m:Chain" (KdWorkChain [("x", VInt 1); ("l", VList [VTup [VInt 1; VInt 2]])] (Some stp) 0)
             (VStr "pid-1") (VStr "float:1.5") (StWaiting (Some "_do_step") (VStr "hold") VNone) true
             (Some (VFrozen [("a", VInt 2)])) (Some (VFrozen [("a", VInt 2); ("ns", VFrozen [("b", VStr "x")])]))
             [("o", VDict [("p", VList [VInt 1])])] (VStr "pm") VNone (Some FPending) FPending
             (VStr "class:plumpy.process_listener:ProcessListener") (VList []) in
  let sv := save_proc (fun _ _ (s : node) => s) LDefault (Some LCustom) in
  let ld := load_proc (fun n => Some n) classes LDefault None in
  savable classes p = true /\
  (exists n, sv p = Some n /\ ld n = Some p /\ strip_traceback n = n) /\
  o_paused (observe p) = true.
Proof. vm_compute. split; [reflexivity |]. split; [eexists; repeat split; reflexivity | reflexivity]. Qed.

(* an excepted process that holds a traceback: the second bundle differs from the first exactly by the traceback entry *)
Example C07_nonvacuous_excepted_traceback :
  let classes : cenv := [("m:Proc", (KProcess, ["run"; "s1"]))] in
  let p := mk_proc (S := node) "m:Proc" KdProcess (VInt 7) VNone (StExcepted (EUser "boom") true) true None None [] VNone VNone None
             (FExn (EUser "boom")) (VStr "class:L") (VList []) in
  let sv := save_proc (fun _ _ (s : node) => s) LCustom None in
  let ld := load_proc (fun n => Some n) classes LCustom None in
  savable classes p = true /\
  exists n n', sv p = Some n /\ ld n = Some (drop_tb p) /\ sv (drop_tb p) = Some n' /\ n' <> n /\ n' = strip_traceback n /\
               observe (drop_tb p) = observe p.
Proof.
  vm_compute. split; [reflexivity |]. eexists. eexists.
  split; [reflexivity |]. split; [reflexivity |]. split; [reflexivity |]. split; [discriminate |]. split; reflexivity.
Qed.
