(* Props/C15.v — property C15: exposing ports copies exactly the selected ports, independently of the
   source.  Property theorems only.  Model: Ports/PortModel.v (PortNamespace.absorb with its string-level
   rule stripping, ProcessSpec._expose_ports); specification: Ports/PortSpec.v (selection by rules on
   path components).  Independence of the copy (no sharing of objects) is outside the functional model; it
   is observed on the implementation by the check's oracle (identity and mutate-and-compare probes). *)
From Coq Require Import List ZArith String Bool.
From Plumpy Require Import Val PortModel PortSpec PortProofsC15.
Import ListNotations.
Local Open Scope string_scope.

(* The string-level algorithm (startswith / strip the first level / recurse) computes the component-level
   selection — in particular a namespaced rule never selects a sibling whose name merely shares a prefix.
   Rule sets: no include rule is an ancestor of another (the property's quantifier). *)
Theorem C15_absorb_is_selection :
  forall sps dps ex inc,
    good_names_ports sps = true -> wf_ports sps = true -> names_unique sps = true ->
    (ex = None \/ inc = None) ->
    include_antichain (ruleset_of ex inc) = true ->
    fst (absorb_ports sps dps ex inc) = assign_all (select (ruleset_of ex inc) [] sps) dps
    /\ snd (absorb_ports sps dps ex inc) = ports_names (select (ruleset_of ex inc) [] sps).
Proof. exact absorb_ports_select. Qed.
Print Assumptions C15_absorb_is_selection.

(* pointwise meaning: a leaf port is exposed iff it is in the source and a rule selects its path
   (include: some rule is a component-prefix of the path; exclude: none is); with the same attributes *)
Theorem C15_leaf_exposed_iff_selected :
  forall R a sps q la,
    wf_ports sps = true -> names_unique sps = true ->
    (lookup_port q (PNs a (select R [] sps)) = Some (PLeaf la) <->
     lookup_port q (PNs a sps) = Some (PLeaf la) /\ q <> [] /\ leaf_selected R q = true).
Proof. exact select_leaf. Qed.
Print Assumptions C15_leaf_exposed_iff_selected.

(* a namespace is exposed iff it and its ancestors are selected (an include rule creates the namespaces it
   passes through); it carries the source namespace's properties and, recursively, the selected ports *)
Theorem C15_namespace_exposed_iff_selected :
  forall R a sps q na sub,
    wf_ports sps = true -> names_unique sps = true -> q <> [] ->
    (lookup_port q (PNs a (select R [] sps)) = Some (PNs na sub) <->
     exists na' sub', lookup_port q (PNs a sps) = Some (PNs na' sub')
                      /\ na = set_valid_type na' (n_vt na') /\ sub = select R q sub'
                      /\ ns_chain R [] q = true).
Proof. exact select_ns_iff. Qed.
Print Assumptions C15_namespace_exposed_iff_selected.

(* the destination: ports not overwritten stay in place; selected ones are assigned by name *)
Theorem C15_other_ports_stay :
  forall X dps k, existsb (String.eqb k) (ports_names X) = false ->
    ports_get k (assign_all X dps) = ports_get k dps.
Proof. exact assign_all_other. Qed.
Print Assumptions C15_other_ports_stay.

Theorem C15_selected_ports_present :
  forall X dps k p, names_unique X = true -> ports_get k X = Some p ->
    ports_get k (assign_all X dps) = Some p.
Proof. exact assign_all_selected. Qed.
Print Assumptions C15_selected_ports_present.

(* absorb as a whole *)
Theorem C15_absorb_spec :
  forall dst src ex inc opts d names,
    good_names src = true -> wf_port src = true ->
    include_antichain (ruleset_of ex inc) = true ->
    absorb dst src ex inc opts = inr (d, names) ->
    exists da dps sa sps a',
      dst = PNs da dps /\ src = PNs sa sps /\ (ex = None \/ inc = None) /\ absorb_attrs sa opts = inr a'
      /\ d = PNs a' (assign_all (select (ruleset_of ex inc) [] sps) dps)
      /\ names = ports_names (select (ruleset_of ex inc) [] sps).
Proof. exact absorb_spec. Qed.
Print Assumptions C15_absorb_spec.

(* include together with exclude is rejected *)
Theorem C15_include_exclude_exclusive :
  forall dst src ex inc opts,
    absorb dst src (Some ex) (Some inc) opts = inl EValue
    \/ (exists la, dst = PLeaf la) \/ (exists la, src = PLeaf la).
Proof. exact absorb_exclusive. Qed.
Print Assumptions C15_include_exclude_exclusive.

(* namespace properties: the source's unless overridden by an option; valid_type forces dynamic *)
Theorem C15_namespace_options :
  forall sa opts a',
    absorb_attrs sa opts = inr a' ->
    (forall k, alist_mem k opts = true -> existsb (String.eqb k) known_props = true)
    /\ n_vt a' = match alist_get "valid_type" opts with Some (OVt t) => t | _ => n_vt sa end
    /\ (n_vt a' <> None -> n_dynamic a' = true)
    /\ (n_vt a' = None -> n_dynamic a' = match alist_get "dynamic" opts with Some (OBool b) => b | _ => n_dynamic sa end)
    /\ n_required a' = match alist_get "required" opts with Some (OBool b) => b | _ => n_required sa end
    /\ n_populate a' = match alist_get "populate_defaults" opts with Some (OBool b) => b | _ => n_populate sa end
    /\ n_help a' = match alist_get "help" opts with Some (OHelp h) => h | _ => n_help sa end
    /\ n_validator a' = match alist_get "validator" opts with Some (OVid v) => v | _ => n_validator sa end
    /\ n_default a' = match alist_get "default" opts with Some (ODflt d) => d | _ => n_default sa end.
Proof. exact absorb_attrs_spec. Qed.
Print Assumptions C15_namespace_options.

Theorem C15_unknown_option_rejected :
  forall sa opts k v,
    alist_get k opts = Some v -> existsb (String.eqb k) known_props = false ->
    absorb_attrs sa opts = inl EValue.
Proof. exact absorb_attrs_unknown. Qed.
Print Assumptions C15_unknown_option_rejected.
