(* Props/C17.v — property C17: launcher tasks do what they say or are rejected.  Property theorems only.
   Model: Comms/Launcher.v (ProcessLauncher.__call__/_launch/_continue/_create, the create_*_body functions, object
   loaders as finite tables over the default scheme) over the abstract (pid, tag) -> snapshot map of
   Persist/Persister.v (which both real persisters refine: C14).  Every theorem quantifies over the whole environment
   E = (known classes, loadable loader classes, constructors, initial checkpoints, run-to-completion behaviour of every
   class from every checkpoint), over every configuration, and over every world w — in particular every world reachable
   by any history of tasks and foreign persister operations.  Proofs: Comms/LauncherProofs.v; satisfiability of the
   hypotheses on the real test classes: Comms/LauncherExamples.v. *)
From Coq Require Import List ZArith String Bool.
From Plumpy Require Import Val Persister Launcher LauncherProofs LauncherExamples.
Import ListNotations.
Local Open Scope string_scope.
Local Open Scope list_scope.

(* ---- rejected rather than executed in some other way ---------------------------------------------------------- *)
(* [rejectable cfg b]: b has a task type other than launch/continue/create, or is a (well-bound) launch/create with a
   truthy persist flag, or a (well-bound) continue, while no persister is configured.  Such a task is answered
   TaskRejected and NOTHING else happens: persister, process set and pid counter are unchanged, no step runs. *)
Theorem C17_reject :
  forall known lcs construct ckpt0 run_to_end cfg w b,
    rejectable cfg b = true ->
    task_step known lcs construct ckpt0 run_to_end cfg w b = (w, mk_io (RErr ERejected) [] []).
Proof. exact reject_spec. Qed.
Print Assumptions C17_reject.

(* ... and TaskRejected is the answer to nothing else (constructors of processes not raising it themselves) *)
Theorem C17_reject_only :
  forall known lcs construct ckpt0 run_to_end,
    (forall c i, construct c i <> inl ERejected) ->
    forall cfg w b,
      io_reply (snd (task_step known lcs construct ckpt0 run_to_end cfg w b)) = RErr ERejected -> rejectable cfg b = true.
Proof. exact reject_only. Qed.
Print Assumptions C17_reject_only.

(* any error raised by the launcher itself (rejection, malformed body, unknown class identifier, invalid constructor
   arguments, missing checkpoint) leaves the world exactly as it was *)
Theorem C17_error_no_effect :
  forall known lcs construct ckpt0 run_to_end cfg w b w' o,
    task_step known lcs construct ckpt0 run_to_end cfg w b = (w', o) -> is_err o = true ->
    w' = w /\ io_before o = [] /\ io_after o = [].
Proof. exact task_error_no_effect. Qed.
Print Assumptions C17_error_no_effect.

(* ---- create ------------------------------------------------------------------------------------------------- *)
(* constructs an instance of the class the launcher's loader gives for the identifier, with the given constructor
   arguments; stores its initial checkpoint under (pid, None) iff persist; replies the pid; runs no step *)
Theorem C17_create :
  forall known lcs construct ckpt0 run_to_end cfg w id a k persist cls inputs pidv p next' parsed,
    (persist = true -> has_persister cfg = true) ->
    load_object known (launcher_loader cfg) id = Some cls ->
    unpack_init a k = Some (inputs, pidv) ->
    choose_pid (w_next w) pidv = Some (p, next') ->
    construct cls inputs = inr parsed ->
    task_step known lcs construct ckpt0 run_to_end cfg w (create_body id a k persist) =
      (mk_world (if persist
                 then am_set (p, None) (encode (snapshot_of cfg cls p parsed (ckpt0 cls parsed))) (w_pm w)
                 else w_pm w)
                (w_procs w ++ [mk_prec p cls parsed (ckpt0 cls parsed) FromNew false])
                next',
       mk_io (RPid p) [EvInit cls p] []).
Proof. exact create_spec. Qed.
Print Assumptions C17_create.

(* ---- launch ------------------------------------------------------------------------------------------------- *)
(* the same creation (persisted first, in its initial state, iff asked), then the FRESH instance is run from its initial
   checkpoint; nowait: the pid is the reply and every step comes after it; otherwise the reply is the process's own
   outcome — outputs, its exception, or KilledError *)
Theorem C17_launch :
  forall known lcs construct ckpt0 run_to_end cfg w id a k persist nowait cls inputs pidv p next' parsed,
    (persist = true -> has_persister cfg = true) ->
    load_object known (launcher_loader cfg) id = Some cls ->
    unpack_init a k = Some (inputs, pidv) ->
    choose_pid (w_next w) pidv = Some (p, next') ->
    construct cls inputs = inr parsed ->
    let r := run_to_end cls parsed (ckpt0 cls parsed) in
    task_step known lcs construct ckpt0 run_to_end cfg w (launch_body id a k persist nowait) =
      (mk_world (if persist
                 then am_set (p, None) (encode (snapshot_of cfg cls p parsed (ckpt0 cls parsed))) (w_pm w)
                 else w_pm w)
                (w_procs w ++ [mk_prec p cls parsed (ckpt0 cls parsed) FromNew true])
                next',
       if nowait then mk_io (RPid p) [EvInit cls p] (steps_events p r)
       else mk_io (ROutcome (rr_outcome r)) (EvInit cls p :: steps_events p r) []).
Proof. exact launch_spec. Qed.
Print Assumptions C17_launch.

(* the COMPLETE behaviour of create and launch, one equation each, for every body built by create_*_body, every
   configuration and every world.  [creation] runs the checks of the code in its order (persist without persister ->
   TaskRejected; identifier unknown to the launcher's loader -> ValueError; constructor arguments that do not bind ->
   TypeError; the constructor's own exception) and gives the first error, or the class, pid, pid counter and parsed inputs
   of the new instance.  There is no third behaviour: a task is honoured exactly as said, or fails without any effect. *)
Theorem C17_create_total :
  forall known lcs construct ckpt0 run_to_end cfg w id a k persist,
    task_step known lcs construct ckpt0 run_to_end cfg w (create_body id a k persist) =
      match creation known construct cfg w id a k persist with
      | inl e => (w, mk_io (RErr e) [] [])
      | inr (cls, p, next', parsed) =>
          (created_world ckpt0 cfg w persist cls p parsed next' false, mk_io (RPid p) [EvInit cls p] [])
      end.
Proof. exact create_total. Qed.
Print Assumptions C17_create_total.

Theorem C17_launch_total :
  forall known lcs construct ckpt0 run_to_end cfg w id a k persist nowait,
    task_step known lcs construct ckpt0 run_to_end cfg w (launch_body id a k persist nowait) =
      match creation known construct cfg w id a k persist with
      | inl e => (w, mk_io (RErr e) [] [])
      | inr (cls, p, next', parsed) =>
          let r := run_to_end cls parsed (ckpt0 cls parsed) in
          (created_world ckpt0 cfg w persist cls p parsed next' true,
           if nowait then mk_io (RPid p) [EvInit cls p] (steps_events p r)
           else mk_io (ROutcome (rr_outcome r)) (EvInit cls p :: steps_events p r) [])
      end.
Proof. exact launch_total. Qed.
Print Assumptions C17_launch_total.

(* ---- continue ----------------------------------------------------------------------------------------------- *)
(* resumes exactly the checkpoint stored under the requested (pid, tag): class named in it (resolved by the loader in
   force), its pid, inputs and position; run to completion from there; the persister is only read *)
Theorem C17_continue :
  forall known lcs construct ckpt0 run_to_end cfg w p t nowait v s tbl cls,
    has_persister cfg = true ->
    am_get (p, t) (w_pm w) = Some v ->
    decode v = Some s ->
    continue_loader lcs cfg (s_ldr s) = Some tbl ->
    load_object known tbl (s_cls s) = Some cls ->
    let r := run_to_end cls (s_inputs s) (s_ckpt s) in
    task_step known lcs construct ckpt0 run_to_end cfg w (continue_body p t nowait) =
      (mk_world (w_pm w)
                (w_procs w ++ [mk_prec (s_pid s) cls (s_inputs s) (s_ckpt s) (FromCkpt (p, t)) true])
                (w_next w),
       if nowait then mk_io (RPid (s_pid s)) [] (steps_events (s_pid s) r)
       else mk_io (ROutcome (rr_outcome r)) (steps_events (s_pid s) r) []).
Proof. exact continue_spec. Qed.
Print Assumptions C17_continue.

(* the complete behaviour of continue: [resumption] = no persister -> TaskRejected; no checkpoint under (pid, tag) ->
   KeyError; unreadable checkpoint / unloadable recorded loader / class name unknown to the loader in force -> ValueError;
   else the class and the snapshot *)
Theorem C17_continue_total :
  forall known lcs construct ckpt0 run_to_end cfg w p t nowait,
    task_step known lcs construct ckpt0 run_to_end cfg w (continue_body p t nowait) =
      match resumption known lcs cfg w p t with
      | inl e => (w, mk_io (RErr e) [] [])
      | inr (cls, s) =>
          let r := run_to_end cls (s_inputs s) (s_ckpt s) in
          (mk_world (w_pm w) (w_procs w ++ [loaded_prec (p, t) cls s]) (w_next w),
           if nowait then mk_io (RPid (s_pid s)) [] (steps_events (s_pid s) r)
           else mk_io (ROutcome (rr_outcome r)) (steps_events (s_pid s) r) [])
      end.
Proof. exact continue_total. Qed.
Print Assumptions C17_continue_total.

(* reply and steps of a continue task depend on the persister only through the entry of the requested (pid, tag) *)
Theorem C17_continue_exact :
  forall known lcs construct ckpt0 run_to_end cfg w1 w2 p t nowait,
    am_get (p, t) (w_pm w1) = am_get (p, t) (w_pm w2) ->
    snd (task_step known lcs construct ckpt0 run_to_end cfg w1 (continue_body p t nowait)) =
    snd (task_step known lcs construct ckpt0 run_to_end cfg w2 (continue_body p t nowait)).
Proof. exact continue_exact. Qed.
Print Assumptions C17_continue_exact.

(* ---- the configured loader is the one used -------------------------------------------------------------------- *)
(* whenever a create / launch task constructs an instance of class c, c is what the LAUNCHER's loader gives for the
   identifier in the body *)
Theorem C17_loader :
  forall known lcs construct ckpt0 run_to_end cfg w id a k persist (b : body) c p,
    (exists nowait, b = launch_body id a k persist nowait) \/ b = create_body id a k persist ->
    In (EvInit c p) (io_before (snd (task_step known lcs construct ckpt0 run_to_end cfg w b))) ->
    load_object known (launcher_loader cfg) id = Some c.
Proof. exact loader_create_launch. Qed.
Print Assumptions C17_loader.

(* an identifier that loader does not know is an error — never some other class, never another loader *)
Theorem C17_loader_unknown :
  forall known lcs construct ckpt0 run_to_end cfg w id a k persist (b : body),
    (exists nowait, b = launch_body id a k persist nowait) \/ b = create_body id a k persist ->
    (persist = true -> has_persister cfg = true) ->
    load_object known (launcher_loader cfg) id = None ->
    task_step known lcs construct ckpt0 run_to_end cfg w b = (w, mk_io (RErr EValue) [] []).
Proof. exact loader_unknown_identifier. Qed.
Print Assumptions C17_loader_unknown.

(* an honoured continue task ran an instance of exactly the class that the loader in force gives for the class name
   stored in the requested checkpoint ... *)
Theorem C17_loader_continue :
  forall known lcs construct ckpt0 run_to_end cfg w p t nowait w' o,
    task_step known lcs construct ckpt0 run_to_end cfg w (continue_body p t nowait) = (w', o) -> is_err o = false ->
    exists v s tbl cls,
      am_get (p, t) (w_pm w) = Some v /\ decode v = Some s /\
      continue_loader lcs cfg (s_ldr s) = Some tbl /\ load_object known tbl (s_cls s) = Some cls /\
      w_procs w' = w_procs w ++ [mk_prec (s_pid s) cls (s_inputs s) (s_ckpt s) (FromCkpt (p, t)) true] /\
      w_pm w' = w_pm w.
Proof. exact loader_continue. Qed.
Print Assumptions C17_loader_continue.

(* ... the loader in force being: the launcher's, else the load context's, else the one recorded in the checkpoint,
   else the default one *)
Theorem C17_loader_precedence :
  forall lcs cfg recorded,
    continue_loader lcs cfg recorded =
      match c_loader cfg, c_lcloader cfg, recorded with
      | Some t, _, _ => Some t
      | None, Some t, _ => Some t
      | None, None, Some n => alist_get n lcs
      | None, None, None => Some []
      end.
Proof. exact continue_loader_precedence. Qed.
Print Assumptions C17_loader_precedence.

(* a table loader reads back what it writes (so: same loader on the persister and on the launcher => coherent) *)
Theorem C17_loader_roundtrip :
  forall known t c,
    NoDup (map fst t) ->
    (rfind c t <> None \/ (alist_get c t = None /\ mem_str c known = true)) ->
    load_object known t (identify t c) = Some c.
Proof. exact identify_load_roundtrip. Qed.
Print Assumptions C17_loader_roundtrip.

(* ---- create(persist=True) ; continue(pid)  ==  launch(persist=True) -------------------------------------------- *)
(* equal: the final reply, the sequence of events (one instance constructed, then the same steps, on the same side of the
   reply), the final persister map and the pid counter.  Different, necessarily: two process objects instead of one (the
   created one never runs).  Hypothesis beyond those of C17_create: the loader in force for continue reads the class name
   written by the persister's loader back to the same class. *)
Theorem C17_create_continue_is_launch :
  forall known lcs construct ckpt0 run_to_end cfg w id a k nowait cls inputs pidv p next' parsed tbl,
    has_persister cfg = true ->
    load_object known (launcher_loader cfg) id = Some cls ->
    unpack_init a k = Some (inputs, pidv) ->
    choose_pid (w_next w) pidv = Some (p, next') ->
    construct cls inputs = inr parsed ->
    continue_loader lcs cfg (s_ldr (snapshot_of cfg cls p parsed (ckpt0 cls parsed))) = Some tbl ->
    load_object known tbl (s_cls (snapshot_of cfg cls p parsed (ckpt0 cls parsed))) = Some cls ->
    forall w1 oc w2 ok w3 ol,
      task_step known lcs construct ckpt0 run_to_end cfg w (create_body id a k true) = (w1, oc) ->
      task_step known lcs construct ckpt0 run_to_end cfg w1 (continue_body p None nowait) = (w2, ok) ->
      task_step known lcs construct ckpt0 run_to_end cfg w (launch_body id a k true nowait) = (w3, ol) ->
      io_reply oc = RPid p /\
      io_reply ok = io_reply ol /\
      io_before oc ++ io_before ok = io_before ol /\
      io_after oc ++ io_after ok = io_after ol /\
      w_pm w2 = w_pm w3 /\ w_next w2 = w_next w3 /\
      w_procs w2 = w_procs w ++ [mk_prec p cls parsed (ckpt0 cls parsed) FromNew false;
                                 mk_prec (s_pid (snapshot_of cfg cls p parsed (ckpt0 cls parsed))) cls
                                         (s_inputs (snapshot_of cfg cls p parsed (ckpt0 cls parsed)))
                                         (s_ckpt (snapshot_of cfg cls p parsed (ckpt0 cls parsed))) (FromCkpt (p, None)) true] /\
      w_procs w3 = w_procs w ++ [mk_prec p cls parsed (ckpt0 cls parsed) FromNew true].
Proof. exact create_continue_equiv_launch. Qed.
Print Assumptions C17_create_continue_is_launch.

(* the coherence hypothesis cannot be dropped (real classes, real loader tables: launcher loader resolving the default
   name of Steps to Other, persister writing default names) *)
Theorem C17_equivalence_needs_coherent_loaders :
  exists cfg id k,
    has_persister cfg = true /\
    io_reply (snd (tstep cfg world0 (launch_body id VNone k true false))) <>
    io_reply (nth 1 (snd (trun cfg world0 [HTask (create_body id VNone k true); HTask (continue_body "P1" None false)]))
                  (mk_io RNone [] [])).
Proof. exact equiv_needs_coherent_loaders. Qed.
Print Assumptions C17_equivalence_needs_coherent_loaders.

(* ---- histories (induction over the list of items, no bound) --------------------------------------------------- *)
(* one task = an error and nothing, or exactly one more process and at most its own untagged entry (never without a
   persister) *)
Theorem C17_task_shape :
  forall known lcs construct ckpt0 run_to_end cfg w b w' o,
    task_step known lcs construct ckpt0 run_to_end cfg w b = (w', o) ->
    (is_err o = true /\ w' = w)
    \/ (is_err o = false /\ exists pr,
          w_procs w' = w_procs w ++ [pr] /\
          (w_pm w' = w_pm w \/
           (has_persister cfg = true /\ p_origin pr = FromNew /\ exists v, w_pm w' = am_set (p_pid pr, None) v (w_pm w)))).
Proof. exact task_step_shape. Qed.
Print Assumptions C17_task_shape.

(* over any history of tasks: tagged checkpoints are never touched and nothing is ever deleted *)
Theorem C17_history_preserves_checkpoints :
  forall known lcs construct ckpt0 run_to_end cfg h w,
    forallb is_task h = true ->
    forall k, (snd k <> None ->
               am_get k (w_pm (fst (run known lcs construct ckpt0 run_to_end cfg w h))) = am_get k (w_pm w))
           /\ (am_get k (w_pm w) <> None ->
               am_get k (w_pm (fst (run known lcs construct ckpt0 run_to_end cfg w h))) <> None).
Proof. exact history_tasks_preserve_checkpoints. Qed.
Print Assumptions C17_history_preserves_checkpoints.

(* without a persister nothing is stored by any history, whatever the tasks ask for *)
Theorem C17_history_no_persister :
  forall known lcs construct ckpt0 run_to_end cfg h w,
    has_persister cfg = false -> w_pm (fst (run known lcs construct ckpt0 run_to_end cfg w h)) = w_pm w.
Proof. exact history_no_persister. Qed.
Print Assumptions C17_history_no_persister.

(* the processes after a history: those before, plus exactly one per honoured task *)
Theorem C17_history_processes :
  forall known lcs construct ckpt0 run_to_end cfg h w,
    exists new, w_procs (fst (run known lcs construct ckpt0 run_to_end cfg w h)) = w_procs w ++ new
             /\ List.length new = honoured (snd (run known lcs construct ckpt0 run_to_end cfg w h)).
Proof. exact history_processes. Qed.
Print Assumptions C17_history_processes.

(* a failed (rejected, malformed, unresolvable) task is as if it had never been sent: deleting the failed items from any
   history changes neither the final world nor any other reply *)
Theorem C17_history_errors_inert :
  forall known lcs construct ckpt0 run_to_end cfg h w,
    run known lcs construct ckpt0 run_to_end cfg w (keep (snd (run known lcs construct ckpt0 run_to_end cfg w h)) h) =
      (fst (run known lcs construct ckpt0 run_to_end cfg w h),
       keep (snd (run known lcs construct ckpt0 run_to_end cfg w h)) (snd (run known lcs construct ckpt0 run_to_end cfg w h))).
Proof. exact history_errors_inert. Qed.
Print Assumptions C17_history_errors_inert.
