(* Props/C20.v — property C20: future adapters deliver result, error or cancellation exactly once.
   Property theorems only.  Model: Futures/Adapters.v (unwrap_kiwi_future, plum_to_kiwi_future o unwrap,
   Process._schedule_rpc's await loop, create_task, CancellableAction). *)
From Coq Require Import List ZArith String Bool Arith.
From Plumpy Require Import Val Adapters AdaptersProofs.
Import ListNotations.

(* For every nesting depth k, every terminal outcome t of the innermost computation and every order in
   which the k levels complete: the unwrapping future ends with exactly t, set exactly once ... *)
Theorem C20_unwrap_final :
  forall k t order, 1 <= k -> valid_order k order ->
    u_result (u_run k t order) = Some t /\ u_sets (u_run k t order) = 1.
Proof. exact unwrap_final. Qed.
Print Assumptions C20_unwrap_final.

(* ... and with nothing else: it is still pending, never touched, as long as some level is incomplete *)
Theorem C20_unwrap_not_early :
  forall k t order, 1 <= k -> partial_order k order ->
    (exists i, i < k /\ ~ In i order) ->
    u_result (u_run k t order) = None /\ u_sets (u_run k t order) = 0.
Proof. exact unwrap_not_early. Qed.
Print Assumptions C20_unwrap_not_early.

(* what an observer polling after every completion sees *)
Theorem C20_unwrap_trace :
  forall k t order, 1 <= k -> valid_order k order ->
    u_trace k t (u_init k) order = repeat None (k - 1) ++ [Some t].
Proof. exact unwrap_trace. Qed.
Print Assumptions C20_unwrap_trace.

(* the RPC reply carries exactly the innermost outcome, cancellation included *)
Theorem C20_rpc_reply : forall t, rpc_final t = Some t.
Proof. intro t; reflexivity. Qed.
Print Assumptions C20_rpc_reply.

(* create_task: the coroutine's result or its exception *)
Theorem C20_create_task :
  forall coro, create_task_outcome coro = match coro with inr v => TVal v | inl e => TExn e end.
Proof. intro coro; reflexivity. Qed.
Print Assumptions C20_create_task.

(* a cancellable action: complete functional specification over any sequence of run / cancel *)
Theorem C20_action_spec :
  forall f ops,
    let '(s, rs) := a_run f a_init ops in
    match ops with
    | [] => s = a_init /\ rs = []
    | ARun :: rest =>
        a_fut s = Some (create_task_outcome f) /\ a_calls s = 1 /\ rs = ARetNone :: map later_ret rest
    | ACancel :: rest =>
        a_fut s = Some TCancel /\ a_calls s = 0 /\ rs = ARetBool true :: map later_ret rest
    end.
Proof. exact action_spec. Qed.
Print Assumptions C20_action_spec.

Theorem C20_action_at_most_once : forall f ops, a_calls (fst (a_run f a_init ops)) <= 1.
Proof. exact action_at_most_once. Qed.
Print Assumptions C20_action_at_most_once.
