(* Props/C10.v — property C10: ToContext is a barrier: the next step sees every awaited result.
   Property theorems only; every proof is `exact <lemma>` (lemmas: Outline/BarrierProofs.v).

   Model: Outline/Barrier.v — one WorkChain on one event loop.  The program is ANY function
   [dostep : PS -> ctx -> PS * ctx * dres reg] (one call = one WorkChain._do_step: new program state, new
   context, and Finish / Fail / Continue / Wait with the registrations (key, future) made by to_context and by
   a returned ToContext, in program order; the dict `_awaitables[future] = key` is [aw_dict]).  The environment
   is ANY list of events  Complete k outcome  (future k completes with a value / an exception — a killed or
   excepted child is a future carrying KilledError / its exception)  and  Tick  (the loop runs ONE ready
   callback).  So the theorems hold for every number of awaited items, every completion order and every
   placement of completions between loop callbacks, for both ways of registering, and for futures that are
   already done when they are registered.  [fuel] only bounds the Continue-chained steps inside one callback;
   no theorem needs a hypothesis on it.

   Assumed (explicit): [no_cancel es] — no awaited future is CANCELLED (then CancelledError escapes from the
   completion callback: outside the property, see notes/C10.md); no pause / play / kill / resume event exists in
   this model (those races are property C06).

   The trace is newest-first: in  trace = t2 ++ e :: t1,  t1 is what happened BEFORE e and t2 what came after.
   [last_wait t1 = Some (wid, aw)]: the most recent thing the chain did in t1 was to enter WAITING (state object
   wid) for the awaitables aw (future -> key) and no step has started since. *)
From Coq Require Import List ZArith String Bool Arith.
From Plumpy Require Import Val OutlineModel Barrier BarrierProofs BarrierExamples.
Import ListNotations.

(* The model is total in the relevant sense: the branches marked "the code cannot get here" (EvStuck: a callback
   of a stale Waiting object, a done-callback of a pending future, a task wake-up without cause) are never taken. *)
Theorem C10_model_total :
  forall PS dostep fuel p es, no_cancel es -> ~ In EvStuck (trace (run PS dostep fuel p es)).
Proof. exact model_total. Qed.
Print Assumptions C10_model_total.

(* Reading the trace: EvDone are exactly the environment's completions; a completion callback reads the outcome
   the environment set; a wait is entered by the step that immediately precedes it in the trace. *)
Theorem C10_done_events_faithful :
  forall PS dostep fuel p es, no_cancel es -> forall k o,
    nget k (futs (run PS dostep fuel p es)) = Some o <-> In (EvDone k o) (trace (run PS dostep fuel p es)).
Proof. exact done_events_faithful. Qed.
Print Assumptions C10_done_events_faithful.

(* No exception escapes from a completion callback into the loop's exception handler (no KeyError from
   `_awaiting.pop`, no InvalidStateError from a second failing item or from an item completing after the failure). *)
Theorem C10_no_loop_error :
  forall PS dostep fuel p es, no_cancel es -> forall e, ~ In (EvLoopErr e) (trace (run PS dostep fuel p es)).
Proof. exact no_loop_error. Qed.
Print Assumptions C10_no_loop_error.

Theorem C10_callback_reads_outcome :
  forall PS dostep fuel p es, no_cancel es -> forall wid k o,
    In (EvCb wid k o) (trace (run PS dostep fuel p es)) -> In (EvDone k o) (trace (run PS dostep fuel p es)).
Proof. exact callback_reads_outcome. Qed.
Print Assumptions C10_callback_reads_outcome.

Theorem C10_wait_entered_by_step :
  forall PS dostep fuel p es, no_cancel es -> forall t2 wid aw t1,
    trace (run PS dostep fuel p es) = t2 ++ EvWait wid aw :: t1 -> exists n c dn t0, t1 = EvStep n c dn :: t0.
Proof. exact wait_entered_by_step. Qed.
Print Assumptions C10_wait_entered_by_step.

(* THE BARRIER.  Whenever a step starts (EvStep n c dn: c = the context it sees, dn = the futures done at that
   moment) while the chain is in the wait for aw, every awaited future k has been completed by the environment
   WITH A VALUE v before (EvDone k (OVal v) in t1), is among the done futures the step sees, and c[key] = v when
   k is the only awaitable registered under that key; when several futures share a key, c[key] is the value of
   one of them (the one whose callback ran last). *)
Theorem C10_barrier :
  forall PS dostep fuel p es, no_cancel es -> forall t2 n c dn t1 wid aw,
    trace (run PS dostep fuel p es) = t2 ++ EvStep n c dn :: t1 ->
    last_wait t1 = Some (wid, aw) ->
    forall k key, In (k, key) aw ->
      In k dn /\
      exists v, In (EvDone k (OVal v)) t1 /\
                (uniq_key key aw k -> alist_get key c = Some v) /\
                exists k' v', In (k', key) aw /\ In (EvDone k' (OVal v')) t1 /\ alist_get key c = Some v'.
Proof. exact barrier. Qed.
Print Assumptions C10_barrier.

(* ... in the other direction: as long as one awaited item is still pending, no step has started after the wait
   was entered, whatever else completed and however many callbacks ran. *)
Theorem C10_barrier_pending :
  forall PS dostep fuel p es, no_cancel es -> forall t2 wid aw t1 k key,
    trace (run PS dostep fuel p es) = t2 ++ EvWait wid aw :: t1 ->
    In (k, key) aw -> nget k (futs (run PS dostep fuel p es)) = None ->
    no_step t2.
Proof. exact barrier_pending. Qed.
Print Assumptions C10_barrier_pending.

(* FAILURE.  Let EvCb wid k (OExn e) be the first completion callback that saw an exception (a failed future, an
   excepted or killed child).  Then no step starts after it, in any continuation of the run; the chain is either
   still WAITING with the wake-up of its stepping task already scheduled, or EXCEPTED with exactly e; and it is
   EXCEPTED with e whenever the loop is quiescent.  Later failing items change nothing (they find the wait woken
   up already: Waiting._pending_future() is None — see BarrierExamples.failure_hyps and C10_no_loop_error). *)
Theorem C10_failure :
  forall PS dostep fuel p es, no_cancel es -> forall t2 wid k e t1,
    trace (run PS dostep fuel p es) = t2 ++ EvCb wid k (OExn e) :: t1 -> first_fail t1 = None ->
    no_step t2 /\
    ((st (run PS dostep fuel p es) = PWaiting /\ In CbTask (ready (run PS dostep fuel p es)))
     \/ st (run PS dostep fuel p es) = PExcepted e) /\
    (ready (run PS dostep fuel p es) = [] -> st (run PS dostep fuel p es) = PExcepted e).
Proof. exact failure. Qed.
Print Assumptions C10_failure.

(* PROGRESS (no lost wake-up, in the absence of pause / kill).  At a quiescent point a chain that is in the wait
   for aw has an awaited item that is still pending, or one that failed ... *)
Theorem C10_progress :
  forall PS dostep fuel p es, no_cancel es -> forall wid aw,
    ready (run PS dostep fuel p es) = [] -> last_wait (trace (run PS dostep fuel p es)) = Some (wid, aw) ->
    exists k key, In (k, key) aw /\
      (nget k (futs (run PS dostep fuel p es)) = None \/
       exists e, nget k (futs (run PS dostep fuel p es)) = Some (OExn e)).
Proof. exact progress. Qed.
Print Assumptions C10_progress.

(* ... positively: once every awaited item has a value and the ready queue is drained, the next step has started. *)
Theorem C10_progress_step :
  forall PS dostep fuel p es, no_cancel es -> forall t2 wid aw t1,
    trace (run PS dostep fuel p es) = t2 ++ EvWait wid aw :: t1 ->
    ready (run PS dostep fuel p es) = [] ->
    (forall k key, In (k, key) aw -> exists v, nget k (futs (run PS dostep fuel p es)) = Some (OVal v)) ->
    exists e, In e t2 /\ is_step e = true.
Proof. exact progress_step. Qed.
Print Assumptions C10_progress_step.

(* The instance the correspondence runs: the program is an outline interpreted by M2's stepper machine
   (Outline/OutlineModel.v: WorkChain._do_step over _Block/_If/_While/_Return steppers) with scripted step and
   predicate functions.  The barrier for every outline, every script, every stream of predicate answers. *)
Theorem C10_barrier_outline :
  forall o fuel p es, no_cancel es -> forall t2 n c dn t1 wid aw,
    trace (run wc_ps (wc_dostep o) fuel p es) = t2 ++ EvStep n c dn :: t1 ->
    last_wait t1 = Some (wid, aw) ->
    forall k key, In (k, key) aw ->
      In k dn /\ exists v, In (EvDone k (OVal v)) t1 /\ (uniq_key key aw k -> alist_get key c = Some v).
Proof. exact barrier_outline. Qed.
Print Assumptions C10_barrier_outline.

(* The hypotheses are satisfiable on non-trivial runs (evaluated by vm_compute in Outline/BarrierExamples.v). *)
Example C10_nonvacuous_barrier :
  let t := trace (ex_run es_ok) in
  no_cancel es_ok /\
  t = (firstn 2 t ++ EvStep 1 [("b"%string, VInt 11); ("a"%string, VInt 10)] [1; 0] :: skipn 3 t)%list /\
  last_wait (skipn 3 t) = Some (0, [(0, "a"%string); (1, "b"%string)]) /\
  st (ex_run es_ok) = PFinished RNone.
Proof. exact barrier_hyps. Qed.

Example C10_nonvacuous_pending :
  let w := ex_run es_wait in
  no_cancel es_wait /\ ready w = [] /\ st w = PWaiting /\
  trace w = (firstn 2 (trace w) ++ EvWait 0 [(0, "a"%string); (1, "b"%string)] :: skipn 3 (trace w))%list /\
  last_wait (trace w) = Some (0, [(0, "a"%string); (1, "b"%string)]) /\
  nget 0 (futs w) = None /\ nget 1 (futs w) = Some (OVal (VInt 11)).
Proof. exact pending_hyps. Qed.

Example C10_nonvacuous_failure :
  let w := ex_run es_fail in
  no_cancel es_fail /\
  trace w = (firstn 2 (trace w) ++ EvCb 0 1 (OExn (EUser "boom")) :: skipn 3 (trace w))%list /\
  first_fail (skipn 3 (trace w)) = None /\
  st w = PExcepted (EUser "boom") /\
  In (EvCb 0 0 (OExn (EKilled "bye"))) (trace w).
Proof. exact failure_hyps. Qed.
