(* Props/C03.v — property C03: a failure in user code ends the process EXCEPTED, never half-transitioned.
   Property theorems only.  Model: Life/Model.v + Life/Run.v (M1) with one injected fault (cf_fault); proofs:
   Life/LifeFault*.v (symbolic execution of the model on every quiet world), Life/LifeBook.v (listeners).

   For every world satisfying [faulty w h e] (no request pending, no listener scripts, the hook h raises e the next
   time it is called — whatever its occurrence count so far) and every program / arguments / messages:
   the enclosing operation returns normally (no exception reaches the loop or the caller of step()), the process is
   EXCEPTED with exactly e, its future raises e, it is closed, stepping has ended. *)
From Coq Require Import List String Bool ZArith.
From Plumpy Require Import Val Mon PortModel Model Run LifeSx LifeBook LifeFault LifeFault2 LifeFault3 LifeFault4 LifeFault5 LifeFault6.
From Plumpy Require LifeEsc LifeExc.
Import ListNotations.
Local Open Scope string_scope.

Theorem C03_step_function_raises :
  forall w e f a k,
    quiet w -> st w = Some (SRunning f a k) -> lookup_script w f = Some (mk_script [] (RRaise e)) ->
    wp step_once (contained e) w.
Proof. exact fault_in_step_function. Qed.
Print Assumptions C03_step_function_raises.

Theorem C03_hooks_of_running_to_running :
  forall w h e f a k g a' k',
    In h ["on_exit_running"; "on_run"; "on_running"] ->
    faulty w h e -> st w = Some (SRunning f a k) -> lookup_script w f = Some (mk_script [] (RContinue g a' k')) ->
    wp step_once (contained e) w.
Proof. exact fault_continue. Qed.
Print Assumptions C03_hooks_of_running_to_running.

Theorem C03_hooks_of_running_to_waiting :
  forall w h e f a k g m d,
    In h ["on_exit_running"; "on_wait"; "on_waiting"] ->
    faulty w h e -> st w = Some (SRunning f a k) -> lookup_script w f = Some (mk_script [] (RWait g m d)) ->
    wp step_once (contained e) w.
Proof. exact fault_wait. Qed.
Print Assumptions C03_hooks_of_running_to_waiting.

(* including the termination hooks: the process had already entered FINISHED; it ends EXCEPTED with e, the future is
   replaced by one raising e *)
Theorem C03_hooks_of_finishing :
  forall w h e f a k v,
    In h ["on_finish"; "on_finished"] ->
    faulty w h e -> st w = Some (SRunning f a k) -> lookup_script w f = Some (mk_script [] (RUnsuccessful v)) ->
    wp step_once (contained e) w.
Proof. exact fault_finish. Qed.
Print Assumptions C03_hooks_of_finishing.

Theorem C03_hooks_of_termination :
  forall w h e f a k v,
    In h ["on_terminated"; "on_close"] ->
    faulty w h e -> st w = Some (SRunning f a k) -> lookup_script w f = Some (mk_script [] (RUnsuccessful v)) ->
    wp step_once (contained e) w.
Proof. exact fault_terminating. Qed.
Print Assumptions C03_hooks_of_termination.

Theorem C03_hooks_of_kill :
  forall w h e f a k msg,
    In h ["on_exit_running"; "on_kill"; "on_killed"] ->
    faulty w h e -> stepping w = false -> st w = Some (SRunning f a k) ->
    wp (ctl_call (CKill msg)) (contained_ctl e) w.
Proof. exact fault_kill. Qed.
Print Assumptions C03_hooks_of_kill.

(* a raising callback scheduled with call_soon: fail(e); nothing is reported to the loop *)
Theorem C03_scheduled_callback_raises :
  forall w cb e f a k,
    quiet w -> stepping w = false -> st w = Some (SRunning f a k) ->
    nth_error (cf_callbacks (cfg w)) cb = Some (CbRaise e) ->
    wp (run_entry (RCallback cb)) (contained_cb e w) w.
Proof. exact fault_in_callback. Qed.
Print Assumptions C03_scheduled_callback_raises.

(* an exception raised by a listener never leaves fire_event, whatever the listener does (also re-entrant control
   calls): the notification returns normally and the bookkeeping invariant of the process is kept *)
Theorem C03_listener_exception_is_swallowed :
  forall rec_ctl, (forall c, keeps (rec_ctl c)) -> forall name, total (fire rec_ctl name).
Proof. exact fire_total. Qed.
Print Assumptions C03_listener_exception_is_swallowed.

(* ------------------------------------------------------------------ over EVERY run (Life/LifeEsc.v) *)
(* any program, any listener scripts (with re-entrant control calls), any scheduled callbacks, ANY injected fault (any hook
   name, any occurrence index, any exception) and any schedule of environment events that does not cancel the process
   future from outside (that interplay is the recorded finding D3b of C04): no exception ever reaches the event loop — no
   loop error is reported by a callback or a done-callback and the stepping task never fails — unless the explicit fuel
   of the model ran out *)
Theorem C03_nothing_reaches_the_loop :
  forall c es w e,
    run c es = Some w -> ~ In ECancelFuture es ->
    (In (EvLoopError e) (trace w) \/ t0 w = PcFailed e) -> e = EOutOfFuel.
Proof. exact LifeEsc.nothing_escapes. Qed.
Print Assumptions C03_nothing_reaches_the_loop.

(* never stuck between states, in every such run: between any two environment events no transition is under way, the
   failure bypass of the exit phase is not armed, a closed process has terminated, the future of a live process is still
   pending and an armed interrupt action is pending *)
Theorem C03_never_half_transitioned :
  forall c es w,
    run c es = Some w -> ~ In ECancelFuture es ->
    transitioning w = false /\ transition_failing w = false /\ (closed w = true -> is_terminated w = true)
    /\ (is_terminated w = false -> pfut w = PfPending) /\ (forall a, intr w = Some a -> LifeEsc.pend w a).
Proof. exact LifeEsc.never_half_transitioned. Qed.
Print Assumptions C03_never_half_transitioned.

(* ... and ends EXCEPTED WITH EXACTLY THAT EXCEPTION, in every such run: for a fault (h, k, e) in any of the life-cycle hooks run by
   transitions (on_run, on_wait, on_finish, on_kill, on_except, on_running, on_waiting, on_finished, on_excepted, on_killed,
   on_exit_running, on_exit_waiting, on_terminated, on_close), any occurrence index k, any program, listener scripts with
   re-entrant control calls, callbacks and schedule: at every point between two environment events, if the fault has fired
   (hook h has been called more than k times) the state is EXCEPTED e, the future raises e and the process is closed — also
   when the hook that failed was on_terminated or on_close of a state (FINISHED, KILLED) that had already been entered.  In
   particular the transition during which it fired was completed to EXCEPTED before the enclosing operation returned, and
   nothing afterwards (further requests, listeners, the remaining callbacks) changes that.  Proof: Life/LifeExc.v on LifeEsc. *)
Theorem C03_fault_ends_excepted_every_run :
  forall c es w h k e,
    run c es = Some w -> ~ In ECancelFuture es ->
    cf_fault c = Some (h, k, e) -> LifeExc.smhook h = true -> k < nat_assoc h (occ w) ->
    st w = Some (SExcepted e) /\ pfut w = PfExn e /\ closed w = true.
Proof. exact LifeExc.fault_ends_excepted. Qed.
Print Assumptions C03_fault_ends_excepted_every_run.

(* the hypotheses are met by runs in which the injected fault does fire: in an entry hook, in a termination hook after
   FINISHED had been entered, in the output hook inside a step with a kill pending, in a hook run by a listener's
   re-entrant kill; each ends EXCEPTED with exactly the injected exception, future raising it, closed, task returned *)
Example C03_every_run_nonvacuous :
  let ns := PNs (mk_nattrs true None DNone None true true None) PNil in
  let boom := EUser "boom" in
  let obs := fun w => (st w, pfut w, closed w, t0 w, existsb (fun ev => match ev with EvLoopError _ => true | _ => false end) (trace w),
                       match cf_fault (cfg w) with Some (h, k, _) => Nat.ltb k (nat_assoc h (occ w)) | None => false end) in
  let expected := Some (Some (SExcepted boom), PfExn boom, true, PcDone, false, true) in
  let c1 := mk_config [("run", mk_script [] (RValue (VInt 5%Z)))] [] [] (Some ("on_run", 0, boom)) ns in
  let c2 := mk_config [("run", mk_script [] (RValue (VInt 5%Z)))] [] [] (Some ("on_terminated", 0, boom)) ns in
  let c3 := mk_config [("run", mk_script [ACtl (CKill (Some "k")); AOut "x" (VInt 1%Z)] (RValue (VInt 5%Z)))] [] []
                      (Some ("on_output_emitting", 0, boom)) ns in
  let c4 := mk_config [("run", mk_script [] (RWait None None VNone))] [] [mk_lscript "on_process_paused" 0 (CKill (Some "k"))]
                      (Some ("on_kill", 0, boom)) ns in
  option_map obs (run c1 [EDrain 10]) = expected
  /\ option_map obs (run c2 [EDrain 10]) = expected
  /\ option_map obs (run c3 [EDrain 10]) = expected
  /\ option_map obs (run c4 [EDrain 10; ECtl (CPause None); EDrain 10]) = expected.
Proof. vm_compute. repeat split; reflexivity. Qed.

(* during construction the exception propagates to the caller: no process exists *)
Theorem C03_construction_fault_propagates :
  forall prog cbs ls ospec e,
    fst (construct_process (mk_config prog cbs ls (Some ("on_create", 0, e)) ospec)) = Err e.
Proof. exact fault_in_construction. Qed.
Print Assumptions C03_construction_fault_propagates.

(* the hypotheses are satisfiable: the freshly constructed process of a configuration with a fault in on_finish *)
Example C03_nonvacuous :
  let c := mk_config [("run", mk_script [] (RUnsuccessful VNone))] [] [] (Some ("on_finish", 0, EUser "x"))
                     (PNs (mk_nattrs true None DNone None true true None) PNil) in
  option_map (fun w => (cur_label w, pfut w, closed w)) (run c [EDrain 10]) = Some (Some LExcepted, PfExn (EUser "x"), true).
Proof. vm_compute. reflexivity. Qed.
