(* Props/C12.v — property C12: outputs are stored only if valid; success requires spec-conforming outputs.
   Property theorems only.  Model: Ports/PortModel.v (out, get_port_dyn, outputs_insert,
   finish_successful: Process.out / on_finish of processes.py). *)
From Coq Require Import List ZArith String Bool.
From Plumpy Require Import Val PortModel PortSpec PortProofsC11 PortProofsC12.
Import ListNotations.

(* a declared top-level port: stored iff the port accepts the value, otherwise ValueError *)
Theorem C12_declared_port :
  forall (veval : vid -> val -> bool) a ps outs name p v,
    good_name name = true -> ports_get name ps = Some p ->
    or_result (out veval (PNs a ps) outs name v) =
      if valid_port veval p v then inr (alist_set name v outs, false) else inl EValue.
Proof. exact out_declared_port. Qed.
Print Assumptions C12_declared_port.

(* an undeclared top-level name: stored iff the namespace is dynamic and the value has its type *)
Theorem C12_undeclared_port :
  forall (veval : vid -> val -> bool) a ps outs name v,
    good_name name = true -> ports_get name ps = None ->
    or_result (out veval (PNs a ps) outs name v) =
      if valid_dynamic a [(name, v)] then inr (alist_set name v outs, true) else inl EValue.
Proof. exact out_undeclared_port. Qed.
Print Assumptions C12_undeclared_port.

(* the general nested form: once the namespace is located (possibly created inside a dynamic namespace),
   the emission is a ValueError exactly when the located port / namespace does not accept the value *)
Theorem C12_nested_port :
  forall (veval : vid -> val -> bool) a ps outs path v ns name ps' ta tps,
    split_path path = (ns ++ [name])%list -> ns <> [] ->
    get_port_dyn ns a ps = inr (ps', PNs ta tps) ->
    or_spec (out veval (PNs a ps) outs path v) = PNs a ps' /\
    or_result (out veval (PNs a ps) outs path v) =
      (if match ports_get name tps with
          | Some p => valid_port veval p v
          | None => valid_dynamic ta [(name, v)]
          end
       then match outputs_insert ns name v outs with
            | inl e => inl e
            | inr outs' => inr (outs', match ports_get name tps with Some _ => false | None => true end)
            end
       else inl EValue).
Proof. exact out_located. Qed.
Print Assumptions C12_nested_port.

(* an accepted value is what is stored under its path, and nothing outside the first component moves *)
Theorem C12_stored :
  forall (veval : vid -> val -> bool) spec outs path v outs' dyn,
    or_result (out veval spec outs path v) = inr (outs', dyn) ->
    lookup_val (split_path path) (VDict outs') = Some v.
Proof. exact out_stores. Qed.
Print Assumptions C12_stored.

Theorem C12_frame :
  forall (veval : vid -> val -> bool) spec outs path v outs' dyn,
    or_result (out veval spec outs path v) = inr (outs', dyn) ->
    forall k, k <> hd EmptyString (split_path path) -> alist_get k outs' = alist_get k outs.
Proof. exact out_frame. Qed.
Print Assumptions C12_frame.

(* a failed emission is one of three error kinds (and, the model being functional, leaves the outputs as
   they were: `out` returns no new outputs on error) *)
Theorem C12_error_kinds :
  forall (veval : vid -> val -> bool) spec outs path v e,
    or_result (out veval spec outs path v) = inl e -> e = EValue \/ e = EType \/ e = EAttribute.
Proof. exact out_error_kinds. Qed.
Print Assumptions C12_error_kinds.

(* success: reported successful exactly when the step returned successfully AND the collected outputs
   conform to the output spec (declarative reading, via C11's conformance theorem) *)
Theorem C12_success_iff_conforming :
  forall (veval : vid -> val -> bool) spec outs ok,
    wf_port spec = true -> wf_kvs outs = true ->
    (finish_successful veval spec outs ok = true <->
     ok = true /\ conforms veval spec (Some (VDict outs)) = true).
Proof.
  intros veval spec outs ok Hs Ho.
  rewrite finish_successful_iff, (valid_port_conforms veval spec (VDict outs) Hs Ho). tauto.
Qed.
Print Assumptions C12_success_iff_conforming.

(* the invariants the previous theorem needs are preserved by every emission *)
Theorem C12_outputs_stay_wf :
  forall (veval : vid -> val -> bool) spec outs path v outs' dyn,
    wf_kvs outs = true -> wf_val v = true ->
    or_result (out veval spec outs path v) = inr (outs', dyn) -> wf_kvs outs' = true.
Proof. exact out_wf. Qed.
Print Assumptions C12_outputs_stay_wf.

Theorem C12_spec_stays_wf :
  forall (veval : vid -> val -> bool) spec outs path v,
    wf_port spec = true -> wf_port (or_spec (out veval spec outs path v)) = true.
Proof. exact out_spec_wf. Qed.
Print Assumptions C12_spec_stays_wf.
