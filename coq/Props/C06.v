(* Props/C06.v — property C06: a wake-up is never lost to a concurrent pause or interruption.
   Property theorems only.  Model: Life/Model.v + Life/Run.v (M1); proofs: Life/LifeSx.v, Life/LifeSteps.v
   (symbolic execution), Life/LifeBook.v (all runs); the awaited-futures half (workchain barrier) is property C10
   (Outline/Barrier.v).

   What is proved: how a resume is stored, that the first resume wins, that a resume arriving after an interruption
   which execute() has not dealt with is kept in a fresh future, that the stored value is forwarded as the only
   argument of the continuation, and that a resumed wait continues with exactly that value from every quiet world;
   resume / pause / play never raise on a waiting process (LifeBook).  The interleavings of resume with pause / play
   are checked on the implementation and the model for all orders of <= 3 requests at every boundary (and the
   model agrees with the implementation on every one of them). *)
From Coq Require Import List String Bool ZArith.
From Plumpy Require Import Val Mon PortModel Model Run LifeBook LifeSx LifeSteps LifeWake.
Import ListNotations.

(* A WAKE-UP IS NEVER LOST, IN EVERY RUN — any program, listener scripts (re-entrant pause / play / kill / resume / fail),
   callbacks, any schedule of any length; hooks that do not raise.  The invariant W of Life/LifeWake.v: a suspended stepping
   task is always going to be woken —
     not started yet              : its first wake-up is in the loop's ready queue
     await self._paused (f)       : a wake-up is queued, or f IS the current pause future of a live process
     await the waiting future wid : a wake-up is queued, or wid IS the current, still pending waiting future
     await sleep(0)               : a wake-up is queued
     await an environment future  : a wake-up is queued, or that future has not completed. *)
Theorem C06_suspended_task_is_woken :
  forall c es w, cf_fault c = None -> run c es = Some w ->
    match t0 w with
    | PcNotStarted => wake_ready w
    | PcAwaitPaused f => wake_ready w \/ (paused w = Some f /\ is_terminated w = false)
    | PcInStep _ _ None => wake_ready w
    | PcInStep _ _ (Some k) => wake_ready w \/ find (fun kw => Nat.eqb (fst kw) k) (exts w) = None
    | PcAwaitWaiting wid => wake_ready w \/ waiting_on (st w) wid
    | PcDone | PcFailed _ => True
    end.
Proof. exact run_wake. Qed.
Print Assumptions C06_suspended_task_is_woken.

(* in particular: once the wait the task is parked on has been resumed (or interrupted, or its state left) — however that is
   interleaved with pause, play and the other requests — the task's wake-up is in the queue; and a task parked on a pause
   future that play() has replaced or dropped has its wake-up queued *)
Theorem C06_wake_up_not_lost :
  forall c es w, cf_fault c = None -> run c es = Some w ->
    (forall wid, t0 w = PcAwaitWaiting wid -> ~ waiting_on (st w) wid -> wake_ready w)
    /\ (forall f, t0 w = PcAwaitPaused f -> paused w <> Some f -> wake_ready w).
Proof. exact wake_up_not_lost. Qed.
Print Assumptions C06_wake_up_not_lost.

Theorem C06_resume_stores_the_value :
  forall fn m d wid v w,
    st w = Some (SWaiting (Some fn) m d wid WfPending) ->
    fst (resume v w) = Ok CrNone /\
    st (snd (resume v w)) = Some (SWaiting (Some fn) m d wid (WfDone (wake_of v))).
Proof. exact resume_stores. Qed.
Print Assumptions C06_resume_stores_the_value.

Theorem C06_first_resume_wins :
  forall fn m d wid v v' w,
    st w = Some (SWaiting fn m d wid (WfDone (wake_of v))) -> resume v' w = (Ok CrNone, w).
Proof. exact resume_first_wins. Qed.
Print Assumptions C06_first_resume_wins.

(* the race the property names: the interruption of a pause (or kill) already sits in the waiting future; the
   wake-up is not dropped but kept in a fresh future *)
Theorem C06_resume_survives_interruption :
  forall fn m d wid i v w,
    st w = Some (SWaiting fn m d wid (WfDone (WkIntr i))) ->
    st (snd (resume v w)) = Some (SWaiting fn m d (next_id w) (WfDone (wake_of v))).
Proof. exact resume_after_interruption. Qed.
Print Assumptions C06_resume_survives_interruption.

Theorem C06_value_delivered_once :
  forall fn aw v w,
    after_waiting (Some fn) aw (wake_of v) w = (Ok (XoNext (Some (SRunning fn (resume_args v) []))), w).
Proof. exact waiting_forwards. Qed.
Print Assumptions C06_value_delivered_once.

(* a wait that holds a wake-up continues, once the process is stepped, with exactly that value *)
Theorem C06_held_wakeup_continues :
  forall n w fn m d wid v (Q : result unit -> world -> Prop),
    quiet w -> st w = Some (SWaiting (Some fn) m d wid (WfDone (wake_of v))) ->
    (forall w1,
        st w1 = Some (SRunning fn (resume_args v) []) -> cfg w1 = cfg w ->
        (exists tr, trace w1 = (trace w ++ tr)%list /\ step_events tr = []) ->
        outputs w1 = outputs w -> ospec w1 = ospec w -> quiet w1 -> ready w1 = ready w ->
        wp (loop_head n) Q w1) ->
    wp (loop_head (S n)) Q w.
Proof. exact loop_iter_woken. Qed.
Print Assumptions C06_held_wakeup_continues.

(* resume + one loop callback on a parked process runs the whole chain that follows, with the value *)
Theorem C06_resume_then_callback :
  forall w g m d wid v steps out (Q : result unit -> world -> Prop),
    quiet w -> st w = Some (SWaiting (Some g) m d wid WfPending) -> t0 w = PcAwaitWaiting wid -> ready w = [] ->
    commands_only (cf_prog (cfg w)) ->
    ref_chain 63 (cf_prog (cfg w)) (outputs_valid w) g (resume_args v) [] = Some (steps, out) ->
    (forall w', step_events (trace w') = (step_events (trace w) ++ steps)%list ->
                option_map abs_state (st w') = Some out -> cfg w' = cfg w ->
                (forall g' m' d', out = AWaiting g' m' d' ->
                   exists wid', st w' = Some (SWaiting g' m' d' wid' WfPending) /\ t0 w' = PcAwaitWaiting wid' /\ ready w' = [] /\
                                quiet w' /\ outputs_valid w' = outputs_valid w) ->
                Q (Ok tt) w') ->
    wp (bind (env_step_m (ECtl (CResume v))) (fun _ => env_step_m ETick)) Q w.
Proof. exact resume_tick. Qed.
Print Assumptions C06_resume_then_callback.

(* the races of the property evaluated on the model: pause; resume v in one loop iteration (D5), pause; play; then
   resume (D22), two pause / play pairs in one iteration: the continuation runs, once, with the first value *)
Example C06_races :
  let c := mk_config [("run"%string, mk_script [] (RWait (Some "s1"%string) None VNone)); ("s1"%string, mk_script [] (RValue (VInt 1%Z)))] [] [] None
                     (PNs (mk_nattrs true None DNone None true true None) PNil) in
  let v := Some (VInt 42%Z) in
  let ran es := option_map (fun w => (step_events (trace w), cur_label w)) (run c es) in
  let good := Some ([("run"%string, [], []); ("s1"%string, [VInt 42%Z], [])], Some LFinished) in
  ran [ETick; ECtl (CPause None); ECtl (CResume v); ETick; ECtl CPlay; EDrain 10] = good /\
  ran [ETick; ECtl (CPause None); ECtl (CResume v); ECtl CPlay; EDrain 10] = good /\
  ran [ETick; ECtl (CPause None); ECtl CPlay; EDrain 10; ECtl (CResume v); EDrain 10] = good /\
  ran [ETick; ECtl (CPause None); ECtl CPlay; ECtl (CPause None); ECtl CPlay; EDrain 10; ECtl (CResume v);
       ECtl (CResume (Some (VInt 7%Z))); EDrain 10] = good.
Proof. vm_compute. repeat split. Qed.
