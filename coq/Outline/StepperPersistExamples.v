(* Outline/StepperPersistExamples.v — the hypotheses of the C08 theorems are satisfiable on
   non-trivial instances, and the theorems say something on them (evaluated with vm_compute on the
   executable instance of Corr/Corr_C08.v). *)
From Coq Require Import List ZArith String Bool.
From Plumpy Require Import Val OutlineModel OutlineSem StepperPersist StepperPersistProofs Corr_C08.
Import ListNotations.
Local Open Scope string_scope.

(* s1; while p1: (s2; if p2: s3 else: s4); s5 *)
Definition ex_outline : instr :=
  IBlock (BCons (IStep "s1")
         (BCons (IWhile (PUser "p1")
                   (BCons (IStep "s2")
                   (BCons (IIf (BrCons (PUser "p2") (BCons (IStep "s3") BNil)
                               (BrCons PTrue (BCons (IStep "s4") BNil) BrNil))) BNil)))
         (BCons (IStep "s5") BNil))).

Definition ex_attrs : list (string * fn) :=
  [("run", "run"); ("_do_step", "_do_step"); ("s1", "s1"); ("s2", "s2"); ("s3", "s3"); ("s4", "s4"); ("s5", "s5")].
Definition ex_nm := mk_nm ex_attrs.
Definition ex_preds := [true; true; true; false; false].
Definition ex_rets := [mk_sret [] [] (inr RNone); mk_sret [("o", VInt 1)] [] (inr (RToCtx [("a", VInt 2)]))].

Example ex_wf : wf_instr ex_outline = true. Proof. reflexivity. Qed.
Example ex_methods : methods_ok ex_nm ex_outline = true. Proof. reflexivity. Qed.
Example ex_run_bound : bound ex_nm run_name = true /\ bound ex_nm do_step_name = true.
Proof. split; reflexivity. Qed.
Example ex_codec : forall w, u_load (u_save w) = inr w.
Proof. intros [p r c o [ir ip sn]]. unfold u_load, u_save. simpl. destruct o; reflexivity. Qed.

(* a stepper six objects deep (block > while > block > if > block > function): it is consistent and
   its saved state recreates it *)
Definition ex_sp : spos :=
  PBlock 1 (Some (PWhile (Some (PBlock 1 (Some (PIf 1 (Some (PBlock 0 (Some PFun))))))))).
Example ex_consistent : consistent ex_outline ex_sp = true. Proof. reflexivity. Qed.
Example ex_roundtrip :
  exists n, save_pos ex_nm ex_outline ex_sp = inr n /\ recreate_pos ex_nm true ex_outline n = inr ex_sp.
Proof. eexists. split; reflexivity. Qed.

(* the uninterrupted chain ends, after 6 step and 5 predicate calls ... *)
Definition ex_chain :=
  match create ex_outline with
  | inr sp => run_chain uw reg (s_stepf ex_rets) (s_predf ex_preds) s_assign 50 ex_outline sp
                        (mk_ist uw reg (uw0 None) [] [])
  | inl _ => None
  end.
Example ex_chain_ends :
  match ex_chain with
  | Some (s, _, r) => List.length (icalls _ _ s) = 11 /\ r = inr RNone /\
                      u_ctx (iw _ _ s) = [("a", VInt 2)] /\ u_outs (iw _ _ s) = [("o", VInt 1)]
  | None => False
  end.
Proof. vm_compute. repeat split. Qed.

(* ... and a run with 3 + 1 + 2 restores at boundaries 2, 5 and 6 ends in the same final state *)
Definition ex_run (plan : list (nat * nat)) :=
  match create ex_outline with
  | inr sp => wc_run_r uw reg (s_stepf ex_rets) (s_predf ex_preds) s_assign ex_nm true ub u_save u_load
                       ex_outline (plan_fn plan) 50 0 (wc_init uw reg sp (uw0 None))
  | inl _ => None
  end.
Example ex_resume :
  match ex_chain, ex_run [(2, 3); (5, 1); (6, 2)] with
  | Some (s, sp, r), Some (RDone (s', Some sp', r')) => s = s' /\ sp = sp' /\ r = r'
  | _, _ => False
  end.
Proof. vm_compute. repeat split. Qed.

(* Finding C08-fnrebind on the model: the class attribute named "s1" is another function than the
   outline's s1 (a subclass overrides it).  [methods_ok] fails, and a restore at the boundary where
   the function stepper of s1 is live does not give the stepper back. *)
Definition ex_nm_override :=
  mk_nm [("run", "run"); ("_do_step", "_do_step"); ("s1", "s1@sub"); ("s2", "s2"); ("s3", "s3"); ("s4", "s4"); ("s5", "s5")].
Example ex_override_not_ok : methods_ok ex_nm_override ex_outline = false. Proof. reflexivity. Qed.
Example ex_override_diverges :
  match create ex_outline with
  | inr sp => wc_run_r uw reg (s_stepf ex_rets) (s_predf ex_preds) s_assign ex_nm_override true ub u_save u_load
                       ex_outline (plan_fn [(1, 1)]) 50 0 (wc_init uw reg sp (uw0 None))
              = Some (RRestoreFailed 1 (EUser "C08-fnrebind"))
  | inl _ => False
  end.
Proof. vm_compute. reflexivity. Qed.
(* with the repair (by_name = false) the same run is the uninterrupted one *)
Example ex_override_repaired :
  match ex_chain, (match create ex_outline with
                   | inr sp => wc_run_r uw reg (s_stepf ex_rets) (s_predf ex_preds) s_assign ex_nm_override false
                                 ub u_save u_load ex_outline (plan_fn [(1, 1)]) 50 0 (wc_init uw reg sp (uw0 None))
                   | inl _ => None end) with
  | Some (s, sp, r), Some (RDone (s', Some sp', r')) => s = s' /\ sp = sp' /\ r = r'
  | _, _ => False
  end.
Proof. vm_compute. repeat split. Qed.

(* a plain process program: run -> Continue(a, 1, k=2) -> Wait(b) -> resumed with "v" -> b returns 7 *)
Definition ex_prog : program :=
  [("run", [mk_variant [("x", VInt 1)] [] (QContinue "a" [VInt 1] [("k", VInt 2)])]);
   ("a", [mk_variant [] [("o", VInt 5)] (QWait (Some "b") (VStr "m") VNone)]);
   ("b", [mk_variant [] [] (QValue (VInt 7))])].
Definition ex_pnm := mk_nm [("run", "run"); ("a", "a"); ("b", "b")].
Example ex_closed : closed_program pu (p_ufn ex_prog) ex_pnm.
Proof.
  intros f u a kw u' c H. unfold p_ufn in H.
  destruct (is_foreign f); [inversion H; reflexivity|].
  destruct (look (p_in u)) as [e|i]; [inversion H|].
  unfold ex_prog in H. simpl in H.
  destruct (String.eqb f "run"); [destruct (count_of f u); inversion H; reflexivity|].
  destruct (String.eqb f "a"); [destruct (count_of f u); inversion H; reflexivity|].
  destruct (String.eqb f "b"); [destruct (count_of f u); inversion H; reflexivity|].
  inversion H.
Qed.
Example ex_proc_resume :
  proc_run_r pu (p_ufn ex_prog) ex_pnm true (resume_fn [None; None; None; Some (VStr "v")]) pub pu_save pu_load
             (plan_fn [(1, 2); (3, 3); (4, 1)]) 20 0 (proc_init pu (pu0 None)) =
  proc_run_r pu (p_ufn ex_prog) ex_pnm true (resume_fn [None; None; None; Some (VStr "v")]) pub pu_save pu_load
             no_restores 20 0 (proc_init pu (pu0 None))
  /\ exists u, proc_run_r pu (p_ufn ex_prog) ex_pnm true (resume_fn [None; None; None; Some (VStr "v")]) pub pu_save pu_load
             no_restores 20 0 (proc_init pu (pu0 None)) = Some (RDone (OFinished (VInt 7) true, u))
               /\ List.length (p_trace u) = 3.
Proof. split; [vm_compute; reflexivity|]. eexists. split; vm_compute; reflexivity. Qed.
