(* Outline/Barrier.v — the ToContext barrier of plumpy/workchains.py (property C10).
   Executable model, definitions only (proofs: BarrierProofs.v).

   One WorkChain on one event loop, no pause / kill / resume requests (those races are C06's subject).

   Python                                              model
   ------                                              -----
   WorkChain._do_step (via the outline stepper, M2)    [dostep] (Section variable: ANY program), [run_steps]
   WorkChain.to_context / returned ToContext           the registrations [reg] = (key, future id) a step hands
     self._awaitables[future] = key                      back, turned into the dict future -> key by [aw_dict]
   process_states.Wait(self._do_step, .., awaitables)  [enter_wait]
   workchains.Waiting.__init__  (_awaiting, data,      [winst]: w_aw0 = self.data, w_awaiting = self._awaiting,
     _waiting_future)                                     w_fut = self._waiting_future
   workchains.Waiting.enter  (add_done_callback per    [attach]: a pending future gets the callback registered
     awaitable, in dict order)                            ([cbs]); a done one has it scheduled at once ([ready])
   workchains.Waiting._awaitable_done                  [awaitable_done]
   process_states.Waiting.execute + Process.step       [task_wakes]: result -> RUNNING(_do_step), exception ->
     (`except Exception` -> EXCEPTED)                     EXCEPTED with that exception
   workchains.Waiting.exit (remove_done_callback)      [wait_exit]
   asyncio: future.set_result/set_exception schedule   [complete]: one ready entry per registered callback, in
     the done-callbacks in registration order;            registration order; [ready] is FIFO; [tick] runs one
     loop._ready is FIFO                                  callback
   Process.init: future.add_done_callback(try_killing) [CbOther] scheduled when the process terminates

   An awaited child process is represented by its future (Process.future(): result = outputs,
   exception = the child's exception or KilledError).

   The trace is kept newest-first (an event is consed), so "earlier than an event" = its tail. *)
From Coq Require Import List ZArith String Bool Arith.
From Plumpy Require Import Val OutlineModel.
Import ListNotations.

Definition ctx := list (string * val).
Definition reg := (string * nat)%type.                  (* to_context(key = future k) *)

(* how the environment completes a future *)
Inductive outcome :=
| OVal (v : val)                  (* set_result(v) / a child FINISHED with outputs v *)
| OExn (e : exn)                  (* set_exception(e) / a child EXCEPTED (e) or was KILLED (EKilled msg) *)
| OCancel.                        (* cancel(): outside the property; modelled so that the assumption is explicit *)

(* ---- association lists keyed by future id (Python dict semantics: update in place, append new) ---- *)
Fixpoint nget {X} (k : nat) (d : list (nat * X)) : option X :=
  match d with
  | [] => None
  | (k', x) :: d' => if Nat.eqb k k' then Some x else nget k d'
  end.

Fixpoint nset {X} (k : nat) (x : X) (d : list (nat * X)) : list (nat * X) :=
  match d with
  | [] => [(k, x)]
  | (k', x') :: d' => if Nat.eqb k k' then (k, x) :: d' else (k', x') :: nset k x d'
  end.

Fixpoint nremove {X} (k : nat) (d : list (nat * X)) : list (nat * X) :=
  match d with
  | [] => []
  | (k', x') :: d' => if Nat.eqb k k' then d' else (k', x') :: nremove k d'
  end.

(* self._awaitables after the registrations [regs] (in program order): `self._awaitables[future] = key` *)
Definition aw_dict (regs : list reg) : list (nat * string) :=
  fold_left (fun d r => nset (snd r) (fst r) d) regs [].

(* Waiting._waiting_future *)
Inductive wfut := WPending | WRes | WExn (e : exn).

(* a workchains.Waiting state object *)
Record winst := mk_winst {
  w_id : nat;                                  (* object identity *)
  w_aw0 : list (nat * string);                 (* self.data: the awaitables handed to Wait(...) *)
  w_awaiting : list (nat * string);            (* self._awaiting: future -> key, emptied as they complete *)
  w_fut : wfut }.

(* the process state between two loop callbacks (a RUNNING step never spans a callback boundary: steps of
   a workchain are synchronous and chains of Continue run inside one callback) *)
Inductive pstate :=
| PCreated
| PWaiting
| PFinished (r : rv reg)
| PExcepted (e : exn).

(* loop callbacks *)
Inductive cb :=
| CbTask                          (* the stepping task: its first step, or its wake-up from `await _waiting_future` *)
| CbDone (wid k : nat)            (* <Waiting wid>._awaitable_done(future k) *)
| CbOther.                        (* try_killing: done-callback of the process future, does nothing here *)

Inductive ev :=
| EvStep (n : nat) (c : ctx) (dn : list nat)   (* the n-th _do_step call starts: ctx and the done futures at that moment *)
| EvWait (wid : nat) (aw : list (nat * string))(* entered WAITING (state object wid) for these awaitables *)
| EvDone (k : nat) (o : outcome)               (* the environment completed future k *)
| EvCb (wid k : nat) (o : outcome)             (* _awaitable_done of state object wid read the outcome of future k *)
| EvLoopErr (e : exn)                          (* an exception escaped from a callback into the loop's handler *)
| EvEnd (s : pstate)                           (* terminal state entered *)
| EvStuck.                                     (* MODEL ARTEFACT: a branch the code cannot reach (a callback
                                                  of a state object that is not the latest one, a done-callback
                                                  of a pending future, a task wake-up without cause).  Proved
                                                  unreachable: BarrierProofs.no_stuck / C10_model_total. *)

(* environment events *)
Inductive event :=
| Complete (k : nat) (o : outcome)
| Tick.

Section Barrier.
  (* the program: ANY state type and ANY function; instantiated with M2's outline stepper below *)
  Variable PS : Type.
  Variable dostep : PS -> ctx -> PS * ctx * dres reg.
  Variable fuel : nat.            (* bound on the number of Continue-chained steps inside ONE callback *)

  Record world := mk_world {
    prog : PS;
    cx : ctx;                                  (* self.ctx *)
    futs : list (nat * outcome);               (* the done futures, in completion order *)
    cbs : list (nat * nat);                    (* (future, state object): done-callbacks registered on pending futures, in registration order *)
    ready : list cb;                           (* loop._ready *)
    st : pstate;
    wt : option winst;                         (* the most recently created Waiting state object (it outlives its being the state) *)
    nwait : nat;
    nstep : nat;
    trace : list ev }.                         (* newest first *)

  Definition init (p : PS) : world := mk_world p [] [] [] [CbTask] PCreated None 0 0 [].

  Definition emit (e : ev) (w : world) : world :=
    mk_world (prog w) (cx w) (futs w) (cbs w) (ready w) (st w) (wt w) (nwait w) (nstep w) (e :: trace w).
  Definition push (c : cb) (w : world) : world :=
    mk_world (prog w) (cx w) (futs w) (cbs w) (ready w ++ [c]) (st w) (wt w) (nwait w) (nstep w) (trace w).
  Definition add_cb (k wid : nat) (w : world) : world :=
    mk_world (prog w) (cx w) (futs w) (cbs w ++ [(k, wid)]) (ready w) (st w) (wt w) (nwait w) (nstep w) (trace w).
  Definition set_wt (wi : winst) (w : world) : world :=
    mk_world (prog w) (cx w) (futs w) (cbs w) (ready w) (st w) (Some wi) (nwait w) (nstep w) (trace w).
  Definition set_cx (c : ctx) (w : world) : world :=
    mk_world (prog w) c (futs w) (cbs w) (ready w) (st w) (wt w) (nwait w) (nstep w) (trace w).
  Definition stuck (w : world) : world := emit EvStuck w.
  Definition loop_err (e : exn) (w : world) : world := emit (EvLoopErr e) w.

  (* the environment completes future k: its done-callbacks are scheduled in registration order *)
  Definition complete (k : nat) (o : outcome) (w : world) : world :=
    match nget k (futs w) with
    | Some _ => w                              (* already done: the environment's own set_result raises, plumpy sees nothing *)
    | None =>
        mk_world (prog w) (cx w) (futs w ++ [(k, o)])
                 (filter (fun p => negb (Nat.eqb (fst p) k)) (cbs w))
                 (ready w ++ map (fun p => CbDone (snd p) k) (filter (fun p => Nat.eqb (fst p) k) (cbs w)))
                 (st w) (wt w) (nwait w) (nstep w) (EvDone k o :: trace w)
    end.

  (* Waiting.enter: `for awaitable in self._awaiting: awaitable.add_done_callback(self._awaitable_done)` *)
  Fixpoint attach (wid : nat) (d : list (nat * string)) (w : world) : world :=
    match d with
    | [] => w
    | (k, _) :: d' =>
        attach wid d' (match nget k (futs w) with
                       | Some _ => push (CbDone wid k) w      (* add_done_callback on a done future: call_soon *)
                       | None => add_cb k wid w
                       end)
    end.

  (* Wait(self._do_step, msg, awaitables) -> Waiting.__init__ -> transition -> Waiting.enter; then the
     stepping task reaches `await self._waiting_future` and suspends (same callback) *)
  Definition enter_wait (d : list (nat * string)) (w : world) : world :=
    let wid := nwait w in
    attach wid d
      (mk_world (prog w) (cx w) (futs w) (cbs w) (ready w) PWaiting
                (Some (mk_winst wid d d WPending)) (S wid) (nstep w) (EvWait wid d :: trace w)).

  (* a terminal state is entered: the process future is set, its done-callback try_killing is scheduled *)
  Definition terminate (s : pstate) (w : world) : world :=
    mk_world (prog w) (cx w) (futs w) (cbs w) (ready w ++ [CbOther]) s (wt w) (nwait w) (nstep w)
             (EvEnd s :: trace w).

  (* RUNNING(_do_step) executed until the chain waits or ends; all inside one loop callback *)
  Fixpoint run_steps (n : nat) (w : world) : world :=
    let '(p', c', d) := dostep (prog w) (cx w) in
    let w1 := mk_world p' c' (futs w) (cbs w) (ready w) (st w) (wt w) (nwait w) (S (nstep w))
                       (EvStep (nstep w) (cx w) (map fst (futs w)) :: trace w) in
    let continue :=
      match n with
      | 0 => terminate (PExcepted EOutOfFuel) w1
      | S n' => run_steps n' w1
      end in
    match d with
    | DFinish _ r => terminate (PFinished r) w1
    | DFail _ e => terminate (PExcepted e) w1
    | DContinue _ => continue
    | DWait _ regs =>
        match aw_dict regs with
        | [] => continue                       (* `if self._awaitables:` — nothing to wait for *)
        | d' => enter_wait d' w1
        end
    end.

  (* process_states.Waiting.resume() / `future = self._pending_future(); if future is not None: future.set_exception(e)`:
     the wake-up goes into the waiting future if that is still pending; a wait that has been woken up already
     ignores it (_pending_future() is None: no pause/kill interruption exists in this model) *)
  Definition set_wf (x : wfut) (wi : winst) (w : world) : world :=
    match w_fut wi with
    | WPending => push CbTask (set_wt (mk_winst (w_id wi) (w_aw0 wi) (w_awaiting wi) x) w)
    | _ => set_wt wi w
    end.

  (* Waiting._awaitable_done(awaitable) of state object wid *)
  Definition awaitable_done (wid k : nat) (w : world) : world :=
    match wt w with
    | None => stuck w
    | Some wi =>
        if negb (Nat.eqb (w_id wi) wid) then stuck w else
        match nget k (w_awaiting wi) with
        | None => loop_err EKey w                         (* self._awaiting.pop(awaitable) *)
        | Some key =>
            let wi' := mk_winst (w_id wi) (w_aw0 wi) (nremove k (w_awaiting wi)) (w_fut wi) in
            match nget k (futs w) with
            | None => stuck w
            | Some o =>
                let w0 := emit (EvCb wid k o) w in
                match o with
                | OVal v =>                               (* self.process.ctx[key] = awaitable.result() *)
                    let w1 := set_cx (alist_set key v (cx w0)) w0 in
                    match w_awaiting wi' with
                    | [] => set_wf WRes wi' w1            (* if not self._awaiting: self.resume() *)
                    | _ => set_wt wi' w1
                    end
                | OExn e => set_wf (WExn e) wi' w0        (* except Exception: _pending_future().set_exception(exception) *)
                | OCancel => loop_err ECancelled (set_wt wi' w0)   (* CancelledError is not an Exception *)
                end
            end
        end
    end.

  (* Waiting.exit: `for awaitable in self._awaiting: awaitable.remove_done_callback(self._awaitable_done)` *)
  Definition wait_exit (wi : winst) (w : world) : world :=
    mk_world (prog w) (cx w) (futs w)
             (filter (fun p => negb (Nat.eqb (snd p) (w_id wi) &&
                                     match nget (fst p) (w_awaiting wi) with Some _ => true | None => false end))
                     (cbs w))
             (ready w) (st w) (wt w) (nwait w) (nstep w) (trace w).

  (* the stepping task runs: first step (CREATED -> RUNNING(run) -> _do_step ...) or wake-up from the wait *)
  Definition task_wakes (w : world) : world :=
    match st w with
    | PCreated => run_steps fuel w
    | PWaiting =>
        match wt w with
        | None => stuck w
        | Some wi =>
            match w_fut wi with
            | WPending => stuck w
            | WRes => run_steps fuel (wait_exit wi w)              (* -> RUNNING(self._do_step) *)
            | WExn e => terminate (PExcepted e) (wait_exit wi w)   (* step(): except Exception -> EXCEPTED *)
            end
        end
    | _ => stuck w
    end.

  Definition run_cb (c : cb) (w : world) : world :=
    match c with
    | CbTask => task_wakes w
    | CbDone wid k => awaitable_done wid k w
    | CbOther => w
    end.

  Definition tick (w : world) : world :=
    match ready w with
    | [] => w
    | c :: r =>
        run_cb c (mk_world (prog w) (cx w) (futs w) (cbs w) r (st w) (wt w) (nwait w) (nstep w) (trace w))
    end.

  Definition env_step (w : world) (e : event) : world :=
    match e with
    | Complete k o => complete k o w
    | Tick => tick w
    end.

  Definition run (p : PS) (es : list event) : world := fold_left env_step es (init p).
End Barrier.

Arguments mk_world {PS}.
Arguments prog {PS}. Arguments cx {PS}. Arguments futs {PS}. Arguments cbs {PS}. Arguments ready {PS}.
Arguments st {PS}. Arguments wt {PS}. Arguments nwait {PS}. Arguments nstep {PS}. Arguments trace {PS}.

(* ---- reading the trace (newest first) ---- *)

(* the awaitables of the wait the chain is in: the most recent EvWait, unless a step started after it *)
Fixpoint last_wait (t : list ev) : option (nat * list (nat * string)) :=
  match t with
  | [] => None
  | EvWait wid aw :: _ => Some (wid, aw)
  | EvStep _ _ _ :: _ => None
  | _ :: t' => last_wait t'
  end.

(* the exception seen by the OLDEST failing completion callback *)
Fixpoint first_fail (t : list ev) : option exn :=
  match t with
  | [] => None
  | e :: t' =>
      match first_fail t' with
      | Some x => Some x
      | None => match e with EvCb _ _ (OExn x) => Some x | _ => None end
      end
  end.

Definition is_step (e : ev) : bool := match e with EvStep _ _ _ => true | _ => false end.

Definition no_cancel (es : list event) : Prop := forall k, ~ In (Complete k OCancel) es.

(* ---- instance: the program is an outline (M2) whose step / predicate functions are scripted ---- *)
Inductive act :=
| ASet (key : string) (v : val)               (* self.ctx[key] = v *)
| AReg (key : string) (k : nat).              (* self.to_context(key = future k), also: key = self.launch(Child k) *)

Record script := mk_script { s_acts : list act; s_ret : exn + rv reg }.

(* user state besides the context: the scripts still to be consumed by step functions, the truth values still
   to be consumed by predicates *)
Definition ustate := (ctx * (list script * list bool))%type.

Fixpoint run_acts (acts : list act) (c : ctx) (regs : list reg) : ctx * list reg :=
  match acts with
  | [] => (c, regs)
  | ASet key v :: r => run_acts r (alist_set key v c) regs
  | AReg key k :: r => run_acts r c (regs ++ [(key, k)])
  end.

Definition s_stepf (_ : fn) (u : ustate) : ustate * list reg * (exn + rv reg) :=
  let '(c, (ss, ps)) := u in
  match ss with
  | [] => (u, [], inr RNone)
  | s :: ss' => let '(c', regs) := run_acts (s_acts s) c [] in ((c', (ss', ps)), regs, s_ret s)
  end.

Definition s_predf (_ : string) (u : ustate) : ustate * (exn + bool) :=
  let '(c, (ss, ps)) := u in
  match ps with
  | [] => (u, inr false)
  | b :: ps' => ((c, (ss, ps')), inr b)
  end.

(* program state of a workchain: the stepper, the streams, the ordered user-code calls so far *)
Definition wc_ps := (spos * (list script * list bool) * list call)%type.

Definition wc_dostep (o : instr) (p : wc_ps) (c : ctx) : wc_ps * ctx * dres reg :=
  let '(sp, streams, calls) := p in
  let '(s1, sp1, d) := do_step ustate reg s_stepf s_predf o sp (mk_ist ustate reg (c, streams) calls []) in
  ((sp1, snd (iw _ _ s1), icalls _ _ s1), fst (iw _ _ s1), d).
