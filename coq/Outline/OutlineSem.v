(* Outline/OutlineSem.v — the reference semantics of an outline: the structured program it denotes.
   An inductive big-step relation written directly on the outline, with no stepper, no positions,
   no fuel.  This is the specification side of property C09. *)
From Coq Require Import List ZArith String Bool.
From Plumpy Require Import Val OutlineModel.
Import ListNotations.

Section Sem.
  Variable W : Type.
  Variable A : Type.
  Variable stepf : fn -> W -> W * list A * (exn + rv A).
  Variable predf : string -> W -> W * (exn + bool).
  Variable assign : list A -> W -> W.

  (* reference state: the user state and the ordered trace of user-code calls *)
  Definition rst := (W * list call)%type.

  Inductive out :=
  | ONormal (v : rv A)     (* the instruction ran to its end; v = value handed back by its last step *)
  | OStop (v : rv A)       (* the chain stops here with result v (return_, or a step returned a value) *)
  | OErr (e : exn).        (* user code raised *)

  Definition is_normal (o : out) : bool := match o with ONormal _ => true | _ => false end.

  (* awaiting the registrations of a step; nothing registered = nothing happens *)
  Definition barrier (aw : list A) (w : W) : W :=
    match aw with [] => w | _ => assign aw w end.

  Definition rv_regs (r : rv A) : list A := match r with RToCtx d => d | _ => [] end.

  Inductive pred_eval : pred -> rst -> rst -> exn + bool -> Prop :=
  | PE_true : forall st, pred_eval PTrue st st (inr true)
  | PE_user : forall n w tr w' r,
      predf n w = (w', r) ->
      pred_eval (PUser n) (w, tr) (w', tr ++ [CPred n]) r.

  (* [last] = this instruction syntactically ends the whole outline: the value of its last step
     is the result of the chain and is NOT awaited. *)
  Inductive exec_instr : bool -> instr -> rst -> rst -> out -> Prop :=
  | E_step_err : forall last f w tr w' reg e,
      stepf f w = (w', reg, inl e) ->
      exec_instr last (IStep f) (w, tr) (w', tr ++ [CStep f]) (OErr e)
  | E_step_stop : forall last f w tr w' reg v,
      stepf f w = (w', reg, inr (ROther v)) ->
      exec_instr last (IStep f) (w, tr) (w', tr ++ [CStep f]) (OStop (ROther v))
  | E_step_last : forall f w tr w' reg r,
      stepf f w = (w', reg, inr r) ->
      (forall v, r <> ROther v) ->
      exec_instr true (IStep f) (w, tr) (w', tr ++ [CStep f]) (ONormal r)
  | E_step_next : forall f w tr w' reg r,
      stepf f w = (w', reg, inr r) ->
      (forall v, r <> ROther v) ->
      exec_instr false (IStep f) (w, tr)
                 (barrier (reg ++ rv_regs r) w', tr ++ [CStep f]) (ONormal r)
  | E_return : forall last c st,
      exec_instr last (IReturn c) st st (OStop (code_rv A c))
  | E_block : forall last b st st' o,
      exec_block last b st st' o ->
      exec_instr last (IBlock b) st st' o
  | E_if : forall last brs st st' o,
      exec_branches last brs st st' o ->
      exec_instr last (IIf brs) st st' o
  | E_while_err : forall last p body st st1 e,
      pred_eval p st st1 (inl e) ->
      exec_instr last (IWhile p body) st st1 (OErr e)
  | E_while_false : forall last p body st st1,
      pred_eval p st st1 (inr false) ->
      exec_instr last (IWhile p body) st st1 (ONormal RNone)
  | E_while_exit : forall last p body st st1 st2 o,
      pred_eval p st st1 (inr true) ->
      exec_block false body st1 st2 o ->
      is_normal o = false ->
      exec_instr last (IWhile p body) st st2 o
  | E_while_loop : forall last p body st st1 st2 st3 v o,
      pred_eval p st st1 (inr true) ->
      exec_block false body st1 st2 (ONormal v) ->
      exec_instr last (IWhile p body) st2 st3 o ->
      exec_instr last (IWhile p body) st st3 o

  with exec_block : bool -> block -> rst -> rst -> out -> Prop :=
  | EB_last : forall last i st st' o,
      exec_instr last i st st' o ->
      exec_block last (BCons i BNil) st st' o
  | EB_stop : forall last i j b st st' o,
      exec_instr false i st st' o ->
      is_normal o = false ->
      exec_block last (BCons i (BCons j b)) st st' o
  | EB_next : forall last i j b st st1 st2 v o,
      exec_instr false i st st1 (ONormal v) ->
      exec_block last (BCons j b) st1 st2 o ->
      exec_block last (BCons i (BCons j b)) st st2 o

  with exec_branches : bool -> branches -> rst -> rst -> out -> Prop :=
  | EBr_none : forall last st,
      exec_branches last BrNil st st (ONormal RNone)
  | EBr_err : forall last p body rest st st1 e,
      pred_eval p st st1 (inl e) ->
      exec_branches last (BrCons p body rest) st st1 (OErr e)
  | EBr_taken : forall last p body rest st st1 st2 o,
      pred_eval p st st1 (inr true) ->
      exec_block last body st1 st2 o ->
      exec_branches last (BrCons p body rest) st st2 o      (* no later predicate is evaluated *)
  | EBr_skip : forall last p body rest st st1 st2 o,
      pred_eval p st st1 (inr false) ->
      exec_branches last rest st1 st2 o ->
      exec_branches last (BrCons p body rest) st st2 o.

  Scheme exec_instr_ind' := Induction for exec_instr Sort Prop
  with exec_block_ind' := Induction for exec_block Sort Prop
  with exec_branches_ind' := Induction for exec_branches Sort Prop.
  Combined Scheme exec_mutind from exec_instr_ind', exec_block_ind', exec_branches_ind'.

  (* The result of the whole chain. *)
  Definition chain_result (o : out) : exn + rv A :=
    match o with ONormal r | OStop r => inr r | OErr e => inl e end.

  (* well-formed outlines: every block (outline, if/elif/else body, while body) is non-empty —
     Python's own rule for a suite; an empty body makes create_stepper raise IndexError *)
  Fixpoint wf_instr (i : instr) : bool :=
    match i with
    | IStep _ | IReturn _ => true
    | IBlock b => negb (Nat.eqb (blen b) 0) && wf_block b
    | IIf brs => wf_branches brs
    | IWhile _ body => negb (Nat.eqb (blen body) 0) && wf_block body
    end
  with wf_block (b : block) : bool :=
    match b with BNil => true | BCons i b' => wf_instr i && wf_block b' end
  with wf_branches (brs : branches) : bool :=
    match brs with
    | BrNil => true
    | BrCons _ body rest => negb (Nat.eqb (blen body) 0) && wf_block body && wf_branches rest
    end.
End Sem.
