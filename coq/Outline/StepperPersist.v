(* Outline/StepperPersist.v — persistence of the stepper position and of the pending continuation,
   and runs with restores (property C08).  Executable model, definitions only; the proofs are in
   StepperPersistProofs.v.

   Python (workchains.py, process_states.py, mixins.py, processes.py)      model
   ------------------------------------------------------------------      -----
   the stepper object tree: _FunctionStepper(_fn), _ReturnStepper           stepper (SFun / SRet / SBlock /
     (_return_instruction), _BlockStepper(_block,_pos,_child_stepper),        SIf / SWhile)
     _IfStepper(_if_instruction,_pos,_child_stepper),
     _WhileStepper(_while_instruction,_child_stepper)
   M2 keeps a stepper as (outline, spos); the object tree it denotes        obj / pos_of
   Stepper.save(): {'!!meta': class_name, '_fn' | '_pos', 'stepper_state'}   node, save_stepper
   _Instruction.recreate_stepper + XStepper.load_instance_state             recreate (+ recreate_nth /
                                                                              recreate_branch)
   "positions in range, children match the instruction at the position"     consistent
   Created/Running/Waiting .save_instance_state/.load_instance_state         payload, pnode, save_payload,
     (continuation saved by __name__, rebound with getattr on the new          load_payload
     instance), Continue/Wait/Stop/Kill commands (Savable)                   command, cnode, save_command,
                                                                              load_command
   Running._action_command                                                   action
   one Process.step() of a plain Process / of a WorkChain                    proc_step / wc_step
   Bundle(proc) -> medium -> unbundle() in a fresh loop, old one abandoned   proc_restore / wc_restore
   a run in which boundary k is followed by rs k consecutive restores        run_r (generic), proc_run_r,
                                                                              wc_run_r  ("chain_with_restores")
*)
From Coq Require Import List ZArith String Bool.
From Plumpy Require Import Val OutlineModel.
Import ListNotations.
Local Open Scope string_scope.

(* ====================================================================== *)
(* 1. The stepper object tree and its saved state                          *)
(* ====================================================================== *)

(* The Python objects: every stepper holds a pointer to the instruction it was created from (for a
   function stepper: the function itself), its position and its live child stepper. *)
Inductive stepper :=
| SFun (f : fn)                                             (* _FunctionStepper._fn *)
| SRet (code : option Z)                                    (* _ReturnStepper._return_instruction *)
| SBlock (b : block) (pos : nat) (child : option stepper)   (* _block, _pos, _child_stepper *)
| SIf (brs : branches) (pos : nat) (child : option stepper) (* _if_instruction, _pos, _child_stepper *)
| SWhile (p : pred) (body : block) (child : option stepper).  (* _while_instruction, _child_stepper *)

(* the mutable part, as M2 keeps it *)
Fixpoint pos_of (s : stepper) : spos :=
  match s with
  | SFun _ => PFun
  | SRet _ => PRet
  | SBlock _ pos ch => PBlock pos (match ch with Some c => Some (pos_of c) | None => None end)
  | SIf _ pos ch => PIf pos (match ch with Some c => Some (pos_of c) | None => None end)
  | SWhile _ _ ch => PWhile (match ch with Some c => Some (pos_of c) | None => None end)
  end.

(* the function the live function stepper (the leaf of the chain of children) holds, if any *)
Fixpoint live_fn (s : stepper) : option fn :=
  match s with
  | SFun f => Some f
  | SRet _ => None
  | SBlock _ _ ch | SIf _ _ ch | SWhile _ _ ch =>
      match ch with Some c => live_fn c | None => None end
  end.

(* The object tree denoted by M2's pair (instruction, spos): the child of a block stepper at _pos
   was created from block[_pos], the child of an if stepper from ifs[_pos].body, the child of a
   while stepper from the body.  None = the pair denotes no Python object tree (shape mismatch,
   or a child at an index outside its block). *)
Definition obj_block (objnth : nat -> spos -> option stepper)
    (b : block) (pos : nat) (child : option spos) : option stepper :=
  match child with
  | None => Some (SBlock b pos None)
  | Some c => match objnth pos c with
              | Some cs => Some (SBlock b pos (Some cs))
              | None => None
              end
  end.

Fixpoint obj (i : instr) (sp : spos) {struct i} : option stepper :=
  match i, sp with
  | IStep f, PFun => Some (SFun f)
  | IReturn c, PRet => Some (SRet c)
  | IBlock b, PBlock pos ch => obj_block (obj_nth b) b pos ch
  | IIf brs, PIf pos ch =>
      match ch with
      | None => Some (SIf brs pos None)
      | Some c => match obj_branch brs pos c with
                  | Some cs => Some (SIf brs pos (Some cs))
                  | None => None
                  end
      end
  | IWhile p body, PWhile ch =>
      match ch with
      | None => Some (SWhile p body None)
      | Some (PBlock pos c) =>
          match obj_block (obj_nth body) body pos c with
          | Some cs => Some (SWhile p body (Some cs))
          | None => None
          end
      | Some _ => None
      end
  | _, _ => None
  end
with obj_nth (b : block) (n : nat) (c : spos) {struct b} : option stepper :=
  match b, n with
  | BNil, _ => None
  | BCons i _, 0 => obj i c
  | BCons _ b', S n' => obj_nth b' n' c
  end
with obj_branch (brs : branches) (k : nat) (c : spos) {struct brs} : option stepper :=
  match brs, k with
  | BrNil, _ => None
  | BrCons _ body _, 0 =>
      match c with
      | PBlock p ch => obj_block (obj_nth body) body p ch
      | _ => None
      end
  | BrCons _ _ rest, S k' => obj_branch rest k' c
  end.

(* "consistent o sp": the positions are in range and every child has the shape of the instruction
   at the position.  A block without a child is finished (_pos = len); an if without a child has
   not chosen a branch yet or is past the end. *)
Definition cons_block (consnth : nat -> spos -> bool)
    (b : block) (pos : nat) (child : option spos) : bool :=
  match child with
  | None => Nat.eqb pos (blen b)
  | Some c => Nat.ltb pos (blen b) && consnth pos c
  end.

Fixpoint consistent (i : instr) (sp : spos) {struct i} : bool :=
  match i, sp with
  | IStep _, PFun => true
  | IReturn _, PRet => true
  | IBlock b, PBlock pos ch => cons_block (cons_nth b) b pos ch
  | IIf brs, PIf pos ch =>
      match ch with
      | None => Nat.leb pos (brlen brs)
      | Some c => Nat.ltb pos (brlen brs) && cons_branch brs pos c
      end
  | IWhile _ body, PWhile ch =>
      match ch with
      | None => true
      | Some (PBlock pos c) => cons_block (cons_nth body) body pos c
      | Some _ => false
      end
  | _, _ => false
  end
with cons_nth (b : block) (n : nat) (c : spos) {struct b} : bool :=
  match b, n with
  | BNil, _ => false
  | BCons i _, 0 => consistent i c
  | BCons _ b', S n' => cons_nth b' n' c
  end
with cons_branch (brs : branches) (k : nat) (c : spos) {struct brs} : bool :=
  match brs, k with
  | BrNil, _ => false
  | BrCons _ body _, 0 =>
      match c with
      | PBlock p ch => cons_block (cons_nth body) body p ch
      | _ => false
      end
  | BrCons _ _ rest, S k' => cons_branch rest k' c
  end.

(* ---- names ---- *)
(* Functions are saved by name and looked up again by name.  M2's [fn] identifies a function
   OBJECT; [fname f] is f.__name__ and [attr_of name] is getattr(owner, name) — owner being the
   workchain class for step functions, the process instance for continuations. *)
Record names := mk_names { fname : fn -> string; attr_of : string -> option fn }.

(* f is the attribute of the owner that carries f's own __name__ *)
Definition bound (nm : names) (f : fn) : bool :=
  match attr_of nm (fname nm f) with
  | Some f' => String.eqb f' f
  | None => false
  end.

(* ---- the saved state ---- *)
Inductive sclass := CFun | CRet | CBlock | CIf | CWhile.   (* '!!meta'/'class_name' *)

(* A saved stepper state: the dict written by Savable.save(), key by key.  [pos] is '_pos'
   (auto_persist of _BlockStepper and _IfStepper), [fname] is '_fn' (_FunctionStepper), [child]
   is 'stepper_state' (present iff _child_stepper is not None). *)
Inductive node := Node (cls : sclass) (pos : option nat) (fname : option fn) (child : option node).

Fixpoint save_stepper (nm : names) (s : stepper) : node :=
  match s with
  | SFun f => Node CFun None (Some (fname nm f)) None        (* out_state['_fn'] = self._fn.__name__ *)
  | SRet _ => Node CRet None None None                       (* nothing but the meta block *)
  | SBlock _ pos ch =>
      Node CBlock (Some pos) None (match ch with Some c => Some (save_stepper nm c) | None => None end)
  | SIf _ pos ch =>
      Node CIf (Some pos) None (match ch with Some c => Some (save_stepper nm c) | None => None end)
  | SWhile _ _ ch =>
      Node CWhile None None (match ch with Some c => Some (save_stepper nm c) | None => None end)
  end.

(* a structural dump of the object tree, to compare with the live Python objects: class, _pos,
   _fn.__name__, len(_block) / len(_if_instruction), exit code, child *)
Inductive dnode :=
  DNode (cls : sclass) (pos : option nat) (fname : option fn) (len : option nat) (code : option Z)
        (child : option dnode).

Fixpoint dump (s : stepper) : dnode :=
  match s with
  | SFun f => DNode CFun None (Some f) None None None
  | SRet c => DNode CRet None None None c None
  | SBlock b pos ch =>
      DNode CBlock (Some pos) None (Some (blen b)) None
            (match ch with Some c => Some (dump c) | None => None end)
  | SIf brs pos ch =>
      DNode CIf (Some pos) None (Some (brlen brs)) None
            (match ch with Some c => Some (dump c) | None => None end)
  | SWhile _ body ch =>
      DNode CWhile None None (Some (blen body)) None
            (match ch with Some c => Some (dump c) | None => None end)
  end.

Section Recreate.
  (* [attr_of nm] = the attributes of the workchain class: _FunctionStepper.load_instance_state
     does `getattr(self._workchain.__class__, saved_state['_fn'])` *)
  Variable nm : names.
  (* true: the code as it is — the function is looked up by the saved name.  false: the proposed
     repair (notes/C08-fnrebind.patch) — `self._fn = load_context.func_spec._fn`, the function of
     the instruction the stepper is recreated from.  The harness measures which one the
     implementation does; the theorems hold for both (with [methods_ok] only needed for true). *)
  Variable by_name : bool.

  (* _Block.recreate_stepper -> _BlockStepper.recreate_from -> load_instance_state:
     load_members('_pos') (KeyError when missing), self._block = the instruction it is recreated
     from, child from self._block[self._pos].recreate_stepper (IndexError when out of range) iff
     'stepper_state' is present.  The class name in the meta block is not consulted. *)
  Definition recreate_block (recnth : nat -> node -> exn + stepper) (b : block) (n : node)
      : exn + stepper :=
    match n with
    | Node _ None _ _ => inl EKey
    | Node _ (Some p) _ None => inr (SBlock b p None)
    | Node _ (Some p) _ (Some cn) =>
        match recnth p cn with
        | inr c => inr (SBlock b p (Some c))
        | inl e => inl e
        end
    end.

  Fixpoint recreate (i : instr) (n : node) {struct i} : exn + stepper :=
    match i with
    | IStep f =>
        if by_name then
          (* _FunctionCall.recreate_stepper: the function is NOT taken from the instruction but looked
             up by the saved name on the class *)
          match n with
          | Node _ _ None _ => inl EKey
          | Node _ _ (Some g) _ => match attr_of nm g with
                                   | Some f' => inr (SFun f')
                                   | None => inl EAttribute
                                   end
          end
        else inr (SFun f)
    | IReturn c => inr (SRet c)                 (* _Return.recreate_stepper ignores the saved state *)
    | IBlock b => recreate_block (recreate_nth b) b n
    | IIf brs =>
        match n with
        | Node _ None _ _ => inl EKey
        | Node _ (Some p) _ None => inr (SIf brs p None)
        | Node _ (Some p) _ (Some cn) =>
            (* self._if_instruction[self._pos].body.recreate_stepper(stepper_state, ...) *)
            match recreate_branch brs p cn with
            | inr c => inr (SIf brs p (Some c))
            | inl e => inl e
            end
        end
    | IWhile p body =>
        match n with
        | Node _ _ _ None => inr (SWhile p body None)
        | Node _ _ _ (Some cn) =>
            (* self._while_instruction.body.recreate_stepper(stepper_state, ...) *)
            match recreate_block (recreate_nth body) body cn with
            | inr c => inr (SWhile p body (Some c))
            | inl e => inl e
            end
        end
    end
  with recreate_nth (b : block) (k : nat) (n : node) {struct b} : exn + stepper :=
    match b, k with
    | BNil, _ => inl EIndex
    | BCons i _, 0 => recreate i n
    | BCons _ b', S k' => recreate_nth b' k' n
    end
  with recreate_branch (brs : branches) (k : nat) (n : node) {struct brs} : exn + stepper :=
    match brs, k with
    | BrNil, _ => inl EIndex
    | BrCons _ body _, 0 => recreate_block (recreate_nth body) body n
    | BrCons _ _ rest, S k' => recreate_branch rest k' n
    end.

  (* every step function of the outline is the attribute of the class that carries its __name__ *)
  Fixpoint methods_ok (i : instr) : bool :=
    match i with
    | IStep f => bound nm f
    | IReturn _ => true
    | IBlock b => methods_ok_block b
    | IIf brs => methods_ok_branches brs
    | IWhile _ body => methods_ok_block body
    end
  with methods_ok_block (b : block) : bool :=
    match b with BNil => true | BCons i b' => methods_ok i && methods_ok_block b' end
  with methods_ok_branches (brs : branches) : bool :=
    match brs with
    | BrNil => true
    | BrCons _ body rest => methods_ok_block body && methods_ok_branches rest
    end.

  (* save, then recreate, on M2's representation: WorkChain.save_instance_state /
     load_instance_state for the 'stepper_state' key.  EAssert: (o, sp) denotes no object tree
     (never the case for a consistent pair). *)
  Definition save_pos (o : instr) (sp : spos) : exn + node :=
    match obj o sp with
    | Some s => inr (save_stepper nm s)
    | None => inl EAssert
    end.

  Definition recreate_pos (o : instr) (n : node) : exn + spos :=
    match recreate o n with
    | inr s => inr (pos_of s)
    | inl e => inl e
    end.
End Recreate.

(* ====================================================================== *)
(* 2. The pending continuation: CREATED / RUNNING / WAITING payloads       *)
(* ====================================================================== *)

Definition kwargs := list (string * val).

(* an attribute that may be missing on an object recreated with __new__ + load_instance_state *)
Inductive attr (X : Type) := Absent | Present (x : X).
Arguments Absent {X}.
Arguments Present {X} x.

(* process_states.Command objects.  A freshly constructed command has every attribute Present. *)
Inductive command :=
| CmdContinue (f : fn) (args : list val) (kw : kwargs)
| CmdWait (f : attr (option fn)) (msg : val) (data : val)
| CmdStop (result : val) (successful : attr bool)
| CmdKill (msg : val).

Inductive payload :=
| PCreated (f : fn) (args : list val) (kw : kwargs)                         (* Created: run_fn, args, kwargs *)
| PRunning (f : fn) (args : list val) (kw : kwargs) (cmd : option command)  (* Running: run_fn, args, kwargs, _command *)
| PWaiting (cb : option fn) (msg : val) (data : val).                       (* Waiting: done_callback, msg, data *)

Inductive cclass := KContinue | KWait | KStop | KKill.

(* saved command: auto_persist members + 'continue_fn' (Continue only) *)
Record cnode := mk_cnode {
  cn_class : cclass;
  cn_args : option (list val); cn_kwargs : option kwargs; cn_continue_fn : option string;
  cn_msg : option val; cn_data : option val; cn_result : option val }.

Inductive pclass := KCreated | KRunning | KWaiting.

(* saved state: auto_persist members (args, kwargs | msg, data) + 'run_fn' | 'DONE_CALLBACK' | 'command' *)
Record pnode := mk_pnode {
  pn_class : pclass;
  pn_args : option (list val); pn_kwargs : option kwargs; pn_run_fn : option string;
  pn_command : option cnode;
  pn_msg : option val; pn_data : option val; pn_done_cb : option string }.

Definition save_command (nm : names) (c : command) : cnode :=
  match c with
  | CmdContinue f a kw => mk_cnode KContinue (Some a) (Some kw) (Some (fname nm f)) None None None
  | CmdWait _ msg data => mk_cnode KWait None None None (Some msg) (Some data) None   (* continue_fn is not saved *)
  | CmdStop r _ => mk_cnode KStop None None None None None (Some r)                   (* successful is not saved *)
  | CmdKill msg => mk_cnode KKill None None None (Some msg) None None
  end.

Definition save_payload (nm : names) (p : payload) : pnode :=
  match p with
  | PCreated f a kw => mk_pnode KCreated (Some a) (Some kw) (Some (fname nm f)) None None None None
  | PRunning f a kw cmd =>
      mk_pnode KRunning (Some a) (Some kw) (Some (fname nm f))
               (match cmd with Some c => Some (save_command nm c) | None => None end) None None None
  | PWaiting cb msg data =>
      mk_pnode KWaiting None None None None (Some msg) (Some data)
               (match cb with Some g => Some (fname nm g) | None => None end)
  end.

Definition need {X} (o : option X) : exn + X :=
  match o with Some x => inr x | None => inl EKey end.      (* saved_state[key] -> KeyError *)

Definition bindx {X Y} (m : exn + X) (f : X -> exn + Y) : exn + Y :=
  match m with inr x => f x | inl e => inl e end.

Section Payload.
  (* [attr_of nm] = the attributes of the process instance: run_fn / done_callback / continue_fn
     are rebound with getattr(process, name) *)
  Variable nm : names.

  Definition rebind (g : string) : exn + fn :=
    match attr_of nm g with Some f => inr f | None => inl EAttribute end.

  Definition load_command (n : cnode) : exn + command :=
    match cn_class n with
    | KContinue =>
        bindx (need (cn_args n)) (fun a =>
        bindx (need (cn_kwargs n)) (fun kw =>
        bindx (need (cn_continue_fn n)) (fun f =>    (* utils.load_function(name) -> ValueError -> getattr(process, name) *)
        bindx (rebind f) (fun f' => inr (CmdContinue f' a kw)))))
    | KWait =>
        bindx (need (cn_msg n)) (fun msg =>
        bindx (need (cn_data n)) (fun data => inr (CmdWait Absent msg data)))
    | KStop => bindx (need (cn_result n)) (fun r => inr (CmdStop r Absent))
    | KKill => bindx (need (cn_msg n)) (fun msg => inr (CmdKill msg))
    end.

  Definition load_payload (n : pnode) : exn + payload :=
    match pn_class n with
    | KCreated =>
        bindx (need (pn_args n)) (fun a =>
        bindx (need (pn_kwargs n)) (fun kw =>
        bindx (need (pn_run_fn n)) (fun f =>
        bindx (rebind f) (fun f' => inr (PCreated f' a kw)))))
    | KRunning =>
        bindx (need (pn_args n)) (fun a =>
        bindx (need (pn_kwargs n)) (fun kw =>
        bindx (need (pn_run_fn n)) (fun f =>
        bindx (rebind f) (fun f' =>
        match pn_command n with
        | None => inr (PRunning f' a kw None)
        | Some cn => bindx (load_command cn) (fun c => inr (PRunning f' a kw (Some c)))
        end))))
    | KWaiting =>
        bindx (need (pn_msg n)) (fun msg =>
        bindx (need (pn_data n)) (fun data =>
        match pn_done_cb n with                     (* saved_state.get(DONE_CALLBACK, None) *)
        | None => inr (PWaiting None msg data)
        | Some g => bindx (rebind g) (fun g' => inr (PWaiting (Some g') msg data))
        end))
    end.

  (* every function the payload names is an attribute of the instance; no stored command *)
  Definition payload_ok (p : payload) : bool :=
    match p with
    | PCreated f _ _ => bound nm f
    | PRunning f _ _ None => bound nm f
    | PRunning _ _ _ (Some _) => false
    | PWaiting None _ _ => true
    | PWaiting (Some g) _ _ => bound nm g
    end.

  (* the functions a command continues with are attributes of the instance *)
  Definition command_ok (c : command) : bool :=
    match c with
    | CmdContinue f _ _ => bound nm f
    | CmdWait (Present (Some f)) _ _ => bound nm f
    | CmdWait _ _ _ => true
    | CmdStop _ _ | CmdKill _ => true
    end.
End Payload.

(* ====================================================================== *)
(* 3. Runs with restores, generically                                      *)
(* ====================================================================== *)

Section Resume.
  Variable X : Type.                       (* configuration of a live process at a step boundary *)
  Variable F : Type.                       (* final outcome *)
  Variable step : nat -> X -> F + X.       (* one Process.step() at boundary number k *)
  Variable restore : X -> exn + X.         (* Bundle -> medium -> unbundle, old instance abandoned *)

  Fixpoint restore_n (m : nat) (x : X) : exn + X :=
    match m with
    | 0 => inr x
    | S m' => match restore x with
              | inr x' => restore_n m' x'
              | inl e => inl e
              end
    end.

  Inductive rres :=
  | RDone (f : F)
  | RRestoreFailed (k : nat) (e : exn).    (* loading the checkpoint taken at boundary k raised *)

  (* [rs k] = number of consecutive restores performed at boundary k (0 = no crash there): every
     subset of boundaries and every number of consecutive restores is some [rs].  None = out of
     fuel. *)
  Fixpoint run_r (rs : nat -> nat) (n : nat) (k : nat) (x : X) : option rres :=
    match n with
    | 0 => None
    | S n' =>
        match restore_n (rs k) x with
        | inl e => Some (RRestoreFailed k e)
        | inr x' =>
            match step k x' with
            | inl f => Some (RDone f)
            | inr x'' => run_r rs n' (S k) x''
            end
        end
    end.

  Definition no_restores : nat -> nat := fun _ => 0.

  (* the same run, also recording an observation of the configuration each step starts from (after
     the restores placed at that boundary) — used by the correspondence check *)
  Fixpoint run_r_obs (O : Type) (obsf : X -> O) (rs : nat -> nat) (n : nat) (k : nat) (x : X)
      : list O * option rres :=
    match n with
    | 0 => ([], None)
    | S n' =>
        match restore_n (rs k) x with
        | inl e => ([], Some (RRestoreFailed k e))
        | inr x' =>
            match step k x' with
            | inl f => ([obsf x'], Some (RDone f))
            | inr x'' => let '(l, r) := run_r_obs O obsf rs n' (S k) x'' in (obsf x' :: l, r)
            end
        end
    end.
End Resume.
Arguments RDone {F} f.
Arguments RRestoreFailed {F} k e.

(* ====================================================================== *)
(* 4. A plain Process program                                              *)
(* ====================================================================== *)

Inductive outcome :=
| OFinished (result : val) (successful : bool)
| OExcepted (e : exn)
| OKilled (msg : val).

Section Proc.
  Variable U : Type.                       (* the persisted user state: ctx (ContextMixin), outputs *)
  (* a step method f(self, *args, **kwargs): new persisted state and the command it returns (a
     plain return value v is Stop(v, True)) or the exception it raises.  A function of the
     persisted state and its arguments only: the property's "persisted_only" assumption. *)
  Variable ufn : fn -> U -> list val -> kwargs -> U * (exn + command).
  Variable nm : names.                     (* [attr_of nm]: the attributes of the process instance *)
  (* Running._action_command passes **command.kwargs on (false: they are dropped, finding D1) *)
  Variable keep_kwargs : bool.
  (* the value the environment resumes the wait at boundary k with (None: resume() without value);
     replayed after a restore *)
  Variable resume : nat -> option val.
  (* how the user state is written into / read from the bundle *)
  Variable UB : Type.
  Variable usave : U -> UB.
  Variable uload : UB -> exn + U.

  Definition pcfg := (payload * U)%type.

  (* Running._action_command *)
  Definition action (c : command) : exn + (outcome + payload) :=
    match c with
    | CmdKill msg => inr (inl (OKilled msg))
    | CmdStop r (Present b) => inr (inl (OFinished r b))
    | CmdStop _ Absent => inl EAttribute
    | CmdWait (Present f) msg data => inr (inr (PWaiting f msg data))
    | CmdWait Absent _ _ => inl EAttribute
    | CmdContinue f a kw => inr (inr (PRunning f a (if keep_kwargs then kw else []) None))
    end.

  Definition after_action (c : command) (u : U) : (outcome * U) + pcfg :=
    match action c with
    | inl e => inl (OExcepted e, u)
    | inr (inl o) => inl (o, u)
    | inr (inr p) => inr (p, u)
    end.

  (* one Process.step(): execute() of the current state, then the transition *)
  Definition proc_step (k : nat) (x : pcfg) : (outcome * U) + pcfg :=
    let '(p, u) := x in
    match p with
    | PCreated f a kw => inr (PRunning f a kw None, u)
    | PRunning _ _ _ (Some c) => after_action c u
    | PRunning f a kw None =>
        let '(u', r) := ufn f u a kw in
        match r with
        | inl e => inl (OExcepted e, u')
        | inr c => after_action c u'
        end
    | PWaiting None _ _ => inl (OExcepted EAssert, u)      (* Running.__init__: assert run_fn is not None *)
    | PWaiting (Some g) _ _ =>
        inr (PRunning g (match resume k with Some v => [v] | None => [] end) [] None, u)
    end.

  Record pbundle := mk_pbundle { pb_state : pnode; pb_user : UB }.

  Definition proc_save (x : pcfg) : pbundle := mk_pbundle (save_payload nm (fst x)) (usave (snd x)).

  Definition proc_load (b : pbundle) : exn + pcfg :=
    bindx (load_payload nm (pb_state b)) (fun p =>
    bindx (uload (pb_user b)) (fun u => inr (p, u))).

  Definition proc_restore (x : pcfg) : exn + pcfg := proc_load (proc_save x).

  Definition proc_run_r := run_r pcfg (outcome * U) proc_step proc_restore.

  (* the process starts in CREATED with run_fn = run *)
  Definition proc_init (u : U) : pcfg := (PCreated "run" [] [], u).

  (* hypothesis on the program, not on the run: every function a step continues with or waits
     for is an attribute of the process (a foreign function cannot be rebound by name) *)
  Definition closed_program : Prop :=
    forall f u a kw u' c, ufn f u a kw = (u', inr c) -> command_ok nm c = true.
End Proc.

(* ====================================================================== *)
(* 5. A WorkChain                                                          *)
(* ====================================================================== *)

Section WC.
  Variable W : Type.
  Variable A : Type.
  Variable stepf : fn -> W -> W * list A * (exn + rv A).
  Variable predf : string -> W -> W * (exn + bool).
  Variable assign : list A -> W -> W.
  Variable nm : names.                     (* [attr_of nm]: attributes of the workchain class / instance *)
  Variable by_name : bool.                 (* see Section Recreate *)
  Variable WB : Type.                      (* how the user state (ctx, outputs) is written into the bundle *)
  Variable wsave : W -> WB.
  Variable wload : WB -> exn + W.
  Variable o : instr.                      (* the outline of the class: spec().get_outline() *)

  (* the state the process is in at a boundary: a savable payload, or the WAITING state entered
     for a ToContext barrier, which holds the awaited futures in `data` and `_awaiting` *)
  Inductive wstate :=
  | WPay (p : payload)
  | WAwait (aw : list A).

  Record wcfg := mk_wcfg { wc_state : wstate; wc_sp : option spos; wc_ist : ist W A }.

  Definition wfinal := (ist W A * option spos * (exn + rv A))%type.

  Definition do_step_name : fn := "_do_step".
  Definition run_name : fn := "run".

  Definition is_do_step (f : fn) : bool := String.eqb f run_name || String.eqb f do_step_name.

  (* one Process.step() of a WorkChain *)
  Definition wc_step (_ : nat) (x : wcfg) : wfinal + wcfg :=
    let s := wc_ist x in
    match wc_state x with
    | WPay (PCreated f a kw) => inr (mk_wcfg (WPay (PRunning f a kw None)) (wc_sp x) s)
    | WPay (PRunning f a kw None) =>
        if negb (is_do_step f) then inl (s, wc_sp x, inl EAttribute)      (* not produced by a workchain *)
        else
          match a, kw with
          | [], [] =>
              match wc_sp x with
              | None => inl (s, None, inl EAssert)                        (* assert self._stepper is not None *)
              | Some sp =>
                  let '(s1, sp1, d) := do_step W A stepf predf o sp s in
                  match d with
                  | DFinish _ r => inl (s1, Some sp1, inr r)
                  | DFail _ e => inl (s1, Some sp1, inl e)
                  | DContinue _ => inr (mk_wcfg (WPay (PRunning do_step_name [] [] None)) (Some sp1) s1)
                  | DWait _ aw => inr (mk_wcfg (WAwait aw) (Some sp1) s1)
                  end
              end
          | _, _ => inl (s, wc_sp x, inl EType)                           (* run()/_do_step() take no argument *)
          end
    | WPay (PRunning _ _ _ (Some _)) => inl (s, wc_sp x, inl EAttribute)  (* not produced by a workchain *)
    | WPay (PWaiting _ _ _) => inl (s, wc_sp x, inl EAttribute)           (* not produced by a workchain *)
    | WAwait aw =>
        (* all awaited futures done: ctx[key] = result for each, then RUNNING(done_callback = _do_step) *)
        inr (mk_wcfg (WPay (PRunning do_step_name [] [] None)) (wc_sp x)
                     (mk_ist W A (assign aw (iw W A s)) (icalls W A s) (iaw W A s)))
    end.

  Record wbundle := mk_wbundle { wb_state : pnode; wb_stepper : option node; wb_user : WB }.

  (* Bundle(workchain).  EType: "cannot pickle '_asyncio.Future' object" — a WAITING state that
     holds futures cannot be saved at all. *)
  Definition wc_save (x : wcfg) : exn + wbundle :=
    match wc_state x with
    | WAwait _ => inl EType
    | WPay p =>
        match wc_sp x with
        | None => inr (mk_wbundle (save_payload nm p) None (wsave (iw W A (wc_ist x))))
        | Some sp =>
            bindx (save_pos nm o sp) (fun n =>
            inr (mk_wbundle (save_payload nm p) (Some n) (wsave (iw W A (wc_ist x)))))
        end
    end.

  (* bundle.unbundle() in a fresh loop.  Order as in Process.load_instance_state /
     ContextMixin / WorkChain.load_instance_state: state first, then the context, then the stepper.
     [tr]: the trace of calls made so far is an observation of the whole history, not process
     state; self._awaitables is not persisted (and is reset at the start of every _do_step). *)
  Definition wc_load (tr : list call) (b : wbundle) : exn + wcfg :=
    bindx (load_payload nm (wb_state b)) (fun p =>
    bindx (wload (wb_user b)) (fun w =>
    match wb_stepper b with
    | None => inr (mk_wcfg (WPay p) None (mk_ist W A w tr []))
    | Some n =>
        bindx (recreate nm by_name o n) (fun s =>
        (* M2 keeps a stepper as (outline, position): it can only follow a recreated object tree
           that is the tree this pair denotes.  The one way it can fail to be is a function stepper
           that came back holding another function than its instruction's (finding C08-fnrebind):
           the model stops there and says so. *)
        match obj o (pos_of s) with
        | Some s0 =>
            if option_eqb String.eqb (live_fn s) (live_fn s0)
            then inr (mk_wcfg (WPay p) (Some (pos_of s)) (mk_ist W A w tr []))
            else inl (EUser "C08-fnrebind")
        | None => inl EAssert
        end)
    end)).

  (* a crash + restore at a boundary; where no checkpoint can be taken the run just goes on *)
  Definition wc_restore (x : wcfg) : exn + wcfg :=
    match wc_save x with
    | inl _ => inr x
    | inr b => wc_load (icalls W A (wc_ist x)) b
    end.

  Definition wc_run_r := run_r wcfg wfinal wc_step wc_restore.

  (* WorkChain.__init__: on_create built the stepper; state CREATED with run_fn = run *)
  Definition wc_init (sp : spos) (w : W) : wcfg :=
    mk_wcfg (WPay (PCreated run_name [] [])) (Some sp) (mk_ist W A w [] []).
End WC.
Arguments WPay {A} p.
Arguments WAwait {A} aw.
