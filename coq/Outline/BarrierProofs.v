(* Outline/BarrierProofs.v — proofs about the ToContext barrier model (Outline/Barrier.v), property C10.
   One invariant over the world, preserved by every environment event (Complete k outcome | Tick), for ANY
   program [dostep], any fuel, any event list.  The property theorems of Props/C10.v are read off it. *)
From Coq Require Import List ZArith String Bool Arith Lia Permutation.
From Plumpy Require Import Val OutlineModel Barrier.
Import ListNotations.

Lemma NoDup_app_l : forall {A} (l l' : list A), NoDup (l ++ l') -> NoDup l.
Proof.
  induction l as [|a l IH]; simpl; intros l' H; [constructor|].
  inversion H as [|? ? Hn H']; subst. constructor; [|eapply IH; eauto].
  intros Hin. apply Hn. apply in_or_app. now left.
Qed.

Lemma NoDup_snoc : forall {A} (l : list A) (a : A), NoDup l -> ~ In a l -> NoDup (l ++ [a]).
Proof.
  induction l as [|b l IH]; simpl; intros a ND H.
  - constructor; [intros []|constructor].
  - inversion ND as [|? ? Hn ND']; subst. constructor.
    + rewrite in_app_iff. intros [H1|[H1|[]]]; [contradiction|]. subst. apply H. now left.
    + apply IH; [assumption|]. intros H1. apply H. now right.
Qed.

(* ------------------------------------------------------------------ association lists keyed by nat *)
Section NAssoc.
  Context {X : Type}.
  Implicit Types d : list (nat * X).

  Lemma nget_app : forall k d d', nget k (d ++ d') = match nget k d with Some x => Some x | None => nget k d' end.
  Proof.
    induction d as [|[k' x] d IH]; intros d'; simpl; [reflexivity|].
    destruct (Nat.eqb k k'); [reflexivity|apply IH].
  Qed.

  Lemma nget_In : forall k x d, nget k d = Some x -> In (k, x) d.
  Proof.
    induction d as [|[k' x'] d IH]; simpl; intros H; [discriminate|].
    destruct (Nat.eqb k k') eqn:E.
    - apply Nat.eqb_eq in E. inversion H. subst. now left.
    - right. now apply IH.
  Qed.

  Lemma nget_None : forall k d, nget k d = None <-> ~ In k (map fst d).
  Proof.
    induction d as [|[k' x'] d IH]; simpl.
    - split; [intros _ []|reflexivity].
    - destruct (Nat.eqb k k') eqn:E.
      + apply Nat.eqb_eq in E. subst. split; [discriminate|intros H; exfalso; apply H; now left].
      + apply Nat.eqb_neq in E. rewrite IH. split.
        * intros H [H1|H1]; [congruence|auto].
        * intros H H1. apply H. now right.
  Qed.

  Lemma nget_Some_in : forall k x d, nget k d = Some x -> In k (map fst d).
  Proof. intros k x d H. apply nget_In in H. apply (in_map fst) in H. exact H. Qed.

  Lemma In_nget : forall k x d, NoDup (map fst d) -> In (k, x) d -> nget k d = Some x.
  Proof.
    induction d as [|[k' x'] d IH]; simpl; intros ND H; [destruct H|].
    inversion ND as [|? ? Hn ND']; subst.
    destruct H as [H|H].
    - inversion H; subst. now rewrite Nat.eqb_refl.
    - destruct (Nat.eqb k k') eqn:E.
      + apply Nat.eqb_eq in E. subst. exfalso. apply Hn. apply (in_map fst) in H. exact H.
      + now apply IH.
  Qed.

  Lemma nremove_fst_in : forall k k' d, In k' (map fst (nremove k d)) -> In k' (map fst d).
  Proof.
    induction d as [|[k2 x2] d IH]; simpl; intros H; [exact H|].
    destruct (Nat.eqb k k2); simpl in *; [now right|].
    destruct H as [H|H]; [now left|right; now apply IH].
  Qed.

  Lemma nremove_NoDup : forall k d, NoDup (map fst d) -> NoDup (map fst (nremove k d)).
  Proof.
    induction d as [|[k2 x2] d IH]; simpl; intros ND; [constructor|].
    inversion ND as [|? ? Hn ND']; subst.
    destruct (Nat.eqb k k2); simpl; [exact ND'|].
    constructor; [|now apply IH]. intros H. apply Hn. eapply nremove_fst_in; eauto.
  Qed.

  Lemma nget_nremove : forall k k' d, NoDup (map fst d) ->
    nget k' (nremove k d) = if Nat.eqb k' k then None else nget k' d.
  Proof.
    induction d as [|[k2 x2] d IH]; simpl; intros ND.
    - now destruct (Nat.eqb k' k).
    - inversion ND as [|? ? Hn ND']; subst.
      destruct (Nat.eqb k k2) eqn:E.
      + apply Nat.eqb_eq in E. subst k2.
        destruct (Nat.eqb k' k) eqn:E2; [|reflexivity].
        apply Nat.eqb_eq in E2. subst. now apply nget_None.
      + simpl. destruct (Nat.eqb k' k2) eqn:E3.
        * apply Nat.eqb_eq in E3. subst k2. destruct (Nat.eqb k' k) eqn:E4; [|reflexivity].
          apply Nat.eqb_eq in E4. subst. rewrite Nat.eqb_refl in E. discriminate.
        * now apply IH.
  Qed.

  Lemma nremove_in_iff : forall k k' d, NoDup (map fst d) ->
    (In k' (map fst (nremove k d)) <-> k' <> k /\ In k' (map fst d)).
  Proof.
    intros k k' d ND. split.
    - intros H. split; [|eapply nremove_fst_in; eauto].
      intros ->. assert (Hn : nget k (nremove k d) = None) by (rewrite nget_nremove by assumption; now rewrite Nat.eqb_refl).
      apply nget_None in Hn. contradiction.
    - intros [Hne H]. destruct (nget k' (nremove k d)) eqn:E.
      + eapply nget_Some_in; eauto.
      + rewrite nget_nremove in E by assumption. apply Nat.eqb_neq in Hne. rewrite Hne in E.
        apply nget_None in E. contradiction.
  Qed.

  Lemma nset_fst : forall k x d, In k (map fst d) -> map fst (nset k x d) = map fst d.
  Proof.
    induction d as [|[k2 x2] d IH]; simpl; intros H; [destruct H|].
    destruct (Nat.eqb k k2) eqn:E; simpl.
    - apply Nat.eqb_eq in E. now subst.
    - f_equal. apply IH. destruct H as [H|H]; [|exact H]. apply Nat.eqb_neq in E. congruence.
  Qed.

  Lemma nset_fst_new : forall k x d, ~ In k (map fst d) -> map fst (nset k x d) = map fst d ++ [k].
  Proof.
    induction d as [|[k2 x2] d IH]; simpl; intros H; [reflexivity|].
    destruct (Nat.eqb k k2) eqn:E; simpl.
    - apply Nat.eqb_eq in E. subst. exfalso. apply H. now left.
    - f_equal. apply IH. intros H1. apply H. now right.
  Qed.

  Lemma nset_NoDup : forall k x d, NoDup (map fst d) -> NoDup (map fst (nset k x d)).
  Proof.
    intros k x d ND. destruct (in_dec Nat.eq_dec k (map fst d)) as [H|H].
    - now rewrite nset_fst.
    - rewrite nset_fst_new by assumption. apply NoDup_snoc; assumption.
  Qed.
End NAssoc.

Lemma aw_dict_NoDup : forall regs, NoDup (map fst (aw_dict regs)).
Proof.
  intros regs. unfold aw_dict.
  assert (H : forall (l : list reg) d, NoDup (map fst d) ->
            NoDup (map fst (fold_left (fun d r => nset (snd r) (fst r) d) l d))).
  { induction l as [|r l IH]; simpl; intros d ND; [exact ND|]. apply IH. now apply nset_NoDup. }
  apply H. constructor.
Qed.

(* ------------------------------------------------------------------ the context (string keys) *)
Lemma alist_get_set_same : forall {A} k (v : A) l, alist_get k (alist_set k v l) = Some v.
Proof.
  induction l as [|[k' v'] l IH]; simpl.
  - now rewrite String.eqb_refl.
  - destruct (String.eqb k k') eqn:E; simpl.
    + now rewrite String.eqb_refl.
    + now rewrite E.
Qed.

Lemma alist_get_set_other : forall {A} k k2 (v : A) l, k2 <> k -> alist_get k2 (alist_set k v l) = alist_get k2 l.
Proof.
  induction l as [|[k' v'] l IH]; simpl; intros Hne.
  - destruct (String.eqb k2 k) eqn:E; [apply String.eqb_eq in E; congruence|reflexivity].
  - destruct (String.eqb k k') eqn:E; simpl.
    + apply String.eqb_eq in E. subst k'.
      destruct (String.eqb k2 k) eqn:E2; [apply String.eqb_eq in E2; congruence|reflexivity].
    + destruct (String.eqb k2 k'); [reflexivity|now apply IH].
Qed.

(* ------------------------------------------------------------------ the ready queue *)
Definition cb_ks (r : list cb) : list nat :=
  flat_map (fun c => match c with CbDone _ k => [k] | _ => [] end) r.
Definition ntask (r : list cb) : nat :=
  List.length (filter (fun c => match c with CbTask => true | _ => false end) r).
Definition cb_wid_is (wid : nat) (c : cb) : Prop :=
  match c with CbDone wid' _ => wid' = wid | _ => True end.

Lemma cb_ks_app : forall r r', cb_ks (r ++ r') = cb_ks r ++ cb_ks r'.
Proof. intros. unfold cb_ks. now rewrite flat_map_app. Qed.
Lemma ntask_app : forall r r', ntask (r ++ r') = ntask r + ntask r'.
Proof. intros. unfold ntask. now rewrite filter_app, app_length. Qed.

Lemma cb_ks_in : forall r k, In k (cb_ks r) <-> exists wid, In (CbDone wid k) r.
Proof.
  intros r k. unfold cb_ks. rewrite in_flat_map. split.
  - intros [c [H1 H2]]. destruct c; simpl in H2; try contradiction.
    destruct H2 as [H2|[]]. subst. eauto.
  - intros [wid H]. exists (CbDone wid k). split; [exact H|now left].
Qed.

Lemma cb_ks_nil_wid : forall r wid, cb_ks r = [] -> Forall (cb_wid_is wid) r.
Proof.
  induction r as [|c r IH]; intros wid H; constructor.
  - destruct c; simpl in *; try exact I. discriminate.
  - apply IH. destruct c; simpl in H; try exact H. discriminate.
Qed.

Lemma filter_partition_perm : forall {A} (p : A -> bool) l,
  Permutation (filter p l ++ filter (fun x => negb (p x)) l) l.
Proof.
  induction l as [|a l IH]; simpl; [constructor|].
  destruct (p a); simpl.
  - now constructor.
  - apply Permutation_sym. apply Permutation_cons_app. now apply Permutation_sym.
Qed.

(* ------------------------------------------------------------------ reading the trace *)
Definition benign (e : ev) : Prop :=
  match e with EvCb _ _ (OVal _) | EvCb _ _ OCancel | EvLoopErr _ | EvEnd _ => True | _ => False end.

Lemma first_fail_cons_some : forall e t x, first_fail t = Some x -> first_fail (e :: t) = Some x.
Proof. intros e t x H. simpl. now rewrite H. Qed.

Lemma first_fail_app_some : forall t2 t1 x, first_fail t1 = Some x -> first_fail (t2 ++ t1) = Some x.
Proof. induction t2 as [|e t2 IH]; simpl; intros t1 x H; [exact H|]. now rewrite (IH _ _ H). Qed.

Lemma first_fail_mid : forall t2 wid k e t1, first_fail (t2 ++ EvCb wid k (OExn e) :: t1) <> None.
Proof.
  intros t2 wid k e t1 H.
  destruct (first_fail t1) eqn:E.
  - rewrite (first_fail_app_some t2 (EvCb wid k (OExn e) :: t1) e0) in H; [discriminate|].
    now apply first_fail_cons_some.
  - rewrite (first_fail_app_some t2 (EvCb wid k (OExn e) :: t1) e) in H; [discriminate|].
    simpl. now rewrite E.
Qed.

(* what the step that starts with context c, seeing the futures dn done, can rely on (t = the trace before it) *)
Definition uniq_key (key : string) (aw : list (nat * string)) (k : nat) : Prop :=
  forall k', In (k', key) aw -> k' = k.

Definition step_ok (c : ctx) (dn : list nat) (t : list ev) : Prop :=
  forall wid aw, last_wait t = Some (wid, aw) ->
  forall k key, In (k, key) aw ->
    In k dn /\
    exists v, In (EvDone k (OVal v)) t /\
              (uniq_key key aw k -> alist_get key c = Some v) /\
              exists k' v', In (k', key) aw /\ In (EvDone k' (OVal v')) t /\ alist_get key c = Some v'.

Fixpoint trace_ok (t : list ev) : Prop :=
  match t with
  | [] => True
  | EvStep n c dn :: t' => step_ok c dn t' /\ first_fail t' = None /\ trace_ok t'
  | EvWait _ _ :: t' => (exists n c dn t'', t' = EvStep n c dn :: t'') /\ trace_ok t'   (* a wait is entered by a step *)
  | _ :: t' => trace_ok t'
  end.

Lemma trace_ok_split : forall t2 n c dn t1,
  trace_ok (t2 ++ EvStep n c dn :: t1) -> step_ok c dn t1 /\ first_fail t1 = None.
Proof.
  induction t2 as [|e t2 IH]; simpl; intros n c dn t1 H.
  - tauto.
  - destruct e; try (now apply (IH _ _ _ _ H)).
    + destruct H as [_ [_ H]]. now apply (IH _ _ _ _ H).
    + destruct H as [_ H]. now apply (IH _ _ _ _ H).
Qed.

Lemma trace_ok_app_r : forall t2 t1, trace_ok (t2 ++ t1) -> trace_ok t1.
Proof.
  induction t2 as [|e t2 IH]; simpl; intros t1 H; [exact H|].
  destruct e; try (now apply IH).
Qed.

Definition is_done_ev (e : ev) : Prop := match e with EvDone _ _ => True | _ => False end.

Lemma all_done_last_wait : forall t, Forall is_done_ev t -> last_wait t = None.
Proof. induction 1 as [|e t He _ IH]; simpl; [reflexivity|]. destruct e; simpl in He; try contradiction. exact IH. Qed.
Lemma all_done_first_fail : forall t, Forall is_done_ev t -> first_fail t = None.
Proof. induction 1 as [|e t He _ IH]; simpl; [reflexivity|]. rewrite IH. destruct e; simpl in He; try contradiction. reflexivity. Qed.
Lemma all_done_trace_ok : forall t, Forall is_done_ev t -> trace_ok t.
Proof. induction 1 as [|e t He _ IH]; simpl; [exact I|]. destruct e; simpl in He; try contradiction. exact IH. Qed.
Lemma all_done_no_stuck : forall t, Forall is_done_ev t -> ~ In EvStuck t.
Proof. intros t H Hin. rewrite Forall_forall in H. apply H in Hin. exact Hin. Qed.

Lemma first_fail_cons_plain : forall e t,
  match e with EvCb _ _ (OExn _) => False | _ => True end -> first_fail (e :: t) = first_fail t.
Proof.
  intros e t H. simpl. destruct (first_fail t); [reflexivity|].
  destruct e; try reflexivity. destruct o; try reflexivity. contradiction.
Qed.

Lemma first_fail_cons_exn : forall wid k x t, first_fail t = None -> first_fail (EvCb wid k (OExn x) :: t) = Some x.
Proof. intros. simpl. now rewrite H. Qed.

Arguments first_fail : simpl never.

Definition plain_ev (e : ev) : Prop :=
  match e with EvEnd _ => True | _ => False end.

(* ------------------------------------------------------------------ facts about (done futures, trace) *)
Record Common (f : list (nat * outcome)) (t : list ev) : Prop := {
  c_nostuck : ~ In EvStuck t;
  c_nocancel : forall k, nget k f <> Some OCancel;
  c_done : forall k o, nget k f = Some o <-> In (EvDone k o) t;
  c_cb : forall wid k o, In (EvCb wid k o) t -> nget k f = Some o;
  c_noerr : forall e, ~ In (EvLoopErr e) t;
  c_trace : trace_ok t }.

Lemma nget_mono : forall (f : list (nat * outcome)) k o k' o', nget k' f = Some o' -> nget k' (f ++ [(k, o)]) = Some o'.
Proof. intros. rewrite nget_app. now rewrite H. Qed.

Lemma common_cons : forall f t e, Common f t -> plain_ev e -> Common f (e :: t).
Proof.
  intros f t e [H1 H2 H3 H5 H6 H4] He. split.
  - intros [H|H]; [subst; exact He|contradiction].
  - exact H2.
  - intros k o. rewrite H3. split; [now right|]. intros [H|H]; [subst; contradiction|exact H].
  - intros wid k o [H|H]; [subst; contradiction|eauto].
  - intros x [H|H]; [subst; contradiction|exact (H6 x H)].
  - destruct e; try exact H4; contradiction.
Qed.

Lemma common_cb : forall f t wid k o, Common f t -> nget k f = Some o -> Common f (EvCb wid k o :: t).
Proof.
  intros f t wid k o [H1 H2 H3 H5 H6 H4] Ho. split.
  - intros [H|H]; [discriminate|contradiction].
  - exact H2.
  - intros k' o'. rewrite H3. split; [now right|]. intros [H|H]; [discriminate|exact H].
  - intros wid' k' o' [H|H]; [inversion H; subst; exact Ho|eauto].
  - intros x [H|H]; [discriminate|exact (H6 x H)].
  - exact H4.
Qed.

Lemma common_wait : forall f t wid aw, Common f t -> (exists n c dn t'', t = EvStep n c dn :: t'') ->
  Common f (EvWait wid aw :: t).
Proof.
  intros f t wid aw [H1 H2 H3 H5 H6 H4] Hs. split.
  - intros [H|H]; [discriminate|contradiction].
  - exact H2.
  - intros k' o'. rewrite H3. split; [now right|]. intros [H|H]; [discriminate|exact H].
  - intros wid' k' o' [H|H]; [discriminate|eauto].
  - intros x [H|H]; [discriminate|exact (H6 x H)].
  - simpl. split; assumption.
Qed.

Lemma common_step : forall f t n c dn, Common f t -> step_ok c dn t -> first_fail t = None ->
  Common f (EvStep n c dn :: t).
Proof.
  intros f t n c dn [H1 H2 H3 H5 H6 H4] Hs Hf. split.
  - intros [H|H]; [discriminate|contradiction].
  - exact H2.
  - intros k o. rewrite H3. split; [now right|]. intros [H|H]; [discriminate|exact H].
  - intros wid k o [H|H]; [discriminate|eauto].
  - intros x [H|H]; [discriminate|exact (H6 x H)].
  - simpl. tauto.
Qed.

Lemma common_done : forall f t k o, Common f t -> nget k f = None -> o <> OCancel ->
  Common (f ++ [(k, o)]) (EvDone k o :: t).
Proof.
  intros f t k o [H1 H2 H3 H5 H6 H4] Hn Ho. split.
  - intros [H|H]; [discriminate|contradiction].
  - intros k'. rewrite nget_app. destruct (nget k' f) eqn:E; [rewrite <- E; apply H2|].
    simpl. destruct (Nat.eqb k' k); [congruence|discriminate].
  - intros k' o'. rewrite nget_app. destruct (nget k' f) eqn:E.
    + split.
      * intros H. inversion H; subst. right. now apply H3.
      * intros [H|H].
        -- inversion H; subst. congruence.
        -- apply H3 in H. congruence.
    + simpl. destruct (Nat.eqb k' k) eqn:E2.
      * apply Nat.eqb_eq in E2. subst k'. split.
        -- intros H. inversion H. now left.
        -- intros [H|H]; [now inversion H|]. apply H3 in H. congruence.
      * apply Nat.eqb_neq in E2. split; [discriminate|].
        intros [H|H]; [inversion H; congruence|]. apply H3 in H. congruence.
  - intros wid k' o' [H|H]; [discriminate|]. apply nget_mono. eauto.
  - intros x [H|H]; [discriminate|exact (H6 x H)].
  - exact H4.
Qed.


(* ------------------------------------------------------------------ the structure of a wait *)
(* rd: loop._ready, cb: registered done-callbacks, f: done futures, wid/aw0/aw: the Waiting state object *)
Record WStruct (rd : list cb) (cb : list (nat * nat)) (f : list (nat * outcome))
               (wid : nat) (aw0 aw : list (nat * string)) : Prop := {
  ws_nd0 : NoDup (map fst aw0);
  ws_nd : NoDup (map fst aw);
  ws_sub : forall k key, nget k aw = Some key -> In (k, key) aw0;
  ws_pend_nd : NoDup (cb_ks rd ++ map fst cb);
  ws_pend : forall k, In k (cb_ks rd ++ map fst cb) <-> In k (map fst aw);
  ws_wids : Forall (cb_wid_is wid) rd;
  ws_cwids : Forall (fun p => snd p = wid) cb;
  ws_rdone : forall k, In k (cb_ks rd) -> nget k f <> None;
  ws_cpend : forall k, In k (map fst cb) -> nget k f = None }.

Lemma ws_pop_other : forall c r cb f wid aw0 aw,
  match c with CbDone _ _ => False | _ => True end ->
  WStruct (c :: r) cb f wid aw0 aw -> WStruct r cb f wid aw0 aw.
Proof.
  intros c r cb f wid aw0 aw Hc [A B C D E F G H I].
  assert (Hk : cb_ks (c :: r) = cb_ks r) by (destruct c; try reflexivity; contradiction).
  rewrite Hk in *. split; auto. now inversion F.
Qed.

Lemma ws_push_other : forall c r cb f wid aw0 aw,
  match c with CbDone _ _ => False | _ => True end ->
  WStruct r cb f wid aw0 aw -> WStruct (r ++ [c]) cb f wid aw0 aw.
Proof.
  intros c r cb f wid aw0 aw Hc [A B C D E F G H I].
  assert (Hk : cb_ks (r ++ [c]) = cb_ks r).
  { rewrite cb_ks_app. destruct c; try contradiction; simpl; now rewrite app_nil_r. }
  split; auto.
  - now rewrite Hk.
  - intros k. now rewrite Hk.
  - apply Forall_app. split; [exact F|]. constructor; [|constructor]. destruct c; simpl; auto. contradiction.
  - intros k. rewrite Hk. apply H.
Qed.

Lemma ws_pop : forall wid' k r cb f wid aw0 aw,
  WStruct (CbDone wid' k :: r) cb f wid aw0 aw ->
  WStruct r cb f wid aw0 (nremove k aw) /\ wid' = wid /\
  (exists key, nget k aw = Some key) /\ (exists o, nget k f = Some o).
Proof.
  intros wid' k r cb f wid aw0 aw [A B C D E F G H I].
  simpl in D, E, H. inversion D as [|? ? Hn D']; subst.
  assert (Hk : In k (map fst aw)) by (apply E; now left).
  split; [|split; [|split]].
  - split.
    + exact A.
    + now apply nremove_NoDup.
    + intros k' key Hg. rewrite nget_nremove in Hg by assumption.
      destruct (Nat.eqb k' k); [discriminate|]. now apply C.
    + exact D'.
    + intros k'. rewrite nremove_in_iff by assumption. split.
      * intros Hin. split; [intros ->; contradiction|]. apply E. now right.
      * intros [Hne Hin]. apply E in Hin. destruct Hin as [Hin|Hin]; [congruence|exact Hin].
    + now inversion F.
    + exact G.
    + intros k' Hin. apply H. now right.
    + exact I.
  - inversion F as [|? ? Hw _]; subst. exact Hw.
  - destruct (nget k aw) eqn:E1; [eauto|]. apply nget_None in E1. contradiction.
  - destruct (nget k f) eqn:E1; [eauto|]. exfalso. apply (H k); [now left|exact E1].
Qed.

Lemma cb_ks_map_done : forall (l : list (nat * nat)) k, cb_ks (map (fun p => CbDone (snd p) k) l) = map (fun _ => k) l.
Proof. induction l as [|p l IH]; intros k; simpl; [reflexivity|]. now rewrite IH. Qed.

Lemma ntask_map_done : forall (l : list (nat * nat)) k, ntask (map (fun p => CbDone (snd p) k) l) = 0.
Proof. induction l as [|p l IH]; intros k; simpl; [reflexivity|]. apply IH. Qed.

Lemma map_const_filter : forall (l : list (nat * nat)) k,
  map (fun _ => k) (filter (fun p => Nat.eqb (fst p) k) l) = map fst (filter (fun p => Nat.eqb (fst p) k) l).
Proof.
  induction l as [|p l IH]; intros k; simpl; [reflexivity|].
  destruct (Nat.eqb (fst p) k) eqn:E; simpl; [|apply IH].
  apply Nat.eqb_eq in E. f_equal; [symmetry; exact E|apply IH].
Qed.

Lemma ws_complete : forall rd cb f wid aw0 aw k o,
  WStruct rd cb f wid aw0 aw -> nget k f = None ->
  WStruct (rd ++ map (fun p => CbDone (snd p) k) (filter (fun p => Nat.eqb (fst p) k) cb))
          (filter (fun p => negb (Nat.eqb (fst p) k)) cb) (f ++ [(k, o)]) wid aw0 aw.
Proof.
  intros rd cb f wid aw0 aw k o [A B C D E F G H I] Hn.
  assert (P : Permutation
            (cb_ks (rd ++ map (fun p => CbDone (snd p) k) (filter (fun p => Nat.eqb (fst p) k) cb))
             ++ map fst (filter (fun p => negb (Nat.eqb (fst p) k)) cb))
            (cb_ks rd ++ map fst cb)).
  { rewrite cb_ks_app, cb_ks_map_done, map_const_filter, <- app_assoc.
    apply Permutation_app_head. rewrite <- map_app. apply Permutation_map. apply filter_partition_perm. }
  split; auto.
  - eapply Permutation_NoDup; [apply Permutation_sym; exact P|exact D].
  - intros k'. rewrite <- E. split; intros Hin.
    + eapply Permutation_in; [exact P|exact Hin].
    + eapply Permutation_in; [apply Permutation_sym; exact P|exact Hin].
  - apply Forall_app. split; [exact F|]. rewrite Forall_forall. intros c Hc.
    apply in_map_iff in Hc. destruct Hc as [p [<- Hp]]. apply filter_In in Hp. destruct Hp as [Hp _].
    rewrite Forall_forall in G. simpl. now apply G.
  - rewrite Forall_forall in *. intros p Hp. apply filter_In in Hp. now apply G.
  - intros k' Hin. rewrite cb_ks_app, in_app_iff in Hin. rewrite nget_app. destruct Hin as [Hin|Hin].
    + apply H in Hin. destruct (nget k' f); [discriminate|contradiction].
    + rewrite cb_ks_map_done in Hin. apply in_map_iff in Hin. destruct Hin as [p [<- _]].
      rewrite Hn. simpl. rewrite Nat.eqb_refl. discriminate.
  - intros k' Hin. apply in_map_iff in Hin. destruct Hin as [p [<- Hp]]. apply filter_In in Hp.
    destruct Hp as [Hp Hne]. rewrite nget_app. rewrite (I (fst p)) by (now apply in_map).
    simpl. destruct (Nat.eqb (fst p) k); [discriminate|reflexivity].
Qed.

(* what the chain can rely on about the awaitables whose callback has already run (popped from _awaiting) *)
Definition popped_ok (f : list (nat * outcome)) (c : ctx) (aw0 aw : list (nat * string)) : Prop :=
  forall k key, In (k, key) aw0 -> nget k aw = None ->
    exists v, nget k f = Some (OVal v) /\
      (uniq_key key aw0 k -> alist_get key c = Some v) /\
      exists k' v', In (k', key) aw0 /\ nget k' aw = None /\ nget k' f = Some (OVal v') /\ alist_get key c = Some v'.

Lemma popped_ok_mono : forall f c aw0 aw k o,
  popped_ok f c aw0 aw -> popped_ok (f ++ [(k, o)]) c aw0 aw.
Proof.
  intros f c aw0 aw k o H k1 key Hin Hn. destruct (H k1 key Hin Hn) as [v [H1 [H2 [k' [v' [H3 [H4 [H5 H6]]]]]]]].
  exists v. split; [now apply nget_mono|]. split; [exact H2|].
  exists k', v'. repeat split; auto. now apply nget_mono.
Qed.

Lemma popped_ok_pop : forall f c aw0 aw k key v,
  NoDup (map fst aw0) -> NoDup (map fst aw) -> (forall k key, nget k aw = Some key -> In (k, key) aw0) ->
  nget k aw = Some key -> nget k f = Some (OVal v) ->
  popped_ok f c aw0 aw -> popped_ok f (alist_set key v c) aw0 (nremove k aw).
Proof.
  intros f c aw0 aw k key v ND0 ND Hsub Hk Hf H k1 key1 Hin Hn.
  rewrite nget_nremove in Hn by assumption.
  assert (Hkin : In (k, key) aw0) by now apply Hsub.
  assert (Hkpop : nget k (nremove k aw) = None) by (rewrite nget_nremove by assumption; now rewrite Nat.eqb_refl).
  destruct (Nat.eqb k1 k) eqn:E.
  - apply Nat.eqb_eq in E. subst k1.
    assert (key1 = key).
    { apply In_nget in Hin; [|assumption]. apply In_nget in Hkin; [|assumption]. congruence. }
    subst key1. exists v. split; [exact Hf|]. split; [intros _; apply alist_get_set_same|].
    exists k, v. repeat split; auto. apply alist_get_set_same.
  - apply Nat.eqb_neq in E. destruct (H k1 key1 Hin Hn) as [v1 [H1 [H2 [k' [v' [H3 [H4 [H5 H6]]]]]]]].
    exists v1. split; [exact H1|]. destruct (String.eqb key1 key) eqn:Ek.
    + apply String.eqb_eq in Ek. subst key1. split.
      * intros Hu. exfalso. apply E. symmetry. now apply Hu.
      * exists k, v. repeat split; auto. apply alist_get_set_same.
    + apply String.eqb_neq in Ek. split.
      * intros Hu. rewrite alist_get_set_other by assumption. now apply H2.
      * exists k', v'. repeat split; auto.
        -- rewrite nget_nremove by assumption. destruct (Nat.eqb k' k); [reflexivity|exact H4].
        -- rewrite alist_get_set_other by assumption. exact H6.
Qed.

Section Proofs.
  Variable PS : Type.
  Variable dostep : PS -> ctx -> PS * ctx * dres reg.
  Variable fuel : nat.
  Notation world := (Barrier.world PS).
  Notation run_steps := (Barrier.run_steps PS dostep).
  Notation tick := (Barrier.tick PS dostep fuel).
  Notation env_step := (Barrier.env_step PS dostep fuel).
  Notation run := (Barrier.run PS dostep fuel).

  (* the part of the invariant that depends on the state of the waiting future *)
  Definition WFut (w : world) (wi : winst) : Prop :=
    match w_fut wi with
    | WPending => ntask (ready w) = 0 /\ w_awaiting wi <> [] /\ first_fail (trace w) = None /\
                  popped_ok (futs w) (cx w) (w_aw0 wi) (w_awaiting wi)
    | WRes => ntask (ready w) = 1 /\ w_awaiting wi = [] /\ first_fail (trace w) = None /\
              popped_ok (futs w) (cx w) (w_aw0 wi) (w_awaiting wi)
    | WExn e => ntask (ready w) = 1 /\ first_fail (trace w) = Some e /\
                exists k key, In (k, key) (w_aw0 wi) /\ nget k (futs w) = Some (OExn e)
    end.

  Definition WaitInv (w : world) (wi : winst) : Prop :=
    last_wait (trace w) = Some (w_id wi, w_aw0 wi) /\
    WStruct (ready w) (cbs w) (futs w) (w_id wi) (w_aw0 wi) (w_awaiting wi) /\
    WFut w wi.

  Definition TermInv (w : world) : Prop :=
    cbs w = [] /\ ntask (ready w) = 0 /\
    ( (cb_ks (ready w) = [] /\ first_fail (trace w) = None /\ last_wait (trace w) = None)
      \/ exists wi e, wt w = Some wi /\ st w = PExcepted e /\ w_fut wi = WExn e /\
           first_fail (trace w) = Some e /\ last_wait (trace w) = Some (w_id wi, w_aw0 wi) /\
           (exists k key, In (k, key) (w_aw0 wi) /\ nget k (futs w) = Some (OExn e)) /\
           Forall (cb_wid_is (w_id wi)) (ready w) /\
           (forall k, In k (cb_ks (ready w)) -> nget k (futs w) <> None) /\
           NoDup (map fst (w_awaiting wi)) /\ NoDup (cb_ks (ready w)) /\
           (forall k, In k (cb_ks (ready w)) -> In k (map fst (w_awaiting wi))) ).

  Definition StateInv (w : world) : Prop :=
    match st w with
    | PCreated => ready w = [CbTask] /\ cbs w = [] /\ wt w = None /\ Forall is_done_ev (trace w)
    | PWaiting => exists wi, wt w = Some wi /\ WaitInv w wi
    | _ => TermInv w
    end.

  Definition Inv (w : world) : Prop := Common (futs w) (trace w) /\ StateInv w.

  Lemma inv_init : forall p, Inv (init PS p).
  Proof.
    intros p. split.
    - split; simpl; auto.
      + intros k. discriminate.
      + intros k o. split; [discriminate|intros []].
      + intros wid k o [].
    - unfold StateInv. simpl. repeat split; auto.
  Qed.

  (* ---- Waiting.enter ---- *)
  Definition att_ready (f : list (nat * outcome)) (wid : nat) (d : list (nat * string)) : list cb :=
    map (CbDone wid) (filter (fun k => match nget k f with Some _ => true | None => false end) (map fst d)).
  Definition att_cbs (f : list (nat * outcome)) (wid : nat) (d : list (nat * string)) : list (nat * nat) :=
    map (fun k => (k, wid)) (filter (fun k => negb (match nget k f with Some _ => true | None => false end)) (map fst d)).

  Lemma attach_spec : forall wid d (w : world),
    attach PS wid d w =
    mk_world (prog w) (cx w) (futs w) (cbs w ++ att_cbs (futs w) wid d) (ready w ++ att_ready (futs w) wid d)
             (st w) (wt w) (nwait w) (nstep w) (trace w).
  Proof.
    induction d as [|[k key] d IH]; intros w; simpl.
    - unfold att_cbs, att_ready. simpl. rewrite !app_nil_r. now destruct w.
    - rewrite IH. unfold att_cbs, att_ready. simpl.
      destruct (nget k (futs w)) eqn:E; simpl; rewrite <- !app_assoc; reflexivity.
  Qed.

  Lemma cb_ks_att_ready : forall f wid d,
    cb_ks (att_ready f wid d) = filter (fun k => match nget k f with Some _ => true | None => false end) (map fst d).
  Proof.
    intros f wid d. unfold att_ready. induction (filter _ (map fst d)) as [|k l IH]; simpl; [reflexivity|]. now rewrite IH.
  Qed.

  Lemma fst_att_cbs : forall f wid d,
    map fst (att_cbs f wid d) = filter (fun k => negb (match nget k f with Some _ => true | None => false end)) (map fst d).
  Proof.
    intros f wid d. unfold att_cbs. induction (filter _ (map fst d)) as [|k l IH]; simpl; [reflexivity|]. now rewrite IH.
  Qed.

  Lemma ntask_att_ready : forall f wid d, ntask (att_ready f wid d) = 0.
  Proof. intros f wid d. unfold att_ready. induction (filter _ (map fst d)) as [|k l IH]; simpl; [reflexivity|exact IH]. Qed.

  Lemma ws_enter : forall rd f wid d,
    cb_ks rd = [] -> NoDup (map fst d) ->
    WStruct (rd ++ att_ready f wid d) (att_cbs f wid d) f wid d d.
  Proof.
    intros rd f wid d Hrd ND.
    assert (P : Permutation (cb_ks (rd ++ att_ready f wid d) ++ map fst (att_cbs f wid d)) (map fst d)).
    { rewrite cb_ks_app, Hrd, cb_ks_att_ready, fst_att_cbs. simpl. apply filter_partition_perm. }
    split.
    - exact ND.
    - exact ND.
    - intros k key. apply nget_In.
    - eapply Permutation_NoDup; [apply Permutation_sym; exact P|exact ND].
    - intros k. split; intros Hin.
      + eapply Permutation_in; [exact P|exact Hin].
      + eapply Permutation_in; [apply Permutation_sym; exact P|exact Hin].
    - apply Forall_app. split; [now apply cb_ks_nil_wid|].
      unfold att_ready. rewrite Forall_forall. intros c Hc. apply in_map_iff in Hc.
      destruct Hc as [k [<- _]]. reflexivity.
    - unfold att_cbs. rewrite Forall_forall. intros p Hp. apply in_map_iff in Hp.
      destruct Hp as [k [<- _]]. reflexivity.
    - intros k Hin. rewrite cb_ks_app, Hrd, cb_ks_att_ready in Hin. simpl in Hin.
      apply filter_In in Hin. destruct Hin as [_ Hin]. destruct (nget k f); [discriminate|discriminate].
    - intros k Hin. rewrite fst_att_cbs in Hin. apply filter_In in Hin. destruct Hin as [_ Hin].
      destruct (nget k f); [discriminate|reflexivity].
  Qed.

  (* ---- RUNNING(_do_step): inside the task's callback ---- *)
  Record Running (w : world) : Prop := {
    r_common : Common (futs w) (trace w);
    r_ff : first_fail (trace w) = None;
    r_step : step_ok (cx w) (map fst (futs w)) (trace w);
    r_cbs : cbs w = [];
    r_ks : cb_ks (ready w) = [];
    r_nt : ntask (ready w) = 0 }.

  Lemma inv_terminate_prog : forall s (w : world),
    Common (futs w) (trace w) -> first_fail (trace w) = None -> last_wait (trace w) = None ->
    cbs w = [] -> cb_ks (ready w) = [] -> ntask (ready w) = 0 ->
    match s with PCreated | PWaiting => False | _ => True end ->
    Inv (terminate PS s w).
  Proof.
    intros s w HC Hff Hlw Hcbs Hks Hnt Hs. split.
    - simpl. apply common_cons; [exact HC|exact I].
    - assert (T : TermInv (terminate PS s w)).
      { unfold TermInv. simpl. split; [exact Hcbs|]. split; [rewrite ntask_app, Hnt; reflexivity|].
        left. rewrite cb_ks_app, Hks. split; [reflexivity|]. split; [|exact Hlw].
        rewrite first_fail_cons_plain; [exact Hff|exact I]. }
      unfold StateInv. destruct s; simpl; try contradiction; exact T.
  Qed.

  Lemma inv_enter_wait : forall d (w : world),
    Common (futs w) (trace w) -> first_fail (trace w) = None ->
    cbs w = [] -> cb_ks (ready w) = [] -> ntask (ready w) = 0 ->
    d <> [] -> NoDup (map fst d) -> (exists n c dn t'', trace w = EvStep n c dn :: t'') ->
    Inv (enter_wait PS d w).
  Proof.
    intros d w HC Hff Hcbs Hks Hnt Hd ND Hadj. unfold enter_wait. rewrite attach_spec. simpl. split.
    - simpl. apply common_wait; [exact HC|exact Hadj].
    - unfold StateInv. simpl. eexists. split; [reflexivity|]. unfold WaitInv. simpl. split; [reflexivity|]. split.
      + rewrite Hcbs. simpl. now apply ws_enter.
      + unfold WFut. simpl. split; [rewrite ntask_app, Hnt, ntask_att_ready; reflexivity|].
        split; [exact Hd|]. split; [rewrite first_fail_cons_plain; [exact Hff|exact I]|].
        intros k key Hin Hn. apply (In_nget _ _ _ ND) in Hin. congruence.
  Qed.

  Lemma run_steps_inv : forall n (w : world), Running w -> Inv (run_steps n w).
  Proof.
    induction n as [|n IH]; intros w [HC Hff Hst Hcbs Hks Hnt].
    - simpl. destruct (dostep (prog w) (cx w)) as [[p' c'] d].
      set (w1 := mk_world p' c' (futs w) (cbs w) (ready w) (st w) (wt w) (nwait w) (S (nstep w))
                          (EvStep (nstep w) (cx w) (map fst (futs w)) :: trace w)).
      assert (HC1 : Common (futs w1) (trace w1)) by (apply common_step; assumption).
      assert (Hff1 : first_fail (trace w1) = None) by (simpl; rewrite first_fail_cons_plain; [exact Hff|exact I]).
      assert (T : forall s, match s with PCreated | PWaiting => False | _ => True end -> Inv (terminate PS s w1)).
      { intros s Hs. apply inv_terminate_prog; auto. }
      destruct d as [r| |regs|e].
      + apply T. exact I.
      + apply T. exact I.
      + destruct (aw_dict regs) eqn:E; [apply T; exact I|].
        rewrite <- E. apply inv_enter_wait; auto.
        * rewrite E. discriminate.
        * apply aw_dict_NoDup.
        * simpl. eauto.
      + apply T. exact I.
    - simpl. destruct (dostep (prog w) (cx w)) as [[p' c'] d].
      set (w1 := mk_world p' c' (futs w) (cbs w) (ready w) (st w) (wt w) (nwait w) (S (nstep w))
                          (EvStep (nstep w) (cx w) (map fst (futs w)) :: trace w)).
      assert (HC1 : Common (futs w1) (trace w1)) by (apply common_step; assumption).
      assert (Hff1 : first_fail (trace w1) = None) by (simpl; rewrite first_fail_cons_plain; [exact Hff|exact I]).
      assert (T : forall s, match s with PCreated | PWaiting => False | _ => True end -> Inv (terminate PS s w1)).
      { intros s Hs. apply inv_terminate_prog; auto. }
      assert (R1 : Running w1).
      { split; auto. intros wid aw Hlw. simpl in Hlw. discriminate. }
      destruct d as [r| |regs|e].
      + apply T. exact I.
      + apply IH. exact R1.
      + destruct (aw_dict regs) eqn:E; [apply IH; exact R1|].
        rewrite <- E. apply inv_enter_wait; auto.
        * rewrite E. discriminate.
        * apply aw_dict_NoDup.
        * simpl. eauto.
      + apply T. exact I.
  Qed.

  (* ---- the environment completes a future ---- *)
  Lemma term_complete : forall k o (w : world), TermInv w ->
    TermInv (mk_world (prog w) (cx w) (futs w ++ [(k, o)])
               (filter (fun p => negb (Nat.eqb (fst p) k)) (cbs w))
               (ready w ++ map (fun p => CbDone (snd p) k) (filter (fun p => Nat.eqb (fst p) k) (cbs w)))
               (st w) (wt w) (nwait w) (nstep w) (EvDone k o :: trace w)).
  Proof.
    intros k o w [Hc [Hn Hd]]. unfold TermInv. simpl. rewrite Hc. simpl. rewrite app_nil_r.
    split; [reflexivity|]. split; [exact Hn|].
    rewrite first_fail_cons_plain by exact I.
    destruct Hd as [[A [B C]]|[wi [e [A [B [C [D [E [[k1 [key [F1 F2]]] [G [H [J1 [J2 J3]]]]]]]]]]]]].
    - left. auto.
    - right. exists wi, e. split; [exact A|]. split; [exact B|]. split; [exact C|]. split; [exact D|].
      split; [exact E|]. split; [|split; [exact G|split; [|auto]]].
      + exists k1, key. split; [exact F1|now apply nget_mono].
      + intros k' Hin. apply H in Hin. rewrite nget_app. destruct (nget k' (futs w)); [discriminate|contradiction].
  Qed.

  Lemma inv_complete : forall k o (w : world), Inv w -> o <> OCancel -> Inv (complete PS k o w).
  Proof.
    intros k o w [HC HS] Ho. unfold complete. destruct (nget k (futs w)) eqn:E; [split; assumption|].
    split.
    - simpl. now apply common_done.
    - unfold StateInv in *. simpl. destruct (st w) eqn:Est.
      + destruct HS as [Hr [Hc [Hw Ht]]]. rewrite Hc. simpl. rewrite app_nil_r.
        repeat split; auto. constructor; [exact I|exact Ht].
      + destruct HS as [wi [Hwt [Hlw [HWS HWF]]]]. exists wi. split; [exact Hwt|]. split; [|split].
        * simpl. exact Hlw.
        * simpl. now apply ws_complete.
        * unfold WFut in *. simpl. rewrite ntask_app, ntask_map_done, Nat.add_0_r.
          rewrite first_fail_cons_plain by exact I. destruct (w_fut wi).
          -- destruct HWF as [A [B [C D]]]. repeat split; auto. now apply popped_ok_mono.
          -- destruct HWF as [A [B [C D]]]. repeat split; auto. now apply popped_ok_mono.
          -- destruct HWF as [A [B [k1 [key [C D]]]]]. repeat split; auto.
             exists k1, key. split; [exact C|now apply nget_mono].
      + pose proof (term_complete k o w HS) as T. rewrite Est in T. exact T.
      + pose proof (term_complete k o w HS) as T. rewrite Est in T. exact T.
  Qed.

  (* ---- one loop callback ---- *)
  Lemma ntask_cons_done : forall wid k r, ntask (CbDone wid k :: r) = ntask r.
  Proof. reflexivity. Qed.
  Lemma ntask_cons_other : forall r, ntask (CbOther :: r) = ntask r.
  Proof. reflexivity. Qed.
  Lemma ntask_cons_task : forall r, ntask (CbTask :: r) = S (ntask r).
  Proof. reflexivity. Qed.
  Lemma cb_ks_cons_done : forall wid k r, cb_ks (CbDone wid k :: r) = k :: cb_ks r.
  Proof. reflexivity. Qed.
  Lemma cb_ks_cons_other : forall r, cb_ks (CbOther :: r) = cb_ks r.
  Proof. reflexivity. Qed.
  Lemma cb_ks_cons_task : forall r, cb_ks (CbTask :: r) = cb_ks r.
  Proof. reflexivity. Qed.
  Lemma cb_ks_snoc_task : forall r, cb_ks (r ++ [CbTask]) = cb_ks r.
  Proof. intros. rewrite cb_ks_app. simpl. apply app_nil_r. Qed.
  Lemma cb_ks_snoc_other : forall r, cb_ks (r ++ [CbOther]) = cb_ks r.
  Proof. intros. rewrite cb_ks_app. simpl. apply app_nil_r. Qed.
  Lemma ntask_snoc_task : forall r, ntask (r ++ [CbTask]) = S (ntask r).
  Proof. intros. rewrite ntask_app. unfold ntask. simpl. lia. Qed.
  Lemma ntask_snoc_other : forall r, ntask (r ++ [CbOther]) = ntask r.
  Proof. intros. rewrite ntask_app. unfold ntask. simpl. lia. Qed.
  Arguments ntask : simpl never.
  Arguments cb_ks : simpl never.

  Definition pop_ready (r : list cb) (w : world) : world :=
    mk_world (prog w) (cx w) (futs w) (cbs w) r (st w) (wt w) (nwait w) (nstep w) (trace w).

  Lemma inv_tick_other : forall r (w : world), Inv w -> ready w = CbOther :: r -> Inv (pop_ready r w).
  Proof.
    intros r w [HC HS] Hr. split; [exact HC|].
    unfold StateInv in *. simpl. destruct (st w) eqn:Est.
    - destruct HS as [Hr' _]. congruence.
    - destruct HS as [wi [Hwt [Hlw [HWS HWF]]]]. exists wi. split; [exact Hwt|]. split; [exact Hlw|]. split.
      + simpl. rewrite Hr in HWS. eapply ws_pop_other; [|exact HWS]. exact I.
      + unfold WFut in *. simpl. rewrite Hr, ntask_cons_other in HWF. exact HWF.
    - unfold TermInv in *. simpl. rewrite Hr, ntask_cons_other, cb_ks_cons_other in HS.
      destruct HS as [A [B D]]. split; [exact A|]. split; [exact B|].
      destruct D as [C|[wi [e [C1 [C2 [C3 [C4 [C5 [C6 [C7 C8]]]]]]]]]]; [left; exact C|].
      rewrite Est in C2. discriminate.
    - unfold TermInv in *. simpl. rewrite Hr, ntask_cons_other, cb_ks_cons_other in HS.
      destruct HS as [A [B D]]. split; [exact A|]. split; [exact B|].
      destruct D as [C|[wi [e0 [C1 [C2 [C3 [C4 [C5 [C6 [C7 [C8 [C9 [C10 C11]]]]]]]]]]]]]; [left; exact C|].
      right. exists wi, e0. rewrite Est in C2.
      split; [exact C1|]. split; [congruence|]. split; [exact C3|]. split; [exact C4|]. split; [exact C5|].
      split; [exact C6|]. split; [inversion C7; assumption|]. auto.
  Qed.

  Lemma nil_of_no_members : forall {A} (l : list A), (forall x, In x l <-> False) -> l = [].
  Proof. intros A [|a l] H; [reflexivity|]. exfalso. apply (H a). now left. Qed.

  Lemma filter_all_false : forall {A} (f : A -> bool) l, (forall x, In x l -> f x = false) -> filter f l = [].
  Proof.
    induction l as [|a l IH]; intros H; simpl; [reflexivity|].
    rewrite (H a) by now left. apply IH. intros x Hx. apply H. now right.
  Qed.

  Lemma inv_tick_task : forall r (w : world), Inv w -> ready w = CbTask :: r -> Inv (task_wakes PS dostep fuel (pop_ready r w)).
  Proof.
    intros r w [HC HS] Hr. unfold task_wakes, StateInv in *. simpl. destruct (st w) eqn:Est.
    - (* the first step *)
      destruct HS as [Hr' [Hc [Hw Ht]]]. assert (r = []) by congruence. subst r.
      apply run_steps_inv. split; simpl; auto.
      + now apply all_done_first_fail.
      + intros wid aw Hlw. rewrite all_done_last_wait in Hlw by assumption. discriminate.
    - (* wake-up from the wait *)
      destruct HS as [wi [Hwt [Hlw [HWS HWF]]]]. rewrite Hwt. unfold WFut in HWF.
      rewrite Hr, ntask_cons_task in HWF. rewrite Hr in HWS.
      apply ws_pop_other in HWS; [|exact I].
      destruct (w_fut wi) eqn:Ewf.
      + destruct HWF as [A _]. discriminate.
      + (* every awaitable delivered its value: RUNNING(_do_step) *)
        destruct HWF as [A [B [C D]]]. destruct HWS as [S1 S2 S3 S4 S5 S6 S7 S8 S9]. rewrite B in *.
        assert (Hnil : cb_ks r ++ map fst (cbs w) = []) by (apply nil_of_no_members; intros x; rewrite S5; simpl; tauto).
        apply app_eq_nil in Hnil. destruct Hnil as [Hks Hcb]. apply map_eq_nil in Hcb.
        apply run_steps_inv. split; simpl; auto.
        * intros wid aw Hlw'. rewrite Hlw in Hlw'. inversion Hlw'; subst. intros k key Hin.
          destruct (D k key Hin eq_refl) as [v [D1 [D2 [k' [v' [D3 [D4 [D5 D6]]]]]]]].
          split; [eapply nget_Some_in; eauto|]. exists v. split; [now apply (c_done _ _ HC)|].
          split; [exact D2|]. exists k', v'. split; [exact D3|]. split; [now apply (c_done _ _ HC)|exact D6].
        * rewrite Hcb. reflexivity.
      + (* an awaitable failed: EXCEPTED with its exception *)
        destruct HWF as [A [B [k1 [key [C D]]]]]. destruct HWS as [S1 S2 S3 S4 S5 S6 S7 S8 S9].
        split.
        * simpl. apply common_cons; [exact HC|exact I].
        * unfold StateInv, TermInv, terminate, wait_exit, pop_ready. simpl. split; [|split].
          -- apply filter_all_false. intros p Hp. rewrite Forall_forall in S7. rewrite (S7 p Hp), Nat.eqb_refl. simpl.
             assert (Hin : In (fst p) (map fst (w_awaiting wi))) by (apply S5; apply in_or_app; right; now apply in_map).
             destruct (nget (fst p) (w_awaiting wi)) eqn:E; [reflexivity|]. apply nget_None in E. contradiction.
          -- rewrite ntask_snoc_other. now injection A.
          -- right. exists wi, e. rewrite first_fail_cons_plain by exact I. rewrite cb_ks_snoc_other.
             split; [exact Hwt|]. split; [reflexivity|]. split; [exact Ewf|]. split; [exact B|]. split; [exact Hlw|].
             split; [eauto|]. split; [|split; [exact S8|split; [exact S2|split]]].
             ++ apply Forall_app. split; [exact S6|]. constructor; [exact I|constructor].
             ++ apply NoDup_app_l in S4. exact S4.
             ++ intros k0 Hk0. apply S5. apply in_or_app. now left.
    - destruct HS as [_ [B _]]. rewrite Hr, ntask_cons_task in B. discriminate.
    - destruct HS as [_ [B _]]. rewrite Hr, ntask_cons_task in B. discriminate.
  Qed.

  Lemma inv_waiting : forall (w' : world) wi',
    st w' = PWaiting -> wt w' = Some wi' -> Common (futs w') (trace w') -> WaitInv w' wi' -> Inv w'.
  Proof. intros w' wi' Hs Hw HC HW. split; [exact HC|]. unfold StateInv. rewrite Hs. eauto. Qed.

  Lemma inv_term_failed : forall (w' : world) wi' e,
    Common (futs w') (trace w') -> st w' = PExcepted e -> cbs w' = [] -> ntask (ready w') = 0 ->
    wt w' = Some wi' -> w_fut wi' = WExn e -> first_fail (trace w') = Some e ->
    last_wait (trace w') = Some (w_id wi', w_aw0 wi') ->
    (exists k key, In (k, key) (w_aw0 wi') /\ nget k (futs w') = Some (OExn e)) ->
    Forall (cb_wid_is (w_id wi')) (ready w') ->
    (forall k, In k (cb_ks (ready w')) -> nget k (futs w') <> None) ->
    NoDup (map fst (w_awaiting wi')) -> NoDup (cb_ks (ready w')) ->
    (forall k, In k (cb_ks (ready w')) -> In k (map fst (w_awaiting wi'))) ->
    Inv w'.
  Proof.
    intros w' wi' e HC Hs Hc Hn Hw Hf Hff Hlw Hex Hall Hd J1 J2 J3. split; [exact HC|].
    unfold StateInv. rewrite Hs. unfold TermInv. split; [exact Hc|]. split; [exact Hn|].
    right. exists wi', e. repeat split; auto.
  Qed.

  Ltac solve_common HC :=
    simpl; repeat (first [apply common_cons; [|exact I] | apply common_cb; [|eassumption]]); exact HC.

  Lemma inv_tick_done : forall wid k r (w : world), Inv w -> ready w = CbDone wid k :: r ->
    Inv (awaitable_done PS wid k (pop_ready r w)).
  Proof.
    intros wid k r w [HC HS] Hr. unfold StateInv in HS. destruct (st w) eqn:Est.
    - destruct HS as [Hr' _]. congruence.
    - (* the chain is waiting: this is a callback of the current Waiting state *)
      destruct HS as [wi [Hwt [Hlw [HWS HWF]]]]. rewrite Hr in HWS.
      pose proof HWS as HWS0.
      apply ws_pop in HWS. destruct HWS as [HWS' [Hwid [[key Hkey] [o Ho]]]]. subst wid.
      destruct HWS0 as [S1 S2 S3 _ _ _ _ _ _].
      unfold WFut in HWF. rewrite Hr, ntask_cons_done in HWF.
      unfold awaitable_done, pop_ready. simpl. rewrite Hwt, Nat.eqb_refl. simpl. rewrite Hkey, Ho.
      destruct o as [v|e2|].
      + (* the awaitable has a value *)
        destruct (nremove k (w_awaiting wi)) as [|p l] eqn:Eaw; unfold set_wf, set_wt, set_cx, emit, push, loop_err; simpl;
          destruct (w_fut wi) eqn:Ewf; unfold loop_err, emit, push, set_wt; simpl.
        * destruct HWF as [A [B [C D]]].
          eapply inv_waiting; [exact Est|reflexivity|solve_common HC|]. split; [exact Hlw|]. split; simpl.
          -- apply ws_push_other; [exact I|exact HWS'].
          -- unfold WFut. simpl. rewrite ntask_snoc_task, A. repeat split; auto.
             ++ rewrite first_fail_cons_plain; [exact C|exact I].
             ++ rewrite <- Eaw. now apply popped_ok_pop.
        * destruct HWF as [_ [B _]]. rewrite B in Hkey. discriminate.
        * destruct HWF as [A [B [k1 [key1 [C D]]]]].
          eapply inv_waiting; [exact Est|reflexivity|solve_common HC|]. split; [exact Hlw|]. split; simpl.
          -- exact HWS'.
          -- unfold WFut. simpl. split; [exact A|]. split; [|eauto].
             now apply first_fail_cons_some.
        * destruct HWF as [A [B [C D]]].
          eapply inv_waiting; [exact Est|reflexivity|solve_common HC|]. split; [exact Hlw|]. split; simpl.
          -- exact HWS'.
          -- unfold WFut. simpl. repeat split; auto.
             ++ discriminate.
             ++ rewrite first_fail_cons_plain; [exact C|exact I].
             ++ rewrite <- Eaw. now apply popped_ok_pop.
        * destruct HWF as [_ [B _]]. rewrite B in Hkey. discriminate.
        * destruct HWF as [A [B [k1 [key1 [C D]]]]].
          eapply inv_waiting; [exact Est|reflexivity|solve_common HC|]. split; [exact Hlw|]. split; simpl.
          -- exact HWS'.
          -- unfold WFut. simpl. split; [exact A|]. split; [|eauto].
             now apply first_fail_cons_some.
      + (* the awaitable failed *)
        unfold set_wf, set_wt, emit, push, loop_err; simpl. destruct (w_fut wi) eqn:Ewf; unfold loop_err, emit, push, set_wt; simpl.
        * destruct HWF as [A [B [C D]]].
          eapply inv_waiting; [exact Est|reflexivity|solve_common HC|]. split; [exact Hlw|]. split; simpl.
          -- apply ws_push_other; [exact I|exact HWS'].
          -- unfold WFut. simpl. rewrite ntask_snoc_task, A. split; [reflexivity|]. split.
             ++ now apply first_fail_cons_exn.
             ++ exists k, key. split; [now apply S3|exact Ho].
        * destruct HWF as [_ [B _]]. rewrite B in Hkey. discriminate.
        * destruct HWF as [A [B [k1 [key1 [C D]]]]].
          eapply inv_waiting; [exact Est|reflexivity|solve_common HC|]. split; [exact Hlw|]. split; simpl.
          -- exact HWS'.
          -- unfold WFut. simpl. split; [exact A|]. split; [|eauto].
             now apply first_fail_cons_some.
      + exfalso. now apply (c_nocancel _ _ HC k).
    - (* the chain has FINISHED: no completion callback can be pending *)
      destruct HS as [A [B D]]. rewrite Hr, cb_ks_cons_done in D.
      destruct D as [[C _]|[wi [e [_ [C2 _]]]]]; [discriminate|congruence].
    - (* the chain is EXCEPTED: a late callback of the Waiting state that failed *)
      destruct HS as [A [B D]]. rewrite Hr, ntask_cons_done in B. rewrite Hr, cb_ks_cons_done in D.
      destruct D as [[C _]|[wi [e0 [C1 [C2 [C3 [C4 [C5 [C6 [C7 [C8 [C9 [C10 C11]]]]]]]]]]]]]; [discriminate|].
      assert (e0 = e) by congruence. subst e0.
      inversion C7 as [|? ? Hwid C7']; subst. simpl in Hwid. subst wid.
      inversion C10 as [|? ? Hnk C10']; subst.
      unfold awaitable_done, pop_ready. simpl. rewrite C1, Nat.eqb_refl. simpl.
      assert (C8' : forall k0, In k0 (cb_ks r) -> nget k0 (futs w) <> None) by (intros k0 Hk0; apply C8; now right).
      assert (C9' : NoDup (map fst (nremove k (w_awaiting wi)))) by now apply nremove_NoDup.
      assert (C11' : forall k0, In k0 (cb_ks r) -> In k0 (map fst (nremove k (w_awaiting wi)))).
      { intros k0 Hk0. apply nremove_in_iff; [exact C9|]. split; [intros ->; contradiction|apply C11; now right]. }
      destruct (nget k (w_awaiting wi)) as [key|] eqn:Hkey.
      2:{ exfalso. apply nget_None in Hkey. apply Hkey. apply C11. now left. }
      destruct (nget k (futs w)) as [o|] eqn:Ho; [|exfalso; apply (C8 k); [now left|exact Ho]].
      destruct o as [v|e2|].
      + destruct (nremove k (w_awaiting wi)) as [|p l] eqn:Eaw; unfold set_wf, set_wt, set_cx, emit, push, loop_err; simpl; rewrite C3.
        * eapply inv_term_failed with (e := e) (wi' := mk_winst (w_id wi) (w_aw0 wi) [] (WExn e));
            simpl; eauto using first_fail_cons_some. solve_common HC.
        * eapply inv_term_failed with (e := e) (wi' := mk_winst (w_id wi) (w_aw0 wi) (p :: l) (WExn e));
            simpl; eauto using first_fail_cons_some. solve_common HC.
      + unfold set_wf, set_wt, emit, push, loop_err; simpl; rewrite C3.
        eapply inv_term_failed with (e := e) (wi' := mk_winst (w_id wi) (w_aw0 wi) (nremove k (w_awaiting wi)) (WExn e));
          simpl; eauto using first_fail_cons_some. solve_common HC.
      + exfalso. now apply (c_nocancel _ _ HC k).
  Qed.

  Lemma inv_tick : forall w : world, Inv w -> Inv (tick w).
  Proof.
    intros w H. unfold Barrier.tick. destruct (ready w) as [|c r] eqn:Hr; [exact H|].
    destruct c; simpl.
    - exact (inv_tick_task r w H Hr).
    - exact (inv_tick_done wid k r w H Hr).
    - exact (inv_tick_other r w H Hr).
  Qed.

  Lemma inv_env_step : forall (w : world) e, Inv w -> (forall k, e <> Complete k OCancel) -> Inv (env_step w e).
  Proof.
    intros w [k o|] H He; simpl.
    - apply inv_complete; [exact H|]. intros ->. now apply (He k).
    - now apply inv_tick.
  Qed.

  Lemma inv_fold : forall es (w : world), Inv w -> no_cancel es -> Inv (fold_left env_step es w).
  Proof.
    induction es as [|e es IH]; intros w H Hn; simpl; [exact H|].
    apply IH.
    - apply inv_env_step; [exact H|]. intros k ->. apply (Hn k). now left.
    - intros k Hin. apply (Hn k). now right.
  Qed.

  Theorem inv_run : forall p es, no_cancel es -> Inv (run p es).
  Proof. intros p es Hn. unfold Barrier.run. apply inv_fold; [apply inv_init|exact Hn]. Qed.

  (* ================================================================== the property, read off the invariant *)

  (* the branches of the model marked "cannot happen" are never taken *)
  Theorem model_total : forall p es, no_cancel es -> ~ In EvStuck (trace (run p es)).
  Proof. intros p es Hn. destruct (inv_run p es Hn) as [HC _]. exact (c_nostuck _ _ HC). Qed.

  (* the events of the trace are what they say: EvDone = the environment's completions, dn of a step = the
     futures done at that moment is implied by [barrier]; a callback reads the outcome the environment set *)
  Theorem done_events_faithful : forall p es, no_cancel es -> forall k o,
    nget k (futs (run p es)) = Some o <-> In (EvDone k o) (trace (run p es)).
  Proof. intros p es Hn. destruct (inv_run p es Hn) as [HC _]. exact (c_done _ _ HC). Qed.

  (* no exception escapes from a completion callback into the loop's exception handler: no KeyError from
     `_awaiting.pop`, no InvalidStateError from waking an already woken wait (second failing item, item completing
     after the failure) *)
  Theorem no_loop_error : forall p es, no_cancel es -> forall e, ~ In (EvLoopErr e) (trace (run p es)).
  Proof. intros p es Hn. destruct (inv_run p es Hn) as [HC _]. exact (c_noerr _ _ HC). Qed.

  Theorem callback_reads_outcome : forall p es, no_cancel es -> forall wid k o,
    In (EvCb wid k o) (trace (run p es)) -> In (EvDone k o) (trace (run p es)).
  Proof.
    intros p es Hn wid k o H. destruct (inv_run p es Hn) as [HC _].
    apply (c_done _ _ HC). exact (c_cb _ _ HC wid k o H).
  Qed.

  Theorem wait_entered_by_step : forall p es, no_cancel es -> forall t2 wid aw t1,
    trace (run p es) = t2 ++ EvWait wid aw :: t1 -> exists n c dn t0, t1 = EvStep n c dn :: t0.
  Proof.
    intros p es Hn t2 wid aw t1 Ht. destruct (inv_run p es Hn) as [HC _].
    pose proof (c_trace _ _ HC) as H. rewrite Ht in H. apply trace_ok_app_r in H. simpl in H. tauto.
  Qed.

  (* C10, the barrier: a step that starts while the chain is in the wait for the awaitables aw (t1 = everything
     that happened before that step; last_wait t1 = the wait entered by the previous step, no step since) finds
     every one of them completed WITH A VALUE, earlier in the trace, and the value in the context under its key *)
  Theorem barrier : forall p es, no_cancel es -> forall t2 n c dn t1 wid aw,
    trace (run p es) = t2 ++ EvStep n c dn :: t1 ->
    last_wait t1 = Some (wid, aw) ->
    forall k key, In (k, key) aw ->
      In k dn /\
      exists v, In (EvDone k (OVal v)) t1 /\
                (uniq_key key aw k -> alist_get key c = Some v) /\
                exists k' v', In (k', key) aw /\ In (EvDone k' (OVal v')) t1 /\ alist_get key c = Some v'.
  Proof.
    intros p es Hn t2 n c dn t1 wid aw Ht Hlw. destruct (inv_run p es Hn) as [HC _].
    pose proof (c_trace _ _ HC) as H. rewrite Ht in H. apply trace_ok_split in H. destruct H as [H _].
    exact (H wid aw Hlw).
  Qed.

  Definition no_step (t : list ev) : Prop := forall e, In e t -> is_step e = false.

  Lemma split_oldest_step : forall t, ~ no_step t ->
    exists t3 n c dn t4, t = t3 ++ EvStep n c dn :: t4 /\ no_step t4.
  Proof.
    induction t as [|e t IH]; intros H.
    - exfalso. apply H. intros e [].
    - destruct (existsb is_step t) eqn:E.
      + assert (Hn : ~ no_step t).
        { intros Hn. apply existsb_exists in E. destruct E as [x [Hx1 Hx2]]. rewrite (Hn x Hx1) in Hx2. discriminate. }
        destruct (IH Hn) as [t3 [n [c [dn [t4 [-> H4]]]]]]. exists (e :: t3), n, c, dn, t4. split; [reflexivity|exact H4].
      + assert (Hn : no_step t).
        { intros x Hx. destruct (is_step x) eqn:Ex; [|reflexivity].
          assert (existsb is_step t = true) by (apply existsb_exists; eauto). congruence. }
        destruct e; try (exfalso; apply H; intros x [<-|Hx]; [reflexivity|now apply Hn]).
        exists [], n, c, dn, t. split; [reflexivity|exact Hn].
  Qed.

  Lemma last_wait_nostep_app : forall t4 wid aw t1, no_step t4 -> trace_ok (t4 ++ EvWait wid aw :: t1) ->
    last_wait (t4 ++ EvWait wid aw :: t1) = Some (wid, aw).
  Proof.
    induction t4 as [|e t4 IH]; intros wid aw t1 Hn Hok; simpl; [reflexivity|].
    assert (Hn' : no_step t4) by (intros x Hx; apply Hn; now right).
    assert (He : is_step e = false) by (apply Hn; now left).
    destruct e; try discriminate; simpl in Hok; try (now apply IH).
    destruct Hok as [[n [c [dn [t'' Heq]]]] _]. exfalso.
    destruct t4 as [|e' t4]; simpl in Heq; [discriminate|]. inversion Heq; subst.
    assert (is_step (EvStep n c dn) = false) by (apply Hn'; now left). discriminate.
  Qed.

  (* ... and conversely: as long as one awaited item is still pending, no step has started since the wait *)
  Theorem barrier_pending : forall p es, no_cancel es -> forall t2 wid aw t1 k key,
    trace (run p es) = t2 ++ EvWait wid aw :: t1 ->
    In (k, key) aw -> nget k (futs (run p es)) = None ->
    no_step t2.
  Proof.
    intros p es Hn t2 wid aw t1 k key Ht Hin Hpend.
    destruct (inv_run p es Hn) as [HC _].
    destruct (existsb is_step t2) eqn:E.
    2:{ intros x Hx. destruct (is_step x) eqn:Ex; [|reflexivity].
        assert (existsb is_step t2 = true) by (apply existsb_exists; eauto). congruence. }
    exfalso.
    assert (Hns : ~ no_step t2).
    { intros Hns. apply existsb_exists in E. destruct E as [x [Hx1 Hx2]]. rewrite (Hns x Hx1) in Hx2. discriminate. }
    destruct (split_oldest_step t2 Hns) as [t3 [n [c [dn [t4 [-> H4]]]]]].
    rewrite <- app_assoc in Ht. simpl in Ht.
    pose proof (c_trace _ _ HC) as Hok. rewrite Ht in Hok.
    assert (Hok' : trace_ok (t4 ++ EvWait wid aw :: t1)).
    { apply trace_ok_app_r in Hok. simpl in Hok. tauto. }
    pose proof (last_wait_nostep_app t4 wid aw t1 H4 Hok') as Hlw.
    destruct (barrier p es Hn t3 n c dn _ wid aw Ht Hlw k key Hin) as [_ [v [Hd _]]].
    assert (Hd' : In (EvDone k (OVal v)) (trace (run p es))).
    { rewrite Ht. apply in_or_app. right. now right. }
    apply (c_done _ _ HC) in Hd'. congruence.
  Qed.

  Lemma ntask_pos_in : forall r, ntask r = 1 -> In CbTask r.
  Proof.
    induction r as [|c r IH]; intros H; [discriminate|].
    destruct c; [now left|right; apply IH; exact H|right; apply IH; exact H].
  Qed.

  Lemma first_fail_state : forall (w : world) e, Inv w -> first_fail (trace w) = Some e ->
    (st w = PWaiting /\ In CbTask (ready w)) \/ st w = PExcepted e.
  Proof.
    intros w e [HC HS] Hff. unfold StateInv in HS. destruct (st w) eqn:Est.
    - destruct HS as [_ [_ [_ Ht]]]. rewrite all_done_first_fail in Hff by assumption. discriminate.
    - left. split; [reflexivity|]. destruct HS as [wi [_ [_ [_ HWF]]]]. unfold WFut in HWF.
      destruct (w_fut wi).
      + destruct HWF as [_ [_ [C _]]]. congruence.
      + destruct HWF as [_ [_ [C _]]]. congruence.
      + destruct HWF as [A _]. now apply ntask_pos_in.
    - destruct HS as [_ [_ [[_ [C _]]|[wi [e1 [_ [C2 _]]]]]]]; congruence.
    - destruct HS as [_ [_ [[_ [C _]]|[wi [e1 [_ [C2 [_ [C4 _]]]]]]]]]; [congruence|].
      right. congruence.
  Qed.

  (* C10, failure: the exception e seen by the FIRST failing completion callback ends the chain: no step starts
     after it, ever; the chain is EXCEPTED with exactly e as soon as the (already scheduled) wake-up of the
     stepping task has run — in particular whenever the loop is quiescent *)
  Theorem failure : forall p es, no_cancel es -> forall t2 wid k e t1,
    trace (run p es) = t2 ++ EvCb wid k (OExn e) :: t1 -> first_fail t1 = None ->
    no_step t2 /\
    ((st (run p es) = PWaiting /\ In CbTask (ready (run p es))) \/ st (run p es) = PExcepted e) /\
    (ready (run p es) = [] -> st (run p es) = PExcepted e).
  Proof.
    intros p es Hn t2 wid k e t1 Ht Hff1.
    pose proof (inv_run p es Hn) as HI. destruct HI as [HC HS].
    assert (Hff : first_fail (trace (run p es)) = Some e).
    { rewrite Ht. apply first_fail_app_some. now apply first_fail_cons_exn. }
    split; [|split].
    - intros x Hx. destruct (is_step x) eqn:Ex; [|reflexivity]. exfalso.
      destruct x; try discriminate. apply in_split in Hx. destruct Hx as [a [b ->]].
      pose proof (c_trace _ _ HC) as Hok. rewrite Ht, <- app_assoc in Hok. simpl in Hok.
      apply trace_ok_split in Hok. destruct Hok as [_ Hok]. now apply first_fail_mid in Hok.
    - apply first_fail_state; [split; assumption|exact Hff].
    - intros Hr. destruct (first_fail_state _ e (conj HC HS) Hff) as [[_ Hin]|H]; [|exact H].
      rewrite Hr in Hin. destruct Hin.
  Qed.

  (* C10, progress: at a quiescent point (nothing ready) a chain that is still in the wait for aw (no step since)
     has an awaited item that is still pending, or one that failed (and then the chain is EXCEPTED, see failure).
     No wake-up is lost. *)
  Theorem progress : forall p es, no_cancel es -> forall wid aw,
    ready (run p es) = [] -> last_wait (trace (run p es)) = Some (wid, aw) ->
    exists k key, In (k, key) aw /\
      (nget k (futs (run p es)) = None \/ exists e, nget k (futs (run p es)) = Some (OExn e)).
  Proof.
    intros p es Hn wid aw Hr Hlw. destruct (inv_run p es Hn) as [HC HS].
    unfold StateInv in HS. destruct (st (run p es)) eqn:Est.
    - destruct HS as [_ [_ [_ Ht]]]. rewrite all_done_last_wait in Hlw by assumption. discriminate.
    - destruct HS as [wi [_ [Hlw' [HWS HWF]]]]. rewrite Hlw in Hlw'. inversion Hlw'; subst.
      unfold WFut in HWF. rewrite Hr in *. destruct HWS as [S1 S2 S3 S4 S5 S6 S7 S8 S9].
      destruct (w_fut wi).
      + destruct HWF as [_ [B _]]. destruct (w_awaiting wi) as [|[k key] l] eqn:Eaw; [congruence|].
        exists k, key. split.
        * apply S3. simpl. now rewrite Nat.eqb_refl.
        * left. apply S9. apply (S5 k). simpl. now left.
      + destruct HWF as [A _]. discriminate.
      + destruct HWF as [A _]. discriminate.
    - destruct HS as [_ [_ [[_ [_ C]]|[wi [e1 [_ [C2 _]]]]]]]; congruence.
    - destruct HS as [_ [_ [[_ [_ C]]|[wi [e1 [_ [_ [_ [_ [C5 [[k [key [C6 C7]]] _]]]]]]]]]]]; [congruence|].
      rewrite Hlw in C5. inversion C5; subst. exists k, key. split; [exact C6|]. right. eauto.
  Qed.

  (* the same, positively: every awaited item has a value and the loop is quiescent => the next step has started *)
  Theorem progress_step : forall p es, no_cancel es -> forall t2 wid aw t1,
    trace (run p es) = t2 ++ EvWait wid aw :: t1 ->
    ready (run p es) = [] ->
    (forall k key, In (k, key) aw -> exists v, nget k (futs (run p es)) = Some (OVal v)) ->
    exists e, In e t2 /\ is_step e = true.
  Proof.
    intros p es Hn t2 wid aw t1 Ht Hr Hall.
    destruct (existsb is_step t2) eqn:E; [now apply existsb_exists in E|]. exfalso.
    assert (Hns : no_step t2).
    { intros x Hx. destruct (is_step x) eqn:Ex; [|reflexivity].
      assert (existsb is_step t2 = true) by (apply existsb_exists; eauto). congruence. }
    destruct (inv_run p es Hn) as [HC _]. pose proof (c_trace _ _ HC) as Hok. rewrite Ht in Hok.
    pose proof (last_wait_nostep_app t2 wid aw t1 Hns Hok) as Hlw. rewrite <- Ht in Hlw.
    destruct (progress p es Hn wid aw Hr Hlw) as [k [key [Hin [Hp|[e Hp]]]]];
      destruct (Hall k key Hin) as [v Hv]; congruence.
  Qed.
End Proofs.

(* the barrier for the outline instance (M2's stepper machine with scripted step / predicate functions) *)
Theorem barrier_outline :
  forall o fuel p es, no_cancel es -> forall t2 n c dn t1 wid aw,
    trace (run wc_ps (wc_dostep o) fuel p es) = t2 ++ EvStep n c dn :: t1 ->
    last_wait t1 = Some (wid, aw) ->
    forall k key, In (k, key) aw ->
      In k dn /\ exists v, In (EvDone k (OVal v)) t1 /\ (uniq_key key aw k -> alist_get key c = Some v).
Proof.
  intros o fuel p es Hn t2 n c dn t1 wid aw Ht Hlw k key Hin.
  destruct (barrier wc_ps (wc_dostep o) fuel p es Hn t2 n c dn t1 wid aw Ht Hlw k key Hin) as [A [v [B [C _]]]].
  split; [exact A|]. exists v. split; assumption.
Qed.
