(* Outline/OutlineProofs.v — proofs about M2: the stepper machine of OutlineModel.v executes an
   outline exactly as the structured program of OutlineSem.v. *)
From Coq Require Import List ZArith String Bool Lia.
From Plumpy Require Import Val OutlineModel OutlineSem.
Import ListNotations.

Section Proofs.
  Variable W : Type.
  Variable A : Type.
  Variable stepf : fn -> W -> W * list A * (exn + rv A).
  Variable predf : string -> W -> W * (exn + bool).
  Variable assign : list A -> W -> W.

  Notation exec_instr := (exec_instr W A stepf predf assign).
  Notation run_outline := (run_outline W A stepf predf assign).
  Notation chain_result := (chain_result A).

  (* TO BE PROVED (statements fixed):

  Theorem exec_deterministic : forall last o st st1 o1 st2 o2,
    exec_instr last o st st1 o1 -> exec_instr last o st st2 o2 -> st1 = st2 /\ o1 = o2.

  Theorem run_outline_sound : forall o, wf_instr o = true -> forall n w s r,
    run_outline n o w = Some (s, r) ->
    exists out, exec_instr true o (w, []) (iw _ _ s, icalls _ _ s) out /\ chain_result out = r.

  Theorem run_outline_complete : forall o, wf_instr o = true -> forall w w' tr out,
    exec_instr true o (w, []) (w', tr) out ->
    exists n s, run_outline n o w = Some (s, chain_result out) /\ iw _ _ s = w' /\ icalls _ _ s = tr.
  *)
End Proofs.
