(* Outline/OutlineProofs.v — proofs about M2: the stepper machine of OutlineModel.v executes an
   outline exactly as the structured program of OutlineSem.v.

   Theorems: exec_deterministic, run_outline_sound, run_outline_complete (statements fixed).

   Proof architecture.  [drive n last i sp st] iterates [step_instr i sp] on a (sub-)stepper in
   isolation with the glue of _do_step / run_chain (reset of the awaitables, the ToContext barrier
   unless the whole outline is finished, stop on a returned value / return_ / exception) until
   the stepper reports finished; it returns the remaining fuel, the final reference state and the
   outcome.  [drive_wrap] is the single compositionality fact: a parent whose step is "step the
   child, then post-process" (block / if with a child / while with a child) is driven by driving
   the child and then continuing the parent — as an exact equation, so it serves both directions.
   [drive_while_head], [drive_if_*] are the equations for the steps that evaluate predicates.
   Soundness ([sound_main]) is by strong induction on the fuel and structural induction on the
   outline; completeness ([complete_main]) by induction on the derivation; [run_chain_drive]
   identifies run_chain with the top-level drive ([last] = true). *)
From Coq Require Import List ZArith String Bool Lia Arith.
From Plumpy Require Import Val OutlineModel OutlineSem.
Import ListNotations.

Scheme instr_mut := Induction for instr Sort Prop
with block_mut := Induction for block Sort Prop
with branches_mut := Induction for branches Sort Prop.
Combined Scheme instr_mutind from instr_mut, block_mut, branches_mut.

Section Proofs.
  Variable W : Type.
  Variable A : Type.
  Variable stepf : fn -> W -> W * list A * (exn + rv A).
  Variable predf : string -> W -> W * (exn + bool).
  Variable assign : list A -> W -> W.

  Notation exec_instr := (exec_instr W A stepf predf assign).
  Notation run_outline := (run_outline W A stepf predf assign).
  Notation chain_result := (chain_result A).

  Notation exec_block := (exec_block W A stepf predf assign).
  Notation exec_branches := (exec_branches W A stepf predf assign).
  Notation pred_eval := (pred_eval W predf).
  Notation ist := (ist W A).
  Notation rst := (rst W).
  Notation outT := (out A).
  Notation mk_ist := (mk_ist W A).
  Notation iw_ := (iw W A).
  Notation icalls_ := (icalls W A).
  Notation iaw_ := (iaw W A).
  Notation step_instr := (step_instr W A stepf predf).
  Notation step_nth := (step_nth W A stepf predf).
  Notation step_branch := (step_branch W A stepf predf).
  Notation block_step := (block_step W A).
  Notation call_step := (call_step W A stepf).
  Notation call_pred := (call_pred W A predf).
  Notation scan_branches := (scan_branches W A predf).
  Notation do_step := (do_step W A stepf predf).
  Notation run_chain := (run_chain W A stepf predf assign).
  Notation barrier := (barrier W A assign).
  Notation rv_regs := (rv_regs A).
  Notation is_normal := (is_normal A).
  Notation ONormal := (ONormal A).
  Notation OStop := (OStop A).
  Notation OErr := (OErr A).
  Notation code_rv := (code_rv A).

  (* ------------------------------------------------------------------ *)
  (* Determinism of the reference semantics                             *)
  (* ------------------------------------------------------------------ *)

  Lemma pred_eval_fun : forall p st st1 r1 st2 r2,
    pred_eval p st st1 r1 -> pred_eval p st st2 r2 -> st1 = st2 /\ r1 = r2.
  Proof.
    intros p st st1 r1 st2 r2 H1 H2.
    inversion H1 as [st0 | n w tr w' r Hp]; subst.
    - inversion H2; subst; auto.
    - inversion H2 as [ | n' w0 tr0 w'0 r0 Hp']; subst.
      rewrite Hp in Hp'. inversion Hp'; subst; auto.
  Qed.

  Ltac det_tac :=
    repeat match goal with
    | Ha : stepf ?f ?w = _, Hb : stepf ?f ?w = _ |- _ =>
        rewrite Ha in Hb; inversion Hb; subst; clear Hb
    | Ha : pred_eval ?p ?st _ _, Hb : pred_eval ?p ?st _ _ |- _ =>
        let E1 := fresh "E" in let E2 := fresh "E" in
        destruct (pred_eval_fun _ _ _ _ _ _ Ha Hb) as [E1 E2]; clear Hb;
        try discriminate E2; subst
    | IH : (forall st2 o2, exec_instr _ _ ?st st2 o2 -> _), Hb : exec_instr _ _ ?st _ _ |- _ =>
        let E1 := fresh "E" in let E2 := fresh "E" in
        destruct (IH _ _ Hb) as [E1 E2]; clear Hb; subst
    | IH : (forall st2 o2, exec_block _ _ ?st st2 o2 -> _), Hb : exec_block _ _ ?st _ _ |- _ =>
        let E1 := fresh "E" in let E2 := fresh "E" in
        destruct (IH _ _ Hb) as [E1 E2]; clear Hb; subst
    | IH : (forall st2 o2, exec_branches _ _ ?st st2 o2 -> _), Hb : exec_branches _ _ ?st _ _ |- _ =>
        let E1 := fresh "E" in let E2 := fresh "E" in
        destruct (IH _ _ Hb) as [E1 E2]; clear Hb; subst
    end.

  Lemma exec_det_mut :
    (forall last i st st1 o1 (H : exec_instr last i st st1 o1),
        forall st2 o2, exec_instr last i st st2 o2 -> st1 = st2 /\ o1 = o2) /\
    (forall last b st st1 o1 (H : exec_block last b st st1 o1),
        forall st2 o2, exec_block last b st st2 o2 -> st1 = st2 /\ o1 = o2) /\
    (forall last brs st st1 o1 (H : exec_branches last brs st st1 o1),
        forall st2 o2, exec_branches last brs st st2 o2 -> st1 = st2 /\ o1 = o2).
  Proof.
    apply exec_mutind; intros;
      match goal with
      | H2 : exec_instr _ _ _ ?s ?o |- _ = ?s /\ _ = ?o => inversion H2; subst; clear H2
      | H2 : exec_block _ _ _ ?s ?o |- _ = ?s /\ _ = ?o => inversion H2; subst; clear H2
      | H2 : exec_branches _ _ _ ?s ?o |- _ = ?s /\ _ = ?o => inversion H2; subst; clear H2
      end; det_tac; auto;
      try match goal with
          | Hn : forall v, ROther ?x <> ROther v |- _ => exfalso; exact (Hn _ eq_refl)
          end;
      try discriminate; try (split; congruence).
  Qed.

  Theorem exec_deterministic : forall last o st st1 o1 st2 o2,
    exec_instr last o st st1 o1 -> exec_instr last o st st2 o2 -> st1 = st2 /\ o1 = o2.
  Proof.
    intros last o st st1 o1 st2 o2 H1 H2.
    exact (proj1 exec_det_mut last o st st1 o1 H1 st2 o2 H2).
  Qed.


  (* ------------------------------------------------------------------ *)
  (* Driving a (sub-)stepper in isolation                               *)
  (* ------------------------------------------------------------------ *)

  (* interpreter state at the start of a _do_step: self._awaitables = {} *)
  Definition mk (st : rst) : ist := mk_ist (fst st) (snd st) [].
  Definition st_of (s : ist) : rst := (iw_ s, icalls_ s).
  (* the ToContext barrier after a step that handed back [v] *)
  Definition await (s1 : ist) (v : rv A) : rst :=
    (barrier (iaw_ s1 ++ rv_regs v) (iw_ s1), icalls_ s1).

  Lemma st_of_mk : forall st, st_of (mk st) = st.
  Proof. intros [w tr]; reflexivity. Qed.

  Lemma mk_st_of : forall s, iaw_ s = [] -> mk (st_of s) = s.
  Proof. intros [w tr aw] H; simpl in H; subst; reflexivity. Qed.

  Lemma await_none : forall s, iaw_ s = [] -> await s RNone = st_of s.
  Proof. intros [w tr aw] H; simpl in H; subst; reflexivity. Qed.

  (* the glue of _do_step / run_chain, seen from a stepper whose "finished" coincides with the
     end of the whole outline iff [last] *)
  Definition glue (last : bool) (s1 : ist) (r : sres A) : (rst * outT) + rst :=
    match r with
    | SRaise (XErr e) => inl (st_of s1, OErr e)
    | SRaise (XReturn c) => inl (st_of s1, OStop (code_rv c))
    | SOk _ (ROther v) => inl (st_of s1, OStop (ROther v))
    | SOk true v => inl (if last then st_of s1 else await s1 v, ONormal v)
    | SOk false v => inr (await s1 v)
    end.

  (* result: remaining fuel, final reference state, outcome *)
  Fixpoint drive (n : nat) (last : bool) (i : instr) (sp : spos) (st : rst)
      : option (nat * rst * outT) :=
    match n with
    | 0 => None
    | S n' =>
        let '(s1, sp1, r) := step_instr i sp (mk st) in
        match glue last s1 r with
        | inl (st', o) => Some (n', st', o)
        | inr st1 => drive n' last i sp1 st1
        end
    end.

  Lemma drive_S : forall n last i sp st,
    drive (S n) last i sp st =
      let '(s1, sp1, r) := step_instr i sp (mk st) in
      match glue last s1 r with
      | inl (st', o) => Some (n, st', o)
      | inr st1 => drive n last i sp1 st1
      end.
  Proof. reflexivity. Qed.

  Lemma drive_lt : forall n last i sp st k st' o,
    drive n last i sp st = Some (k, st', o) -> k < n.
  Proof.
    induction n as [|n IH]; intros last i sp st k st' o H; [discriminate|].
    rewrite drive_S in H. destruct (step_instr i sp (mk st)) as [[s1 sp1] r].
    destruct (glue last s1 r) as [[st'' o'']|st1].
    - inversion H; subst; lia.
    - apply IH in H. lia.
  Qed.

  Lemma drive_add : forall n last i sp st k st' o,
    drive n last i sp st = Some (k, st', o) ->
    forall m, drive (n + m) last i sp st = Some (k + m, st', o).
  Proof.
    induction n as [|n IH]; intros last i sp st k st' o H m; [discriminate|].
    change (S n + m) with (S (n + m)). rewrite drive_S in *.
    destruct (step_instr i sp (mk st)) as [[s1 sp1] r].
    destruct (glue last s1 r) as [[st'' o'']|st1].
    - inversion H; subst; reflexivity.
    - apply IH; assumption.
  Qed.

  Lemma drive_mono : forall n last i sp st k st' o n',
    drive n last i sp st = Some (k, st', o) -> n <= n' ->
    drive n' last i sp st = Some (k + (n' - n), st', o).
  Proof.
    intros n last i sp st k st' o n' H Hle.
    replace n' with (n + (n' - n)) at 1 by lia. apply drive_add; assumption.
  Qed.

  (* A parent stepper whose step is "step the child, then post-process". *)
  Definition wpost (wrap : spos -> spos) (next : spos) (fin' : bool)
      (x : ist * spos * sres A) : ist * spos * sres A :=
    let '(s', c', r) := x in
    match r with
    | SRaise e => (s', wrap c', SRaise e)
    | SOk true v => (s', next, SOk fin' v)
    | SOk false v => (s', wrap c', SOk false v)
    end.

  Definition wcont (last : bool) (P : instr) (next : spos) (fin' : bool)
      (x : option (nat * rst * outT)) : option (nat * rst * outT) :=
    match x with
    | None => None
    | Some (k, st1, o) =>
        match o with
        | OutlineSem.ONormal _ v => if fin' then Some (k, st1, o) else drive k last P next st1
        | _ => Some (k, st1, o)
        end
    end.

  Lemma wcont_true : forall last P next x, wcont last P next true x = x.
  Proof. intros last P next [[[k st1] [v|v|e]]|]; reflexivity. Qed.

  Lemma drive_wrap : forall P C wrap next fin' last,
    (forall c s, step_instr P (wrap c) s = wpost wrap next fin' (step_instr C c s)) ->
    forall n c st,
      drive n last P (wrap c) st = wcont last P next fin' (drive n (last && fin') C c st).
  Proof.
    intros P C wrap next fin' last Hstep.
    induction n as [|n IH]; intros c st; [reflexivity|].
    rewrite !drive_S. rewrite Hstep.
    destruct (step_instr C c (mk st)) as [[s' c'] r].
    unfold wpost.
    destruct r as [[|] [|d|v] | [cd|e]]; cbn [glue wcont]; try reflexivity; try apply IH.
    - destruct fin', last; reflexivity.
    - destruct fin', last; reflexivity.
    - destruct fin'; reflexivity.
  Qed.

  (* ------------------------------------------------------------------ *)
  (* Blocks: indexing, suffixes, creation                               *)
  (* ------------------------------------------------------------------ *)

  Fixpoint bnth (b : block) (n : nat) : option instr :=
    match b, n with
    | BNil, _ => None
    | BCons i _, 0 => Some i
    | BCons _ b', S n' => bnth b' n'
    end.

  Fixpoint bskip (n : nat) (b : block) : block :=
    match n, b with
    | 0, _ => b
    | S n', BCons _ b' => bskip n' b'
    | S _, BNil => BNil
    end.

  Lemma step_nth_bnth : forall b n i, bnth b n = Some i ->
    forall c s, step_nth b n c s = step_instr i c s.
  Proof.
    induction b as [|j b IH]; intros n i H c s; [discriminate|].
    destruct n as [|n]; simpl in H.
    - inversion H; subst; reflexivity.
    - simpl. apply IH; assumption.
  Qed.

  Lemma create_nth_bnth : forall b n i, bnth b n = Some i -> create_nth b n = create i.
  Proof.
    induction b as [|j b IH]; intros n i H; [discriminate|].
    destruct n as [|n]; simpl in H.
    - inversion H; subst; reflexivity.
    - simpl. apply IH; assumption.
  Qed.

  Lemma bnth_lt : forall b n i, bnth b n = Some i -> n < blen b.
  Proof.
    induction b as [|j b IH]; intros n i H; [discriminate|].
    destruct n as [|n]; simpl in *; [lia|]. apply IH in H. lia.
  Qed.

  Lemma bnth_some : forall b n, n < blen b -> exists i, bnth b n = Some i.
  Proof.
    induction b as [|j b IH]; intros n H; simpl in H; [lia|].
    destruct n as [|n]; simpl; [eauto|]. apply IH. lia.
  Qed.

  Lemma bskip_cons : forall pos bfull i rest, bskip pos bfull = BCons i rest ->
    bnth bfull pos = Some i /\ bskip (S pos) bfull = rest /\ blen bfull = S pos + blen rest.
  Proof.
    induction pos as [|pos IH]; intros bfull i rest H.
    - simpl in H; subst. simpl. destruct rest; auto.
    - destruct bfull as [|j b]; simpl in H; [discriminate|].
      apply IH in H. destruct H as (H1 & H2 & H3). simpl. repeat split; auto.
  Qed.

  Lemma bskip_nil_create : forall pos bfull, bskip pos bfull = BNil ->
    create_nth bfull pos = inl (XErr EIndex).
  Proof.
    induction pos as [|pos IH]; intros bfull H.
    - simpl in H; subst; reflexivity.
    - destruct bfull as [|j b]; simpl in *; [reflexivity|]. apply IH; assumption.
  Qed.

  Lemma wf_block_bnth : forall b n i, wf_block b = true -> bnth b n = Some i -> wf_instr i = true.
  Proof.
    induction b as [|j b IH]; intros n i Hwf H; [discriminate|].
    simpl in Hwf. apply andb_true_iff in Hwf. destruct Hwf as [Hj Hb].
    destruct n as [|n]; simpl in H.
    - inversion H; subst; assumption.
    - eapply IH; eassumption.
  Qed.

  Lemma create_block_inv : forall b sp, create_block b = inr sp ->
    exists i b' c, b = BCons i b' /\ create i = inr c /\ sp = PBlock 0 (Some c).
  Proof.
    intros [|i b'] sp H; simpl in H; [discriminate|].
    destruct (create i) as [x|c] eqn:E; [discriminate|].
    inversion H; subst. exists i, b', c. repeat split; assumption.
  Qed.

  Lemma wf_create_mut :
    (forall i, wf_instr i = true -> exists sp, create i = inr sp) /\
    (forall b, wf_block b = true -> blen b <> 0 -> exists sp, create_block b = inr sp) /\
    (forall brs : branches, True).
  Proof.
    apply instr_mutind; intros; simpl; eauto.
    - (* IBlock *)
      simpl in H0. apply andb_true_iff in H0. destruct H0 as [Hne Hwf].
      apply H; auto. destruct (blen b); simpl in Hne; [discriminate|lia].
    - (* BNil *) simpl in H0. lia.
    - (* BCons *)
      simpl in H1. apply andb_true_iff in H1. destruct H1 as [Hi Hb].
      destruct (H Hi) as [c Hc]. rewrite Hc. eauto.
  Qed.

  Lemma wf_create : forall i, wf_instr i = true -> exists sp, create i = inr sp.
  Proof. exact (proj1 wf_create_mut). Qed.

  Lemma wf_create_block : forall b, wf_block b = true -> negb (blen b =? 0) = true ->
    exists c, create_block b = inr (PBlock 0 (Some c)).
  Proof.
    intros b Hwf Hne.
    destruct (proj1 (proj2 wf_create_mut) b Hwf) as [sp Hsp].
    - destruct (blen b); simpl in Hne; [discriminate|lia].
    - destruct (create_block_inv _ _ Hsp) as (i & b' & c & _ & _ & ->). eauto.
  Qed.

  Lemma wf_create_nth : forall b n, wf_block b = true -> n < blen b ->
    exists c, create_nth b n = inr c.
  Proof.
    intros b n Hwf Hlt. destruct (bnth_some _ _ Hlt) as [i Hi].
    rewrite (create_nth_bnth _ _ _ Hi). apply wf_create. eapply wf_block_bnth; eassumption.
  Qed.

  (* the stepper a block moves to when its child at [pos] finishes *)
  Definition bnext (b : block) (pos : nat) : spos :=
    if S pos =? blen b then PBlock (S pos) None
    else match create_nth b (S pos) with
         | inr c2 => PBlock (S pos) (Some c2)
         | inl _ => PBlock (S pos) None
         end.

  Lemma bnext_some : forall b pos, wf_block b = true -> S pos < blen b ->
    exists c2, create_nth b (S pos) = inr c2 /\ bnext b pos = PBlock (S pos) (Some c2).
  Proof.
    intros b pos Hwf Hlt. destruct (wf_create_nth _ _ Hwf Hlt) as [c2 Hc2].
    exists c2. split; [assumption|]. unfold bnext. rewrite Hc2.
    destruct (S pos =? blen b) eqn:E; [apply Nat.eqb_eq in E; lia|reflexivity].
  Qed.

  Lemma step_block_wrap : forall b pos i, wf_block b = true -> bnth b pos = Some i ->
    forall c s, step_instr (IBlock b) (PBlock pos (Some c)) s =
      wpost (fun c => PBlock pos (Some c)) (bnext b pos) (S pos =? blen b) (step_instr i c s).
  Proof.
    intros b pos i Hwf Hi c s.
    change (step_instr (IBlock b) (PBlock pos (Some c)) s)
      with (block_step (step_nth b) b pos (Some c) s).
    unfold block_step. pose proof (bnth_lt _ _ _ Hi) as Hlt.
    destruct (pos =? blen b) eqn:E; [apply Nat.eqb_eq in E; lia|].
    rewrite (step_nth_bnth _ _ _ Hi).
    destruct (step_instr i c s) as [[s' c'] r]. unfold wpost.
    destruct r as [[|] v|x]; try reflexivity.
    unfold bnext. destruct (S pos =? blen b) eqn:E2; [reflexivity|].
    apply Nat.eqb_neq in E2.
    destruct (wf_create_nth b (S pos) Hwf) as [c2 Hc2]; [lia|]. rewrite Hc2. reflexivity.
  Qed.

  Lemma drive_block : forall b pos i last, wf_block b = true -> bnth b pos = Some i ->
    forall n c st,
      drive n last (IBlock b) (PBlock pos (Some c)) st =
        wcont last (IBlock b) (bnext b pos) (S pos =? blen b)
              (drive n (last && (S pos =? blen b)) i c st).
  Proof.
    intros b pos i last Hwf Hi.
    apply (drive_wrap (IBlock b) i (fun c => PBlock pos (Some c))).
    apply step_block_wrap; assumption.
  Qed.

  (* ------------------------------------------------------------------ *)
  (* If and while: the child is the stepper of the body block           *)
  (* ------------------------------------------------------------------ *)

  Lemma step_branch_body : forall brs k body, branch_body brs k = Some body ->
    forall c s, step_branch brs k c s = step_instr (IBlock body) c s.
  Proof.
    induction brs as [|p b rest IH]; intros k body H c s; [discriminate|].
    destruct k as [|k]; simpl in H.
    - inversion H; subst. destruct c; reflexivity.
    - simpl. apply IH; assumption.
  Qed.

  Lemma branch_body_lt : forall brs k body, branch_body brs k = Some body -> k < brlen brs.
  Proof.
    induction brs as [|p b rest IH]; intros k body H; [discriminate|].
    destruct k as [|k]; simpl in *; [lia|]. apply IH in H. lia.
  Qed.

  Lemma branch_body_some : forall brs k, k < brlen brs -> exists body, branch_body brs k = Some body.
  Proof.
    induction brs as [|p b rest IH]; intros k H; simpl in H; [lia|].
    destruct k as [|k]; simpl; [eauto|]. apply IH. lia.
  Qed.

  Lemma wf_branch_body : forall brs k body, wf_branches brs = true ->
    branch_body brs k = Some body -> negb (blen body =? 0) = true /\ wf_block body = true.
  Proof.
    induction brs as [|p b rest IH]; intros k body Hwf H; [discriminate|].
    simpl in Hwf. apply andb_true_iff in Hwf. destruct Hwf as [Hwf Hrest].
    apply andb_true_iff in Hwf. destruct Hwf as [Hne Hb].
    destruct k as [|k]; simpl in H.
    - inversion H; subst; auto.
    - eapply IH; eassumption.
  Qed.

  Lemma step_if_wrap : forall brs pos body, branch_body brs pos = Some body ->
    forall c s, step_instr (IIf brs) (PIf pos (Some c)) s =
      wpost (fun c => PIf pos (Some c)) (PIf (brlen brs) None) true
            (step_instr (IBlock body) c s).
  Proof.
    intros brs pos body Hb c s.
    pose proof (branch_body_lt _ _ _ Hb) as Hlt.
    change (step_instr (IIf brs) (PIf pos (Some c)) s)
      with (if pos =? brlen brs then (s, PIf pos (Some c), SOk true (@RNone A))
            else if_result W A (brlen brs) pos (step_branch brs pos c s)).
    destruct (pos =? brlen brs) eqn:E; [apply Nat.eqb_eq in E; lia|].
    rewrite (step_branch_body _ _ _ Hb).
    destruct (step_instr (IBlock body) c s) as [[s' c'] r]. reflexivity.
  Qed.

  Lemma drive_if_child : forall brs pos body last, branch_body brs pos = Some body ->
    forall n c st,
      drive n last (IIf brs) (PIf pos (Some c)) st = drive n last (IBlock body) c st.
  Proof.
    intros brs pos body last Hb n c st.
    rewrite (drive_wrap (IIf brs) (IBlock body) (fun c => PIf pos (Some c))
                        (PIf (brlen brs) None) true last (step_if_wrap _ _ _ Hb)).
    rewrite wcont_true, andb_true_r. reflexivity.
  Qed.

  Lemma step_while_wrap : forall p body c s,
    step_instr (IWhile p body) (PWhile (Some c)) s =
      wpost (fun c => PWhile (Some c)) (PWhile None) false (step_instr (IBlock body) c s).
  Proof.
    intros p body c s. destruct c; reflexivity.
  Qed.

  Lemma drive_while_child : forall p body last n c st,
    drive n last (IWhile p body) (PWhile (Some c)) st =
      wcont last (IWhile p body) (PWhile None) false (drive n false (IBlock body) c st).
  Proof.
    intros p body last n c st.
    rewrite (drive_wrap (IWhile p body) (IBlock body) (fun c => PWhile (Some c))
                        (PWhile None) false last (step_while_wrap p body)).
    rewrite andb_false_r. reflexivity.
  Qed.

  (* ------------------------------------------------------------------ *)
  (* Predicates, the while head and the if scan                         *)
  (* ------------------------------------------------------------------ *)

  Lemma call_pred_iaw : forall p s s1 r, call_pred p s = (s1, r) -> iaw_ s1 = iaw_ s.
  Proof.
    intros [n|] s s1 r H; simpl in H.
    - destruct (predf n (iw_ s)) as [w' r']. inversion H; subst; reflexivity.
    - inversion H; subst; reflexivity.
  Qed.

  Lemma call_pred_mk : forall p st s1 r, call_pred p (mk st) = (s1, r) ->
    iaw_ s1 = [] /\ pred_eval p st (st_of s1) r.
  Proof.
    intros p [w tr] s1 r H. split.
    - apply call_pred_iaw in H. exact H.
    - destruct p as [n|]; simpl in H.
      + destruct (predf n w) as [w' r'] eqn:E. inversion H; subst.
        unfold st_of; simpl. apply PE_user; assumption.
      + inversion H; subst. apply PE_true.
  Qed.

  Lemma pred_eval_call : forall p st st1 r,
    pred_eval p st st1 r -> call_pred p (mk st) = (mk st1, r).
  Proof.
    intros p st st1 r H. inversion H as [[w tr] | n w tr w' r' Hp]; subst.
    - reflexivity.
    - simpl. rewrite Hp. reflexivity.
  Qed.

  Lemma step_while_none_unf : forall p body s,
    step_instr (IWhile p body) (PWhile None) s =
      let '(s1, r) := call_pred p s in
      match r with
      | inl e => (s1, PWhile None, SRaise (XErr e))
      | inr false => (s1, PWhile None, SOk true RNone)
      | inr true =>
          match create_block body with
          | inl x => (s1, PWhile None, SRaise x)
          | inr (PBlock pos ch) =>
              step_instr (IWhile p body) (PWhile (Some (PBlock pos ch))) s1
          | inr _ => (s1, PWhile None, shape_error A)
          end
      end.
  Proof. reflexivity. Qed.

  Lemma step_while_none : forall p body c s,
    create_block body = inr (PBlock 0 (Some c)) ->
    step_instr (IWhile p body) (PWhile None) s =
      let '(s1, r) := call_pred p s in
      match r with
      | inl e => (s1, PWhile None, SRaise (XErr e))
      | inr false => (s1, PWhile None, SOk true RNone)
      | inr true => step_instr (IWhile p body) (PWhile (Some (PBlock 0 (Some c)))) s1
      end.
  Proof.
    intros p body c s H. rewrite step_while_none_unf, H. reflexivity.
  Qed.

  Lemma drive_while_head : forall n last p body st c,
    create_block body = inr (PBlock 0 (Some c)) ->
    drive (S n) last (IWhile p body) (PWhile None) st =
      let '(s1, r) := call_pred p (mk st) in
      match r with
      | inl e => Some (n, st_of s1, OErr e)
      | inr false => Some (n, st_of s1, ONormal RNone)
      | inr true =>
          drive (S n) last (IWhile p body) (PWhile (Some (PBlock 0 (Some c)))) (st_of s1)
      end.
  Proof.
    intros n last p body st c H. rewrite drive_S. rewrite (step_while_none _ _ _ _ H).
    destruct (call_pred p (mk st)) as [s1 r] eqn:E.
    destruct (call_pred_mk _ _ _ _ E) as [Haw _].
    destruct r as [e|[|]].
    - reflexivity.
    - rewrite drive_S. rewrite (mk_st_of _ Haw). reflexivity.
    - cbn [glue]. rewrite (await_none _ Haw). destruct last; reflexivity.
  Qed.

  Lemma scan_add : forall brs a b s,
    scan_branches brs (a + b) s =
      let '(s1, p1, e) := scan_branches brs b s in (s1, a + p1, e).
  Proof.
    induction brs as [|p body rest IH]; intros a b s; simpl.
    - reflexivity.
    - destruct (call_pred p s) as [s' r]. destruct r as [e|[|]]; try reflexivity.
      rewrite plus_n_Sm. apply IH.
  Qed.

  Lemma scan_iaw : forall brs pos s s1 pos1 e,
    scan_branches brs pos s = (s1, pos1, e) -> iaw_ s1 = iaw_ s.
  Proof.
    induction brs as [|p body rest IH]; intros pos s s1 pos1 e H; simpl in H.
    - inversion H; subst; reflexivity.
    - destruct (call_pred p s) as [s' r] eqn:E. apply call_pred_iaw in E.
      destruct r as [e'|[|]].
      + inversion H; subst; assumption.
      + inversion H; subst; assumption.
      + apply IH in H. congruence.
  Qed.

  Lemma scan_bound : forall brs pos s s1 pos1 e,
    scan_branches brs pos s = (s1, pos1, e) -> pos1 <= pos + brlen brs.
  Proof.
    induction brs as [|p body rest IH]; intros pos s s1 pos1 e H; simpl in H.
    - inversion H; subst; simpl; lia.
    - destruct (call_pred p s) as [s' r] eqn:E.
      destruct r as [e'|[|]].
      + inversion H; subst; lia.
      + inversion H; subst; lia.
      + apply IH in H. simpl. lia.
  Qed.

  Lemma step_if_none : forall brs s,
    step_instr (IIf brs) (PIf 0 None) s =
      let '(s1, pos1, err) := scan_branches brs 0 s in
      match err with
      | Some e => (s1, PIf pos1 None, SRaise (XErr e))
      | None =>
          if pos1 =? brlen brs then (s1, PIf pos1 None, SOk true RNone)
          else match branch_body brs pos1 with
               | None => (s1, PIf pos1 None, SRaise (XErr EIndex))
               | Some body =>
                   match create_block body with
                   | inl x => (s1, PIf pos1 None, SRaise x)
                   | inr c => step_instr (IIf brs) (PIf pos1 (Some c)) s1
                   end
               end
      end.
  Proof.
    intros brs s. destruct brs as [|p body rest]; [reflexivity|].
    change (step_instr (IIf (BrCons p body rest)) (PIf 0 None) s)
      with (let '(s1, pos1, err) := scan_branches (BrCons p body rest) 0 s in
            match err with
            | Some e => (s1, PIf pos1 None, SRaise (XErr e))
            | None =>
                if pos1 =? brlen (BrCons p body rest) then (s1, PIf pos1 None, SOk true (@RNone A))
                else match branch_body (BrCons p body rest) pos1 with
                     | None => (s1, PIf pos1 None, SRaise (XErr EIndex))
                     | Some body0 =>
                         match create_block body0 with
                         | inl x => (s1, PIf pos1 None, SRaise x)
                         | inr c => if_result W A (brlen (BrCons p body rest)) pos1
                                      (step_branch (BrCons p body rest) pos1 c s1)
                         end
                     end
            end).
    destruct (scan_branches (BrCons p body rest) 0 s) as [[s1 pos1] err].
    destruct err as [e|]; [reflexivity|].
    destruct (pos1 =? brlen (BrCons p body rest)) eqn:E; [reflexivity|].
    destruct (branch_body (BrCons p body rest) pos1) as [body0|]; [|reflexivity].
    destruct (create_block body0) as [x|c]; [reflexivity|].
    change (step_instr (IIf (BrCons p body rest)) (PIf pos1 (Some c)) s1)
      with (if pos1 =? brlen (BrCons p body rest)
            then (s1, PIf pos1 (Some c), SOk true (@RNone A))
            else if_result W A (brlen (BrCons p body rest)) pos1
                   (step_branch (BrCons p body rest) pos1 c s1)).
    rewrite E. reflexivity.
  Qed.

  Lemma drive_if_err : forall n last brs st s1 pos1 e,
    scan_branches brs 0 (mk st) = (s1, pos1, Some e) ->
    drive (S n) last (IIf brs) (PIf 0 None) st = Some (n, st_of s1, OErr e).
  Proof.
    intros n last brs st s1 pos1 e H. rewrite drive_S, step_if_none, H. reflexivity.
  Qed.

  Lemma drive_if_none : forall n last brs st s1,
    scan_branches brs 0 (mk st) = (s1, brlen brs, None) ->
    drive (S n) last (IIf brs) (PIf 0 None) st = Some (n, st_of s1, ONormal RNone).
  Proof.
    intros n last brs st s1 H. rewrite drive_S, step_if_none, H.
    rewrite Nat.eqb_refl. cbn [glue].
    rewrite await_none by (apply scan_iaw in H; exact H).
    destruct last; reflexivity.
  Qed.

  Lemma drive_if_taken : forall n last brs st s1 pos1 body c,
    scan_branches brs 0 (mk st) = (s1, pos1, None) ->
    branch_body brs pos1 = Some body ->
    create_block body = inr c ->
    drive (S n) last (IIf brs) (PIf 0 None) st =
      drive (S n) last (IIf brs) (PIf pos1 (Some c)) (st_of s1).
  Proof.
    intros n last brs st s1 pos1 body c H Hb Hc.
    rewrite !drive_S, step_if_none, H.
    pose proof (branch_body_lt _ _ _ Hb) as Hlt.
    destruct (pos1 =? brlen brs) eqn:E; [apply Nat.eqb_eq in E; lia|].
    rewrite Hb, Hc. rewrite mk_st_of by (apply scan_iaw in H; exact H). reflexivity.
  Qed.

  (* the scan characterises exec_branches *)
  Lemma scan_exec : forall last brs st s1 pos1 err st' o,
    scan_branches brs 0 (mk st) = (s1, pos1, err) ->
    match err with
    | Some e => o = OErr e /\ st' = st_of s1
    | None => (pos1 = brlen brs /\ o = ONormal RNone /\ st' = st_of s1) \/
              (exists body, branch_body brs pos1 = Some body /\
                            exec_block last body (st_of s1) st' o)
    end -> exec_branches last brs st st' o.
  Proof.
    intros last. induction brs as [|p body rest IH]; intros st s1 pos1 err st' o Hscan H.
    - simpl in Hscan. inversion Hscan; subst.
      destruct H as [(_ & -> & ->) | (body & Hb & _)]; [|discriminate].
      rewrite st_of_mk. apply EBr_none.
    - simpl in Hscan. destruct (call_pred p (mk st)) as [s' r] eqn:E.
      destruct (call_pred_mk _ _ _ _ E) as [Haw Hp].
      destruct r as [e|[|]].
      + inversion Hscan; subst. destruct H as [-> ->]. apply EBr_err; assumption.
      + inversion Hscan; subst.
        destruct H as [(Hl & _) | (body' & Hb & Hx)]; [simpl in Hl; discriminate|].
        simpl in Hb. inversion Hb; subst. eapply EBr_taken; eassumption.
      + change 1 with (1 + 0) in Hscan. rewrite scan_add in Hscan.
        rewrite <- (mk_st_of _ Haw) in Hscan.
        destruct (scan_branches rest 0 (mk (st_of s'))) as [[s1' p1'] e'] eqn:E2.
        inversion Hscan; subst.
        eapply EBr_skip; [eassumption|]. eapply IH; [eassumption|].
        destruct err as [e|]; [assumption|].
        destruct H as [(Hl & Ho & Hs) | (body' & Hb & Hx)].
        * left. simpl in Hl. repeat split; auto.
        * right. exists body'. split; assumption.
  Qed.

  (* ------------------------------------------------------------------ *)
  (* run_chain is the top-level drive                                    *)
  (* ------------------------------------------------------------------ *)

  Lemma run_chain_S : forall n o sp s,
    run_chain (S n) o sp s =
      let '(s1, sp1, d) := do_step o sp s in
      match d with
      | DFinish _ r => Some (s1, sp1, inr r)
      | DFail _ e => Some (s1, sp1, inl e)
      | DContinue _ => run_chain n o sp1 s1
      | DWait _ aw => run_chain n o sp1 (mk_ist (assign aw (iw_ s1)) (icalls_ s1) (iaw_ s1))
      end.
  Proof. reflexivity. Qed.

  Lemma run_chain_drive : forall n o sp s,
    match run_chain n o sp s with
    | None => drive n true o sp (st_of s) = None
    | Some (s', sp', r) =>
        exists k out, drive n true o sp (st_of s) = Some (k, st_of s', out) /\
                      chain_result out = r
    end.
  Proof.
    induction n as [|n IH]; intros o sp s; [reflexivity|].
    rewrite drive_S, run_chain_S. unfold OutlineModel.do_step.
    change (mk (st_of s)) with (mk_ist (iw_ s) (icalls_ s) []).
    destruct (step_instr o sp (mk_ist (iw_ s) (icalls_ s) [])) as [[s1 sp1] r].
    destruct r as [[|] [|d|v] | [c|e]]; cbn [glue].
    - exists n, (ONormal RNone). split; reflexivity.
    - exists n, (ONormal (RToCtx d)). split; reflexivity.
    - exists n, (OStop (ROther v)). split; reflexivity.
    - destruct (iaw_ s1) as [|a l] eqn:E.
      + specialize (IH o sp1 s1).
        replace (await s1 RNone) with (st_of s1); [exact IH|].
        unfold await; rewrite E; reflexivity.
      + specialize (IH o sp1 (mk_ist (assign (a :: l) (iw_ s1)) (icalls_ s1) (iaw_ s1))).
        replace (await s1 RNone)
          with (st_of (mk_ist (assign (a :: l) (iw_ s1)) (icalls_ s1) (iaw_ s1))); [exact IH|].
        unfold await, st_of; simpl. rewrite E, app_nil_r. reflexivity.
    - simpl. destruct (iaw_ s1 ++ d) as [|a l] eqn:E.
      + specialize (IH o sp1 (mk_ist (iw_ s1) (icalls_ s1) [])).
        replace (await s1 (RToCtx d)) with (st_of (mk_ist (iw_ s1) (icalls_ s1) [])); [exact IH|].
        unfold await, st_of; simpl. rewrite E. reflexivity.
      + specialize (IH o sp1 (mk_ist (assign (a :: l) (iw_ s1)) (icalls_ s1) (a :: l))).
        replace (await s1 (RToCtx d))
          with (st_of (mk_ist (assign (a :: l) (iw_ s1)) (icalls_ s1) (a :: l))); [exact IH|].
        unfold await, st_of; simpl. rewrite E. reflexivity.
    - exists n, (OStop (ROther v)). split; reflexivity.
    - exists n, (OStop (code_rv c)). split; reflexivity.
    - exists n, (OErr e). split; reflexivity.
  Qed.

  (* ------------------------------------------------------------------ *)
  (* Leaves                                                              *)
  (* ------------------------------------------------------------------ *)

  Lemma step_ret_unf : forall c s,
    step_instr (IReturn c) PRet s = (s, PRet, SRaise (XReturn c)).
  Proof. reflexivity. Qed.

  Lemma step_fun_unf : forall f s,
    step_instr (IStep f) PFun s =
      let '(s', r) := call_step f s in
      match r with
      | inr v => (s', PFun, SOk true v)
      | inl e => (s', PFun, SRaise (XErr e))
      end.
  Proof. reflexivity. Qed.

  Lemma drive_step : forall n last f w tr,
    drive (S n) last (IStep f) PFun (w, tr) =
      let '(w', reg, r) := stepf f w in
      match r with
      | inl e => Some (n, (w', tr ++ [CStep f]), OErr e)
      | inr (ROther v) => Some (n, (w', tr ++ [CStep f]), OStop (ROther v))
      | inr v => Some (n, (if last then w' else barrier (reg ++ rv_regs v) w',
                           tr ++ [CStep f]), ONormal v)
      end.
  Proof.
    intros n last f w tr. rewrite drive_S, step_fun_unf.
    unfold OutlineModel.call_step, mk. simpl.
    destruct (stepf f w) as [[w' reg] r].
    destruct r as [e|[|d|v]]; simpl; try reflexivity; destruct last; reflexivity.
  Qed.

  Lemma drive_return : forall n last c st,
    drive (S n) last (IReturn c) PRet st = Some (n, st, OStop (code_rv c)).
  Proof.
    intros n last c st. rewrite drive_S, step_ret_unf. cbn [glue]. rewrite st_of_mk. reflexivity.
  Qed.

  Lemma scan_cons : forall p body rest pos s,
    scan_branches (BrCons p body rest) pos s =
      let '(s', r) := call_pred p s in
      match r with
      | inl e => (s', pos, Some e)
      | inr true => (s', pos, None)
      | inr false => scan_branches rest (S pos) s'
      end.
  Proof. reflexivity. Qed.

  (* ------------------------------------------------------------------ *)
  (* Soundness: a terminating drive from the initial stepper is an exec  *)
  (* ------------------------------------------------------------------ *)

  Definition SI (n : nat) (i : instr) : Prop :=
    forall last st k st' o sp, wf_instr i = true -> create i = inr sp ->
      drive n last i sp st = Some (k, st', o) -> exec_instr last i st st' o.
  Definition SB (n : nat) (b : block) : Prop :=
    forall bfull pos c0 last st k st' o, bskip pos bfull = b -> wf_block bfull = true ->
      create_nth bfull pos = inr c0 ->
      drive n last (IBlock bfull) (PBlock pos (Some c0)) st = Some (k, st', o) ->
      exec_block last b st st' o.
  Definition SBr (n : nat) (brs : branches) : Prop :=
    forall k body, branch_body brs k = Some body -> SB n body.

  Lemma sound_main : forall n,
    (forall i, SI n i) /\ (forall b, SB n b) /\ (forall brs, SBr n brs).
  Proof.
    induction n as [n IHn] using lt_wf_ind.
    apply instr_mutind.
    - (* IStep *)
      intros f last st k st' o sp Hwf Hc Hd. simpl in Hc. inversion Hc; subst sp.
      destruct n as [|n]; [discriminate|]. destruct st as [w tr].
      rewrite drive_step in Hd. destruct (stepf f w) as [[w' reg] r] eqn:E.
      destruct r as [e|[|d|v]]; inversion Hd; subst.
      + eapply E_step_err; eassumption.
      + destruct last.
        * apply (E_step_last W A stepf predf assign f w tr w' reg RNone E).
          intros v0; discriminate.
        * apply (E_step_next W A stepf predf assign f w tr w' reg RNone E).
          intros v0; discriminate.
      + destruct last.
        * apply (E_step_last W A stepf predf assign f w tr w' reg (RToCtx d) E).
          intros v0; discriminate.
        * apply (E_step_next W A stepf predf assign f w tr w' reg (RToCtx d) E).
          intros v0; discriminate.
      + eapply E_step_stop; eassumption.
    - (* IBlock *)
      intros b IHb last st k st' o sp Hwf Hc Hd. simpl in Hwf, Hc.
      apply andb_true_iff in Hwf. destruct Hwf as [Hne Hwfb].
      destruct (create_block_inv _ _ Hc) as (i & b' & c & -> & Hci & ->).
      apply E_block.
      exact (IHb (BCons i b') 0 c last st k st' o eq_refl Hwfb Hci Hd).
    - (* IIf *)
      intros brs IHbr last st k st' o sp Hwf Hc Hd. simpl in Hwf, Hc.
      inversion Hc; subst sp.
      destruct n as [|n]; [discriminate|].
      apply E_if.
      destruct (scan_branches brs 0 (mk st)) as [[s1 pos1] err] eqn:Hscan.
      eapply scan_exec; [exact Hscan|].
      destruct err as [e|].
      + rewrite (drive_if_err _ _ _ _ _ _ _ Hscan) in Hd. inversion Hd; subst; auto.
      + destruct (Nat.eq_dec pos1 (brlen brs)) as [->|Hne].
        * rewrite (drive_if_none _ _ _ _ _ Hscan) in Hd. inversion Hd; subst. left; auto.
        * pose proof (scan_bound _ _ _ _ _ _ Hscan) as Hb. simpl in Hb.
          destruct (branch_body_some brs pos1) as [body Hbody]; [lia|].
          destruct (wf_branch_body _ _ _ Hwf Hbody) as [Hne' Hwfb].
          destruct (wf_create_block _ Hwfb Hne') as [c Hcb].
          rewrite (drive_if_taken _ _ _ _ _ _ _ _ Hscan Hbody Hcb) in Hd.
          rewrite (drive_if_child _ _ _ _ Hbody) in Hd.
          right. exists body. split; [assumption|].
          destruct (create_block_inv _ _ Hcb) as (i & b' & c' & Hbeq & Hci & Heq).
          inversion Heq; subst c'.
          refine (IHbr pos1 body Hbody body 0 c last _ k st' o eq_refl Hwfb _ Hd).
          subst body. exact Hci.
    - (* IWhile *)
      intros p body IHb last st k st' o sp Hwf Hc Hd. simpl in Hwf, Hc.
      inversion Hc; subst sp.
      apply andb_true_iff in Hwf. destruct Hwf as [Hne Hwfb].
      destruct (wf_create_block _ Hwfb Hne) as [c Hcb].
      destruct n as [|n]; [discriminate|].
      rewrite (drive_while_head _ _ _ _ _ _ Hcb) in Hd.
      destruct (call_pred p (mk st)) as [s1 r] eqn:E.
      destruct (call_pred_mk _ _ _ _ E) as [Haw Hp].
      destruct r as [e|[|]].
      + inversion Hd; subst. apply E_while_err; assumption.
      + rewrite drive_while_child in Hd.
        destruct (drive (S n) false (IBlock body) (PBlock 0 (Some c)) (st_of s1))
          as [[[k1 st1] o1]|] eqn:D; [|discriminate].
        assert (Hx : exec_block false body (st_of s1) st1 o1).
        { destruct (create_block_inv _ _ Hcb) as (i & b' & c' & Hbeq & Hci & Heq).
          inversion Heq; subst c'.
          refine (IHb body 0 c false _ k1 st1 o1 eq_refl Hwfb _ D).
          subst body. exact Hci. }
        pose proof (drive_lt _ _ _ _ _ _ _ _ D) as Hlt.
        destruct o1 as [v|v|e]; cbn [wcont] in Hd.
        * eapply E_while_loop; [eassumption|eassumption|].
          refine (proj1 (IHn k1 Hlt) (IWhile p body) last st1 k st' o (PWhile None) _ eq_refl Hd).
          simpl. rewrite Hne, Hwfb. reflexivity.
        * inversion Hd; subst. eapply E_while_exit; eauto.
        * inversion Hd; subst. eapply E_while_exit; eauto.
      + inversion Hd; subst. apply E_while_false; assumption.
    - (* IReturn *)
      intros c last st k st' o sp Hwf Hc Hd. simpl in Hc. inversion Hc; subst sp.
      destruct n as [|n]; [discriminate|]. rewrite drive_return in Hd.
      inversion Hd; subst. apply E_return.
    - (* BNil *)
      intros bfull pos c0 last st k st' o Hs Hwf Hc Hd.
      rewrite (bskip_nil_create _ _ Hs) in Hc. discriminate.
    - (* BCons *)
      intros i IHi b IHb bfull pos c0 last st k st' o Hs Hwf Hc Hd.
      destruct (bskip_cons _ _ _ _ Hs) as (Hnth & Hs' & Hlen).
      rewrite (drive_block _ _ _ _ Hwf Hnth) in Hd.
      pose proof (wf_block_bnth _ _ _ Hwf Hnth) as Hwfi.
      rewrite (create_nth_bnth _ _ _ Hnth) in Hc.
      destruct b as [|j b'].
      + simpl in Hlen.
        replace (S pos =? blen bfull) with true in Hd by (symmetry; apply Nat.eqb_eq; lia).
        rewrite wcont_true, andb_true_r in Hd.
        apply EB_last. eapply IHi; eassumption.
      + simpl in Hlen.
        replace (S pos =? blen bfull) with false in Hd by (symmetry; apply Nat.eqb_neq; lia).
        rewrite andb_false_r in Hd.
        destruct (drive n false i c0 st) as [[[k1 st1] o1]|] eqn:D; [|discriminate].
        pose proof (IHi _ _ _ _ _ _ Hwfi Hc D) as Hx.
        destruct o1 as [v|v|e]; cbn [wcont] in Hd.
        * destruct (bnext_some bfull pos Hwf) as (c2 & Hc2 & Hnext); [lia|].
          rewrite Hnext in Hd.
          pose proof (drive_lt _ _ _ _ _ _ _ _ D) as Hlt.
          eapply EB_next; [exact Hx|].
          eapply (IHb bfull (S pos) c2); [exact Hs'|exact Hwf|exact Hc2|].
          eapply drive_mono; [exact Hd|lia].
        * inversion Hd; subst. apply EB_stop; auto.
        * inversion Hd; subst. apply EB_stop; auto.
    - (* BrNil *)
      intros k body H. discriminate.
    - (* BrCons *)
      intros p body IHb rest IHr k body' H. destruct k as [|k]; simpl in H.
      + inversion H; subst; exact IHb.
      + eapply IHr; eassumption.
  Qed.

  (* ------------------------------------------------------------------ *)
  (* Completeness: an exec is reproduced by driving the initial stepper  *)
  (* ------------------------------------------------------------------ *)

  Lemma complete_main :
    (forall last i st st' o (H : exec_instr last i st st' o),
       wf_instr i = true -> forall sp, create i = inr sp ->
       exists n k, drive n last i sp st = Some (k, st', o)) /\
    (forall last b st st' o (H : exec_block last b st st' o),
       forall bfull pos c0, bskip pos bfull = b -> wf_block bfull = true ->
       create_nth bfull pos = inr c0 ->
       exists n k, drive n last (IBlock bfull) (PBlock pos (Some c0)) st = Some (k, st', o)) /\
    (forall last brs st st' o (H : exec_branches last brs st st' o),
       wf_branches brs = true -> forall s1 pos1 err,
       scan_branches brs 0 (mk st) = (s1, pos1, err) ->
       match err with
       | Some e => o = OErr e /\ st' = st_of s1
       | None =>
           (pos1 = brlen brs /\ o = ONormal RNone /\ st' = st_of s1) \/
           (exists body c, branch_body brs pos1 = Some body /\
              create_block body = inr (PBlock 0 (Some c)) /\
              exists n k, drive n last (IBlock body) (PBlock 0 (Some c)) (st_of s1)
                          = Some (k, st', o))
       end).
  Proof.
    apply exec_mutind.
    - (* E_step_err *)
      intros last f w tr w' reg e He Hwf sp Hc. simpl in Hc; inversion Hc; subst sp.
      exists 1, 0. rewrite drive_step, He. reflexivity.
    - (* E_step_stop *)
      intros last f w tr w' reg v He Hwf sp Hc. simpl in Hc; inversion Hc; subst sp.
      exists 1, 0. rewrite drive_step, He. reflexivity.
    - (* E_step_last *)
      intros f w tr w' reg r He Hn Hwf sp Hc. simpl in Hc; inversion Hc; subst sp.
      exists 1, 0. rewrite drive_step, He.
      destruct r as [|d|v]; [reflexivity|reflexivity|exfalso; exact (Hn v eq_refl)].
    - (* E_step_next *)
      intros f w tr w' reg r He Hn Hwf sp Hc. simpl in Hc; inversion Hc; subst sp.
      exists 1, 0. rewrite drive_step, He.
      destruct r as [|d|v]; [reflexivity|reflexivity|exfalso; exact (Hn v eq_refl)].
    - (* E_return *)
      intros last c st Hwf sp Hc. simpl in Hc; inversion Hc; subst sp.
      exists 1, 0. apply drive_return.
    - (* E_block *)
      intros last b st st' o Hx IH Hwf sp Hc. simpl in Hwf, Hc.
      apply andb_true_iff in Hwf. destruct Hwf as [Hne Hwfb].
      destruct (create_block_inv _ _ Hc) as (i & b' & c & -> & Hci & ->).
      exact (IH (BCons i b') 0 c eq_refl Hwfb Hci).
    - (* E_if *)
      intros last brs st st' o Hx IH Hwf sp Hc. simpl in Hwf, Hc. inversion Hc; subst sp.
      destruct (scan_branches brs 0 (mk st)) as [[s1 pos1] err] eqn:Hscan.
      specialize (IH Hwf s1 pos1 err eq_refl).
      destruct err as [e|].
      + destruct IH as [-> ->]. exists 1, 0. apply (drive_if_err _ _ _ _ _ _ _ Hscan).
      + destruct IH as [(-> & -> & ->) | (body & c & Hbody & Hcb & n & k & Hd)].
        * exists 1, 0. apply (drive_if_none _ _ _ _ _ Hscan).
        * destruct n as [|n]; [discriminate|]. exists (S n), k.
          rewrite (drive_if_taken _ _ _ _ _ _ _ _ Hscan Hbody Hcb).
          rewrite (drive_if_child _ _ _ _ Hbody). exact Hd.
    - (* E_while_err *)
      intros last p body st st1 e Hp Hwf sp Hc. simpl in Hwf, Hc. inversion Hc; subst sp.
      apply andb_true_iff in Hwf. destruct Hwf as [Hne Hwfb].
      destruct (wf_create_block _ Hwfb Hne) as [c Hcb].
      exists 1, 0. rewrite (drive_while_head _ _ _ _ _ _ Hcb), (pred_eval_call _ _ _ _ Hp).
      cbv beta iota. rewrite st_of_mk. reflexivity.
    - (* E_while_false *)
      intros last p body st st1 Hp Hwf sp Hc. simpl in Hwf, Hc. inversion Hc; subst sp.
      apply andb_true_iff in Hwf. destruct Hwf as [Hne Hwfb].
      destruct (wf_create_block _ Hwfb Hne) as [c Hcb].
      exists 1, 0. rewrite (drive_while_head _ _ _ _ _ _ Hcb), (pred_eval_call _ _ _ _ Hp).
      cbv beta iota. rewrite st_of_mk. reflexivity.
    - (* E_while_exit *)
      intros last p body st st1 st2 o Hp Hx IH Hn Hwf sp Hc. simpl in Hwf, Hc.
      inversion Hc; subst sp.
      apply andb_true_iff in Hwf. destruct Hwf as [Hne Hwfb].
      destruct (wf_create_block _ Hwfb Hne) as [c Hcb].
      assert (Hcn : create_nth body 0 = inr c).
      { destruct (create_block_inv _ _ Hcb) as (i & b' & c' & -> & Hci & Heq).
        inversion Heq; subst c'. exact Hci. }
      destruct (IH body 0 c eq_refl Hwfb Hcn) as (n & k & Hd).
      destruct n as [|n]; [discriminate|]. exists (S n), k.
      rewrite (drive_while_head _ _ _ _ _ _ Hcb), (pred_eval_call _ _ _ _ Hp).
      cbv beta iota. rewrite st_of_mk, drive_while_child, Hd.
      destruct o as [v|v|e]; [discriminate Hn|reflexivity|reflexivity].
    - (* E_while_loop *)
      intros last p body st st1 st2 st3 v o Hp Hx IHb Hloop IHl Hwf sp Hc.
      pose proof Hwf as Hwf0. simpl in Hwf, Hc. inversion Hc; subst sp.
      apply andb_true_iff in Hwf. destruct Hwf as [Hne Hwfb].
      destruct (wf_create_block _ Hwfb Hne) as [c Hcb].
      assert (Hcn : create_nth body 0 = inr c).
      { destruct (create_block_inv _ _ Hcb) as (i & b' & c' & -> & Hci & Heq).
        inversion Heq; subst c'. exact Hci. }
      destruct (IHb body 0 c eq_refl Hwfb Hcn) as (n1 & k1 & Hd1).
      destruct (IHl Hwf0 (PWhile None) eq_refl) as (n2 & k2 & Hd2).
      destruct n1 as [|n1]; [discriminate|].
      exists (S (n1 + n2)), (k2 + k1).
      rewrite (drive_while_head _ _ _ _ _ _ Hcb), (pred_eval_call _ _ _ _ Hp).
      cbv beta iota. rewrite st_of_mk, drive_while_child.
      change (S (n1 + n2)) with (S n1 + n2).
      rewrite (drive_add _ _ _ _ _ _ _ _ Hd1 n2). cbn [wcont].
      rewrite (Nat.add_comm k1 n2). apply drive_add; exact Hd2.
    - (* EB_last *)
      intros last i st st' o Hx IH bfull pos c0 Hs Hwf Hc.
      destruct (bskip_cons _ _ _ _ Hs) as (Hnth & Hs' & Hlen). simpl in Hlen.
      rewrite (create_nth_bnth _ _ _ Hnth) in Hc.
      destruct (IH (wf_block_bnth _ _ _ Hwf Hnth) _ Hc) as (n & k & Hd).
      exists n, k. rewrite (drive_block _ _ _ _ Hwf Hnth).
      replace (S pos =? blen bfull) with true by (symmetry; apply Nat.eqb_eq; lia).
      rewrite wcont_true, andb_true_r. exact Hd.
    - (* EB_stop *)
      intros last i j b st st' o Hx IH Hn bfull pos c0 Hs Hwf Hc.
      destruct (bskip_cons _ _ _ _ Hs) as (Hnth & Hs' & Hlen). simpl in Hlen.
      rewrite (create_nth_bnth _ _ _ Hnth) in Hc.
      destruct (IH (wf_block_bnth _ _ _ Hwf Hnth) _ Hc) as (n & k & Hd).
      exists n, k. rewrite (drive_block _ _ _ _ Hwf Hnth).
      replace (S pos =? blen bfull) with false by (symmetry; apply Nat.eqb_neq; lia).
      rewrite andb_false_r, Hd.
      destruct o as [v|v|e]; [discriminate Hn|reflexivity|reflexivity].
    - (* EB_next *)
      intros last i j b st st1 st2 v o Hx IHi Hb IHb bfull pos c0 Hs Hwf Hc.
      destruct (bskip_cons _ _ _ _ Hs) as (Hnth & Hs' & Hlen). simpl in Hlen.
      rewrite (create_nth_bnth _ _ _ Hnth) in Hc.
      destruct (bnext_some bfull pos Hwf) as (c2 & Hc2 & Hnext); [lia|].
      destruct (IHi (wf_block_bnth _ _ _ Hwf Hnth) _ Hc) as (n1 & k1 & Hd1).
      destruct (IHb bfull (S pos) c2 Hs' Hwf Hc2) as (n2 & k2 & Hd2).
      exists (n1 + n2), (k2 + k1). rewrite (drive_block _ _ _ _ Hwf Hnth).
      replace (S pos =? blen bfull) with false by (symmetry; apply Nat.eqb_neq; lia).
      rewrite andb_false_r, (drive_add _ _ _ _ _ _ _ _ Hd1 n2). cbn [wcont].
      rewrite Hnext, (Nat.add_comm k1 n2). apply drive_add; exact Hd2.
    - (* EBr_none *)
      intros last st Hwf s1 pos1 err Hscan. simpl in Hscan. inversion Hscan; subst.
      left. rewrite st_of_mk. auto.
    - (* EBr_err *)
      intros last p body rest st st1 e Hp Hwf s1 pos1 err Hscan.
      rewrite scan_cons, (pred_eval_call _ _ _ _ Hp) in Hscan. cbv beta iota in Hscan.
      inversion Hscan; subst. rewrite st_of_mk. auto.
    - (* EBr_taken *)
      intros last p body rest st st1 st2 o Hp Hx IH Hwf s1 pos1 err Hscan.
      rewrite scan_cons, (pred_eval_call _ _ _ _ Hp) in Hscan. cbv beta iota in Hscan.
      inversion Hscan; subst. right.
      simpl in Hwf. apply andb_true_iff in Hwf. destruct Hwf as [Hwf Hrest].
      apply andb_true_iff in Hwf. destruct Hwf as [Hne Hwfb].
      destruct (wf_create_block _ Hwfb Hne) as [c Hcb].
      assert (Hcn : create_nth body 0 = inr c).
      { destruct (create_block_inv _ _ Hcb) as (i & b' & c' & -> & Hci & Heq).
        inversion Heq; subst c'. exact Hci. }
      exists body, c. split; [reflexivity|]. split; [exact Hcb|].
      rewrite st_of_mk. exact (IH body 0 c eq_refl Hwfb Hcn).
    - (* EBr_skip *)
      intros last p body rest st st1 st2 o Hp Hx IH Hwf s1 pos1 err Hscan.
      rewrite scan_cons, (pred_eval_call _ _ _ _ Hp) in Hscan. cbv beta iota in Hscan.
      change 1 with (1 + 0) in Hscan. rewrite scan_add in Hscan.
      destruct (scan_branches rest 0 (mk st1)) as [[s1' p1'] e'] eqn:E2.
      inversion Hscan; subst.
      simpl in Hwf. apply andb_true_iff in Hwf. destruct Hwf as [Hwf Hrest].
      specialize (IH Hrest _ _ _ eq_refl).
      destruct err as [e|]; [assumption|].
      destruct IH as [(-> & -> & ->) | (body' & c & Hb & Hcb & Hd)].
      + left. simpl. auto.
      + right. exists body', c. simpl. auto.
  Qed.

  (* ------------------------------------------------------------------ *)
  (* The theorems                                                        *)
  (* ------------------------------------------------------------------ *)

  Theorem run_outline_sound : forall o, wf_instr o = true -> forall n w s r,
    run_outline n o w = Some (s, r) ->
    exists out, exec_instr true o (w, []) (iw _ _ s, icalls _ _ s) out /\ chain_result out = r.
  Proof.
    intros o Hwf n w s r H. destruct (wf_create _ Hwf) as [sp Hsp].
    unfold OutlineModel.run_outline in H. rewrite Hsp in H.
    pose proof (run_chain_drive n o sp (mk_ist w [] [])) as Hrc.
    destruct (run_chain n o sp (mk_ist w [] [])) as [[[s' sp'] r']|]; [|discriminate].
    inversion H; subst. destruct Hrc as (k & out & Hd & Hr).
    exists out. split; [|exact Hr].
    exact (proj1 (sound_main n) o true _ _ _ _ sp Hwf Hsp Hd).
  Qed.

  Theorem run_outline_complete : forall o, wf_instr o = true -> forall w w' tr out,
    exec_instr true o (w, []) (w', tr) out ->
    exists n s, run_outline n o w = Some (s, chain_result out) /\ iw _ _ s = w' /\ icalls _ _ s = tr.
  Proof.
    intros o Hwf w w' tr out Hx. destruct (wf_create _ Hwf) as [sp Hsp].
    destruct (proj1 complete_main _ _ _ _ _ Hx Hwf sp Hsp) as (n & k & Hd).
    pose proof (run_chain_drive n o sp (mk_ist w [] [])) as Hrc.
    exists n. unfold OutlineModel.run_outline. rewrite Hsp.
    destruct (run_chain n o sp (mk_ist w [] [])) as [[[s' sp'] r']|].
    - destruct Hrc as (k' & out' & Hd' & Hr).
      change (st_of (mk_ist w [] [])) with (w, @nil call) in Hd'.
      rewrite Hd in Hd'. inversion Hd'; subst.
      exists s'. repeat split; reflexivity.
    - change (st_of (mk_ist w [] [])) with (w, @nil call) in Hrc.
      rewrite Hd in Hrc. discriminate.
  Qed.
End Proofs.

Print Assumptions exec_deterministic.
Print Assumptions run_outline_sound.
Print Assumptions run_outline_complete.
