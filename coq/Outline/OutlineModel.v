(* Outline/OutlineModel.v — M2: the WorkChain outline interpreter of plumpy/workchains.py.
   Executable model, no proofs.

   Python                                   model
   ------                                   -----
   _FunctionCall / _Block / _If / _While /  instr (IStep / IBlock / IIf / IWhile / IReturn)
     _Return
   the stepper object tree                  spos: the *mutable* part of the tree (positions and
     (_FunctionStepper, _BlockStepper,        children); the immutable part (the instruction each
      _IfStepper, _WhileStepper,              stepper points to) is the outline itself, so a
      _ReturnStepper)                         stepper is a pair (instr, spos)
   Stepper.step()                           step_instr
   _Instruction.create_stepper              create
   WorkChain._do_step                       do_step
   repeated RUNNING steps + the ToContext   run_chain (the barrier itself is M1's subject; here
     barrier                                  its effect on the user state is [assign])
*)
From Coq Require Import List ZArith String Bool.
From Plumpy Require Import Val.
Import ListNotations.

Definition fn := string.

Inductive pred :=
| PUser (name : string)
| PTrue.                          (* else_ : `lambda wf: True` *)

Inductive instr :=
| IStep (f : fn)
| IBlock (b : block)
| IIf (brs : branches)
| IWhile (p : pred) (body : block)
| IReturn (code : option Z)
with block :=
| BNil
| BCons (i : instr) (b : block)
with branches :=
| BrNil
| BrCons (p : pred) (body : block) (rest : branches).

(* Mutable stepper state; exactly the information Stepper.save() writes. *)
Inductive spos :=
| PFun
| PRet
| PBlock (pos : nat) (child : option spos)
| PIf (pos : nat) (child : option spos)
| PWhile (child : option spos).

Fixpoint blen (b : block) : nat := match b with BNil => 0 | BCons _ b' => S (blen b') end.
Fixpoint brlen (b : branches) : nat := match b with BrNil => 0 | BrCons _ _ b' => S (brlen b') end.

(* What a step function hands back to Stepper.step(): its Python return value. *)
Inductive rv (A : Type) :=
| RNone
| RToCtx (d : list A)             (* a ToContext (dict) of awaitable registrations *)
| ROther (v : val).
Arguments RNone {A}.
Arguments RToCtx {A} d.
Arguments ROther {A} v.

(* What escapes from Stepper.step() by `raise`. *)
Inductive sexn :=
| XReturn (code : option Z)       (* _PropagateReturn *)
| XErr (e : exn).

Inductive sres (A : Type) :=
| SOk (finished : bool) (v : rv A)
| SRaise (x : sexn).
Arguments SOk {A} finished v.
Arguments SRaise {A} x.

Inductive call := CStep (f : fn) | CPred (name : string).

Section Outline.
  (* User code is arbitrary: a user state W (everything step and predicate functions can read or
     write: the context, inputs, captured data), A the type of awaitable registrations. *)
  Variable W : Type.
  Variable A : Type.
  (* a step function: new user state, registrations made through self.to_context(...), and the
     return value or a raised exception *)
  Variable stepf : fn -> W -> W * list A * (exn + rv A).
  Variable predf : string -> W -> W * (exn + bool).
  (* effect on the user state of the barrier that awaits the registrations (property C10) *)
  Variable assign : list A -> W -> W.

  (* interpreter state: user state, ordered trace of user-code calls, self._awaitables *)
  Record ist := mk_ist { iw : W; icalls : list call; iaw : list A }.

  Definition call_step (f : fn) (s : ist) : ist * (exn + rv A) :=
    let '(w', reg, r) := stepf f (iw s) in
    (mk_ist w' (icalls s ++ [CStep f]) (iaw s ++ reg), r).

  Definition call_pred (p : pred) (s : ist) : ist * (exn + bool) :=
    match p with
    | PTrue => (s, inr true)
    | PUser n => let '(w', r) := predf n (iw s) in
                 (mk_ist w' (icalls s ++ [CPred n]) (iaw s), r)
    end.

  (* _Instruction.create_stepper.  _BlockStepper.__init__ evaluates block[0].create_stepper(): an
     empty block raises IndexError. *)
  Fixpoint create (i : instr) : sexn + spos :=
    match i with
    | IStep _ => inr PFun
    | IBlock b => create_block b
    | IIf _ => inr (PIf 0 None)
    | IWhile _ _ => inr (PWhile None)
    | IReturn _ => inr PRet
    end
  with create_block (b : block) : sexn + spos :=
    match b with
    | BNil => inl (XErr EIndex)
    | BCons i _ => match create i with
                   | inr c => inr (PBlock 0 (Some c))
                   | inl x => inl x
                   end
    end.

  Fixpoint create_nth (b : block) (n : nat) : sexn + spos :=
    match b, n with
    | BNil, _ => inl (XErr EIndex)
    | BCons i _, 0 => create i
    | BCons _ b', S n' => create_nth b' n'
    end.

  (* _IfStepper.step, the predicate scan: `for conditional in ifs: if is_true: break; pos += 1`.
     Returns the updated _pos. *)
  Fixpoint scan_branches (brs : branches) (pos : nat) (s : ist) : ist * nat * option exn :=
    match brs with
    | BrNil => (s, pos, None)
    | BrCons p _ rest =>
        let '(s', r) := call_pred p s in
        match r with
        | inl e => (s', pos, Some e)
        | inr true => (s', pos, None)
        | inr false => scan_branches rest (S pos) s'
        end
    end.

  Fixpoint branch_body (brs : branches) (n : nat) : option block :=
    match brs, n with
    | BrNil, _ => None
    | BrCons _ body _, 0 => Some body
    | BrCons _ _ rest, S n' => branch_body rest n'
    end.

  Definition shape_error : sres A := SRaise (XErr EAttribute).

  Definition while_result (s' : ist) (sp' : spos) (r : sres A) : ist * spos * sres A :=
    match r with
    | SRaise x => (s', PWhile (Some sp'), SRaise x)
    | SOk true v => (s', PWhile None, SOk false v)        (* body finished: child := None, never finished itself *)
    | SOk false v => (s', PWhile (Some sp'), SOk false v)
    end.

  (* the tail of _IfStepper.step once the child stepper has been stepped *)
  Definition if_result (n pos : nat) (x : ist * spos * sres A) : ist * spos * sres A :=
    let '(s', c', r) := x in
    match r with
    | SRaise e => (s', PIf pos (Some c'), SRaise e)
    | SOk true v => (s', PIf n None, SOk true v)           (* self._pos = len(ifs); child = None *)
    | SOk false v => (s', PIf pos (Some c'), SOk false v)
    end.

  (* _BlockStepper.step on block b with _pos = pos and _child_stepper = child; [stepnth] is
     `self._block[pos] ... .step()` (step_nth b below) *)
  Definition block_step (stepnth : nat -> spos -> ist -> ist * spos * sres A)
      (b : block) (pos : nat) (child : option spos) (s : ist) : ist * spos * sres A :=
    match child with
    | None => (s, PBlock pos None, SRaise (XErr EAssert))
    | Some c =>
        if Nat.eqb pos (blen b) then (s, PBlock pos child, SRaise (XErr EAssert))
        else
          let '(s', c', r) := stepnth pos c s in
          match r with
          | SRaise x => (s', PBlock pos (Some c'), SRaise x)
          | SOk false v => (s', PBlock pos (Some c'), SOk false v)
          | SOk true v =>
              (* next_instruction() *)
              let pos' := S pos in
              if Nat.eqb pos' (blen b) then (s', PBlock pos' None, SOk true v)
              else match create_nth b pos' with
                   | inr c2 => (s', PBlock pos' (Some c2), SOk false v)
                   | inl x => (s', PBlock pos' (Some c'), SRaise x)
                   end
          end
    end.

  (* Stepper.step().  Returns the interpreter state, the new stepper state and what step() returned
     or raised.  Structural recursion on the outline; the stepper state selects the position. *)
  Fixpoint step_instr (i : instr) (sp : spos) (s : ist) {struct i} : ist * spos * sres A :=
    match i, sp with
    | IStep f, PFun =>
        let '(s', r) := call_step f s in
        match r with
        | inr v => (s', PFun, SOk true v)
        | inl e => (s', PFun, SRaise (XErr e))
        end
    | IReturn c, PRet => (s, PRet, SRaise (XReturn c))
    | IBlock b, PBlock pos child => block_step (step_nth b) b pos child s
    | IIf brs, PIf pos child =>
        if Nat.eqb pos (brlen brs) then (s, sp, SOk true RNone)
        else
          match child with
          | Some c => if_result (brlen brs) pos (step_branch brs pos c s)
          | None =>
              let '(s1, pos1, err) := scan_branches brs pos s in
              match err with
              | Some e => (s1, PIf pos1 None, SRaise (XErr e))
              | None =>
                  if Nat.eqb pos1 (brlen brs) then (s1, PIf pos1 None, SOk true RNone)
                  else
                    match branch_body brs pos1 with
                    | None => (s1, PIf pos1 None, SRaise (XErr EIndex))
                    | Some body =>
                        match create_block body with
                        | inl x => (s1, PIf pos1 None, SRaise x)
                        | inr c => if_result (brlen brs) pos1 (step_branch brs pos1 c s1)
                        end
                    end
              end
          end
    | IWhile p body, PWhile child =>
        match child with
        | Some (PBlock pos ch) =>
            let '(s', sp', r) := block_step (step_nth body) body pos ch s in
            while_result s' sp' r
        | Some _ => (s, sp, shape_error)
        | None =>
            let '(s1, r) := call_pred p s in
            match r with
            | inl e => (s1, PWhile None, SRaise (XErr e))
            | inr false => (s1, PWhile None, SOk true RNone)
            | inr true =>
                match create_block body with
                | inl x => (s1, PWhile None, SRaise x)
                | inr (PBlock pos ch) =>
                    let '(s', sp', r) := block_step (step_nth body) body pos ch s1 in
                    while_result s' sp' r
                | inr _ => (s1, PWhile None, shape_error)
                end
            end
        end
    | _, _ => (s, sp, shape_error)
    end

  (* self._block[self._pos] ... .step() *)
  with step_nth (b : block) (n : nat) (c : spos) (s : ist) {struct b} : ist * spos * sres A :=
    match b, n with
    | BNil, _ => (s, c, SRaise (XErr EIndex))
    | BCons i _, 0 => step_instr i c s
    | BCons _ b', S n' => step_nth b' n' c s
    end

  (* self._if_instruction[self._pos].body's stepper .step() *)
  with step_branch (brs : branches) (k : nat) (c : spos) (s : ist) {struct brs}
      : ist * spos * sres A :=
    match brs, k with
    | BrNil, _ => (s, c, SRaise (XErr EIndex))
    | BrCons _ body _, 0 =>
        match c with
        | PBlock p ch => block_step (step_nth body) body p ch s
        | _ => (s, c, shape_error)
        end
    | BrCons _ _ rest, S k' => step_branch rest k' c s
    end.

  (* ---- WorkChain._do_step ---- *)
  Inductive dres :=
  | DFinish (r : rv A)            (* `return return_value`: the chain is over with this result *)
  | DContinue                     (* Continue(self._do_step) *)
  | DWait (aw : list A)           (* Wait(self._do_step, ..., self._awaitables) *)
  | DFail (e : exn).              (* an exception escaped from user code or from the stepper *)

  Definition code_rv (c : option Z) : rv A :=
    match c with None => RNone | Some z => ROther (VInt z) end.

  Definition do_step (o : instr) (sp : spos) (s : ist) : ist * spos * dres :=
    let s0 := mk_ist (iw s) (icalls s) [] in                 (* self._awaitables = {} *)
    let '(s1, sp1, r) := step_instr o sp s0 in
    match r with
    | SRaise (XErr e) => (s1, sp1, DFail e)
    | SRaise (XReturn c) => (s1, sp1, DFinish (code_rv c))   (* except _PropagateReturn *)
    | SOk true v => (s1, sp1, DFinish v)
    | SOk false (ROther v) => (s1, sp1, DFinish (ROther v))
    | SOk false RNone =>
        match iaw s1 with
        | [] => (s1, sp1, DContinue)
        | aw => (s1, sp1, DWait aw)
        end
    | SOk false (RToCtx d) =>                                 (* self.to_context of the returned dict *)
        let s2 := mk_ist (iw s1) (icalls s1) (iaw s1 ++ d) in
        match iaw s2 with
        | [] => (s2, sp1, DContinue)
        | aw => (s2, sp1, DWait aw)
        end
    end.

  (* The chain of RUNNING steps the process makes; the ToContext barrier (M1, property C10) is
     represented by its effect [assign] on the user state.  None = out of fuel. *)
  Fixpoint run_chain (n : nat) (o : instr) (sp : spos) (s : ist)
      : option (ist * spos * (exn + rv A)) :=
    match n with
    | 0 => None
    | S n' =>
        let '(s1, sp1, d) := do_step o sp s in
        match d with
        | DFinish r => Some (s1, sp1, inr r)
        | DFail e => Some (s1, sp1, inl e)
        | DContinue => run_chain n' o sp1 s1
        | DWait aw => run_chain n' o sp1 (mk_ist (assign aw (iw s1)) (icalls s1) (iaw s1))
        end
    end.

  (* on_create builds the stepper (an exception here makes the constructor raise), then the chain runs *)
  Definition run_outline (n : nat) (o : instr) (w : W) : option (ist * (exn + rv A)) :=
    match create o with
    | inl (XErr e) => Some (mk_ist w [] [], inl e)
    | inl (XReturn _) => None
    | inr sp =>
        match run_chain n o sp (mk_ist w [] []) with
        | Some (s, _, r) => Some (s, r)
        | None => None
        end
    end.
End Outline.
