(* Outline/BarrierExamples.v — the hypotheses of the C10 theorems are satisfiable on non-trivial runs of the
   model (a three-step workchain whose first step registers future 0 under "a" by to_context and future 1 under
   "b" by a returned ToContext).  Everything here is evaluated by vm_compute. *)
From Coq Require Import List ZArith String Bool Arith.
From Plumpy Require Import Val OutlineModel Barrier BarrierProofs.
Import ListNotations.
Open Scope string_scope.
Open Scope list_scope.

Definition ex_o : instr := IBlock (BCons (IStep "s1") (BCons (IStep "s2") (BCons (IStep "s3") BNil))).
Definition ex_scripts : list script :=
  [mk_script [AReg "a" 0] (inr (RToCtx [("b", 1)])); mk_script [] (inr RNone)].
Definition ex_p : wc_ps := (PBlock 0 (Some PFun), (ex_scripts, []), []).
Definition ex_run := run wc_ps (wc_dostep ex_o) 10 ex_p.

(* both complete with a value, in the order 1, 0, with callbacks in between *)
Definition es_ok := [Tick; Complete 1 (OVal (VInt 11)); Tick; Complete 0 (OVal (VInt 10)); Tick; Tick].
(* both fail before any callback runs *)
Definition es_fail := [Tick; Complete 1 (OExn (EUser "boom")); Complete 0 (OExn (EKilled "bye")); Tick; Tick; Tick].
(* only one of the two completes; the loop is drained *)
Definition es_wait := [Tick; Complete 1 (OVal (VInt 11)); Tick].

Lemma no_cancel_ok : no_cancel es_ok.
Proof. intros k H. simpl in H. repeat (destruct H as [H|H]; [discriminate|]). exact H. Qed.
Lemma no_cancel_fail : no_cancel es_fail.
Proof. intros k H. simpl in H. repeat (destruct H as [H|H]; [discriminate|]). exact H. Qed.
Lemma no_cancel_wait : no_cancel es_wait.
Proof. intros k H. simpl in H. repeat (destruct H as [H|H]; [discriminate|]). exact H. Qed.

(* hypotheses of [barrier]: a step starts while the last wait is for two awaitables; and what it then finds *)
Example barrier_hyps :
  let t := trace (ex_run es_ok) in
  no_cancel es_ok /\
  t = firstn 2 t ++ EvStep 1 [("b", VInt 11); ("a", VInt 10)] [1; 0] :: skipn 3 t /\
  last_wait (skipn 3 t) = Some (0, [(0, "a"); (1, "b")]) /\
  st (ex_run es_ok) = PFinished RNone.
Proof. split; [exact no_cancel_ok|]. vm_compute. repeat split. Qed.

(* hypotheses of [barrier_pending] and of [progress]: quiescent, still waiting, future 0 pending *)
Example pending_hyps :
  let w := ex_run es_wait in
  no_cancel es_wait /\ ready w = [] /\ st w = PWaiting /\
  trace w = firstn 2 (trace w) ++ EvWait 0 [(0, "a"); (1, "b")] :: skipn 3 (trace w) /\
  last_wait (trace w) = Some (0, [(0, "a"); (1, "b")]) /\
  nget 0 (futs w) = None /\ nget 1 (futs w) = Some (OVal (VInt 11)).
Proof. split; [exact no_cancel_wait|]. vm_compute. repeat split. Qed.

(* hypotheses of [failure]: two failing items; the first callback decides; the second one finds the wait woken up
   already and is ignored *)
Example failure_hyps :
  let w := ex_run es_fail in
  no_cancel es_fail /\
  trace w = firstn 2 (trace w) ++ EvCb 0 1 (OExn (EUser "boom")) :: skipn 3 (trace w) /\
  first_fail (skipn 3 (trace w)) = None /\
  st w = PExcepted (EUser "boom") /\
  In (EvCb 0 0 (OExn (EKilled "bye"))) (trace w).
Proof. split; [exact no_cancel_fail|]. vm_compute. repeat split; auto. Qed.

(* hypotheses of [progress_step] *)
Example progress_hyps :
  let w := ex_run es_ok in
  trace w = firstn 7 (trace w) ++ EvWait 0 [(0, "a"); (1, "b")] :: skipn 8 (trace w) /\
  nget 0 (futs w) = Some (OVal (VInt 10)) /\ nget 1 (futs w) = Some (OVal (VInt 11)).
Proof. vm_compute. repeat split. Qed.
