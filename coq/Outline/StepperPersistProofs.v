(* Outline/StepperPersistProofs.v — proofs about Outline/StepperPersist.v (property C08).

   A. the stepper: [create] yields a consistent stepper, [step_instr] preserves consistency on every
      non-raising step ([step_consistent]), hence every stepper reachable through _do_step from the
      initial one is consistent ([reach_consistent]); a consistent (outline, spos) pair denotes an
      object tree ([consistent_obj]) and save -> recreate gives that tree back
      ([stepper_roundtrip], [pos_roundtrip]).
   B. the pending continuation: [payload_roundtrip], [command_continue_roundtrip]; what is NOT
      restored ([wait_command_loses_continuation], [foreign_function_rejected]).
   C. runs with restores, generically: [run_r_resume].
   D. plain Process programs: [proc_resume].
   E. WorkChains: [wc_resume], and the link with M2's run_chain: [wc_run_chain], [wc_resume_chain]. *)
From Coq Require Import List ZArith String Bool Lia Arith.
From Plumpy Require Import Val OutlineModel OutlineSem OutlineProofs StepperPersist.
Import ListNotations.
Local Open Scope string_scope.
Local Open Scope nat_scope.
Local Open Scope list_scope.

(* ====================================================================== *)
(* A. the stepper                                                          *)
(* ====================================================================== *)

Lemma option_eqb_refl : forall x : option string, option_eqb String.eqb x x = true.
Proof. intros [x|]; simpl; [apply String.eqb_refl|reflexivity]. Qed.

Lemma bound_attr : forall nm f, bound nm f = true -> attr_of nm (fname nm f) = Some f.
Proof.
  intros nm f H. unfold bound in H. destruct (attr_of nm (fname nm f)) as [f'|]; [|discriminate].
  apply String.eqb_eq in H. subst. reflexivity.
Qed.

Lemma cons_nth_bnth : forall b n i, bnth b n = Some i -> forall c, cons_nth b n c = consistent i c.
Proof.
  induction b as [|j b IH]; intros n i H c; [discriminate|].
  destruct n as [|n]; simpl in H.
  - inversion H; subst; reflexivity.
  - simpl. apply IH; assumption.
Qed.

Lemma cons_nth_lt : forall b n c, cons_nth b n c = true -> n < blen b.
Proof.
  induction b as [|j b IH]; intros n c H; [discriminate|].
  destruct n as [|n]; simpl in *; [lia|]. apply IH in H. lia.
Qed.

Lemma cons_branch_body : forall brs k body, branch_body brs k = Some body ->
  forall c, cons_branch brs k c = consistent (IBlock body) c.
Proof.
  induction brs as [|p b rest IH]; intros k body H c; [discriminate|].
  destruct k as [|k]; simpl in H.
  - inversion H; subst. destruct c; reflexivity.
  - simpl. apply IH; assumption.
Qed.

Lemma cons_branch_some : forall brs k c, cons_branch brs k c = true ->
  exists body, branch_body brs k = Some body.
Proof.
  induction brs as [|p b rest IH]; intros k c H; [discriminate|].
  destruct k as [|k]; simpl in *; eauto.
Qed.

(* ---- create yields a consistent stepper ---- *)
Lemma create_consistent_mut :
  (forall i sp, create i = inr sp -> consistent i sp = true) /\
  (forall b, (forall sp, create_block b = inr sp -> consistent (IBlock b) sp = true) /\
             (forall n c, create_nth b n = inr c -> cons_nth b n c = true)) /\
  (forall brs : branches, True).
Proof.
  apply instr_mutind; try (intros; exact I).
  - intros f sp H. inversion H; reflexivity.
  - intros b [Hb _] sp H. apply Hb. exact H.
  - intros brs _ sp H. inversion H; reflexivity.
  - intros p body _ sp H. inversion H; reflexivity.
  - intros code sp H. inversion H; reflexivity.
  - split; [intros sp H | intros n c H]; discriminate.
  - intros i Hi b [_ Hb]. split.
    + intros sp H. simpl in H. destruct (create i) as [x|c] eqn:E; [discriminate|].
      inversion H; subst. simpl. apply Hi. reflexivity.
    + intros [|n] c H; cbn [create_nth cons_nth] in *; [apply Hi | apply Hb]; assumption.
Qed.

Lemma create_consistent : forall i sp, create i = inr sp -> consistent i sp = true.
Proof. exact (proj1 create_consistent_mut). Qed.

Lemma create_block_consistent : forall b sp, create_block b = inr sp ->
  consistent (IBlock b) sp = true.
Proof. intros b. exact (proj1 (proj1 (proj2 create_consistent_mut) b)). Qed.

Lemma create_nth_consistent : forall b n c, create_nth b n = inr c -> cons_nth b n c = true.
Proof. intros b. exact (proj2 (proj1 (proj2 create_consistent_mut) b)). Qed.

Section StepInv.
  Variable W : Type.
  Variable A : Type.
  Variable stepf : fn -> W -> W * list A * (exn + rv A).
  Variable predf : string -> W -> W * (exn + bool).

  Notation ist := (ist W A).
  Notation step_instr := (step_instr W A stepf predf).
  Notation step_nth := (step_nth W A stepf predf).
  Notation step_branch := (step_branch W A stepf predf).
  Notation block_step := (block_step W A).
  Notation do_step := (do_step W A stepf predf).

  (* _BlockStepper.step keeps a consistent position, whatever kind of block it steps through *)
  Lemma block_step_consistent : forall b, wf_block b = true ->
    (forall n c s s' c' fin v, cons_nth b n c = true ->
        step_nth b n c s = (s', c', SOk fin v) -> cons_nth b n c' = true) ->
    forall pos ch s s' sp' fin v,
      cons_block (cons_nth b) b pos ch = true ->
      block_step (step_nth b) b pos ch s = (s', sp', SOk fin v) ->
      exists pos' ch', sp' = PBlock pos' ch' /\ cons_block (cons_nth b) b pos' ch' = true.
  Proof.
    intros b Hwf Hnth pos ch s s' sp' fin v Hc Hs.
    unfold OutlineModel.block_step in Hs.
    destruct ch as [c|]; [|discriminate].
    simpl in Hc. apply andb_true_iff in Hc. destruct Hc as [Hlt Hcc].
    apply Nat.ltb_lt in Hlt.
    destruct (pos =? blen b) eqn:E; [discriminate|].
    destruct (step_nth b pos c s) as [[s1 c1] r1] eqn:Es.
    destruct r1 as [[|] v1|x]; [| |discriminate].
    - (* the child finished: next_instruction() *)
      pose proof (Hnth _ _ _ _ _ _ _ Hcc Es) as Hc1.
      destruct (S pos =? blen b) eqn:E2.
      + inversion Hs; subst. exists (S pos), None. split; [reflexivity|]. simpl. exact E2.
      + apply Nat.eqb_neq in E2.
        destruct (create_nth b (S pos)) as [x|c2] eqn:E3.
        * discriminate.
        * inversion Hs; subst. exists (S pos), (Some c2). split; [reflexivity|].
          simpl. apply andb_true_iff. split; [apply Nat.ltb_lt; lia|].
          apply create_nth_consistent; assumption.
    - inversion Hs; subst. exists pos, (Some c1). split; [reflexivity|].
      simpl. apply andb_true_iff. split; [apply Nat.ltb_lt; assumption|].
      eapply Hnth; eassumption.
  Qed.

  Lemma step_consistent_mut :
    (forall i, wf_instr i = true -> forall sp s s' sp' fin v,
        consistent i sp = true -> step_instr i sp s = (s', sp', SOk fin v) ->
        consistent i sp' = true) /\
    (forall b, wf_block b = true -> forall n c s s' c' fin v,
        cons_nth b n c = true -> step_nth b n c s = (s', c', SOk fin v) ->
        cons_nth b n c' = true) /\
    (forall brs, wf_branches brs = true -> forall k c s s' c' fin v,
        cons_branch brs k c = true -> step_branch brs k c s = (s', c', SOk fin v) ->
        cons_branch brs k c' = true).
  Proof.
    apply instr_mutind.
    - (* IStep *)
      intros f _ sp s s' sp' fin v Hc Hs. destruct sp; try discriminate.
      rewrite step_fun_unf in Hs.
      destruct (call_step W A stepf f s) as [s1 [e|r]]; inversion Hs; reflexivity.
    - (* IBlock *)
      intros b IHb Hwf sp s s' sp' fin v Hc Hs. destruct sp as [| |pos ch| |]; try discriminate.
      simpl in Hwf. apply andb_true_iff in Hwf. destruct Hwf as [_ Hwf].
      change (block_step (step_nth b) b pos ch s = (s', sp', SOk fin v)) in Hs.
      simpl in Hc.
      destruct (block_step_consistent b Hwf (IHb Hwf) _ _ _ _ _ _ _ Hc Hs) as (pos' & ch' & -> & H).
      exact H.
    - (* IIf *)
      intros brs IHbr Hwf sp s s' sp' fin v Hc Hs. destruct sp as [| | |pos ch|]; try discriminate.
      simpl in Hwf.
      change (step_instr (IIf brs) (PIf pos ch) s)
        with (if pos =? brlen brs then (s, PIf pos ch, SOk true (@RNone A))
              else match ch with
                   | Some c => if_result W A (brlen brs) pos (step_branch brs pos c s)
                   | None =>
                       let '(s1, pos1, err) := scan_branches W A predf brs pos s in
                       match err with
                       | Some e => (s1, PIf pos1 None, SRaise (XErr e))
                       | None =>
                           if pos1 =? brlen brs then (s1, PIf pos1 None, SOk true RNone)
                           else match branch_body brs pos1 with
                                | None => (s1, PIf pos1 None, SRaise (XErr EIndex))
                                | Some body =>
                                    match create_block body with
                                    | inl x => (s1, PIf pos1 None, SRaise x)
                                    | inr c => if_result W A (brlen brs) pos1 (step_branch brs pos1 c s1)
                                    end
                                end
                       end
                   end) in Hs.
      destruct (pos =? brlen brs) eqn:E.
      { inversion Hs; subst. exact Hc. }
      destruct ch as [c|].
      + simpl in Hc. apply andb_true_iff in Hc. destruct Hc as [Hlt Hcc].
        destruct (step_branch brs pos c s) as [[s1 c1] r1] eqn:Es.
        unfold if_result in Hs.
        destruct r1 as [[|] v1|x]; [| |discriminate]; inversion Hs; subst.
        * simpl. apply Nat.leb_refl.
        * simpl. rewrite Hlt. simpl. eapply IHbr; eassumption.
      + simpl in Hc. apply Nat.leb_le in Hc.
        destruct (scan_branches W A predf brs pos s) as [[s1 pos1] err] eqn:Esc.
        destruct err as [e|]; [discriminate|].
        destruct (pos1 =? brlen brs) eqn:E1.
        { inversion Hs; subst. simpl. apply Nat.eqb_eq in E1. rewrite E1. apply Nat.leb_refl. }
        destruct (branch_body brs pos1) as [body|] eqn:Eb; [|discriminate].
        destruct (create_block body) as [x|c] eqn:Ec; [discriminate|].
        pose proof (branch_body_lt _ _ _ Eb) as Hlt1.
        assert (Hcc : cons_branch brs pos1 c = true).
        { rewrite (cons_branch_body _ _ _ Eb). apply create_block_consistent. assumption. }
        destruct (step_branch brs pos1 c s1) as [[s2 c2] r2] eqn:Es.
        unfold if_result in Hs.
        destruct r2 as [[|] v2|x]; [| |discriminate]; inversion Hs; subst.
        * simpl. apply Nat.leb_refl.
        * simpl. apply andb_true_iff. split; [apply Nat.ltb_lt; assumption|].
          eapply IHbr; eassumption.
    - (* IWhile *)
      intros p body IHb Hwf sp s s' sp' fin v Hc Hs. destruct sp as [| | | |ch]; try discriminate.
      simpl in Hwf. apply andb_true_iff in Hwf. destruct Hwf as [_ Hwf].
      change (step_instr (IWhile p body) (PWhile ch) s)
        with (match ch with
              | Some (PBlock pos c) =>
                  let '(s1, sp1, r) := block_step (step_nth body) body pos c s in
                  while_result W A s1 sp1 r
              | Some _ => (s, PWhile ch, shape_error A)
              | None =>
                  let '(s1, r) := call_pred W A predf p s in
                  match r with
                  | inl e => (s1, PWhile None, SRaise (XErr e))
                  | inr false => (s1, PWhile None, SOk true RNone)
                  | inr true =>
                      match create_block body with
                      | inl x => (s1, PWhile None, SRaise x)
                      | inr (PBlock pos c) =>
                          let '(s2, sp2, r2) := block_step (step_nth body) body pos c s1 in
                          while_result W A s2 sp2 r2
                      | inr _ => (s1, PWhile None, shape_error A)
                      end
                  end
              end) in Hs.
      destruct ch as [[| |pos c| |]|]; try discriminate.
      + simpl in Hc.
        destruct (block_step (step_nth body) body pos c s) as [[s1 sp1] r1] eqn:Es.
        unfold while_result in Hs.
        destruct r1 as [[|] v1|x]; [| |discriminate]; inversion Hs; subst.
        * reflexivity.
        * destruct (block_step_consistent body Hwf (IHb Hwf) _ _ _ _ _ _ _ Hc Es)
            as (pos' & ch' & -> & H). exact H.
      + destruct (call_pred W A predf p s) as [s1 [e|[|]]]; [discriminate| |].
        * destruct (create_block body) as [x|[| |pos c| |]] eqn:Ec; try discriminate.
          pose proof (create_block_consistent _ _ Ec) as Hcc. simpl in Hcc.
          destruct (block_step (step_nth body) body pos c s1) as [[s2 sp2] r2] eqn:Es.
          unfold while_result in Hs.
          destruct r2 as [[|] v2|x]; [| |discriminate]; inversion Hs; subst.
          -- reflexivity.
          -- destruct (block_step_consistent body Hwf (IHb Hwf) _ _ _ _ _ _ _ Hcc Es)
               as (pos' & ch' & -> & H). exact H.
        * inversion Hs; subst. reflexivity.
    - (* IReturn *)
      intros code _ sp s s' sp' fin v Hc Hs. destruct sp; try discriminate.
    - (* BNil *)
      intros _ n c s s' c' fin v Hc. discriminate.
    - (* BCons *)
      intros i IHi b IHb Hwf n c s s' c' fin v Hc Hs.
      simpl in Hwf. apply andb_true_iff in Hwf. destruct Hwf as [Hwi Hwb].
      destruct n as [|n]; simpl in Hc, Hs |- *.
      + eapply IHi; eassumption.
      + eapply IHb; eassumption.
    - (* BrNil *)
      intros _ k c s s' c' fin v Hc. discriminate.
    - (* BrCons *)
      intros p body IHb rest IHr Hwf k c s s' c' fin v Hc Hs.
      simpl in Hwf. apply andb_true_iff in Hwf. destruct Hwf as [Hwf Hwr].
      apply andb_true_iff in Hwf. destruct Hwf as [_ Hwb].
      destruct k as [|k]; simpl in Hc, Hs |- *.
      + destruct c as [| |pos ch| |]; try discriminate.
        destruct (block_step_consistent body Hwb (IHb Hwb) _ _ _ _ _ _ _ Hc Hs)
          as (pos' & ch' & -> & H). exact H.
      + eapply IHr; eassumption.
  Qed.

  Theorem step_consistent : forall i, wf_instr i = true -> forall sp s s' sp' fin v,
    consistent i sp = true -> step_instr i sp s = (s', sp', SOk fin v) ->
    consistent i sp' = true.
  Proof. exact (proj1 step_consistent_mut). Qed.

  (* WorkChain._do_step: whenever the chain goes on, the stepper it goes on with is consistent *)
  Theorem do_step_consistent : forall o, wf_instr o = true -> forall sp s s1 sp1 d,
    consistent o sp = true -> do_step o sp s = (s1, sp1, d) ->
    (d = DContinue A \/ exists aw, d = DWait A aw) -> consistent o sp1 = true.
  Proof.
    intros o Hwf sp s s1 sp1 d Hc Hd Hgo. unfold OutlineModel.do_step in Hd.
    destruct (step_instr o sp (mk_ist W A (iw W A s) (icalls W A s) [])) as [[s2 sp2] r] eqn:Es.
    assert (Hgo' : forall x, d <> DFinish A x /\ forall e, d <> DFail A e).
    { intros x. destruct Hgo as [-> | [aw ->]]; split; try intros e; discriminate. }
    destruct r as [fin v|[c|e]].
    - assert (sp1 = sp2) as ->.
      { destruct fin; [inversion Hd; reflexivity|].
        destruct v as [|dd|vv]; [| |inversion Hd; reflexivity].
        - destruct (iaw W A s2); inversion Hd; reflexivity.
        - simpl in Hd. destruct (iaw W A s2 ++ dd); inversion Hd; reflexivity. }
      eapply step_consistent; eassumption.
    - inversion Hd; subst. exfalso. exact (proj1 (Hgo' _) eq_refl).
    - inversion Hd; subst. exfalso. exact (proj2 (Hgo' RNone) _ eq_refl).
  Qed.

  (* the steppers a live workchain can be checkpointed with: reachable from the initial stepper
     through steps after which the chain goes on *)
  Inductive reach (o : instr) : spos -> Prop :=
  | reach_init : forall sp, create o = inr sp -> reach o sp
  | reach_step : forall sp s s1 sp1 d, reach o sp -> do_step o sp s = (s1, sp1, d) ->
      (d = DContinue A \/ exists aw, d = DWait A aw) -> reach o sp1.

  Theorem reach_consistent : forall o, wf_instr o = true -> forall sp,
    reach o sp -> consistent o sp = true.
  Proof.
    intros o Hwf sp H. induction H as [sp H | sp s s1 sp1 d _ IH Hd Hgo].
    - apply create_consistent; assumption.
    - eapply do_step_consistent; eassumption.
  Qed.
End StepInv.

(* ---- a consistent pair denotes an object tree; pos_of is its inverse ---- *)
Lemma obj_block_some : forall (objnth : nat -> spos -> option stepper) consnth b pos ch,
  (forall n c, consnth n c = true -> exists s, objnth n c = Some s) ->
  cons_block consnth b pos ch = true -> exists s, obj_block objnth b pos ch = Some s.
Proof.
  intros objnth consnth b pos ch H Hc. destruct ch as [c|]; simpl in *; [|eauto].
  apply andb_true_iff in Hc. destruct Hc as [_ Hc].
  destruct (H _ _ Hc) as [s ->]. eauto.
Qed.

Lemma consistent_obj_mut :
  (forall i sp, consistent i sp = true -> exists s, obj i sp = Some s) /\
  (forall b n c, cons_nth b n c = true -> exists s, obj_nth b n c = Some s) /\
  (forall brs k c, cons_branch brs k c = true -> exists s, obj_branch brs k c = Some s).
Proof.
  apply instr_mutind.
  - intros f sp H. destruct sp; try discriminate. simpl. eauto.
  - intros b IH sp H. destruct sp as [| |pos ch| |]; try discriminate. simpl in *.
    eapply obj_block_some; eassumption.
  - intros brs IH sp H. destruct sp as [| | |pos ch|]; try discriminate. simpl in *.
    destruct ch as [c|]; [|eauto].
    apply andb_true_iff in H. destruct H as [_ H]. destruct (IH _ _ H) as [s ->]. eauto.
  - intros p body IH sp H. destruct sp as [| | | |ch]; try discriminate. simpl in *.
    destruct ch as [[| |pos c| |]|]; try discriminate; [|eauto].
    destruct (obj_block_some _ _ _ _ _ IH H) as [s ->]. eauto.
  - intros code sp H. destruct sp; try discriminate. simpl. eauto.
  - intros n c H. discriminate.
  - intros i IHi b IHb [|n] c H; simpl in *; [apply IHi | apply IHb]; assumption.
  - intros k c H. discriminate.
  - intros p body IHb rest IHr [|k] c H; simpl in *.
    + destruct c as [| |pos ch| |]; try discriminate.
      eapply (obj_block_some (obj_nth body)); eassumption.
    + apply IHr; assumption.
Qed.

Theorem consistent_obj : forall i sp, consistent i sp = true -> exists s, obj i sp = Some s.
Proof. exact (proj1 consistent_obj_mut). Qed.

Lemma obj_block_pos_of : forall (objnth : nat -> spos -> option stepper) b pos ch s,
  (forall n c s, objnth n c = Some s -> pos_of s = c) ->
  obj_block objnth b pos ch = Some s -> pos_of s = PBlock pos ch.
Proof.
  intros objnth b pos ch s H Ho. unfold obj_block in Ho. destruct ch as [c|].
  - destruct (objnth pos c) as [cs|] eqn:E; [|discriminate]. inversion Ho; subst.
    simpl. rewrite (H _ _ _ E). reflexivity.
  - inversion Ho; reflexivity.
Qed.

Lemma obj_pos_of_mut :
  (forall i sp s, obj i sp = Some s -> pos_of s = sp) /\
  (forall b n c s, obj_nth b n c = Some s -> pos_of s = c) /\
  (forall brs k c s, obj_branch brs k c = Some s -> pos_of s = c).
Proof.
  apply instr_mutind.
  - intros f sp s H. destruct sp; try discriminate. inversion H; reflexivity.
  - intros b IH sp s H. destruct sp as [| |pos ch| |]; try discriminate. simpl in H.
    eapply obj_block_pos_of; eassumption.
  - intros brs IH sp s H. destruct sp as [| | |pos ch|]; try discriminate. simpl in H.
    destruct ch as [c|].
    + destruct (obj_branch brs pos c) as [cs|] eqn:E; [|discriminate]. inversion H; subst.
      simpl. rewrite (IH _ _ _ E). reflexivity.
    + inversion H; reflexivity.
  - intros p body IH sp s H. destruct sp as [| | | |ch]; try discriminate. simpl in H.
    destruct ch as [[| |pos c| |]|]; try discriminate.
    + destruct (obj_block (obj_nth body) body pos c) as [cs|] eqn:E; [|discriminate].
      inversion H; subst. simpl. rewrite (obj_block_pos_of _ _ _ _ _ IH E). reflexivity.
    + inversion H; reflexivity.
  - intros code sp s H. destruct sp; try discriminate. inversion H; reflexivity.
  - intros n c s H. discriminate.
  - intros i IHi b IHb [|n] c s H; simpl in H; [eapply IHi | eapply IHb]; eassumption.
  - intros k c s H. discriminate.
  - intros p body IHb rest IHr [|k] c s H; simpl in H.
    + destruct c as [| |pos ch| |]; try discriminate.
      eapply (obj_block_pos_of (obj_nth body)); eassumption.
    + eapply IHr; eassumption.
Qed.

Theorem obj_pos_of : forall i sp s, obj i sp = Some s -> pos_of s = sp.
Proof. exact (proj1 obj_pos_of_mut). Qed.

(* ---- save, then recreate ---- *)
Section RoundTrip.
  Variable nm : names.
  Variable by_name : bool.

  Notation recreate := (recreate nm by_name).
  Notation recreate_nth := (recreate_nth nm by_name).
  Notation recreate_branch := (recreate_branch nm by_name).
  Notation methods_ok := (methods_ok nm).
  Notation methods_ok_block := (methods_ok_block nm).
  Notation methods_ok_branches := (methods_ok_branches nm).

  Lemma recreate_block_rt : forall (objnth : nat -> spos -> option stepper) recnth b pos ch s,
    (forall n c cs, objnth n c = Some cs -> recnth n (save_stepper nm cs) = inr cs) ->
    obj_block objnth b pos ch = Some s ->
    recreate_block recnth b (save_stepper nm s) = inr s.
  Proof.
    intros objnth recnth b pos ch s H Ho. unfold obj_block in Ho. destruct ch as [c|].
    - destruct (objnth pos c) as [cs|] eqn:E; [|discriminate]. inversion Ho; subst.
      simpl. rewrite (H _ _ _ E). reflexivity.
    - inversion Ho; reflexivity.
  Qed.

  Lemma recreate_if_unf : forall brs cls p f cn,
    recreate (IIf brs) (Node cls (Some p) f (Some cn)) =
      match recreate_branch brs p cn with
      | inr c => inr (SIf brs p (Some c))
      | inl e => inl e
      end.
  Proof. reflexivity. Qed.

  Lemma recreate_while_unf : forall p body cls q f cn,
    recreate (IWhile p body) (Node cls q f (Some cn)) =
      match recreate_block (recreate_nth body) body cn with
      | inr c => inr (SWhile p body (Some c))
      | inl e => inl e
      end.
  Proof. reflexivity. Qed.

  (* the hypothesis on the class is only needed when functions are rebound by name *)
  Lemma roundtrip_mut :
    (forall i, (by_name = true -> methods_ok i = true) -> forall sp s, obj i sp = Some s ->
        recreate i (save_stepper nm s) = inr s) /\
    (forall b, (by_name = true -> methods_ok_block b = true) -> forall n c s, obj_nth b n c = Some s ->
        recreate_nth b n (save_stepper nm s) = inr s) /\
    (forall brs, (by_name = true -> methods_ok_branches brs = true) -> forall k c s,
        obj_branch brs k c = Some s -> recreate_branch brs k (save_stepper nm s) = inr s).
  Proof.
    apply instr_mutind.
    - intros f Hm sp s H. destruct sp; try discriminate. inversion H; subst.
      simpl. destruct by_name eqn:Eb; [|reflexivity].
      assert (Hm' : bound nm f = true) by (apply Hm; reflexivity).
      cbn. rewrite (bound_attr _ _ Hm'). reflexivity.
    - intros b IH Hm sp s H. destruct sp as [| |pos ch| |]; try discriminate. simpl in H.
      change (recreate (IBlock b) (save_stepper nm s))
        with (recreate_block (recreate_nth b) b (save_stepper nm s)).
      eapply recreate_block_rt; [|eassumption]. intros n c cs. apply IH. exact Hm.
    - intros brs IH Hm sp s H. destruct sp as [| | |pos ch|]; try discriminate. simpl in H.
      destruct ch as [c|].
      + destruct (obj_branch brs pos c) as [cs|] eqn:E; [|discriminate]. inversion H; subst.
        change (save_stepper nm (SIf brs pos (Some cs)))
          with (Node CIf (Some pos) None (Some (save_stepper nm cs))).
        rewrite recreate_if_unf, (IH Hm _ _ _ E). reflexivity.
      + inversion H; reflexivity.
    - intros p body IH Hm sp s H. destruct sp as [| | | |ch]; try discriminate. simpl in H.
      destruct ch as [[| |pos c| |]|]; try discriminate.
      + destruct (obj_block (obj_nth body) body pos c) as [cs|] eqn:E; [|discriminate].
        inversion H; subst.
        change (save_stepper nm (SWhile p body (Some cs)))
          with (Node CWhile None None (Some (save_stepper nm cs))).
        rewrite recreate_while_unf.
        rewrite (recreate_block_rt _ (recreate_nth body) _ _ _ _ (IH Hm) E). reflexivity.
      + inversion H; reflexivity.
    - intros code _ sp s H. destruct sp; try discriminate. inversion H; reflexivity.
    - intros _ n c s H. discriminate.
    - intros i IHi b IHb Hm n c s H.
      assert (Hmi : by_name = true -> methods_ok i = true).
      { intros Hb. specialize (Hm Hb). simpl in Hm. apply andb_true_iff in Hm. tauto. }
      assert (Hmb : by_name = true -> methods_ok_block b = true).
      { intros Hb. specialize (Hm Hb). simpl in Hm. apply andb_true_iff in Hm. tauto. }
      destruct n as [|n]; simpl in H |- *; [eapply IHi | eapply IHb]; eassumption.
    - intros _ k c s H. discriminate.
    - intros p body IHb rest IHr Hm k c s H.
      assert (Hmb : by_name = true -> methods_ok_block body = true).
      { intros Hb. specialize (Hm Hb). simpl in Hm. apply andb_true_iff in Hm. tauto. }
      assert (Hmr : by_name = true -> methods_ok_branches rest = true).
      { intros Hb. specialize (Hm Hb). simpl in Hm. apply andb_true_iff in Hm. tauto. }
      destruct k as [|k]; simpl in H |- *.
      + destruct c as [| |pos ch| |]; try discriminate.
        eapply recreate_block_rt; [|eassumption]. apply IHb. assumption.
      + eapply IHr; eassumption.
  Qed.

  (* on the object tree: what recreate_stepper builds from the saved state of a stepper is that
     stepper — same instruction pointers, same positions, same children, recursively *)
  Theorem stepper_roundtrip : forall o sp, (by_name = true -> methods_ok o = true) ->
    consistent o sp = true ->
    exists s, obj o sp = Some s /\ recreate o (save_stepper nm s) = inr s.
  Proof.
    intros o sp Hm Hc. destruct (consistent_obj _ _ Hc) as [s Hs].
    exists s. split; [assumption|]. eapply (proj1 roundtrip_mut); eassumption.
  Qed.

  (* on M2's representation *)
  Theorem pos_roundtrip : forall o sp, (by_name = true -> methods_ok o = true) ->
    consistent o sp = true ->
    exists n, save_pos nm o sp = inr n /\ recreate_pos nm by_name o n = inr sp.
  Proof.
    intros o sp Hm Hc. destruct (stepper_roundtrip o sp Hm Hc) as (s & Hs & Hr).
    exists (save_stepper nm s). unfold save_pos, recreate_pos. rewrite Hs, Hr.
    rewrite (obj_pos_of _ _ _ Hs). split; reflexivity.
  Qed.
End RoundTrip.

(* The code as it is (by_name = true).  A step function whose __name__ is not an attribute of the
   class (a module-level function, a lambda, an undecorated wrapper) cannot be rebound: an error ... *)
Theorem foreign_step_rejected : forall nm f, attr_of nm (fname nm f) = None ->
  recreate nm true (IStep f) (save_stepper nm (SFun f)) = inl EAttribute.
Proof. intros nm f Hf. cbn. rewrite Hf. reflexivity. Qed.

(* ... but when that name denotes ANOTHER function of the class (a subclass overriding a step the
   outline refers to through the parent class) the recreated stepper silently runs that other
   function: save -> recreate does not give the stepper back. *)
Theorem by_name_wrong_function : forall nm f g, attr_of nm (fname nm f) = Some g -> g <> f ->
  recreate nm true (IStep f) (save_stepper nm (SFun f)) = inr (SFun g) /\ SFun g <> SFun f.
Proof.
  intros nm f g Hg Hne. split.
  - cbn. rewrite Hg. reflexivity.
  - intros H. inversion H. contradiction.
Qed.

(* With the repair the recreated function stepper is the instruction's, whatever was saved. *)
Theorem by_instruction_total : forall nm f n,
  recreate nm false (IStep f) n = inr (SFun f).
Proof. reflexivity. Qed.

(* Whatever recreate_stepper builds (repaired code: by_name = false) from ANY saved-state tree is a
   stepper of this outline: every stepper object points to the instruction at the position its
   parent says, every function stepper holds its instruction's function.  (Positions may still be
   out of range when the tree is not one that save produced: recreate does not validate them.) *)
Section RecreateSound.
  Variable nm : names.

  Lemma recreate_block_sound : forall (objnth : nat -> spos -> option stepper) recnth b n s,
    (forall k m c, recnth k m = inr c -> objnth k (pos_of c) = Some c) ->
    recreate_block recnth b n = inr s ->
    exists pos ch, pos_of s = PBlock pos ch /\ obj_block objnth b pos ch = Some s.
  Proof.
    intros objnth recnth b [cls [p|] f [cn|]] s H Hr; simpl in Hr; try discriminate.
    - destruct (recnth p cn) as [e|c] eqn:E; [discriminate|]. inversion Hr; subst.
      exists p, (Some (pos_of c)). split; [reflexivity|]. simpl. rewrite (H _ _ _ E). reflexivity.
    - inversion Hr; subst. exists p, None. split; reflexivity.
  Qed.

  Lemma recreate_sound_mut :
    (forall i n s, recreate nm false i n = inr s -> obj i (pos_of s) = Some s) /\
    (forall b k n s, recreate_nth nm false b k n = inr s -> obj_nth b k (pos_of s) = Some s) /\
    (forall brs k n s, recreate_branch nm false brs k n = inr s ->
        obj_branch brs k (pos_of s) = Some s).
  Proof.
    apply instr_mutind.
    - intros f n s H. inversion H; reflexivity.
    - intros b IH n s H.
      change (recreate_block (recreate_nth nm false b) b n = inr s) in H.
      destruct (recreate_block_sound (obj_nth b) _ _ _ _ IH H) as (pos & ch & Hp & Ho).
      rewrite Hp. exact Ho.
    - intros brs IH [cls [p|] f [cn|]] s H; try discriminate.
      + rewrite recreate_if_unf in H.
        destruct (recreate_branch nm false brs p cn) as [e|c] eqn:E; [discriminate|].
        inversion H; subst. simpl. rewrite (IH _ _ _ E). reflexivity.
      + inversion H; reflexivity.
    - intros p body IH [cls q f [cn|]] s H.
      + rewrite recreate_while_unf in H.
        destruct (recreate_block (recreate_nth nm false body) body cn) as [e|c] eqn:E; [discriminate|].
        inversion H; subst.
        destruct (recreate_block_sound (obj_nth body) _ _ _ _ IH E) as (pos & ch & Hp & Ho).
        simpl. rewrite Hp, Ho. reflexivity.
      + inversion H; reflexivity.
    - intros code n s H. inversion H; reflexivity.
    - intros k n s H. discriminate.
    - intros i IHi b IHb [|k] n s H; simpl in H |- *; [eapply IHi | eapply IHb]; eassumption.
    - intros k n s H. discriminate.
    - intros p body IHb rest IHr [|k] n s H; simpl in H |- *.
      + destruct (recreate_block_sound (obj_nth body) _ _ _ _ IHb H) as (pos & ch & Hp & Ho).
        rewrite Hp. exact Ho.
      + eapply IHr; eassumption.
  Qed.

  Theorem recreate_sound : forall o n s,
    recreate nm false o n = inr s -> obj o (pos_of s) = Some s.
  Proof. exact (proj1 recreate_sound_mut). Qed.
End RecreateSound.

(* ====================================================================== *)
(* B. the pending continuation                                             *)
(* ====================================================================== *)

Section PayloadRT.
  Variable nm : names.

  (* run_fn / done_callback saved by __name__ and rebound with getattr on the new instance; args,
     kwargs, msg, data saved as they are *)
  Theorem payload_roundtrip : forall p, payload_ok nm p = true ->
    load_payload nm (save_payload nm p) = inr p.
  Proof.
    intros [f a kw|f a kw [c|]|[g|] msg data] H; simpl in H; try discriminate;
      unfold load_payload, save_payload, rebind; simpl;
      try rewrite (bound_attr _ _ H); reflexivity.
  Qed.

  Theorem command_continue_roundtrip : forall f a kw, bound nm f = true ->
    load_command nm (save_command nm (CmdContinue f a kw)) = inr (CmdContinue f a kw).
  Proof.
    intros f a kw H. unfold load_command, rebind. simpl. rewrite (bound_attr _ _ H). reflexivity.
  Qed.

  (* NOT restored (latent: nothing in plumpy ever stores a command in Running._command): a saved
     Wait command comes back without its continue_fn, a saved Stop without `successful` *)
  Theorem wait_command_loses_continuation : forall f msg data,
    load_command nm (save_command nm (CmdWait (Present f) msg data)) = inr (CmdWait Absent msg data).
  Proof. reflexivity. Qed.

  Theorem stop_command_loses_successful : forall r b,
    load_command nm (save_command nm (CmdStop r (Present b))) = inr (CmdStop r Absent).
  Proof. reflexivity. Qed.

  (* a continuation that is not an attribute of the process cannot be rebound: loading raises *)
  Theorem foreign_function_rejected : forall f a kw, attr_of nm (fname nm f) = None ->
    load_payload nm (save_payload nm (PRunning f a kw None)) = inl EAttribute.
  Proof. intros f a kw H. unfold load_payload, rebind. simpl. rewrite H. reflexivity. Qed.
End PayloadRT.

(* ====================================================================== *)
(* C. runs with restores, generically                                      *)
(* ====================================================================== *)

Section ResumeGeneric.
  Variable X : Type.
  Variable F : Type.
  Variable step : nat -> X -> F + X.
  Variable restore : X -> exn + X.
  Variable Inv : X -> Prop.
  Hypothesis Hstep : forall k x y, Inv x -> step k x = inr y -> Inv y.
  Hypothesis Hrestore : forall x, Inv x ->
    exists x', restore x = inr x' /\ Inv x' /\ forall k, step k x' = step k x.

  Lemma restore_n_ok : forall m x, Inv x ->
    exists x', restore_n X restore m x = inr x' /\ Inv x' /\ forall k, step k x' = step k x.
  Proof.
    induction m as [|m IH]; intros x Hx; simpl.
    - exists x. repeat split; auto.
    - destruct (Hrestore x Hx) as (x1 & -> & Hx1 & Hs1).
      destruct (IH x1 Hx1) as (x2 & Hr & Hx2 & Hs2).
      exists x2. repeat split; auto. intros k. rewrite Hs2. apply Hs1.
  Qed.

  Theorem run_r_resume : forall rs n k x, Inv x ->
    run_r X F step restore rs n k x = run_r X F step restore (no_restores) n k x.
  Proof.
    intros rs n. induction n as [|n IH]; intros k x Hx; [reflexivity|].
    simpl. destruct (restore_n_ok (rs k) x Hx) as (x' & -> & Hx' & Hs).
    rewrite Hs. destruct (step k x) as [f|y] eqn:E; [reflexivity|].
    apply IH. exact (Hstep k x y Hx E).
  Qed.
End ResumeGeneric.

(* ====================================================================== *)
(* D. plain Process programs                                               *)
(* ====================================================================== *)

Section ProcResume.
  Variable U : Type.
  Variable ufn : fn -> U -> list val -> kwargs -> U * (exn + command).
  Variable nm : names.
  Variable keep_kwargs : bool.
  Variable resume : nat -> option val.
  Variable UB : Type.
  Variable usave : U -> UB.
  Variable uload : UB -> exn + U.

  Hypothesis Hclosed : closed_program U ufn nm.
  Hypothesis Hcodec : forall u, uload (usave u) = inr u.

  Notation proc_step := (proc_step U ufn keep_kwargs resume).
  Notation proc_restore := (proc_restore U nm UB usave uload).
  Notation proc_run_r := (proc_run_r U ufn nm keep_kwargs resume UB usave uload).

  Definition proc_inv (x : pcfg U) : Prop := payload_ok nm (fst x) = true.

  Lemma after_action_inv : forall c u y, command_ok nm c = true ->
    after_action U keep_kwargs c u = inr y -> proc_inv y.
  Proof.
    intros c u y Hc H. unfold after_action, action in H.
    destruct c as [f a kw|[|[g|]] msg data|r [|b]|msg]; simpl in Hc; inversion H; subst;
      unfold proc_inv; simpl; auto.
  Qed.

  Lemma proc_step_inv : forall k x y, proc_inv x -> proc_step k x = inr y -> proc_inv y.
  Proof.
    intros k [p u] y Hx H. unfold proc_inv in Hx. simpl in Hx.
    unfold StepperPersist.proc_step in H.
    destruct p as [f a kw|f a kw [c|]|[g|] msg data]; simpl in Hx; try discriminate.
    - inversion H; subst. exact Hx.
    - destruct (ufn f u a kw) as [u' [e|c]] eqn:E; [discriminate|].
      eapply after_action_inv; [|eassumption]. eapply Hclosed; eassumption.
    - inversion H; subst. exact Hx.
  Qed.

  Lemma proc_restore_id : forall x, proc_inv x -> proc_restore x = inr x.
  Proof.
    intros [p u] Hx. unfold StepperPersist.proc_restore, proc_load, proc_save. simpl.
    rewrite (payload_roundtrip nm p Hx). simpl. rewrite Hcodec. reflexivity.
  Qed.

  (* a restore at a boundary gives back the configuration itself *)
  Theorem proc_resume_from : forall rs n k x, proc_inv x ->
    proc_run_r rs n k x = proc_run_r no_restores n k x.
  Proof.
    intros rs n k x Hx. unfold StepperPersist.proc_run_r.
    apply (run_r_resume _ _ proc_step proc_restore proc_inv); [exact proc_step_inv| |exact Hx].
    intros y Hy. exists y. rewrite (proc_restore_id y Hy). auto.
  Qed.

  Theorem proc_resume : bound nm "run" = true -> forall rs n u,
    proc_run_r rs n 0 (proc_init U u) = proc_run_r no_restores n 0 (proc_init U u).
  Proof. intros Hrun rs n u. apply proc_resume_from. exact Hrun. Qed.
End ProcResume.

(* ====================================================================== *)
(* E. WorkChains                                                           *)
(* ====================================================================== *)

Section WCResume.
  Variable W : Type.
  Variable A : Type.
  Variable stepf : fn -> W -> W * list A * (exn + rv A).
  Variable predf : string -> W -> W * (exn + bool).
  Variable assign : list A -> W -> W.
  Variable nm : names.
  Variable by_name : bool.
  Variable WB : Type.
  Variable wsave : W -> WB.
  Variable wload : WB -> exn + W.
  Variable o : instr.

  Hypothesis Hwf : wf_instr o = true.
  Hypothesis Hmeth : by_name = true -> methods_ok nm o = true.
  Hypothesis Hrun : bound nm run_name = true.
  Hypothesis Hdo : bound nm do_step_name = true.
  Hypothesis Hcodec : forall w, wload (wsave w) = inr w.

  Notation ist := (ist W A).
  Notation mk_ist := (mk_ist W A).
  Notation do_step := (do_step W A stepf predf).
  Notation run_chain := (run_chain W A stepf predf assign).
  Notation wcfg := (wcfg W A).
  Notation mk_wcfg := (mk_wcfg W A).
  Notation wc_step := (wc_step W A stepf predf assign o).
  Notation wc_restore := (wc_restore W A nm by_name WB wsave wload o).
  Notation wc_run_r := (wc_run_r W A stepf predf assign nm by_name WB wsave wload o).
  Notation wc_init := (wc_init W A).

  (* the states a live workchain is in at a step boundary *)
  Definition wstate_ok (x : wcfg) : Prop :=
    match wc_state W A x with
    | WPay (PCreated f [] []) => f = run_name /\ iaw W A (wc_ist W A x) = []
    | WPay (PRunning f [] [] None) => is_do_step f = true
    | WPay _ => False
    | WAwait _ => True
    end.

  Definition wc_inv (x : wcfg) : Prop :=
    wstate_ok x /\ exists sp, wc_sp W A x = Some sp /\ consistent o sp = true.

  Lemma is_do_step_methods : forall f, is_do_step f = true -> bound nm f = true.
  Proof.
    intros f H. unfold is_do_step in H. apply orb_true_iff in H.
    destruct H as [H|H]; apply String.eqb_eq in H; subst; assumption.
  Qed.

  Lemma do_step_iaw : forall sp s,
    do_step o sp (mk_ist (iw W A s) (icalls W A s) []) = do_step o sp s.
  Proof. reflexivity. Qed.

  Lemma wc_step_inv : forall k x y, wc_inv x -> wc_step k x = inr y -> wc_inv y.
  Proof.
    intros k [st osp s] y [Hst (sp & Hsp & Hc)] H. simpl in Hsp. subst osp.
    unfold wstate_ok in Hst. simpl in Hst. unfold StepperPersist.wc_step in H. simpl in H.
    destruct st as [[f a kw|f a kw cmd|cb msg data]|aw].
    - destruct a; [|contradiction]. destruct kw; [|contradiction]. destruct Hst as [-> Haw].
      inversion H; subst. split; [|exists sp; auto]. unfold wstate_ok. simpl. reflexivity.
    - destruct a; [|contradiction]. destruct kw; [|contradiction].
      destruct cmd; [contradiction|]. rewrite Hst in H. simpl in H.
      destruct (do_step o sp s) as [[s1 sp1] d] eqn:Ed.
      destruct d as [r| |aw|e]; try discriminate; inversion H; subst.
      + split; [reflexivity|]. exists sp1. split; [reflexivity|].
        eapply (do_step_consistent W A stepf predf o Hwf); [exact Hc|exact Ed|left; reflexivity].
      + split; [exact I|]. exists sp1. split; [reflexivity|].
        eapply (do_step_consistent W A stepf predf o Hwf); [exact Hc|exact Ed|right; eauto].
    - contradiction.
    - inversion H; subst. split; [reflexivity|]. exists sp. auto.
  Qed.

  Lemma wc_restore_ok : forall x, wc_inv x ->
    exists x', wc_restore x = inr x' /\ wc_inv x' /\ forall k, wc_step k x' = wc_step k x.
  Proof.
    intros [st osp s] [Hst (sp & Hsp & Hc)]. simpl in Hsp. subst osp.
    unfold wstate_ok in Hst. simpl in Hst.
    unfold StepperPersist.wc_restore, wc_save. simpl.
    destruct st as [p|aw].
    2:{ eexists. split; [reflexivity|]. split; [|reflexivity].
        split; [exact I|]. exists sp. auto. }
    destruct (stepper_roundtrip nm by_name o sp Hmeth Hc) as (st0 & Hobj & Hrc).
    unfold save_pos. rewrite Hobj. simpl. unfold wc_load. simpl.
    assert (Hp : payload_ok nm p = true).
    { destruct p as [f a kw|f a kw cmd|cb msg data]; try contradiction.
      - destruct a; [|contradiction]. destruct kw; [|contradiction]. destruct Hst as [-> _]. exact Hrun.
      - destruct a; [|contradiction]. destruct kw; [|contradiction].
        destruct cmd; [contradiction|]. simpl. apply is_do_step_methods. exact Hst. }
    rewrite (payload_roundtrip nm p Hp). simpl. rewrite Hcodec. simpl. rewrite Hrc. simpl.
    rewrite (obj_pos_of _ _ _ Hobj), Hobj, option_eqb_refl.
    eexists. split; [reflexivity|]. split.
    - split; [|exists sp; auto]. unfold wstate_ok. simpl.
      destruct p as [f a kw|f a kw cmd|cb msg data]; try contradiction.
      + destruct a; [|contradiction]. destruct kw; [|contradiction]. destruct Hst as [-> _]. auto.
      + exact Hst.
    - intros k. unfold StepperPersist.wc_step. simpl.
      destruct p as [f a kw|f a kw cmd|cb msg data]; try contradiction.
      + destruct a; [|contradiction]. destruct kw; [|contradiction]. destruct Hst as [_ Haw].
        destruct s as [w tr aw0]. simpl in *. subst aw0. reflexivity.
      + destruct a; [|contradiction]. destruct kw; [|contradiction].
        destruct cmd; [contradiction|]. rewrite Hst. simpl.
        rewrite do_step_iaw. reflexivity.
  Qed.

  (* C08 for workchains, from any live configuration *)
  Theorem wc_resume_from : forall rs n k x, wc_inv x ->
    wc_run_r rs n k x = wc_run_r no_restores n k x.
  Proof.
    intros rs n k x Hx. unfold StepperPersist.wc_run_r.
    exact (run_r_resume _ _ wc_step wc_restore wc_inv wc_step_inv wc_restore_ok rs n k x Hx).
  Qed.

  Lemma wc_init_inv : forall sp w, create o = inr sp -> wc_inv (wc_init sp w).
  Proof.
    intros sp w H. split; [split; reflexivity|]. exists sp. split; [reflexivity|].
    apply create_consistent. exact H.
  Qed.

  Theorem wc_resume : forall sp, create o = inr sp -> forall rs n w,
    wc_run_r rs n 0 (wc_init sp w) = wc_run_r no_restores n 0 (wc_init sp w).
  Proof. intros sp H rs n w. apply wc_resume_from. apply wc_init_inv. exact H. Qed.

  (* ---- the run without restores is M2's run_chain ---- *)
  Definition running (f : fn) (sp : spos) (s : ist) : wcfg :=
    mk_wcfg (WPay (PRunning f [] [] None)) (Some sp) s.

  Lemma wc_run_S_running : forall n k f sp s, is_do_step f = true ->
    wc_run_r no_restores (S n) k (running f sp s) =
      let '(s1, sp1, d) := do_step o sp s in
      match d with
      | DFinish _ r => Some (RDone (s1, Some sp1, inr r))
      | DFail _ e => Some (RDone (s1, Some sp1, inl e))
      | DContinue _ => wc_run_r no_restores n (S k) (running do_step_name sp1 s1)
      | DWait _ aw => wc_run_r no_restores n (S k) (mk_wcfg (WAwait aw) (Some sp1) s1)
      end.
  Proof.
    intros n k f sp s Hf. unfold StepperPersist.wc_run_r. simpl.
    unfold StepperPersist.wc_step. simpl. rewrite Hf. simpl.
    destruct (do_step o sp s) as [[s1 sp1] d]. destruct d; reflexivity.
  Qed.

  Lemma wc_run_S_await : forall n k aw sp s,
    wc_run_r no_restores (S n) k (mk_wcfg (WAwait aw) (Some sp) s) =
      wc_run_r no_restores n (S k)
        (running do_step_name sp (mk_ist (assign aw (iw W A s)) (icalls W A s) (iaw W A s))).
  Proof. reflexivity. Qed.

  Lemma is_do_step_do : is_do_step do_step_name = true.
  Proof. reflexivity. Qed.

  Lemma wc_run_chain : forall n k f sp s s1 sp1 r, is_do_step f = true ->
    run_chain n o sp s = Some (s1, sp1, r) ->
    exists m, wc_run_r no_restores m k (running f sp s) = Some (RDone (s1, Some sp1, r)).
  Proof.
    induction n as [|n IH]; intros k f sp s s1 sp1 r Hf H; [discriminate|].
    rewrite run_chain_S in H.
    destruct (do_step o sp s) as [[s2 sp2] d] eqn:Ed.
    destruct d as [rr| |aw|e].
    - exists 1. rewrite (wc_run_S_running 0 k f sp s Hf), Ed. inversion H; subst. reflexivity.
    - destruct (IH (S k) do_step_name _ _ _ _ _ is_do_step_do H) as [m Hm].
      exists (S m). rewrite (wc_run_S_running m k f sp s Hf), Ed. exact Hm.
    - destruct (IH (S (S k)) do_step_name _ _ _ _ _ is_do_step_do H) as [m Hm].
      exists (S (S m)). rewrite (wc_run_S_running (S m) k f sp s Hf), Ed.
      rewrite wc_run_S_await. exact Hm.
    - exists 1. rewrite (wc_run_S_running 0 k f sp s Hf), Ed. inversion H; subst. reflexivity.
  Qed.

  Lemma wc_chain_run : forall N m k f sp s res, m <= N -> is_do_step f = true ->
    wc_run_r no_restores m k (running f sp s) = Some res ->
    exists n s1 sp1 r, res = RDone (s1, Some sp1, r) /\ run_chain n o sp s = Some (s1, sp1, r).
  Proof.
    induction N as [|N IH]; intros m k f sp s res Hle Hf H.
    - assert (m = 0) by lia. subst. discriminate.
    - destruct m as [|m]; [discriminate|].
      rewrite (wc_run_S_running m k f sp s Hf) in H.
      destruct (do_step o sp s) as [[s2 sp2] d] eqn:Ed.
      destruct d as [rr| |aw|e].
      + inversion H; subst. exists 1, s2, sp2, (inr rr). split; [reflexivity|].
        rewrite run_chain_S, Ed. reflexivity.
      + destruct (IH m (S k) _ _ _ _ ltac:(lia) is_do_step_do H) as (n & s1 & sp1 & r & -> & Hn).
        exists (S n), s1, sp1, r. split; [reflexivity|]. rewrite run_chain_S, Ed. exact Hn.
      + destruct m as [|m]; [discriminate|]. rewrite wc_run_S_await in H.
        destruct (IH m (S (S k)) _ _ _ _ ltac:(lia) is_do_step_do H) as (n & s1 & sp1 & r & -> & Hn).
        exists (S n), s1, sp1, r. split; [reflexivity|]. rewrite run_chain_S, Ed. exact Hn.
      + inversion H; subst. exists 1, s2, sp2, (inl e). split; [reflexivity|].
        rewrite run_chain_S, Ed. reflexivity.
  Qed.

  Lemma wc_run_init : forall n sp w,
    wc_run_r no_restores (S n) 0 (wc_init sp w) =
      wc_run_r no_restores n 1 (running run_name sp (mk_ist w [] [])).
  Proof. reflexivity. Qed.

  Lemma is_do_step_run : is_do_step run_name = true.
  Proof. reflexivity. Qed.

  (* C08_resume in terms of run_chain: whatever the uninterrupted chain of _do_step calls does —
     trace of step and predicate calls, final user state, final stepper, result — is what every
     run with restores does, for every choice of crash points and restore counts *)
  Theorem wc_resume_chain : forall sp, create o = inr sp -> forall n w s1 sp1 r,
    run_chain n o sp (mk_ist w [] []) = Some (s1, sp1, r) ->
    exists m, forall rs, wc_run_r rs m 0 (wc_init sp w) = Some (RDone (s1, Some sp1, r)).
  Proof.
    intros sp Hcr n w s1 sp1 r H.
    destruct (wc_run_chain n 1 run_name sp _ s1 sp1 r is_do_step_run H) as [m Hm].
    exists (S m). intros rs. rewrite (wc_resume sp Hcr rs (S m) w), wc_run_init. exact Hm.
  Qed.

  (* and conversely: a run with restores that ends, ends as the uninterrupted chain; in
     particular it never ends in a failed restore *)
  Theorem wc_resume_chain_conv : forall sp, create o = inr sp -> forall rs m w res,
    wc_run_r rs m 0 (wc_init sp w) = Some res ->
    exists n s1 sp1 r, res = RDone (s1, Some sp1, r) /\
                       run_chain n o sp (mk_ist w [] []) = Some (s1, sp1, r).
  Proof.
    intros sp Hcr rs m w res H. rewrite (wc_resume sp Hcr rs m w) in H.
    destruct m as [|m]; [discriminate|]. rewrite wc_run_init in H.
    exact (wc_chain_run m m 1 run_name sp _ res (le_n _) is_do_step_run H).
  Qed.
End WCResume.

(* the instrumented run used by the correspondence check is the run of the theorems *)
Lemma run_r_obs_snd : forall X F step restore O obsf rs n k x,
  snd (run_r_obs X F step restore O obsf rs n k x) = run_r X F step restore rs n k x.
Proof.
  intros X F step restore O obsf rs n. induction n as [|n IH]; intros k x; [reflexivity|].
  simpl. destruct (restore_n X restore (rs k) x) as [e|x']; [reflexivity|].
  destruct (step k x') as [f|x'']; [reflexivity|].
  specialize (IH (S k) x''). destruct (run_r_obs X F step restore O obsf rs n (S k) x'') as [l r].
  exact IH.
Qed.
