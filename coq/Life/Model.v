(* Life/Model.v — M1: the process life cycle, control requests and the event loop.
   Executable model of base/state_machine.py, process_states.py, processes.py (state machine, hooks,
   pause/play/kill/resume/fail, interrupt actions, step / step_until_terminated, call_soon, close),
   events.ProcessCallback, futures.CancellableAction, event_helper.fire_event.  No proofs.

   One process, one event loop.  The loop is a FIFO of ready callbacks ([ready]); the environment
   (Run.v) runs one callback at a time and places control requests between callbacks.
   Coroutines are defunctionalised: the stepping task (step_until_terminated) is a program counter
   [t0] plus the resumption function [resume_t0]; it suspends only at `await self._paused`,
   `await self._waiting_future` and the user's own awaits. *)
From Coq Require Import List ZArith String Bool Arith.
From RecordUpdate Require Import RecordUpdate.
From Plumpy Require Import Val Mon PortModel.
Import ListNotations.
Local Open Scope string_scope.
Local Open Scope list_scope.
Local Open Scope mon_scope.

(* ------------------------------------------------------------------ data *)
Inductive label := LCreated | LRunning | LWaiting | LFinished | LExcepted | LKilled.

Definition label_eqb (a b : label) : bool :=
  match a, b with
  | LCreated, LCreated | LRunning, LRunning | LWaiting, LWaiting
  | LFinished, LFinished | LExcepted, LExcepted | LKilled, LKilled => true
  | _, _ => false
  end.

(* State.ALLOWED of process_states.py (checked against /repo by Gen/FactsMatch.v) *)
Definition allowed (a : label) : list label :=
  match a with
  | LCreated => [LExcepted; LKilled; LRunning]
  | LRunning => [LExcepted; LFinished; LKilled; LRunning; LWaiting]
  | LWaiting => [LExcepted; LFinished; LKilled; LRunning; LWaiting]
  | LFinished | LExcepted | LKilled => []
  end.

Definition terminal (a : label) : bool := match allowed a with [] => true | _ => false end.
Definition is_allowed (a b : label) : bool := existsb (label_eqb b) (allowed a).

(* what a wake-up delivers to a suspended coroutine *)
Inductive wake :=
| WkNone                          (* sleep(0) / a plain wake-up *)
| WkVal (v : val)                 (* future result *)
| WkNull                          (* future result lang.NULL: resume() without a value *)
| WkExn (e : exn)                 (* future exception *)
| WkIntr (id : nat).              (* the Interruption object with identity id *)

(* the _waiting_future of a Waiting state *)
Inductive wfut := WfPending | WfDone (w : wake).

Inductive pstate :=
| SCreated
| SRunning (fn : string) (args : list val) (kwargs : list (string * val))
| SWaiting (fn : option string) (msg : option string) (data : val) (wid : nat) (wf : wfut)
| SFinished (result : val) (ok : bool)
| SExcepted (e : exn)
| SKilled (msg : option (option string)).   (* None: msg=None; Some t: a kill message with text t *)

Definition label_of (s : pstate) : label :=
  match s with
  | SCreated => LCreated | SRunning _ _ _ => LRunning | SWaiting _ _ _ _ _ => LWaiting
  | SFinished _ _ => LFinished | SExcepted _ => LExcepted | SKilled _ => LKilled
  end.

(* control requests *)
Inductive ctl :=
| CPause (msg : option string)
| CPlay
| CKill (msg : option string)
| CResume (v : option val)
| CFail (e : exn)
| CRaise (e : exn).               (* not a control call: a listener / callback script that just raises *)

(* what a control call hands back *)
Inductive cret :=
| CrBool (b : bool)
| CrAction (id : nat)             (* a CancellableAction *)
| CrNone
| CrRaised (e : exn).

(* user code is data: the actions of a step function and what it returns *)
Inductive action :=
| AOut (path : string) (v : val)
| AYield                          (* await asyncio.sleep(0) *)
| AAwaitExt (k : nat)             (* await an environment-owned future *)
| ACtl (c : ctl)                  (* a control call on self *)
| ACallSoon (cb : nat)            (* self.call_soon(callback number cb) *)
| AObserve                        (* record paused / status *)
| AStatus (s : option string).    (* self.set_status(s) *)

Inductive sret :=
| RContinue (f : string) (args : list val) (kwargs : list (string * val))
| RWait (f : option string) (msg : option string) (data : val)
| RValue (v : val)
| RUnsuccessful (code : val)
| RStop (v : val) (ok : bool)
| RKill (msg : option (option string))
| RRaise (e : exn).

Record script := mk_script { s_actions : list action; s_ret : sret }.

(* CancellableAction *)
Inductive akind := KPause (msg : option string) | KKill (msg : option string).
Inductive afut := AfPending | AfVal (v : bool) | AfExn (e : exn) | AfCancelled.
Record act := mk_act { a_kind : akind; a_cookie : nat; a_fut : afut }.

(* the process future *)
Inductive pfstate := PfPending | PfResult (outs : list (string * val)) | PfExn (e : exn) | PfCancelled.

(* program counter of the stepping task *)
Inductive pc :=
| PcNotStarted                    (* task created, first step not yet run *)
| PcAwaitPaused (fid : nat)       (* step(): await self._paused *)
| PcInStep (rest : list action) (r : sret) (await_ext : option nat)   (* inside a user step, suspended at an await *)
| PcAwaitWaiting (wid : nat)      (* Waiting.execute: await self._waiting_future *)
| PcDone                          (* step_until_terminated returned *)
| PcFailed (e : exn).             (* an exception escaped from the coroutine: the task failed *)

(* entries of the loop's ready queue *)
Inductive rentry :=
| RWakeT0 (w : wake)              (* the stepping task's __step / __wakeup *)
| RCallback (cb : nat)            (* ProcessCallback.run of a call_soon callback *)
| RTryKilling.                    (* done-callback of the original process future *)

Inductive event :=
| EvEntered (from : option label) (to : label)
| EvHook (name : string)
| EvListener (name : string)
| EvStep (fn : string) (args : list val) (kwargs : list (string * val)) (paused_flag : bool)
| EvOutput (path : string) (v : val) (dyn : bool)
| EvObserve (paused_flag : bool) (st : option string)
| EvCtl (c : ctl) (r : cret)      (* a control call made from user code / a listener, and its outcome *)
| EvCleanup (n : nat)
| EvLoopError (e : exn)           (* reported to the loop: a task failed or a callback raised *)
| EvCallback (cb : nat).

(* a callback script scheduled with call_soon *)
Inductive cbscript := CbOk | CbRaise (e : exn) | CbCtl (c : ctl).

(* one-shot listener scripts: on the n-th notification [name] call c *)
Record lscript := mk_lscript { ls_event : string; ls_occ : nat; ls_ctl : ctl }.

Record config := mk_config {
  cf_prog : list (string * script);          (* step functions by name ("run" is the entry point) *)
  cf_callbacks : list cbscript;
  cf_listeners : list lscript;
  cf_fault : option (string * nat * exn);    (* inject: hook name, occurrence index, exception *)
  cf_ospec : port                            (* output port namespace *)
}.

Record world := mk_world {
  cfg : config;
  st : option pstate;
  stepping : bool;
  pausing : option nat;
  killing : option nat;
  intr : option nat;
  acts : list act;
  next_id : nat;                 (* fresh ids: interruptions, paused futures, waiting futures *)
  paused : option nat;
  pre_paused_status : option string;
  status : option string;
  pfut : pfstate;
  pfut_original : bool;          (* self._future is still the object created in __init__ *)
  orig_fut_cancelled : bool;     (* that original object has been cancelled (by the user) *)
  closed : bool;
  cleanups : list nat;
  hooks_alive : bool;
  transitioning : bool;
  transition_failing : bool;
  outputs : list (string * val);
  ospec : port;
  t0 : pc;
  ready : list rentry;
  exts : list (nat * wake);      (* completed environment futures *)
  occ : list (string * nat);
  trace : list event;
  wintr : option nat;            (* Waiting._interruption: delivered to the waiting future, not yet seen by execute() *)
  wrecalled : list nat           (* Waiting._recalled: interruptions execute() has to ignore *)
}.

#[export] Instance eta_world : Settable _ := settable! mk_world
  <cfg; st; stepping; pausing; killing; intr; acts; next_id; paused; pre_paused_status; status; pfut;
   pfut_original; orig_fut_cancelled; closed; cleanups; hooks_alive; transitioning; transition_failing;
   outputs; ospec; t0; ready; exts; occ; trace; wintr; wrecalled>.

Notation LM := (M world).

Definition emit (e : event) : LM unit := modify (fun w => w <| trace := trace w ++ [e] |>).
Definition schedule (r : rentry) : LM unit := modify (fun w => w <| ready := ready w ++ [r] |>).

Definition cur_label (w : world) : option label := option_map label_of (st w).
Definition is_terminated (w : world) : bool :=
  match st w with Some s => terminal (label_of s) | None => false end.

Definition fresh : LM nat :=
  w <- get ;; put (w <| next_id := S (next_id w) |>) ;;; ret (next_id w).

Fixpoint nat_assoc (k : string) (l : list (string * nat)) : nat :=
  match l with [] => 0 | (k', n) :: r => if String.eqb k k' then n else nat_assoc k r end.
Fixpoint nat_bump (k : string) (l : list (string * nat)) : list (string * nat) :=
  match l with
  | [] => [(k, 1)]
  | (k', n) :: r => if String.eqb k k' then (k', S n) :: r else (k', n) :: nat_bump k r
  end.

(* a user-overridable hook (on_run, on_finish, ...): recorded, and the injection point of a fault *)
Definition hook (name : string) : LM unit :=
  w <- get ;;
  let n := nat_assoc name (occ w) in
  put (w <| occ := nat_bump name (occ w) |>) ;;;
  emit (EvHook name) ;;;
  match cf_fault (cfg w) with
  | Some (h, k, e) => if String.eqb h name && Nat.eqb k n then raise e else ret tt
  | None => ret tt
  end.

Fixpoint upd_nth {A} (n : nat) (f : A -> A) (l : list A) : list A :=
  match l, n with
  | [], _ => []
  | x :: r, 0 => f x :: r
  | x :: r, S n' => x :: upd_nth n' f r
  end.

Definition set_act_fut (id : nat) (f : afut) : LM unit :=
  modify (fun w => w <| acts := upd_nth id (fun a => mk_act (a_kind a) (a_cookie a) f) (acts w) |>).

Definition get_act (w : world) (id : nat) : option act := nth_error (acts w) id.

(* Future.cancel() on an action: only a pending one is cancelled *)
Definition cancel_act (id : nat) : LM unit :=
  w <- get ;;
  match get_act w id with
  | Some a => match a_fut a with AfPending => set_act_fut id AfCancelled | _ => ret tt end
  | None => ret tt
  end.

(* _set_interrupt_action *)
Definition set_interrupt_action (new : option nat) : LM unit :=
  w <- get ;;
  match intr w with
  | Some old =>
      cancel_act old ;;;
      (* a cancelled action is no longer a pending pause / kill *)
      modify (fun w => w <| pausing := (match pausing w with Some a => if Nat.eqb a old then None else Some a | None => None end) |>
                         <| killing := (match killing w with Some a => if Nat.eqb a old then None else Some a | None => None end) |>)
  | None => ret tt
  end ;;;
  modify (fun w => w <| intr := new |>).

(* _create_interrupt_action + _set_interrupt_action_from_exception; returns the action id *)
Definition set_interrupt_action_from (k : akind) (cookie : nat) : LM nat :=
  w <- get ;;
  let id := List.length (acts w) in
  put (w <| acts := acts w ++ [mk_act k cookie AfPending] |>) ;;;
  set_interrupt_action (Some id) ;;;
  ret id.

Section Reentrant.
  (* control calls made re-entrantly from listeners; the knot is tied with fuel in [do_ctl] *)
  Variable rec_ctl : ctl -> LM cret.

  (* EventHelper.fire_event: every listener is notified; a listener script may call back into the
     process; whatever a listener raises is logged and dropped (`except Exception`) *)
  Definition fire (name : string) : LM unit :=
    w <- get ;;
    let n := nat_assoc (String.append "L:" name) (occ w) in
    put (w <| occ := nat_bump (String.append "L:" name) (occ w) |>) ;;;
    emit (EvListener name) ;;;
    mapM_ (fun ls =>
             if String.eqb (ls_event ls) name && Nat.eqb (ls_occ ls) n
             then r <- attempt (rec_ctl (ls_ctl ls)) ;;
                  emit (EvCtl (ls_ctl ls) (match r with Ok c => c | Err e => CrRaised e end))
             else ret tt)
          (cf_listeners (cfg w)).

  (* ---------------- the process future ---------------- *)
  Definition pfut_done (w : world) : bool := match pfut w with PfPending => false | _ => true end.

  (* Future.set_result / set_exception: InvalidStateError when already done; completing the original
     future schedules its done-callback try_killing *)
  Definition pfut_set (f : pfstate) : LM unit :=
    w <- get ;;
    if pfut_done w then raise EInvalidState
    else put (w <| pfut := f |>) ;;; when (pfut_original w) (schedule RTryKilling).

  (* ---------------- close ---------------- *)
  (* a user override of on_close runs its own code first, then super().on_close() whose try/finally
     marks the process closed; a fault in the user part therefore leaves it open *)
  Definition on_close : LM unit :=
    hook "on_close" ;;;
    finally
      (w <- get ;;
       mapM_ (fun c => emit (EvCleanup c)) (cleanups w) ;;;
       modify (fun w => w <| cleanups := [] |>))
      (modify (fun w => w <| hooks_alive := false |> <| closed := true |>)).

  Definition close : LM unit :=
    w <- get ;; if closed w then ret tt else on_close.

  (* ---------------- entering / exiting states ---------------- *)
  (* on_entering: returns Some s' when the entry is re-routed (StateEntryFailed(s')) *)
  Definition on_entering (ns : pstate) : LM (option pstate) :=
    match ns with
    | SCreated => hook "on_create" ;;; ret None
    | SRunning _ _ _ => hook "on_run" ;;; ret None
    | SWaiting _ _ _ _ _ => hook "on_wait" ;;; ret None
    | SFinished result ok =>
        hook "on_finish" ;;;
        w <- get ;;
        if ok && negb (valid_port (fun _ _ => false) (ospec w) (VDict (outputs w)))
        then ret (Some (SFinished result false))
        else pfut_set (PfResult (outputs w)) ;;; ret None
    | SKilled msg =>
        hook "on_kill" ;;;
        let txt := match msg with Some (Some t) => t | _ => "" end in
        modify (fun w => w <| status := Some txt |>) ;;;
        (* killed because the future was cancelled: the outcome is reported through a new future *)
        w <- get ;;
        (match pfut w with
         | PfCancelled => put (w <| pfut := PfExn (EKilled txt) |> <| pfut_original := false |>)
         | _ => pfut_set (PfExn (EKilled txt))
         end) ;;;
        ret None
    | SExcepted e =>
        hook "on_except" ;;;
        (* a future that is already done is replaced by a fresh one *)
        w <- get ;;
        (if pfut_done w then put (w <| pfut := PfExn e |> <| pfut_original := false |>)
         else pfut_set (PfExn e)) ;;;
        ret None
    end.

  Definition on_entered (w0 : world) : LM unit :=
    w <- get ;;
    match st w with
    | Some (SRunning _ _ _) => hook "on_running" ;;; fire "on_process_running"
    | Some (SWaiting _ _ _ _ _) => hook "on_waiting" ;;; fire "on_process_waiting"
    | Some (SFinished _ _) => hook "on_finished" ;;; fire "on_process_finished"
    | Some (SExcepted _) => hook "on_excepted" ;;; fire "on_process_excepted"
    | Some (SKilled _) =>
        hook "on_killed" ;;; modify (fun w => w <| killing := None |>) ;;; fire "on_process_killed"
    | _ => ret tt
    end.

  (* _exit_current_state *)
  Definition exit_current (ns : pstate) : LM unit :=
    w <- get ;;
    match st w with
    | None => if label_eqb (label_of ns) LCreated then ret tt else raise ERuntime
    | Some cur =>
        if negb (is_allowed (label_of cur) (label_of ns)) then raise ERuntime
        else
          when (hooks_alive w)
               (match cur with
                | SWaiting _ _ _ _ _ => hook "on_exit_waiting"
                | SRunning _ _ _ => hook "on_exit_running"
                | _ => ret tt
                end) ;;;
          (* State.exit: a terminal state cannot be exited; Waiting.exit releases a wait nobody will
             resume any more (a coroutine still awaiting it is woken) *)
          if terminal (label_of cur) then raise EInvalidState
          else match cur with
               | SWaiting fn msg data wid WfPending =>
                   modify (fun w => w <| st := Some (SWaiting fn msg data wid (WfDone WkNull)) |>) ;;;
                   w' <- get ;;
                   match t0 w' with
                   | PcAwaitWaiting wid' => when (Nat.eqb wid wid') (schedule (RWakeT0 WkNull))
                   | _ => ret tt
                   end
               | _ => ret tt
               end
    end.

  (* _enter_next_state; Some s' = StateEntryFailed(s') was raised by on_entering *)
  Definition enter_next (ns : pstate) : LM (option pstate) :=
    w <- get ;;
    r <- (if hooks_alive w then on_entering ns else ret None) ;;
    match r with
    | Some s' => ret (Some s')
    | None =>
        w1 <- get ;;
        put (w1 <| st := Some ns |> <| wintr := None |> <| wrecalled := [] |>) ;;;   (* a new state object *)
        emit (EvEntered (cur_label w) (label_of ns)) ;;;
        w2 <- get ;;
        when (hooks_alive w2) (on_entered w) ;;;
        ret None
    end.

  (* Process.on_terminated: user hook, then a stepping coroutine still waiting on self._paused is
     released (self._paused.set_result(True); the paused flag itself stays), then close() *)
  Definition on_terminated : LM unit :=
    hook "on_terminated" ;;;
    w <- get ;;
    match paused w, t0 w with
    | Some fid, PcAwaitPaused f => when (Nat.eqb f fid) (schedule (RWakeT0 WkNone))
    | _, _ => ret tt
    end ;;;
    close.

  (* the body of transition_to inside `try:` *)
  Definition transition_body (ns : pstate) : LM unit :=
    modify (fun w => w <| transitioning := true |>) ;;;
    w <- get ;;
    when (negb (transition_failing w)) (exit_current ns) ;;;
    r <- enter_next ns ;;
    match r with
    | Some s' => exit_current s' ;;; _ <- enter_next s' ;; ret tt
    | None => ret tt
    end ;;;
    w' <- get ;;
    when (is_terminated w') on_terminated.

  (* transition_to while _transition_failing is set (called from transition_failed): a second
     failure is re-raised *)
  Definition transition_to_failing (ns : pstate) : LM unit :=
    w <- get ;;
    if transitioning w then raise EAssert
    else
      finally
        (try_catch (transition_body ns)
                   (fun e => modify (fun w => w <| transitioning := false |>) ;;; raise e))
        (modify (fun w => w <| transition_failing := false |> <| transitioning := false |>)).

  (* StateMachine.transition_to + Process.transition_failed *)
  Definition transition_to (ns : option pstate) : LM unit :=
    w <- get ;;
    if transitioning w then raise EAssert
    else
      match ns with
      | None => ret tt
      | Some ns =>
          finally
            (try_catch (transition_body ns)
               (fun e =>
                  modify (fun w => w <| transitioning := false |>) ;;;
                  w1 <- get ;;
                  if transition_failing w1 then raise e
                  else
                    modify (fun w => w <| transition_failing := true |>) ;;;
                    (* transition_failed: creating -> re-raise; otherwise go to EXCEPTED *)
                    if label_eqb (label_of ns) LCreated then raise e
                    else transition_to_failing (SExcepted e)))
            (modify (fun w => w <| transition_failing := false |> <| transitioning := false |>))
      end.

  (* ---------------- pause / play / kill / resume / fail ---------------- *)
  (* State.interrupt(reason): only Waiting does something: the waiting future gets the exception *)
  Definition state_interrupt (iid : nat) : LM unit :=
    w <- get ;;
    match st w with
    | Some (SWaiting fn msg data wid wf) =>
        match wf with
        | WfDone _ => ret tt                         (* already resumed / interrupted: nothing to deliver *)
        | WfPending =>
            put (w <| st := Some (SWaiting fn msg data wid (WfDone (WkIntr iid))) |> <| wintr := Some iid |>) ;;;
            match t0 w with
            | PcAwaitWaiting wid' => when (Nat.eqb wid wid') (schedule (RWakeT0 (WkIntr iid)))
            | _ => ret tt
            end
        end
    | _ => ret tt
    end.

  (* State.recall(reason): withdraw an interruption execute() has not seen yet (only Waiting does something) *)
  Definition state_recall (iid : nat) : LM unit :=
    w <- get ;;
    match wintr w with
    | Some i =>
        if Nat.eqb i iid then
          modify (fun w => w <| wrecalled := wrecalled w ++ [iid] |>) ;;;
          match st w with
          | Some (SWaiting fn msg data wid (WfDone (WkIntr j))) =>
              if Nat.eqb j iid then
                wid' <- fresh ;;
                modify (fun w => w <| st := Some (SWaiting fn msg data wid' WfPending) |>)
              else ret tt
          | _ => ret tt
          end
        else ret tt
    | None => ret tt
    end.

  (* _do_pause(state_msg, next_state) *)
  Definition do_pause (msg : option string) (next : option pstate) : LM bool :=
    finally
      (match next with Some _ => transition_to next | None => ret tt end ;;;
       hook "on_pausing" ;;;
       hook "on_paused" ;;;
       fid <- fresh ;;
       modify (fun w => w <| pausing := None |> <| paused := Some fid |> <| pre_paused_status := status w |>) ;;;
       match msg with Some m => modify (fun w => w <| status := Some m |>) | None => ret tt end ;;;
       fire "on_process_paused" ;;;
       ret true)
      (modify (fun w => w <| pausing := None |>)).

  Definition pause (msg : option string) : LM cret :=
    w <- get ;;
    if is_terminated w then ret (CrBool false)
    else match paused w with
    | Some _ => ret (CrBool true)
    | None =>
        match pausing w with
        | Some a => ret (CrAction a)
        | None =>
            match killing w with Some _ => ret (CrBool false) | None =>
            if stepping w then
              iid <- fresh ;;
              a <- set_interrupt_action_from (KPause msg) iid ;;
              modify (fun w => w <| pausing := Some a |>) ;;;
              state_interrupt iid ;;;
              ret (CrAction a)
            else b <- do_pause msg None ;; ret (CrBool b)
            end
        end
    end.

  Definition play : LM cret :=
    w <- get ;;
    match paused w with
    | None =>
        match pausing w with
        | Some a =>
            match get_act w a with Some ac => state_recall (a_cookie ac) | None => ret tt end ;;;
            cancel_act a ;;; modify (fun w => w <| pausing := None |>) ;;; set_interrupt_action None
        | None => ret tt
        end ;;;
        ret (CrBool true)
    | Some fid =>
        hook "on_playing" ;;;
        (* self._paused.set_result(True): wakes the stepping task if it is waiting on this future *)
        match t0 w with
        | PcAwaitPaused f => when (Nat.eqb f fid) (schedule (RWakeT0 WkNone))
        | _ => ret tt
        end ;;;
        modify (fun w => w <| paused := None |> <| status := pre_paused_status w |> <| pre_paused_status := None |>) ;;;
        fire "on_process_played" ;;;
        ret (CrBool true)
    end.

  Definition kill (msg : option string) : LM cret :=
    w <- get ;;
    match st w with
    | Some (SKilled _) => ret (CrBool true)
    | _ =>
        if is_terminated w then ret (CrBool false)
        else match killing w with
        | Some a => ret (CrAction a)
        | None =>
            if stepping w then
              iid <- fresh ;;
              a <- set_interrupt_action_from (KKill msg) iid ;;
              modify (fun w => w <| killing := Some a |>) ;;;
              state_interrupt iid ;;;
              ret (CrAction a)
            else transition_to (Some (SKilled (Some msg))) ;;; ret (CrBool true)
        end
    end.

  (* @event(from_states=Waiting) resume(args) -> Waiting.resume *)
  Definition resume (v : option val) : LM cret :=
    w <- get ;;
    match st w with
    | Some (SWaiting fn msg data wid wf) =>
        let wk := match v with Some x => WkVal x | None => WkNull end in
        match wf with
        | WfDone (WkIntr _) =>
            (* interrupted, execute() has not dealt with it yet: the wake-up goes into a fresh waiting future *)
            wid' <- fresh ;;
            modify (fun w => w <| st := Some (SWaiting fn msg data wid' (WfDone wk)) |>) ;;;
            ret CrNone
        | WfDone _ => ret CrNone
        | WfPending =>
            put (w <| st := Some (SWaiting fn msg data wid (WfDone wk)) |>) ;;;
            match t0 w with
            | PcAwaitWaiting wid' => when (Nat.eqb wid wid') (schedule (RWakeT0 wk))
            | _ => ret tt
            end ;;;
            ret CrNone
        end
    | _ => raise EEventError
    end.

  (* @event(to_states=Excepted) fail(exception, trace_back) *)
  Definition fail (e : exn) : LM cret :=
    w0 <- get ;;
    if is_terminated w0 then ret (CrBool false) else
    transition_to (Some (SExcepted e)) ;;;
    w <- get ;;
    match st w with
    | Some (SExcepted _) => ret CrNone
    | _ => raise EEventError
    end.

  Definition ctl_body (c : ctl) : LM cret :=
    match c with
    | CPause m => pause m
    | CPlay => play
    | CKill m => kill m
    | CResume v => resume v
    | CFail e => fail e
    | CRaise e => raise e
    end.
End Reentrant.

(* tie the knot: listener re-entrancy is bounded by fuel *)
Fixpoint do_ctl (fuel : nat) (c : ctl) : LM cret :=
  match fuel with
  | 0 => raise EOutOfFuel
  | S f => ctl_body (do_ctl f) c
  end.

Definition reent_fuel := 6.
Definition ctl_call (c : ctl) : LM cret := do_ctl reent_fuel c.
Definition transition (ns : option pstate) : LM unit := transition_to (do_ctl reent_fuel) ns.

(* a control call from the environment or from user code: exceptions are what the caller sees *)
Definition ctl_observed (c : ctl) : LM cret :=
  r <- attempt (ctl_call c) ;;
  ret (match r with Ok x => x | Err e => CrRaised e end).

(* ------------------------------------------------------------------ commands (Running._action_command) *)
Definition command_state (r : sret) (wid : nat) : exn + pstate :=
  match r with
  | RContinue f args kwargs => inr (SRunning f args kwargs)
  | RWait f msg data => inr (SWaiting f msg data wid WfPending)
  | RValue v => inr (SFinished v true)
  | RUnsuccessful code => inr (SFinished code false)
  | RStop v ok => inr (SFinished v ok)
  | RKill msg => inr (SKilled msg)
  | RRaise e => inl e
  end.

(* _do_pause as the body of a deferred pause action (`pausing = self._pausing` is that action): after the transition to the next
   state it gives up when the pause has been withdrawn meanwhile by a listener of that transition — play(), or a kill() that took
   its place (either cancels the action and clears `_pausing`) *)
Definition do_pause_deferred (msg : option string) (next : option pstate) : LM bool :=
  w0 <- get ;;
  match next, pausing w0 with
  | Some _, Some a' =>
      finally
        (transition next ;;;
         w1 <- get ;;
         if (match pausing w1 with Some b => Nat.eqb a' b | None => false end)
         then do_pause (do_ctl reent_fuel) msg None
         else ret false)
        (modify (fun w => w <| pausing := None |>))
  | _, _ => do_pause (do_ctl reent_fuel) msg next
  end.

(* ------------------------------------------------------------------ CancellableAction.run *)
(* run(next_state): InvalidStateError if done; the outcome of the action (value or exception) goes into
   the action future; nothing is raised to the caller *)
Definition run_action (id : nat) (next : option pstate) : LM unit :=
  w <- get ;;
  match get_act w id with
  | None => raise EIndex
  | Some a =>
      match a_fut a with
      | AfPending =>
          r <- attempt (match a_kind a with
                        | KPause msg => do_pause_deferred msg next
                        | KKill msg =>
                            (* do_kill(_next_state): a failed step stays a failure; otherwise transition to KILLED;
                               finally: self._killing = None *)
                            finally (match next with
                                     | Some (SExcepted e) => transition next ;;; ret false
                                     | _ => transition (Some (SKilled (Some msg))) ;;; ret true
                                     end)
                                    (modify (fun w => w <| killing := None |>))
                        end) ;;
          (* the outcome goes into the action future unless the action was cancelled while it ran (a request made
             from inside it, e.g. by a listener, replaced it): `if not self.done(): self.set_result(...)` *)
          w' <- get ;;
          match get_act w' id with
          | Some a' =>
              match a_fut a' with
              | AfPending => set_act_fut id (match r with Ok b => AfVal b | Err e => AfExn e end)
              | _ => ret tt
              end
          | None => raise EIndex
          end
      | _ => raise EInvalidState
      end
  end.

(* ------------------------------------------------------------------ Process.out *)
Definition do_out (path : string) (v : val) : LM unit :=
  w <- get ;;
  if closed w then raise EClosed
  else
    hook "on_output_emitting" ;;;
    w <- get ;;
    let r := out (fun _ _ => false) (ospec w) (outputs w) path v in
    put (w <| ospec := or_spec r |>) ;;;
    match or_result r with
    | inl e => raise e
    | inr (outs', dyn) =>
        modify (fun w => w <| outputs := outs' |>) ;;;
        emit (EvOutput path v dyn) ;;;
        fire (do_ctl reent_fuel) "on_output_emitted"
    end.

(* ------------------------------------------------------------------ the stepping coroutine *)
Definition set_t0 (p : pc) : LM unit := modify (fun w => w <| t0 := p |>).

(* outcome of running (part of) a user step *)
Inductive step_out :=
| SoReturned (r : sret)           (* run_fn returned *)
| SoSuspended                     (* the coroutine yielded to the loop; t0 holds the continuation *)
| SoRaised (e : exn)              (* an exception (not an Interruption) *)
.

(* run the remaining actions of a user step *)
Fixpoint run_actions (acts : list action) (r : sret) : LM step_out :=
  match acts with
  | [] => ret (match r with RRaise e => SoRaised e | _ => SoReturned r end)
  | a :: rest =>
      match a with
      | AOut path v =>
          x <- attempt (do_out path v) ;;
          match x with Ok _ => run_actions rest r | Err e => ret (SoRaised e) end
      | AYield => schedule (RWakeT0 WkNone) ;;; set_t0 (PcInStep rest r None) ;;; ret SoSuspended
      | AAwaitExt k =>
          w <- get ;;
          match find (fun kw => Nat.eqb (fst kw) k) (exts w) with
          | Some (_, WkExn e) => ret (SoRaised e)
          | Some _ => run_actions rest r
          | None => set_t0 (PcInStep rest r (Some k)) ;;; ret SoSuspended
          end
      | ACtl c =>
          x <- ctl_observed c ;;
          emit (EvCtl c x) ;;;
          run_actions rest r
      | ACallSoon cb => schedule (RCallback cb) ;;; run_actions rest r
      | AObserve =>
          w <- get ;;
          emit (EvObserve (match paused w with Some _ => true | None => false end) (status w)) ;;;
          run_actions rest r
      | AStatus s => modify (fun w => w <| status := s |>) ;;; run_actions rest r
      end
  end.

Definition lookup_script (w : world) (fn : string) : option script := alist_get fn (cf_prog (cfg w)).

(* what `await self._run_task(self._state.execute)` produced *)
Inductive exec_out :=
| XoNext (ns : option pstate)     (* execute returned a state (None for terminal states) *)
| XoSuspended
| XoInterrupted (iid : nat)       (* an Interruption was raised *)
| XoRaised (e : exn).             (* another exception escaped execute *)

(* Running.execute after run_fn returned / raised *)
Definition after_run_fn (o : step_out) : LM exec_out :=
  match o with
  | SoSuspended => ret XoSuspended
  | SoRaised e => ret (XoNext (Some (SExcepted e)))       (* `except Exception: return EXCEPTED state` *)
  | SoReturned r =>
      wid <- fresh ;;
      match command_state r wid with
      | inr ns => ret (XoNext (Some ns))
      | inl e => ret (XoNext (Some (SExcepted e)))
      end
  end.

(* Waiting.execute once the awaited future (identity [awaited]) is done.  [again]: the `while True` loop has
   already gone round once (an interruption was recalled), a second recalled interruption is impossible *)
Definition after_waiting_once (fn : option string) (awaited : nat) (wk : wake) (again : option nat -> LM exec_out) : LM exec_out :=
  match wk with
  | WkIntr iid =>
      (* `except Interruption: self._interruption = None; if self._waiting_future is future: self._waiting_future =
         Future(); if interruption is self._recalled: self._recalled = None; continue; raise` *)
      modify (fun w => w <| wintr := None |>) ;;;
      w <- get ;;
      match st w with
      | Some (SWaiting f m d cur _) =>
          (if Nat.eqb cur awaited then
             wid <- fresh ;;
             modify (fun w => w <| st := Some (SWaiting f m d wid WfPending) |>)
           else ret tt) ;;;
          w' <- get ;;
          if existsb (Nat.eqb iid) (wrecalled w')
          then modify (fun w => w <| wrecalled := filter (fun r => negb (Nat.eqb iid r)) (wrecalled w) |>) ;;; again (Some iid)
          else ret (XoInterrupted iid)
      | _ => ret (XoInterrupted iid)
      end
  | WkExn e => ret (XoRaised e)
  | WkNull | WkNone => ret (XoNext (Some (SRunning (match fn with Some f => f | None => "" end) [] [])))
  | WkVal v => ret (XoNext (Some (SRunning (match fn with Some f => f | None => "" end) [v] [])))
  end.

Definition set_t0' (p : pc) : LM unit := modify (fun w => w <| t0 := p |>).

(* the loop went round: await the current waiting future *)
Definition await_current (fn : option string) (k : nat -> wake -> LM exec_out) : LM exec_out :=
  w <- get ;;
  match st w with
  | Some (SWaiting _ _ _ wid (WfDone wk)) => k wid wk
  | Some (SWaiting _ _ _ wid WfPending) => set_t0' (PcAwaitWaiting wid) ;;; ret XoSuspended
  | _ => ret (XoRaised EAttribute)
  end.

Definition after_waiting (fn : option string) (awaited : nat) (wk : wake) : LM exec_out :=
  after_waiting_once fn awaited wk
    (fun _ => await_current fn (fun wid wk' =>
       after_waiting_once fn wid wk' (fun iid => ret (XoInterrupted (match iid with Some i => i | None => 0 end))))).

(* self._state.execute(), from its beginning *)
Definition execute_state : LM exec_out :=
  w <- get ;;
  match st w with
  | Some SCreated => ret (XoNext (Some (SRunning "run" [] [])))
  | Some (SRunning fn args kwargs) =>
      emit (EvStep fn args kwargs (match paused w with Some _ => true | None => false end)) ;;;
      match lookup_script w fn with
      | None => ret (XoNext (Some (SExcepted EAttribute)))
      | Some s => o <- run_actions (s_actions s) (s_ret s) ;; after_run_fn o
      end
  | Some (SWaiting fn _ _ wid wf) =>
      match wf with
      | WfDone wk => after_waiting fn wid wk
      | WfPending => set_t0 (PcAwaitWaiting wid) ;;; ret XoSuspended
      end
  | Some _ => ret (XoNext None)
  | None => ret (XoRaised EAttribute)
  end.

(* step(): a pause or kill requested while the end-of-step transition was under way (by a listener) has been armed as a
   new interrupt action; the step has yielded, so it is carried out now:
   `while self._interrupt_action is not None and self._interrupt_action is not action and not self.has_terminated():
        action = self._interrupt_action; action.run(None)`.  [ran]: the action that was just run (None: the nominal
   transition was made).  Every round needs a listener that reacts to the previous one: bounded by fuel. *)
Fixpoint run_armed (fuel : nat) (ran : option nat) : LM unit :=
  match fuel with
  | 0 => raise EOutOfFuel
  | S f =>
      w <- get ;;
      if is_terminated w then ret tt
      else match intr w with
           | None => ret tt
           | Some a =>
               if (match ran with Some b => Nat.eqb a b | None => false end) then ret tt
               else run_action a None ;;; run_armed f (Some a)
           end
  end.

Definition armed_fuel := 8.

(* step(), the part after `await self._run_task(...)` came back: interruption bookkeeping, the interrupt
   action or the nominal transition, and the `finally` *)
Definition finish_step (x : exec_out) : LM unit :=
  finally
    (next <-
       match x with
       | XoNext ns => ret ns
       | XoInterrupted iid =>
           w <- get ;;
           (* keep the pending action if it is the one of this interruption, or if a kill is pending *)
           let keep := match intr w with
                       | Some a => match get_act w a with Some ac => Nat.eqb (a_cookie ac) iid | None => false end
                                   || (match killing w with Some _ => true | None => false end)
                       | None => false
                       end in
           (if keep then ret tt
            else
              (* rebuild the action from the exception: we need its kind; the interruption ids are the
                 cookies of the actions ever created *)
              match find (fun ac => Nat.eqb (a_cookie ac) iid) (acts w) with
              | Some ac => _ <- set_interrupt_action_from (a_kind ac) iid ;; ret tt
              | None => ret tt
              end) ;;;
           ret None
       | XoRaised e =>
           set_interrupt_action None ;;; ret (Some (SExcepted e))
       | XoSuspended => ret None
       end ;;
     w <- get ;;
     if is_terminated w then ret tt        (* terminated from outside while the step was in flight *)
     else match intr w with
          | Some a => run_action a next ;;; run_armed armed_fuel (Some a)
          | None => transition next ;;; run_armed armed_fuel None
          end)
    (modify (fun w => w <| stepping := false |>) ;;; set_interrupt_action None).

(* step_until_terminated / step from the loop head; fuel bounds the synchronous chain of steps *)
Fixpoint loop_head (fuel : nat) : LM unit :=
  match fuel with
  | 0 => raise EOutOfFuel
  | S f =>
      w <- get ;;
      if is_terminated w then set_t0 PcDone
      else if closed w then raise EClosed                       (* @ensure_not_closed *)
      else
        match paused w with
        | Some fid => set_t0 (PcAwaitPaused fid)                 (* await self._paused (never done while it is self._paused) *)
        | None =>
            modify (fun w => w <| stepping := true |>) ;;;
            x <- execute_state ;;
            match x with
            | XoSuspended => ret tt
            | _ => finish_step x ;;; loop_head f
            end
        end
  end.

Definition chain_fuel := 64.

(* resume the stepping task with a wake-up value: one loop callback *)
Definition resume_t0 (wk : wake) : LM unit :=
  w <- get ;;
  match t0 w with
  | PcNotStarted => loop_head chain_fuel
  | PcAwaitPaused _ =>
      (* `while self._paused is not None and not self._paused.done(): await self._paused`: paused again meanwhile
         (a new, pending future; the future of a terminated process has been released) -> wait again *)
      match paused w, is_terminated w with
      | Some fid, false => set_t0 (PcAwaitPaused fid)
      | _, _ =>
          modify (fun w => w <| stepping := true |>) ;;;
          x <- execute_state ;;
          match x with
          | XoSuspended => ret tt
          | _ => finish_step x ;;; loop_head chain_fuel
          end
      end
  | PcInStep rest r aw =>
      o <- match wk with
           | WkExn e => ret (SoRaised e)
           | _ => run_actions rest r
           end ;;
      x <- after_run_fn o ;;
      match x with
      | XoSuspended => ret tt
      | _ => finish_step x ;;; loop_head chain_fuel
      end
  | PcAwaitWaiting awaited =>
      w <- get ;;
      x <- match st w with
           | Some (SWaiting fn _ _ _ _) => after_waiting fn awaited wk
           | _ => after_waiting None awaited wk
           end ;;
      finish_step x ;;; loop_head chain_fuel
  | PcDone | PcFailed _ => ret tt
  end.

(* ------------------------------------------------------------------ one loop callback *)
Definition run_entry (r : rentry) : LM unit :=
  match r with
  | RWakeT0 wk =>
      x <- attempt (resume_t0 wk) ;;
      match x with
      | Ok _ => ret tt
      | Err e => set_t0 (PcFailed e) ;;; emit (EvLoopError e)       (* the task failed *)
      end
  | RCallback cb =>
      (* ProcessCallback.run: exceptions go to callback_excepted -> fail() unless already EXCEPTED *)
      emit (EvCallback cb) ;;;
      w <- get ;;
      x <- attempt (match nth_error (cf_callbacks (cfg w)) cb with
                    | Some CbOk | None => ret tt
                    | Some (CbRaise e) => raise e
                    | Some (CbCtl c) => r <- ctl_observed c ;; emit (EvCtl c r)
                    end) ;;
      match x with
      | Ok _ => ret tt
      | Err e =>
          w <- get ;;
          match st w with
          | Some (SExcepted _) => ret tt
          | _ =>
              y <- attempt (ctl_call (CFail e)) ;;
              match y with Ok _ => ret tt | Err e' => emit (EvLoopError e') end
          end
      end
  | RTryKilling =>
      w <- get ;;
      if orig_fut_cancelled w then
        y <- attempt (ctl_call (CKill (Some "Killed by future being cancelled"))) ;;
        match y with Ok _ => ret tt | Err e' => emit (EvLoopError e') end
      else ret tt
  end.

(* ------------------------------------------------------------------ construction *)
Definition init_world (c : config) : world :=
  mk_world c None false None None None [] 0 None None None PfPending true false false [0] true false false
           [] (cf_ospec c) PcNotStarted [] [] [] [] None [].

(* StateMachineMeta.__call__: transition_to(create_initial_state()); init().  The harness then creates
   the stepping task: its first step is the first ready callback. *)
Definition construct_process (c : config) : result unit * world :=
  (transition (Some SCreated) ;;; schedule (RWakeT0 WkNone)) (init_world c).
