(* Life/LifeOutcome.v — property C02: when a process terminates, every report of its outcome agrees.
   Symbolic execution of the model (Life/LifeSx.v) from every quiet world: the last iteration of the stepping loop
   enters the terminal state the returned command denotes, and at that moment the future, the closed flag, the
   cleanups and the listener notifications all say the same. *)
From Coq Require Import List ZArith String Bool Arith Lia.
From RecordUpdate Require Import RecordUpdate.
From Plumpy Require Import Val Mon MonTac PortModel Model Run LifeSx.
Import ListNotations.
Local Open Scope list_scope.
Local Open Scope mon_scope.
Local Open Scope string_scope.

Definition step_once : LM unit :=
  modify (fun w => w <| stepping := true |>) ;;;
  bind execute_state (fun x => match x with XoSuspended => ret tt | _ => finish_step x end).

(* terminal notifications and cleanups recorded in a trace segment *)
Definition terminal_notes (tr : list event) : list string :=
  flat_map (fun e => match e with
                     | EvListener n => if (String.eqb n "on_process_finished" || String.eqb n "on_process_excepted"
                                           || String.eqb n "on_process_killed")%bool then [n] else []
                     | _ => []
                     end) tr.

Definition cleanups_run (tr : list event) : list nat :=
  flat_map (fun e => match e with EvCleanup n => [n] | _ => [] end) tr.

(* the outcome as the future reports it, for a terminal state *)
Definition future_of (s : pstate) (outs : list (string * val)) : pfstate :=
  match s with
  | SFinished _ _ => PfResult outs
  | SExcepted e => PfExn e
  | SKilled (Some (Some t)) => PfExn (EKilled t)
  | SKilled _ => PfExn (EKilled "")
  | _ => PfPending
  end.

Definition note_of (s : pstate) : list string :=
  match s with
  | SFinished _ _ => ["on_process_finished"]
  | SExcepted _ => ["on_process_excepted"]
  | SKilled _ => ["on_process_killed"]
  | _ => []
  end.

Definition outcome_agrees (w : world) (s : pstate) (r : result unit) (w' : world) : Prop :=
  r = Ok tt /\ st w' = Some s /\ pfut w' = future_of s (outputs w) /\ closed w' = true /\ cleanups w' = [] /\
  stepping w' = false /\
  exists tr, trace w' = (trace w ++ tr)%list /\ terminal_notes tr = note_of s /\ cleanups_run tr = [0].

Ltac fin_out :=
  unfold outcome_agrees; cbn; repeat rewrite <- app_assoc; cbn [app];
  repeat match goal with
         | |- _ /\ _ => split
         | |- exists tr, _ = (_ ++ _)%list /\ _ => eexists; split; [reflexivity|]
         | |- _ = _ => reflexivity
         end.

Lemma finishes_unsuccessful w f a k code :
  quiet w -> st w = Some (SRunning f a k) -> lookup_script w f = Some (mk_script [] (RUnsuccessful code)) ->
  wp step_once (outcome_agrees w (SFinished code false)) w.
Proof.
  intros [Q1 Q2 Q3 Q4 Q5 Q6 Q7 Q8 Q9 Q10 Q11 Q12] Hst Hlk.
  open_world w. unfold lookup_script in Hlk. cbn in *. subst. unfold step_once. sx; fin_out.
Qed.

Lemma finishes_successful w f a k v :
  quiet w -> st w = Some (SRunning f a k) -> lookup_script w f = Some (mk_script [] (RValue v)) ->
  outputs_valid w = true ->
  wp step_once (outcome_agrees w (SFinished v true)) w.
Proof.
  intros [Q1 Q2 Q3 Q4 Q5 Q6 Q7 Q8 Q9 Q10 Q11 Q12] Hst Hlk Hv.
  open_world w. unfold lookup_script in Hlk. unfold outputs_valid in Hv. cbn in *. subst. unfold step_once.
  sx; try (rewrite Hv in *; cbn in *; discriminate); fin_out.
Qed.

Lemma ends_killed w f a k m :
  quiet w -> st w = Some (SRunning f a k) -> lookup_script w f = Some (mk_script [] (RKill m)) ->
  wp step_once (outcome_agrees w (SKilled m)) w.
Proof.
  intros [Q1 Q2 Q3 Q4 Q5 Q6 Q7 Q8 Q9 Q10 Q11 Q12] Hst Hlk.
  open_world w. unfold lookup_script in Hlk. cbn in *. subst. unfold step_once.
  destruct m as [[txt|]|]; sx; fin_out.
Qed.

Lemma ends_excepted w f a k e :
  quiet w -> st w = Some (SRunning f a k) -> lookup_script w f = Some (mk_script [] (RRaise e)) ->
  wp step_once (outcome_agrees w (SExcepted e)) w.
Proof.
  intros [Q1 Q2 Q3 Q4 Q5 Q6 Q7 Q8 Q9 Q10 Q11 Q12] Hst Hlk.
  open_world w. unfold lookup_script in Hlk. cbn in *. subst. unfold step_once. sx; fin_out.
Qed.
