(* Life/LifeArmed.v — property C04: a kill that has been armed during a step survives every later request.

   In every reachable world in which `_killing` is set (kill() was called while a step was in flight: the kill action a is
   armed, LifePtr), whatever comes next that is not the stepping task itself — pause, play, resume, a further kill, fail,
   from outside or from listeners reacting to them; cancellation of the future; late callbacks, also failing ones; the
   completion of awaited futures — leaves `_killing` pointing at the same action, and that action is still THE armed,
   pending kill action.  So the kill is carried out when the step yields (finish_step runs the armed action), or the process
   ends EXCEPTED if that step fails.  This is the part of C04 that the defects D9 (pause replaced a pending kill), D16 (an
   older pause interruption replaced a newer kill) and D17 (play cleared the armed kill) violated before their repair. *)
From Coq Require Import List ZArith String Bool Arith Lia.
From RecordUpdate Require Import RecordUpdate.
From Plumpy Require Import Val Mon MonTac PortModel Model Run LifeAgree LifePtr.
Import ListNotations.
Local Open Scope list_scope.

(* killing unchanged: a tiny Hoare level of its own *)
Definition Tr (_ : world) : Prop := True.
Definition RelK (w w' : world) : Prop := killing w' = killing w.

Notation Kuat := (Hat Tr RelK).
Definition KU {A} (m : LM A) : Prop := forall w, Kuat m w.

Lemma RelK_trans a b c : RelK a b -> RelK b c -> RelK a c.
Proof. unfold RelK. congruence. Qed.

Section CombK.
  Context {A B : Type}.
  Lemma Kuat_ret (a : A) w : Kuat (ret a) w. Proof. apply Hat_ret. intros; reflexivity. Qed.
  Lemma Kuat_raise e w : Kuat (raise e : LM A) w. Proof. apply Hat_raise. intros; reflexivity. Qed.
  Lemma Kuat_bind (m : LM A) (f : A -> LM B) w : Kuat m w -> (forall a, KU (f a)) -> Kuat (bind m f) w.
  Proof. intros H1 H2. eapply Hat_bind; [exact RelK_trans | intros; exact I | exact H1 | intros a w1; apply H2]. Qed.
  Lemma Kuat_get (f : world -> LM A) w : Kuat (f w) w -> Kuat (bind get f) w. Proof. apply Hat_get. Qed.
  Lemma Kuat_attempt (m : LM A) w : Kuat m w -> Kuat (attempt m) w. Proof. apply Hat_attempt. Qed.
  Lemma Kuat_finally (m : LM A) f w : Kuat m w -> KU f -> Kuat (finally m f) w.
  Proof. intros H1 H2. eapply Hat_finally; [exact RelK_trans | intros; exact I | exact H1 | exact H2]. Qed.
  Lemma Kuat_try_catch (m : LM A) h w : Kuat m w -> (forall e, KU (h e)) -> Kuat (try_catch m h) w.
  Proof. intros H1 H2. eapply Hat_try_catch; [exact RelK_trans | intros; exact I | exact H1 | intros e w1; apply H2]. Qed.
End CombK.
Lemma Kuat_when b (m : LM unit) w : (b = true -> Kuat m w) -> Kuat (when b m) w.
Proof. apply Hat_when. intros; reflexivity. Qed.
Lemma KU_mapM {A} (f : A -> LM unit) l : (forall x, KU (f x)) -> KU (mapM_ f l).
Proof. intros H w. eapply Hat_mapM; [intros; reflexivity | exact RelK_trans | intros; exact I | intros x w1; apply H]. Qed.

Ltac ustep :=
  lazymatch goal with
  | |- KU _ => intro
  | |- Hat Tr RelK (bind get _) _ => apply Kuat_get; cbv beta
  | |- Hat Tr RelK (bind _ _) _ => apply Kuat_bind; [ | intro ]
  | |- Hat Tr RelK (ret _) _ => apply Kuat_ret
  | |- Hat Tr RelK (raise _) _ => apply Kuat_raise
  | |- Hat Tr RelK (attempt _) _ => apply Kuat_attempt
  | |- Hat Tr RelK (finally _ _) _ => apply Kuat_finally
  | |- Hat Tr RelK (try_catch _ _) _ => apply Kuat_try_catch; [ | intro ]
  | |- Hat Tr RelK (when _ _) _ => apply Kuat_when; intro
  | |- Hat _ _ (match ?x with _ => _ end) _ => destruct x eqn:?
  | |- Hat _ _ (if ?x then _ else _) _ => destruct x eqn:?
  | |- Hat _ _ (let _ := _ in _) _ => cbv zeta
  end.

(* leaves: any primitive that does not write the field *)
Lemma modify_KU f : (forall w, killing (f w) = killing w) -> KU (modify f).
Proof. intros H w Q _ HQ. wp_prim. apply HQ. apply H. Qed.
Lemma put_Kuat w w' : killing w' = killing w -> Kuat (put w') w.
Proof. intros H Q _ HQ. wp_prim. apply HQ. exact H. Qed.

Definition FrK {A} (m : LM A) : Prop :=
  forall w (Q : result A -> world -> Prop), (forall r w', killing w' = killing w -> Q r w') -> wp m Q w.
Lemma FrK_KU {A} (m : LM A) : FrK m -> KU m.
Proof. intros HF w Q _ HQ. apply HF. intros r w' E. apply HQ. exact E. Qed.

Ltac frk_auto :=
  let w := fresh "w" in let Q := fresh "Q" in let HQ := fresh "HQ" in
  intros w Q HQ; unfold emit, schedule, fresh, set_act_fut; repeat (wp_prim || wp_case); apply HQ; reflexivity.

Lemma emit_FrK e : FrK (emit e). Proof. frk_auto. Qed.
Lemma schedule_FrK r : FrK (schedule r). Proof. frk_auto. Qed.
Lemma hook_FrK name : FrK (hook name). Proof. unfold hook. frk_auto. Qed.
Lemma fresh_FrK : FrK fresh. Proof. frk_auto. Qed.
Lemma resume_FrK v : FrK (resume v). Proof. unfold resume. frk_auto. Qed.
Lemma pfut_set_FrK f : FrK (pfut_set f). Proof. unfold pfut_set, when. frk_auto. Qed.
Lemma FrK_ret {A} (a : A) : FrK (ret a : LM A). Proof. frk_auto. Qed.
Lemma FrK_raise {A} e : FrK (raise e : LM A). Proof. frk_auto. Qed.

Ltac uput := apply put_Kuat; reflexivity.
Ltac ufr := apply FrK_KU; first [ apply emit_FrK | apply schedule_FrK | apply hook_FrK | apply fresh_FrK | apply resume_FrK
                                 | apply pfut_set_FrK | apply FrK_ret | apply FrK_raise ].
Ltac umod := apply modify_KU; intro; reflexivity.
Ltac uauto := repeat first [ ustep | uput | ufr | umod ].

Lemma exit_current_KU ns : KU (exit_current ns).
Proof. intro w. unfold exit_current. uauto. Qed.

Lemma on_entering_KU ns : KU (on_entering ns).
Proof. intro w. unfold on_entering. destruct ns; uauto. Qed.

Lemma close_KU : KU close.
Proof. intro w. unfold close, on_close. uauto. apply KU_mapM. intros c wx. ufr. Qed.

Lemma on_terminated_KU : KU on_terminated.
Proof. intro w. unfold on_terminated. uauto. apply close_KU. Qed.

(* ------------------------------------------------------------------ the level of the theorem: P and `_killing = Some a` *)
Section Armed.
  Variable a : nat.

  Definition PreA (w : world) : Prop := P w /\ killing w = Some a.
  Definition RelA (_ w' : world) : Prop := PreA w'.
  Notation Aat := (Hat PreA RelA).
  Definition AK {A} (m : LM A) : Prop := forall w, Aat m w.

  Lemma PU_A {A} (m : LM A) w : Pat m w -> Kuat m w -> Aat m w.
  Proof.
    intros HP HK Q [Hp Hk] HQ.
    pose proof (LifePtr.wp_conj m _ _ w (HP (fun _ w' => P w') Hp (fun _ _ X => proj1 X)) (HK (fun _ w' => killing w' = killing w) I (fun _ _ X => X))) as H.
    eapply wp_use; [exact H|]. intros r w' [H1 H2]. apply HQ. split; [exact H1 | congruence].
  Qed.

  Section CombA.
    Context {A B : Type}.
    Lemma Aat_ret (x : A) w : Aat (ret x) w. Proof. apply Hat_ret. intros w0 H; exact H. Qed.
    Lemma Aat_raise e w : Aat (raise e : LM A) w. Proof. apply Hat_raise. intros w0 H; exact H. Qed.
    Lemma Aat_bind (m : LM A) (f : A -> LM B) w : Aat m w -> (forall x, AK (f x)) -> Aat (bind m f) w.
    Proof. intros H1 H2. eapply Hat_bind; [intros x y z _ H; exact H | intros x y _ H; exact H | exact H1 | intros x w1; apply H2]. Qed.
    Lemma Aat_get (f : world -> LM A) w : Aat (f w) w -> Aat (bind get f) w. Proof. apply Hat_get. Qed.
    Lemma Aat_attempt (m : LM A) w : Aat m w -> Aat (attempt m) w. Proof. apply Hat_attempt. Qed.
    Lemma Aat_finally (m : LM A) f w : Aat m w -> AK f -> Aat (finally m f) w.
    Proof. intros H1 H2. eapply Hat_finally; [intros x y z _ H; exact H | intros x y _ H; exact H | exact H1 | exact H2]. Qed.
    Lemma Aat_try_catch (m : LM A) h w : Aat m w -> (forall e, AK (h e)) -> Aat (try_catch m h) w.
    Proof. intros H1 H2. eapply Hat_try_catch; [intros x y z _ H; exact H | intros x y _ H; exact H | exact H1 | intros e w1; apply H2]. Qed.
  End CombA.
  Lemma Aat_when b (m : LM unit) w : (b = true -> Aat m w) -> Aat (when b m) w.
  Proof. apply Hat_when. intros w0 H; exact H. Qed.
  Lemma AK_mapM {A} (f : A -> LM unit) l : (forall x, AK (f x)) -> AK (mapM_ f l).
  Proof. intros H w. eapply Hat_mapM; [intros w0 X; exact X | intros x y z _ X; exact X | intros x y _ X; exact X | intros x w1; apply H]. Qed.

  Ltac astep :=
    lazymatch goal with
    | |- AK _ => intro
    | |- Hat PreA RelA (bind get _) _ => apply Aat_get; cbv beta
    | |- Hat PreA RelA (bind _ _) _ => apply Aat_bind; [ | intro ]
    | |- Hat PreA RelA (ret _) _ => apply Aat_ret
    | |- Hat PreA RelA (raise _) _ => apply Aat_raise
    | |- Hat PreA RelA (attempt _) _ => apply Aat_attempt
    | |- Hat PreA RelA (finally _ _) _ => apply Aat_finally
    | |- Hat PreA RelA (try_catch _ _) _ => apply Aat_try_catch; [ | intro ]
    | |- Hat PreA RelA (when _ _) _ => apply Aat_when; intro
    | |- Hat _ _ (match ?x with _ => _ end) _ => destruct x eqn:?
    | |- Hat _ _ (if ?x then _ else _) _ => destruct x eqn:?
    | |- Hat _ _ (let _ := _ in _) _ => cbv zeta
    end.

  (* a frame on the five bookkeeping fields keeps P and `_killing` *)
  Lemma peq_A w w' : peq w w' -> PreA w -> PreA w'.
  Proof. intros E [Hp Hk]. split; [eapply peq_P; eauto|]. destruct E as (_ & _ & _ & E & _). congruence. Qed.

  Lemma FrP_AK {A} (m : LM A) : FrP m -> AK m.
  Proof. intros HF w Q HP HQ. apply HF. intros r w' E. apply HQ. eapply peq_A; eauto. Qed.

  Lemma put_Aat w w' : peq w w' -> Aat (put w') w.
  Proof. intros E Q HP HQ. wp_prim. apply HQ. eapply peq_A; eauto. Qed.

  Ltac aput := apply put_Aat; repeat split; reflexivity.
  Ltac afr := apply FrP_AK; first [ apply emit_FrP | apply schedule_FrP | apply hook_FrP | apply fresh_FrP
                                   | apply state_interrupt_FrP | apply state_recall_FrP | apply resume_FrP | apply FrP_ret | apply FrP_raise
                                   | (apply modify_FrP; intro; repeat split; reflexivity) ].
  Ltac aauto := repeat first [ astep | aput | afr ].

  Section Reentrant.
    Variable rec_ctl : ctl -> LM cret.
    Hypothesis HrecP : forall c, PK (rec_ctl c).
    Hypothesis HrecA : forall c, AK (rec_ctl c).

    Lemma fire_AK name : AK (fire rec_ctl name).
    Proof. intro w. unfold fire. aauto. apply AK_mapM. intros ls wx. aauto. apply HrecA. Qed.

    (* on_entered of a state other than KILLED *)
    Lemma on_entered_Aat w0 w : (forall m, st w <> Some (SKilled m)) -> Aat (on_entered rec_ctl w0) w.
    Proof.
      intro Hs. unfold on_entered. astep. destruct (st w) as [[]|]; aauto; try apply fire_AK. exfalso. eapply Hs. reflexivity.
    Qed.

    (* entering EXCEPTED (the only state fail() enters) *)
    Lemma enter_exc_spec e w (Q : result (option pstate) -> world -> Prop) :
      PreA w -> (forall r w', PreA w' -> (r = Ok None \/ exists x, r = Err x) -> Q r w') ->
      wp (enter_next rec_ctl (SExcepted e)) Q w.
    Proof.
      intros HA HQ. unfold enter_next. do 2 wp_prim. wp_prim.
      assert (Hent : wp (if hooks_alive w then on_entering (SExcepted e) else ret None)
                        (fun r w1 => PreA w1 /\ (r = Ok None \/ exists x, r = Err x)) w).
      { destruct (hooks_alive w); [|wp_prim; split; [exact HA | left; reflexivity]].
        apply LifePtr.wp_conj.
        - apply (PU_A _ w (on_entering_PK (SExcepted e) w) (on_entering_KU (SExcepted e) w)); [exact HA | auto].
        - unfold on_entering, hook, emit, pfut_set, schedule, when. repeat (wp_prim || wp_case); first [left; reflexivity | right; eexists; reflexivity]. }
      eapply wp_use; [exact Hent|]. intros r w1 [A1 Hr]. destruct Hr as [->|[x ->]]; cbv beta iota; [|apply HQ; [exact A1 | right; eexists; reflexivity]].
      do 4 wp_prim. unfold emit. do 3 wp_prim.
      match goal with |- wp _ _ ?w2 => set (w2s := w2) end.
      assert (A2 : PreA w2s) by (eapply peq_A; [|exact A1]; repeat split).
      wp_prim. unfold when. destruct (hooks_alive w2s).
      - wp_prim. apply on_entered_Aat; [intros m X; discriminate | exact A2 |]. intros r w3 A3. destruct r; cbv beta iota.
        + wp_prim. apply HQ; [exact A3 | left; reflexivity].
        + apply HQ; [exact A3 | right; eexists; reflexivity].
      - wp_prim. cbv beta iota. wp_prim. apply HQ; [exact A2 | left; reflexivity].
    Qed.
    Lemma tail_Aat w : Aat (bind get (fun w' => when (is_terminated w') on_terminated)) w.
    Proof. astep. astep. apply PU_A; [apply on_terminated_PK | apply on_terminated_KU]. Qed.

    (* the body of a transition to EXCEPTED *)
    Lemma body_exc_spec e w (Q : result unit -> world -> Prop) :
      PreA w -> (forall r w', PreA w' -> Q r w') -> wp (transition_body rec_ctl (SExcepted e)) Q w.
    Proof.
      intros HA HQ. rewrite transition_body_unfold. do 2 wp_prim.
      match goal with |- wp _ _ ?w0 => assert (A0 : PreA w0) by (eapply peq_A; [|exact HA]; repeat split) end.
      do 2 wp_prim. wp_prim.
      assert (Hex : Aat (when (negb (transition_failing (w <| transitioning := true |>))) (exit_current (SExcepted e))) (w <| transitioning := true |>)).
      { astep. apply PU_A; [apply exit_current_PK | apply exit_current_KU]. }
      apply Hex; [exact A0|]. intros r w1 A1. destruct r; cbv beta iota; [|apply HQ; exact A1].
      unfold body_rest. wp_prim. apply enter_exc_spec; [exact A1|]. intros r w2 A2 Hr. destruct Hr as [->|[x ->]]; cbv beta iota.
      - do 2 wp_prim. apply tail_Aat; [exact A2|]. intros r w3 A3. apply HQ. exact A3.
      - apply HQ. exact A2.
    Qed.

    Lemma flags_A w f g : PreA w -> PreA (w <| transition_failing := f |> <| transitioning := g |>).
    Proof. intro H. eapply peq_A; [|exact H]. repeat split. Qed.

    Lemma ttf_exc_spec e w (Q : result unit -> world -> Prop) :
      PreA w -> (forall r w', PreA w' -> Q r w') -> wp (transition_to_failing rec_ctl (SExcepted e)) Q w.
    Proof.
      intros HA HQ. unfold transition_to_failing. do 2 wp_prim. destruct (transitioning w); [wp_prim; apply HQ; exact HA|].
      do 2 wp_prim. apply body_exc_spec; [exact HA|]. intros r w1 A1. destruct r; cbv beta iota.
      - wp_prim. apply HQ. apply flags_A. exact A1.
      - do 3 wp_prim. apply HQ. apply flags_A. eapply peq_A; [|exact A1]. repeat split.
    Qed.

    Lemma transition_to_exc_Aat e w : Aat (transition_to rec_ctl (Some (SExcepted e))) w.
    Proof.
      intros Q HA HQ. unfold transition_to. do 2 wp_prim. destruct (transitioning w); [wp_prim; apply HQ; exact HA|].
      do 2 wp_prim. apply body_exc_spec; [exact HA|]. intros r w1 A1. destruct r; cbv beta iota.
      - wp_prim. apply HQ. apply flags_A. exact A1.
      - do 4 wp_prim.
        assert (A1' : PreA (w1 <| transitioning := false |>)) by (eapply peq_A; [|exact A1]; repeat split).
        wp_case; [wp_prim; wp_prim; apply HQ; apply flags_A; exact A1'|].
        do 2 wp_prim. cbn [label_of label_eqb].
        apply ttf_exc_spec; [eapply peq_A; [|exact A1']; repeat split|]. intros r2 w2 A2. wp_prim. apply HQ. apply flags_A. exact A2.
    Qed.

    Lemma fail_AK e : AK (fail rec_ctl e).
    Proof.
      intro w. unfold fail. astep. destruct (is_terminated w); [apply Aat_ret|].
      astep; [apply transition_to_exc_Aat|]. aauto.
    Qed.

    (* with a kill pending, pause() and a further kill() change nothing *)
    Lemma pause_AK msg : AK (pause rec_ctl msg).
    Proof.
      intros w Q HA HQ. unfold pause. do 2 wp_prim. destruct (is_terminated w); [wp_prim; apply HQ; exact HA|].
      destruct (paused w); [wp_prim; apply HQ; exact HA|]. destruct (pausing w); [wp_prim; apply HQ; exact HA|].
      destruct HA as [Hp Hk]. rewrite Hk. wp_prim. apply HQ. split; assumption.
    Qed.

    Lemma kill_AK msg : AK (kill rec_ctl msg).
    Proof.
      intros w Q HA HQ. unfold kill. do 2 wp_prim.
      assert (Hrest : wp (if is_terminated w then ret (CrBool false)
                          else match killing w with
                               | Some a0 => ret (CrAction a0)
                               | None =>
                                   if stepping w
                                   then bind fresh (fun iid => bind (set_interrupt_action_from (KKill msg) iid) (fun a0 =>
                                          bind (modify (fun w => w <| killing := Some a0 |>)) (fun _ =>
                                          bind (state_interrupt iid) (fun _ => ret (CrAction a0)))))
                                   else bind (transition_to rec_ctl (Some (SKilled (Some msg)))) (fun _ => ret (CrBool true))
                               end) Q w).
      { destruct (is_terminated w); [wp_prim; apply HQ; exact HA|]. destruct HA as [Hp Hk]. rewrite Hk. wp_prim. apply HQ. split; assumption. }
      destruct (st w) as [[]|]; first [exact Hrest | wp_prim; apply HQ; exact HA].
    Qed.

    (* play(): a pause cannot be pending at the same time (the armed action is the kill), so nothing is disarmed *)
    Lemma play_AK : AK (play rec_ctl).
    Proof.
      intro w. unfold play. astep. destruct (paused w).
      - aauto; apply fire_AK.
      - intros Q HA HQ. destruct HA as [Hp Hk]. destruct (pausing w) as [b|] eqn:Eb.
        + exfalso. destruct Hp as (_ & H2 & H3 & _). destruct (H2 b Eb) as (I2 & ac2 & G2 & _ & S2). destruct (H3 a Hk) as (I3 & ac3 & G3 & _ & S3).
          rewrite I2 in I3. injection I3 as ->. rewrite G2 in G3. injection G3 as ->. destruct (a_kind ac3); discriminate.
        + do 2 wp_prim. cbv beta iota. wp_prim. apply HQ. split; assumption.
    Qed.

    Lemma ctl_body_AK c : AK (ctl_body rec_ctl c).
    Proof.
      destruct c; cbn [ctl_body].
      - apply pause_AK.
      - apply play_AK.
      - apply kill_AK.
      - apply FrP_AK. apply resume_FrP.
      - apply fail_AK.
      - intro w. apply Aat_raise.
    Qed.
  End Reentrant.

  Lemma do_ctl_AK fuel c : AK (do_ctl fuel c).
  Proof.
    revert c. induction fuel as [|f IH]; intro c; cbn [do_ctl]; [intro w; apply Aat_raise|].
    apply ctl_body_AK; first [exact IH | apply do_ctl_PK].
  Qed.
End Armed.

(* ------------------------------------------------------------------ the environment: everything but the stepping task *)
Definition not_the_stepping_task (w : world) (e : env_event) : bool :=
  match e with
  | ETick => match ready w with RWakeT0 _ :: _ => false | _ => true end
  | EDrain _ => false
  | _ => true
  end.

Section Env.
  Variable a : nat.
  Notation Aat := (Hat (PreA a) (RelA a)).

  Ltac astep' :=
    lazymatch goal with
    | |- AK _ _ => intro
    | |- Hat (PreA a) (RelA a) (bind get _) _ => apply Aat_get; cbv beta
    | |- Hat (PreA a) (RelA a) (bind _ _) _ => apply Aat_bind; [ | intro ]
    | |- Hat (PreA a) (RelA a) (ret _) _ => apply Aat_ret
    | |- Hat (PreA a) (RelA a) (raise _) _ => apply Aat_raise
    | |- Hat (PreA a) (RelA a) (attempt _) _ => apply Aat_attempt
    | |- Hat (PreA a) (RelA a) (when _ _) _ => apply Aat_when; intro
    | |- Hat _ _ (match ?x with _ => _ end) _ => destruct x eqn:?
    | |- Hat _ _ (if ?x then _ else _) _ => destruct x eqn:?
    end.
  Ltac aput' := apply put_Aat; repeat split; reflexivity.
  Ltac afr' := apply FrP_AK; first [ apply emit_FrP | apply schedule_FrP | apply FrP_ret | apply FrP_raise ].
  Ltac aauto' := repeat first [ astep' | aput' | afr' ].

  Lemma ctl_observed_AK c : AK a (ctl_observed c).
  Proof. intro w. unfold ctl_observed. aauto'. apply do_ctl_AK. Qed.

  Lemma run_entry_other_Aat r w : (match r with RWakeT0 _ => False | _ => True end) -> Aat (run_entry r) w.
  Proof.
    intro Hr. unfold run_entry. destruct r; [contradiction| |].
    - apply Aat_bind; [afr'|]. intros _ w1. apply Aat_get. cbv beta. apply Aat_bind.
      + apply Aat_attempt. destruct (nth_error (cf_callbacks (cfg w1)) cb) as [[]|]; try apply Aat_ret; try apply Aat_raise.
        apply Aat_bind; [apply ctl_observed_AK | intros x wx; afr'].
      + intros x w2. destruct x as [u|e]; [apply Aat_ret|]. apply Aat_get. cbv beta.
        destruct (st w2) as [[]|]; try apply Aat_ret;
          (apply Aat_bind; [apply Aat_attempt; apply do_ctl_AK | intros y wz; destruct y; aauto']).
    - apply Aat_get. cbv beta. destruct (orig_fut_cancelled w); [|apply Aat_ret].
      apply Aat_bind; [apply Aat_attempt; apply do_ctl_AK | intros y wz; destruct y; aauto'].
  Qed.

  Lemma env_other_Aat e w : not_the_stepping_task w e = true -> Aat (env_step_m e) w.
  Proof.
    intro He. unfold not_the_stepping_task in He. destruct e; cbn [env_step_m] in *.
    - unfold tick. astep'. destruct (ready w) as [|r rest] eqn:Er; [apply Aat_ret|].
      apply Aat_bind; [aput'|]. intros _ wz. apply run_entry_other_Aat. destruct r; [discriminate He | exact I | exact I].
    - apply Aat_bind; [apply ctl_observed_AK | intros x wx; afr'].
    - aauto'.
    - afr'.
    - aauto'.
    - discriminate.
  Qed.
End Env.

(* C04: an armed kill survives every request and every event other than the stepping task's own callback *)
Theorem armed_kill_survives c es w a e :
  run c es = Some w -> killing w = Some a -> not_the_stepping_task w e = true ->
  let w' := env_step w e in
  killing w' = Some a /\ intr w' = Some a /\ stepping w' = true /\
  exists ac, get_act w' a = Some ac /\ a_fut ac = AfPending /\ is_kill (a_kind ac) = true.
Proof.
  intros Hr Hk He. cbv zeta.
  assert (HA : PreA a (env_step w e)).
  { exact (env_other_Aat a e w He (fun _ w' => PreA a w') (conj (run_pointers _ _ _ Hr) Hk) (fun _ _ H => H)). }
  destruct HA as [(H1 & _ & H3 & _) Hk']. destruct (H3 a Hk') as [Hi Hx]. split; [exact Hk'|]. split; [exact Hi|]. split; [|exact Hx].
  destruct (stepping (env_step w e)) eqn:E; [reflexivity|]. rewrite (H1 eq_refl) in Hi. discriminate.
Qed.
