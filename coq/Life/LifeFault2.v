(* Life/LifeFault2.v — C03, continued: faults in the hooks of the transition RUNNING -> WAITING, and in the step
   function itself. *)
From Coq Require Import List ZArith String Bool Arith Lia.
From RecordUpdate Require Import RecordUpdate.
From Plumpy Require Import Val Mon MonTac PortModel Model Run LifeSx LifeFault.
Import ListNotations.
Local Open Scope list_scope.
Local Open Scope mon_scope.
Local Open Scope string_scope.

Lemma fault_wait w h e f a k g m d :
  In h ["on_exit_running"; "on_wait"; "on_waiting"] ->
  faulty w h e -> st w = Some (SRunning f a k) -> lookup_script w f = Some (mk_script [] (RWait g m d)) ->
  wp step_once (contained e) w.
Proof.
  intros Hh HF Hst Hlk. open_faulty w HF. unfold lookup_script in Hlk. cbn in Hst, Hlk. subst.
  unfold step_once.
  cbn in Hh. destruct Hh as [<-|[<-|[<-|[]]]]; sxf; finf.
Qed.

(* the step function raises: no hook fault is needed; the process ends EXCEPTED with the step's exception *)
Lemma fault_in_step_function w e f a k :
  quiet w -> st w = Some (SRunning f a k) -> lookup_script w f = Some (mk_script [] (RRaise e)) ->
  wp step_once (contained e) w.
Proof.
  intros [Q1 Q2 Q3 Q4 Q5 Q6 Q7 Q8 Q9 Q10 Q11 Q12] Hst Hlk.
  open_world w. unfold lookup_script in Hlk. cbn in *. subst.
  unfold step_once. sx; finf.
Qed.
