(* Life/FactsMatch.v — the declarative tables re-extracted from /repo on every run (Gen/Facts.v, written
   by harness/facts.py) are the ones the life-cycle model was proved against.  An edit of State.ALLOWED,
   of the state set or of is_terminal() in /repo changes Gen/Facts.v and breaks these proofs. *)
From Coq Require Import List String Bool.
From Plumpy Require Import Val Model Facts.
Import ListNotations.
Local Open Scope string_scope.

Definition label_name (l : label) : string :=
  match l with
  | LCreated => "created" | LRunning => "running" | LWaiting => "waiting"
  | LFinished => "finished" | LExcepted => "excepted" | LKilled => "killed"
  end.

Definition all_labels : list label := [LCreated; LRunning; LWaiting; LFinished; LExcepted; LKilled].

(* Process.get_states() with each state's ALLOWED set (sorted by value) *)
Lemma allowed_matches_repo :
  x_allowed = map (fun l => (label_name l, map label_name (allowed l))) all_labels.
Proof. reflexivity. Qed.

Lemma terminal_matches_repo :
  x_terminal = map (fun l => (label_name l, terminal l)) all_labels.
Proof. reflexivity. Qed.

(* a WorkChain has the same state set (its Waiting subclass keeps the label) *)
Lemma workchain_states_match_repo : x_wc_states = map label_name all_labels.
Proof. reflexivity. Qed.
