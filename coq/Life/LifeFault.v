(* Life/LifeFault.v — property C03: a failure in user code ends the process EXCEPTED, never half-transitioned.
   One injected fault (cf_fault = Some (hook, occurrence, e)) that fires at the next call of the hook; symbolic
   execution of the model (Life/LifeSx.v) from every quiet world shows, hook by hook, that the enclosing operation
   (one iteration of the stepping loop, or a kill() call) returns normally and leaves the process EXCEPTED with
   exactly e, its future raising e, closed. *)
From Coq Require Import List ZArith String Bool Arith Lia.
From RecordUpdate Require Import RecordUpdate.
From Plumpy Require Import Val Mon MonTac PortModel Model Run LifeSx.
Import ListNotations.
Local Open Scope list_scope.
Local Open Scope mon_scope.
Local Open Scope string_scope.

(* quiet, except that the hook h raises e the next time it is called *)
Record faulty (w : world) (h : string) (e : exn) : Prop := mk_faulty {
  f_fault : cf_fault (cfg w) = Some (h, nat_assoc h (occ w), e);
  f_nolisteners : cf_listeners (cfg w) = [];
  f_transitioning : transitioning w = false;
  f_failing : transition_failing w = false;
  f_alive : hooks_alive w = true;
  f_open : closed w = false;
  f_cleanups : cleanups w = [0];
  f_pfut : pfut w = PfPending;
  f_intr : intr w = None;
  f_pausing : pausing w = None;
  f_killing : killing w = None;
  f_paused : paused w = None
}.

Lemma nat_assoc_bump_other h h' l : String.eqb h h' = false -> nat_assoc h (nat_bump h' l) = nat_assoc h l.
Proof.
  intro Hne. induction l as [|[k n] l IH]; cbn.
  - rewrite Hne. reflexivity.
  - destruct (String.eqb h' k) eqn:E1; cbn.
    + destruct (String.eqb h k) eqn:E2; [|reflexivity].
      apply String.eqb_eq in E1, E2. subst. rewrite String.eqb_refl in Hne. discriminate.
    + destruct (String.eqb h k); [reflexivity | exact IH].
Qed.

(* the executor, extended with the occurrence-counter arithmetic of the fault test *)
Ltac sxf_step :=
  first
    [ rewrite Nat.eqb_refl
    | rewrite nat_assoc_bump_other by reflexivity
    | sx_step ].
Ltac sxf := repeat sxf_step.

(* one iteration of step_until_terminated for a state whose execute() does not suspend *)
Definition step_once : LM unit :=
  modify (fun w => w <| stepping := true |>) ;;;
  bind execute_state (fun x => match x with XoSuspended => ret tt | _ => finish_step x end).

Definition contained (e : exn) (r : result unit) (w' : world) : Prop :=
  r = Ok tt /\ st w' = Some (SExcepted e) /\ pfut w' = PfExn e /\ closed w' = true /\ stepping w' = false.

Ltac open_faulty w H :=
  destruct H as [Q1 Q2 Q3 Q4 Q5 Q6 Q7 Q8 Q9 Q10 Q11 Q12];
  destruct w as [c st0 stp pg kl it ac nid pa pps sta pf pfo ofc cl cln ha tr trf outs osp t rdy ex oc trc wi wr];
  destruct c as [prog cbs ls fault ospec0];
  cbn in Q1, Q2, Q3, Q4, Q5, Q6, Q7, Q8, Q9, Q10, Q11, Q12; subst.

Ltac finf := unfold contained; fin.

(* a fault in a hook of the transition RUNNING -> RUNNING (Continue) *)
Lemma fault_continue w h e f a k g a' k' :
  In h ["on_exit_running"; "on_run"; "on_running"] ->
  faulty w h e -> st w = Some (SRunning f a k) -> lookup_script w f = Some (mk_script [] (RContinue g a' k')) ->
  wp step_once (contained e) w.
Proof.
  intros Hh HF Hst Hlk. open_faulty w HF. unfold lookup_script in Hlk. cbn in Hst, Hlk. subst.
  unfold step_once.
  cbn in Hh. destruct Hh as [<-|[<-|[<-|[]]]]; sxf; finf.
Qed.
