(* Life/LifeEsc.v — property C03 (and the open half of C02) over the life-cycle model M1, for every run: any program, any
   listener scripts with re-entrant control calls, any callbacks, ANY INJECTED FAULT (any hook, any occurrence, any
   exception) and any schedule of environment events that does not cancel the process future from outside:

     no exception ever reaches the event loop — the stepping task never fails, no scheduled callback and no done-callback
     reports an error to the loop — unless the explicit fuel of the model ran out.

   Why it holds: every exception of user code is raised inside a transition or inside a step; the step's are caught by
   the step, a transition's by transition_to, which routes it to EXCEPTED through a second transition that skips the
   exit phase.  That second transition fails only if user code raises again or the future is already resolved.  The
   injected fault is one-shot (hook h at its k-th occurrence); so the proof tracks [spent]: "the fault can no longer
   fire", shows that an operation called with a legal target fails only by firing the fault ([fired]: not spent before,
   spent after), and that attempted transitions ARE legal: the target computed by a step is a legal successor of the
   state the process is in when the step ends ([legal], invariant [T3] ties the program counter of a suspended step to
   the state label), the future of a live process is pending, an armed interrupt action is pending.

   Levels: K control level (any result; keeps [GA], a frame on label-or-terminated / pc / flags), T inside a transition
   (the same with the target label allowed), O step level (total up to fuel).  Generic Hoare rules come from LifeAgree. *)
From Coq Require Import List ZArith String Bool Arith Lia.
From RecordUpdate Require Import RecordUpdate.
From Plumpy Require Import Val Mon MonTac PortModel Model Run LifeAgree LifePtr.
Import ListNotations.
Local Open Scope list_scope.

(* ------------------------------------------------------------------ the one-shot fault *)
Definition spent (w : world) : Prop :=
  match cf_fault (cfg w) with None => True | Some (h, k, _) => k < nat_assoc h (occ w) end.

Definition fired (w w' : world) : Prop := ~ spent w /\ spent w'.

Lemma nat_assoc_bump_ge h x l : nat_assoc h l <= nat_assoc h (nat_bump x l).
Proof.
  induction l as [|[k n] l IH]; cbn.
  - destruct (String.eqb h x); lia.
  - destruct (String.eqb x k) eqn:E; cbn.
    + destruct (String.eqb h k); lia.
    + destruct (String.eqb h k); [lia | exact IH].
Qed.

Lemma nat_assoc_bump_same h l : nat_assoc h (nat_bump h l) = S (nat_assoc h l).
Proof.
  induction l as [|[k n] l IH]; cbn.
  - rewrite String.eqb_refl. reflexivity.
  - destruct (String.eqb h k) eqn:E; cbn; rewrite E; [reflexivity | exact IH].
Qed.

Lemma spent_bump w w' x : cfg w' = cfg w -> occ w' = nat_bump x (occ w) -> spent w -> spent w'.
Proof.
  unfold spent. intros -> ->. destruct (cf_fault (cfg w)) as [[[h k] e]|]; [|auto].
  pose proof (nat_assoc_bump_ge h x (occ w)). lia.
Qed.

Lemma spent_same w w' : cfg w' = cfg w -> occ w' = occ w -> spent w -> spent w'.
Proof. unfold spent. intros -> ->. auto. Qed.

(* ------------------------------------------------------------------ what reaches the loop *)
Definition ev_ok (e : event) : bool :=
  match e with EvLoopError EOutOfFuel => true | EvLoopError _ => false | _ => true end.
Definition errs_ok (tr : list event) : Prop := forallb ev_ok tr = true.

Lemma errs_ok_snoc tr e : errs_ok tr -> ev_ok e = true -> errs_ok (tr ++ [e]).
Proof. unfold errs_ok. rewrite forallb_app. intros -> He. cbn. rewrite He. reflexivity. Qed.

Definition is_err {A} (r : result A) : Prop := match r with Err _ => True | Ok _ => False end.
Definition is_ok {A} (r : result A) : Prop := match r with Ok _ => True | Err _ => False end.
(* total up to the fuel of the model *)
Definition okf {A} (r : result A) : Prop := match r with Ok _ => True | Err e => e = EOutOfFuel end.

(* ------------------------------------------------------------------ the invariant *)
Definition pend (w : world) (a : nat) : Prop := exists ac, get_act w a = Some ac /\ a_fut ac = AfPending.

Definition lbl_term (l : option label) : bool := match l with Some x => terminal x | None => false end.

Lemma is_terminated_lbl w : is_terminated w = lbl_term (cur_label w).
Proof. unfold is_terminated, cur_label. destruct (st w); reflexivity. Qed.

Definition GA0 (w : world) : Prop :=
  (is_terminated w = false -> pfut w = PfPending)
  /\ (closed w = true -> is_terminated w = true)
  /\ (forall a, intr w = Some a -> pend w a)
  /\ cur_label w <> None
  /\ errs_ok (trace w).

(* the failure bypass of the exit check is only armed inside a transition *)
Definition GA (w : world) : Prop := GA0 w /\ (transitioning w = false -> transition_failing w = false).

(* the label moved only to the target label n (if any), or the process terminated *)
Definition lblT (n : option label) (w w' : world) : Prop :=
  cur_label w' = cur_label w \/ (transitioning w = false /\ is_terminated w' = true) \/ cur_label w' = n.

Lemma lblT_trans n a b c : transitioning b = transitioning a -> lblT n a b -> lblT n b c -> lblT n a c.
Proof.
  unfold lblT. rewrite !is_terminated_lbl. intros X H1 [H2|[[H2 H3]|H2]].
  - rewrite H2. exact H1.
  - right; left. split; [congruence | exact H3].
  - right; right; exact H2.
Qed.

Definition RT (n : option label) (w w' : world) : Prop :=
  GA w' /\ cfg w' = cfg w /\ (spent w -> spent w') /\ lblT n w w' /\ t0 w' = t0 w /\ stepping w' = stepping w
  /\ transitioning w' = transitioning w /\ transition_failing w' = transition_failing w
  /\ List.length (acts w) <= List.length (acts w').

Lemma RT_refl n w : GA w -> RT n w w.
Proof. intro H. split; [exact H|]. repeat split; auto. left; reflexivity. Qed.

Lemma RT_trans n a b c : RT n a b -> RT n b c -> RT n a c.
Proof.
  intros (_ & C1 & Q1 & L1 & T1 & S1 & X1 & F1 & N1) (G2 & C2 & Q2 & L2 & T2 & S2 & X2 & F2 & N2).
  split; [exact G2|]. split; [congruence|]. split; [auto|]. split; [eapply lblT_trans; eauto|]. repeat split; try congruence. lia.
Qed.

Lemma RT_pre n a b : GA a -> RT n a b -> GA b.
Proof. intros _ [H _]. exact H. Qed.

Lemma RT_weaken n w w' : RT None w w' -> RT n w w'.
Proof.
  intros (G & C & Q & L & R). split; [exact G|]. split; [exact C|]. split; [exact Q|]. split; [|exact R].
  destruct L as [L|[L|L]]; [left; exact L | right; left; exact L|]. destruct G as ((_ & _ & _ & G5 & _) & _). contradiction.
Qed.

Notation RK := (RT None).
Notation Xat n := (Hat GA (RT n)).
Definition XK {A} (m : LM A) : Prop := forall w, Xat None m w.
Definition XT n {A} (m : LM A) : Prop := forall w, Xat n m w.

Lemma XK_XT n {A} (m : LM A) : XK m -> XT n m.
Proof. intros H w Q HG HQ. apply H; [exact HG|]. intros r w' R. apply HQ. apply RT_weaken. exact R. Qed.

Section CombX.
  Context {A B : Type}.
  Variable n : option label.
  Lemma Xat_ret (a : A) w : Xat n (ret a) w. Proof. apply Hat_ret. exact (RT_refl n). Qed.
  Lemma Xat_raise e w : Xat n (raise e : LM A) w. Proof. apply Hat_raise. exact (RT_refl n). Qed.
  Lemma Xat_bind (m : LM A) (f : A -> LM B) w : Xat n m w -> (forall a, XT n (f a)) -> Xat n (bind m f) w.
  Proof. intros H1 H2. eapply Hat_bind; [exact (RT_trans n) | exact (RT_pre n) | exact H1 | intros a w1; apply H2]. Qed.
  Lemma Xat_get (f : world -> LM A) w : Xat n (f w) w -> Xat n (bind get f) w. Proof. apply Hat_get. Qed.
  Lemma Xat_attempt (m : LM A) w : Xat n m w -> Xat n (attempt m) w. Proof. apply Hat_attempt. Qed.
  Lemma Xat_finally (m : LM A) f w : Xat n m w -> XT n f -> Xat n (finally m f) w.
  Proof. intros H1 H2. eapply Hat_finally; [exact (RT_trans n) | exact (RT_pre n) | exact H1 | exact H2]. Qed.
  Lemma Xat_try_catch (m : LM A) h w : Xat n m w -> (forall e, XT n (h e)) -> Xat n (try_catch m h) w.
  Proof. intros H1 H2. eapply Hat_try_catch; [exact (RT_trans n) | exact (RT_pre n) | exact H1 | intros e w1; apply H2]. Qed.
End CombX.
Lemma Xat_when n b (m : LM unit) w : (b = true -> Xat n m w) -> Xat n (when b m) w.
Proof. apply Hat_when. exact (RT_refl n). Qed.
Lemma XT_mapM n {A} (f : A -> LM unit) l : (forall x, XT n (f x)) -> XT n (mapM_ f l).
Proof. intros H w. eapply Hat_mapM; [exact (RT_refl n) | exact (RT_trans n) | exact (RT_pre n) | intros x w1; apply H]. Qed.

Ltac xstep :=
  lazymatch goal with
  | |- XK _ => intro
  | |- XT _ _ => intro
  | |- Hat GA (RT _) (bind get _) _ => apply Xat_get; cbv beta
  | |- Hat GA (RT _) (bind _ _) _ => apply Xat_bind; [ | intro ]
  | |- Hat GA (RT _) (ret _) _ => apply Xat_ret
  | |- Hat GA (RT _) (raise _) _ => apply Xat_raise
  | |- Hat GA (RT _) (attempt _) _ => apply Xat_attempt
  | |- Hat GA (RT _) (finally _ _) _ => apply Xat_finally
  | |- Hat GA (RT _) (try_catch _ _) _ => apply Xat_try_catch; [ | intro ]
  | |- Hat GA (RT _) (when _ _) _ => apply Xat_when; intro
  | |- Hat _ _ (match ?x with _ => _ end) _ => destruct x eqn:?
  | |- Hat _ _ (if ?x then _ else _) _ => destruct x eqn:?
  | |- Hat _ _ (let _ := _ in _) _ => cbv zeta
  end.

(* ------------------------------------------------------------------ strict frames *)
(* nothing the invariant or the relation reads is changed (the waiting payload of the state, the ready queue, the trace by
   harmless events, ids, status, ... may be) *)
Definition eeq (w w' : world) : Prop :=
  cfg w' = cfg w /\ cur_label w' = cur_label w /\ stepping w' = stepping w /\ intr w' = intr w /\ acts w' = acts w
  /\ pfut w' = pfut w /\ closed w' = closed w /\ transitioning w' = transitioning w
  /\ transition_failing w' = transition_failing w /\ t0 w' = t0 w /\ occ w' = occ w
  /\ (errs_ok (trace w) -> errs_ok (trace w')).

Lemma eeq_refl w : eeq w w.
Proof. repeat split; auto. Qed.

Lemma eeq_trans a b c : eeq a b -> eeq b c -> eeq a c.
Proof.
  intros (A1 & A2 & A3 & A4 & A5 & A6 & A7 & A8 & A9 & A10 & A11 & A12) (B1 & B2 & B3 & B4 & B5 & B6 & B7 & B8 & B9 & B10 & B11 & B12).
  repeat split; try congruence. auto.
Qed.

Lemma eeq_GA w w' : eeq w w' -> GA w -> GA w'.
Proof.
  intros (A1 & A2 & A3 & A4 & A5 & A6 & A7 & A8 & A9 & A10 & A11 & A12) ((G1 & G2 & G3 & G5 & G6) & G4).
  unfold GA, GA0, pend, get_act. rewrite !is_terminated_lbl in *. rewrite A2, A4, A5, A6, A7, A8, A9. repeat split; auto.
Qed.

Lemma eeq_RT n w w' : GA w -> eeq w w' -> RT n w w'.
Proof.
  intros G E. split; [eapply eeq_GA; eauto|]. destruct E as (A1 & A2 & A3 & A4 & A5 & A6 & A7 & A8 & A9 & A10 & A11 & A12).
  split; [exact A1|]. split; [apply spent_same; assumption|]. split; [left; exact A2|]. repeat split; try assumption. rewrite A5. lia.
Qed.

Definition FrX {A} (m : LM A) : Prop :=
  forall w (Q : result A -> world -> Prop), (forall r w', eeq w w' -> Q r w') -> wp m Q w.

Lemma FrX_XT n {A} (m : LM A) : FrX m -> XT n m.
Proof. intros H w Q G HQ. apply H. intros r w' E. apply HQ. apply eeq_RT; assumption. Qed.

Ltac eeq_done :=
  repeat split;
  first [ reflexivity
        | exact (fun H => H)
        | (intro; apply errs_ok_snoc; [assumption | reflexivity])
        | (intro; exact I)
        | (cbn; rewrite ?length_upd_nth, ?app_length; cbn; lia)
        | (unfold cur_label; cbn;
           repeat match goal with H : st _ = _ |- _ => rewrite H end; reflexivity)
        | (unfold cur_label; cbn;
           repeat match goal with H : st _ = _ |- _ => cbn in H; rewrite H end; reflexivity) ].
Ltac frx_auto := intros w Q HQ; repeat (wp_prim || wp_case); apply HQ; eeq_done.

Lemma emit_FrX e : ev_ok e = true -> FrX (emit e).
Proof. intros He w Q HQ. unfold emit. wp_prim. apply HQ. repeat split; try reflexivity. intro H. apply errs_ok_snoc; assumption. Qed.
Lemma schedule_FrX r : FrX (schedule r). Proof. unfold schedule. frx_auto. Qed.
Lemma fresh_FrX : FrX fresh. Proof. unfold fresh. frx_auto. Qed.
Lemma FrX_ret {A} (a : A) : FrX (ret a : LM A). Proof. frx_auto. Qed.
Lemma FrX_raise {A} e : FrX (raise e : LM A). Proof. frx_auto. Qed.
Lemma set_t0_eeq p : forall w (Q : result unit -> world -> Prop),
  (forall w', cfg w' = cfg w -> cur_label w' = cur_label w -> stepping w' = stepping w -> intr w' = intr w -> acts w' = acts w ->
              pfut w' = pfut w -> closed w' = closed w -> transitioning w' = transitioning w ->
              transition_failing w' = transition_failing w -> t0 w' = p -> occ w' = occ w -> trace w' = trace w -> Q (Ok tt) w') ->
  wp (set_t0 p) Q w.
Proof. intros w Q HQ. unfold set_t0. wp_prim. apply HQ; reflexivity. Qed.
Lemma state_interrupt_FrX iid : FrX (state_interrupt iid). Proof. unfold state_interrupt, schedule. frx_auto. Qed.
Lemma state_recall_FrX iid : FrX (state_recall iid). Proof. unfold state_recall, fresh. frx_auto. Qed.
Lemma resume_FrX v : FrX (resume v). Proof. unfold resume, fresh, schedule. frx_auto. Qed.
Lemma modify_FrX f : (forall w, eeq w (f w)) -> FrX (modify f).
Proof. intros H w Q HQ. wp_prim. apply HQ. apply H. Qed.
Lemma FrX_bind {A B} (m : LM A) (f : A -> LM B) : FrX m -> (forall a, FrX (f a)) -> FrX (bind m f).
Proof.
  intros Hm Hf w Q HQ. wp_prim. apply Hm. intros r w1 E1. destruct r as [a|e]; cbv beta iota.
  - apply Hf. intros r2 w2 E2. apply HQ. eapply eeq_trans; eauto.
  - apply HQ. exact E1.
Qed.

(* ------------------------------------------------------------------ building the relation by hand *)
Lemma mk_RT n w w' :
  cfg w' = cfg w -> (spent w -> spent w') -> lblT n w w' -> t0 w' = t0 w -> stepping w' = stepping w ->
  transitioning w' = transitioning w -> transition_failing w' = transition_failing w ->
  (is_terminated w' = false -> pfut w' = PfPending) -> (closed w' = true -> is_terminated w' = true) ->
  (forall a, intr w' = Some a -> pend w' a) -> (transitioning w' = false -> transition_failing w' = false) ->
  cur_label w' <> None -> errs_ok (trace w') -> List.length (acts w) <= List.length (acts w') -> RT n w w'.
Proof. intros. split; [split; [repeat split; assumption | assumption]|]. repeat split; assumption. Qed.

(* everything of [eeq] but the interrupt action and the action table *)
Definition leq (w w' : world) : Prop :=
  cfg w' = cfg w /\ cur_label w' = cur_label w /\ stepping w' = stepping w
  /\ pfut w' = pfut w /\ closed w' = closed w /\ transitioning w' = transitioning w
  /\ transition_failing w' = transition_failing w /\ t0 w' = t0 w /\ occ w' = occ w
  /\ (errs_ok (trace w) -> errs_ok (trace w')) /\ List.length (acts w) <= List.length (acts w').

Lemma leq_refl w : leq w w.
Proof. repeat split; auto. Qed.
Lemma leq_trans a b c : leq a b -> leq b c -> leq a c.
Proof.
  intros (A1 & A2 & A3 & A6 & A7 & A8 & A9 & A10 & A11 & A12 & A13) (B1 & B2 & B3 & B6 & B7 & B8 & B9 & B10 & B11 & B12 & B13).
  repeat split; try congruence; [auto | lia].
Qed.
Lemma eeq_leq w w' : eeq w w' -> leq w w'.
Proof. intros (A1 & A2 & A3 & A4 & A5 & A6 & A7 & A8 & A9 & A10 & A11 & A12). repeat split; try assumption. rewrite A5. lia. Qed.

Lemma leq_RT n w w' : GA w -> leq w w' -> (forall a, intr w' = Some a -> pend w' a) -> RT n w w'.
Proof.
  intros ((G1 & G2 & G3 & G5 & G6) & G4) (A1 & A2 & A3 & A6 & A7 & A8 & A9 & A10 & A11 & A12 & A13) H3.
  apply mk_RT; try assumption.
  - apply spent_same; assumption.
  - left; exact A2.
  - rewrite is_terminated_lbl, A2, A6, <- is_terminated_lbl. exact G1.
  - rewrite is_terminated_lbl, A2, A7, <- is_terminated_lbl. exact G2.
  - rewrite A8, A9. exact G4.
  - rewrite A2. exact G5.
  - auto.
Qed.

Definition FrL {A} (m : LM A) : Prop :=
  forall w (Q : result A -> world -> Prop), (forall r w', leq w w' -> Q r w') -> wp m Q w.
Ltac frl_auto := intros w Q HQ; repeat (wp_prim || wp_case); apply HQ; eeq_done.

Lemma set_act_fut_FrL id f : FrL (set_act_fut id f). Proof. unfold set_act_fut. frl_auto. Qed.
Lemma cancel_act_FrL id : FrL (cancel_act id). Proof. unfold cancel_act, set_act_fut. frl_auto. Qed.
Lemma sia_FrL new : FrL (set_interrupt_action new). Proof. unfold set_interrupt_action, cancel_act, set_act_fut. frl_auto. Qed.
Lemma sia_from_FrL k c : FrL (set_interrupt_action_from k c).
Proof. unfold set_interrupt_action_from, set_interrupt_action, cancel_act, set_act_fut. frl_auto. Qed.

(* what they do to the pointer and the table *)
Lemma pend_upd_other w id f b :
  b <> id -> pend w b -> pend (w <| acts := upd_nth id f (acts w) |>) b.
Proof.
  intros Hne (ac & Hg & Hp). exists ac. split; [|exact Hp]. unfold get_act in *. cbn.
  rewrite nth_error_upd_nth_ne; [exact Hg | congruence].
Qed.

Lemma sia_fun new w (Q : result unit -> world -> Prop) :
  (forall w', intr w' = new -> (forall b, pend w b -> intr w <> Some b -> pend w' b) -> Q (Ok tt) w') ->
  wp (set_interrupt_action new) Q w.
Proof.
  intro HQ. unfold set_interrupt_action, cancel_act, set_act_fut. repeat (wp_prim || wp_case); apply HQ; try reflexivity.
  all: try (intros b Hb _; exact Hb).
  intros b (ac & Hg & Hp) Hn. exists ac. split; [|exact Hp]. unfold get_act in *. cbn.
  rewrite nth_error_upd_nth_ne; [exact Hg | congruence].
Qed.

Lemma sia_X n new w (Q : result unit -> world -> Prop) :
  GA w -> (forall a, new = Some a -> pend w a /\ intr w <> Some a) ->
  (forall w', RT n w w' -> intr w' = new -> Q (Ok tt) w') -> wp (set_interrupt_action new) Q w.
Proof.
  intros G Hnew HQ. eapply wp_use; [apply wp_conj; [apply (sia_FrL new w (fun r w' => leq w w')); auto | apply (sia_fun new w (fun r w' => r = Ok tt /\ intr w' = new /\ forall b, pend w b -> intr w <> Some b -> pend w' b)); auto]|].
  intros r w' [L (-> & I & Hp)]. apply HQ; [|exact I]. apply leq_RT; [exact G | exact L|].
  intros a Ha. rewrite I in Ha. destruct (Hnew a Ha) as [P1 P2]. apply Hp; assumption.
Qed.

(* ------------------------------------------------------------------ hooks and listeners *)
Lemma bump_RT n x w w' :
  GA w -> cfg w' = cfg w -> cur_label w' = cur_label w -> stepping w' = stepping w ->
  intr w' = intr w -> acts w' = acts w -> pfut w' = pfut w -> closed w' = closed w -> transitioning w' = transitioning w ->
  transition_failing w' = transition_failing w -> t0 w' = t0 w -> occ w' = nat_bump x (occ w) -> errs_ok (trace w') -> RT n w w'.
Proof.
  intros ((G1 & G2 & G3 & G5 & G6) & G4) A1 A2 A3 A4 A5 A6 A7 A8 A9 A10 A11 A12.
  apply mk_RT; try assumption.
  - eapply spent_bump; eauto.
  - left; exact A2.
  - rewrite is_terminated_lbl, A2, A6, <- is_terminated_lbl. exact G1.
  - rewrite is_terminated_lbl, A2, A7, <- is_terminated_lbl. exact G2.
  - unfold pend, get_act. rewrite A4, A5. exact G3.
  - rewrite A8, A9. exact G4.
  - rewrite A2. exact G5.
  - rewrite A5. lia.
Qed.

(* an operation that fails (when called under condition C) only by firing the injected fault *)
Definition Fat n (C : Prop) {A} (m : LM A) (w : world) : Prop :=
  forall Q : result A -> world -> Prop, GA w ->
    (forall r w', RT n w w' -> (C -> is_err r -> fired w w') -> Q r w') -> wp m Q w.

Lemma hook_F n name w : Fat n True (hook name) w.
Proof.
  intros Q G HQ. unfold hook, emit. repeat wp_prim.
  match goal with |- wp _ _ ?w1 => assert (R1 : RT n w w1) end.
  { eapply (bump_RT n name); try reflexivity; [exact G|]. apply errs_ok_snoc; [apply G | reflexivity]. }
  destruct (cf_fault (cfg w)) as [[[h k] e]|] eqn:Hf; cbn [cfg set]; rewrite ?Hf.
  - destruct (String.eqb h name && Nat.eqb k (nat_assoc name (occ w))) eqn:Hc; wp_prim.
    + apply HQ; [exact R1|]. intros _ _. apply andb_true_iff in Hc. destruct Hc as [Hh Hk].
      apply String.eqb_eq in Hh. apply Nat.eqb_eq in Hk. subst h. unfold fired, spent. cbn. rewrite Hf. split; [lia|].
      rewrite nat_assoc_bump_same. lia.
    + apply HQ; [exact R1|]. intros _ [].
  - wp_prim. apply HQ; [exact R1|]. intros _ [].
Qed.

(* an operation at T level that never fails *)
Definition Tot n {A} (m : LM A) (w : world) : Prop :=
  forall Q : result A -> world -> Prop, GA w -> (forall a w', RT n w w' -> Q (Ok a) w') -> wp m Q w.

Section Reentrant.
  Variable rec_ctl : ctl -> LM cret.
  Hypothesis Hrec : forall c, XK (rec_ctl c).

  Lemma fire_Tot n name w : Tot n (fire rec_ctl name) w.
  Proof.
    intros Q G HQ. unfold fire, emit. repeat wp_prim.
    match goal with |- wp _ _ ?w1 => assert (R1 : RT n w w1) end.
    { eapply (bump_RT n); try reflexivity; [exact G|]. apply errs_ok_snoc; [apply G | reflexivity]. }
    apply (wp_mapM_inv _ (fun s => RT n w s)); [exact R1 | | intros s' Hs; apply HQ; exact Hs].
    intros ls s1 _ R. destruct (String.eqb (ls_event ls) name && Nat.eqb (ls_occ ls) (nat_assoc ("L:" ++ name) (occ w))).
    - do 2 wp_prim. apply Hrec; [apply R|]. intros r s2 R2. wp_prim. split; [reflexivity|].
      eapply RT_trans; [exact R|]. apply RT_weaken. eapply RT_trans; [exact R2|]. apply eeq_RT; [apply R2|].
      repeat split; try reflexivity. intro H. apply errs_ok_snoc; [exact H | reflexivity].
    - wp_prim. split; [reflexivity | exact R].
  Qed.
End Reentrant.

Lemma FrX_mapM {A} (f : A -> LM unit) l : (forall x, FrX (f x)) -> FrX (mapM_ f l).
Proof.
  intro Hf. induction l as [|x l IH]; cbn [mapM_]; [apply FrX_ret|]. apply FrX_bind; [apply Hf | intros _; exact IH].
Qed.

Definition FrXT {A} (m : LM A) : Prop :=
  forall w (Q : result A -> world -> Prop), (forall a w', eeq w w' -> Q (Ok a) w') -> wp m Q w.
Lemma FrXT_bind {A B} (m : LM A) (f : A -> LM B) : FrXT m -> (forall a, FrXT (f a)) -> FrXT (bind m f).
Proof.
  intros Hm Hf w Q HQ. wp_prim. apply Hm. intros a w1 E1. cbv beta iota.
  apply Hf. intros r2 w2 E2. apply HQ. eapply eeq_trans; eauto.
Qed.
Lemma FrXT_ret {A} (a : A) : FrXT (ret a : LM A). Proof. intros w Q HQ. wp_prim. apply HQ. apply eeq_refl. Qed.
Lemma FrXT_mapM {A} (f : A -> LM unit) l : (forall x, FrXT (f x)) -> FrXT (mapM_ f l).
Proof.
  intro Hf. induction l as [|x l IH]; cbn [mapM_]; [apply FrXT_ret|]. apply FrXT_bind; [apply Hf | intros _; exact IH].
Qed.
Lemma emit_FrXT e : ev_ok e = true -> FrXT (emit e).
Proof. intros He w Q HQ. unfold emit. wp_prim. apply HQ. repeat split; try reflexivity. intro H. apply errs_ok_snoc; assumption. Qed.
Lemma modify_FrXT f : (forall w, eeq w (f w)) -> FrXT (modify f).
Proof. intros H w Q HQ. wp_prim. apply HQ. apply H. Qed.
Lemma schedule_FrXT r : FrXT (schedule r). Proof. apply modify_FrXT. intro. repeat split; auto. Qed.

Lemma hook_S n name w (Q : result unit -> world -> Prop) :
  GA w ->
  (forall r w', RT n w w' -> (is_err r -> fired w w') -> cur_label w' = cur_label w -> pfut w' = pfut w -> closed w' = closed w ->
                transitioning w' = transitioning w -> Q r w') ->
  wp (hook name) Q w.
Proof.
  intros G HQ.
  eapply wp_use; [apply wp_conj; [apply (hook_F n name w (fun r w' => RT n w w' /\ (is_err r -> fired w w'))); [exact G | auto] |
    instantiate (1 := fun _ w' => cur_label w' = cur_label w /\ pfut w' = pfut w /\ closed w' = closed w /\ transitioning w' = transitioning w)]|].
  - unfold hook, emit. repeat (wp_prim || wp_case); repeat split.
  - intros r w' [[R F] (L & P & C & T)]. apply HQ; auto.
Qed.

Lemma term_lbl w w' : cur_label w' = cur_label w -> is_terminated w' = is_terminated w.
Proof. intro H. rewrite !is_terminated_lbl, H. reflexivity. Qed.

Lemma on_close_F n w : is_terminated w = true -> Fat n True on_close w.
Proof.
  intros Ht Q G HQ. unfold on_close. wp_prim. apply (hook_S n); [exact G|]. intros r w1 R1 F1 L1 _ _ _. destruct r; cbv beta iota.
  2: { apply HQ; [exact R1 | intros _; exact F1]. }
  wp_prim.
  assert (HB : FrXT (bind get (fun w => bind (mapM_ (fun c => emit (EvCleanup c)) (cleanups w)) (fun _ => modify (fun w => w <| cleanups := [] |>))))).
  { intros wz Qz Hz. do 2 wp_prim. apply (FrXT_bind _ _ (FrXT_mapM _ _ (fun c => emit_FrXT (EvCleanup c) eq_refl))); [|exact Hz].
    intros _. apply modify_FrXT. intro. repeat split; auto. }
  apply HB. intros r2 w2 E2. wp_prim.
  assert (R2 : RT n w1 w2) by (apply eeq_RT; [apply R1 | exact E2]).
  match goal with |- Q _ ?w3 => assert (R3 : RT n w2 w3) end.
  { destruct R2 as (((G1 & G2 & G3 & G5 & G6) & G4) & _). destruct E2 as (_ & E2 & _).
    apply mk_RT; try reflexivity; try assumption; [auto | left; reflexivity|].
    intros _. change (is_terminated w2 = true). rewrite (term_lbl _ _ E2), (term_lbl _ _ L1). exact Ht. }
  apply HQ; [eapply RT_trans; [exact R1|]; eapply RT_trans; eauto|].
  intros _ [].
Qed.

(* ------------------------------------------------------------------ inside a transition *)
(* exact frame of the operations that touch neither the state nor the pointers: hooks, the future, status *)
Definition heq (w w' : world) : Prop :=
  cfg w' = cfg w /\ cur_label w' = cur_label w /\ stepping w' = stepping w /\ intr w' = intr w /\ acts w' = acts w
  /\ closed w' = closed w /\ transitioning w' = transitioning w /\ transition_failing w' = transition_failing w
  /\ t0 w' = t0 w /\ (spent w -> spent w') /\ (errs_ok (trace w) -> errs_ok (trace w')).

Lemma heq_refl w : heq w w.
Proof. repeat split; auto. Qed.
Lemma heq_trans a b c : heq a b -> heq b c -> heq a c.
Proof.
  intros (A1 & A2 & A3 & A4 & A5 & A7 & A8 & A9 & A10 & A11 & A12) (B1 & B2 & B3 & B4 & B5 & B7 & B8 & B9 & B10 & B11 & B12).
  repeat split; try congruence; auto.
Qed.

Lemma hook_H name w (Q : result unit -> world -> Prop) :
  (forall r w', heq w w' -> pfut w' = pfut w -> (is_err r -> fired w w') -> Q r w') -> wp (hook name) Q w.
Proof.
  intro HQ. unfold hook, emit. repeat wp_prim.
  match goal with |- wp _ _ ?w1 => assert (H1 : heq w w1) end.
  { repeat split; try reflexivity; [apply (spent_bump _ _ name); reflexivity | intro H; apply errs_ok_snoc; [exact H | reflexivity]]. }
  destruct (cf_fault (cfg w)) as [[[h k] e]|] eqn:Hf; cbn [cfg set]; rewrite ?Hf.
  - destruct (String.eqb h name && Nat.eqb k (nat_assoc name (occ w))) eqn:Hc; wp_prim.
    + apply HQ; [exact H1 | reflexivity|]. intros _. apply andb_true_iff in Hc. destruct Hc as [Hh Hk].
      apply String.eqb_eq in Hh. apply Nat.eqb_eq in Hk. subst h. unfold fired, spent. cbn. rewrite Hf. split; [lia|].
      rewrite nat_assoc_bump_same. lia.
    + apply HQ; [exact H1 | reflexivity | intros []].
  - wp_prim. apply HQ; [exact H1 | reflexivity | intros []].
Qed.

Lemma fired_mono a b c : (spent a -> spent b) -> fired b c -> fired a c.
Proof. intros H [N Q]. split; [intro X; apply N; auto | exact Q]. Qed.
Lemma fired_mono_r a b c : (spent b -> spent c) -> fired a b -> fired a c.
Proof. intros H [N Q]. split; [exact N | auto]. Qed.

(* the condition under which entering ns does not fail on the future *)
Definition pf_ok (w : world) (ns : pstate) : Prop :=
  match ns with SFinished _ _ | SKilled _ => pfut w = PfPending | _ => True end.

Definition ent (ns : pstate) (r : result (option pstate)) (w w' : world) : Prop :=
  heq w w' /\
  match r with
  | Err _ => pfut w' = pfut w /\ (pf_ok w ns -> fired w w')
  | Ok (Some s') => pfut w' = pfut w /\ exists res, ns = SFinished res true /\ s' = SFinished res false
  | Ok None => terminal (label_of ns) = false -> pfut w' = pfut w
  end.

Ltac heq_done :=
  repeat split;
  first [ reflexivity | assumption | exact (fun H => H)
        | (intro; apply errs_ok_snoc; [assumption | reflexivity]) ].

Lemma pfut_set_H f w (Q : result unit -> world -> Prop) :
  (forall r w', heq w w' -> (is_err r -> pfut w' = pfut w /\ pfut w <> PfPending) -> Q r w') -> wp (pfut_set f) Q w.
Proof.
  intro HQ. unfold pfut_set, schedule, pfut_done. repeat (wp_prim || wp_case); apply HQ; try (heq_done; fail); try (intros []; fail).
  all: intros _; split; [reflexivity |]; intro X; rewrite X in *; discriminate.
Qed.

Lemma on_entering_spec ns w (Q : result (option pstate) -> world -> Prop) :
  (forall r w', ent ns r w w' -> Q r w') -> wp (on_entering ns) Q w.
Proof.
  intro HQ. unfold on_entering.
  destruct ns as [|fn args kw|fn msg data wid wf|res ok|e|msg].
  - wp_prim. apply hook_H. intros r w1 H1 P1 F1. destruct r; cbv beta iota; [wp_prim|]; apply HQ; (split; [exact H1|]); auto.
  - wp_prim. apply hook_H. intros r w1 H1 P1 F1. destruct r; cbv beta iota; [wp_prim|]; apply HQ; (split; [exact H1|]); auto.
  - wp_prim. apply hook_H. intros r w1 H1 P1 F1. destruct r; cbv beta iota; [wp_prim|]; apply HQ; (split; [exact H1|]); auto.
  - wp_prim. apply hook_H. intros r w1 H1 P1 F1. destruct r; cbv beta iota; [|apply HQ; (split; [exact H1|]); split; [exact P1 | intros _; exact (F1 I)]].
    do 2 wp_prim. wp_case.
    + wp_prim. apply HQ. split; [exact H1|]. split; [exact P1|]. exists res. apply andb_true_iff in Heqb. destruct Heqb as [-> _]. split; reflexivity.
    + wp_prim. apply pfut_set_H. intros r2 w2 H2 F2. destruct r2; cbv beta iota.
      * wp_prim. apply HQ. split; [eapply heq_trans; eauto|]. cbn. discriminate.
      * apply HQ. split; [eapply heq_trans; eauto|]. destruct (F2 I) as [E2 N2]. split; [congruence|].
        cbn. intro X. rewrite P1 in N2. contradiction.
  - wp_prim. apply hook_H. intros r w1 H1 P1 F1. destruct r; cbv beta iota; [|apply HQ; (split; [exact H1|]); split; [exact P1 | intros _; exact (F1 I)]].
    do 2 wp_prim. unfold pfut_done. destruct (pfut w1) eqn:Ep.
    + wp_prim. apply pfut_set_H. intros r2 w2 H2 F2. destruct r2; cbv beta iota.
      * wp_prim. apply HQ. split; [eapply heq_trans; eauto|]. cbn. discriminate.
      * destruct (F2 I) as [_ N2]. contradiction.
    + do 3 wp_prim. apply HQ. split; [|cbn; discriminate]. eapply heq_trans; [exact H1|]. heq_done.
    + do 3 wp_prim. apply HQ. split; [|cbn; discriminate]. eapply heq_trans; [exact H1|]. heq_done.
    + do 3 wp_prim. apply HQ. split; [|cbn; discriminate]. eapply heq_trans; [exact H1|]. heq_done.
  - wp_prim. apply hook_H. intros r w1 H1 P1 F1. destruct r; cbv beta iota; [|apply HQ; (split; [exact H1|]); split; [exact P1 | intros _; exact (F1 I)]].
    do 4 wp_prim.
    match goal with |- wp _ _ ?wx => assert (H2 : heq w1 wx) by heq_done; assert (P2 : pfut wx = pfut w1) by reflexivity; generalize dependent wx end. intros w2 H2 P2.
    destruct (pfut w2) eqn:Ep.
    + wp_prim. apply pfut_set_H. intros r3 w3 H3 F3. destruct r3; cbv beta iota.
      * wp_prim. apply HQ. split; [eapply heq_trans; [exact H1|]; eapply heq_trans; eauto|]. cbn. discriminate.
      * destruct (F3 I) as [_ N3]. contradiction.
    + wp_prim. apply pfut_set_H. intros r3 w3 H3 F3. destruct r3; cbv beta iota.
      * wp_prim. apply HQ. split; [eapply heq_trans; [exact H1|]; eapply heq_trans; eauto|]. cbn. discriminate.
      * apply HQ. split; [eapply heq_trans; [exact H1|]; eapply heq_trans; eauto|]. destruct (F3 I) as [E3 _]. split; [congruence|].
        cbn. intro X. congruence.
    + wp_prim. apply pfut_set_H. intros r3 w3 H3 F3. destruct r3; cbv beta iota.
      * wp_prim. apply HQ. split; [eapply heq_trans; [exact H1|]; eapply heq_trans; eauto|]. cbn. discriminate.
      * apply HQ. split; [eapply heq_trans; [exact H1|]; eapply heq_trans; eauto|]. destruct (F3 I) as [E3 _]. split; [congruence|].
        cbn. intro X. congruence.
    + do 3 wp_prim. apply HQ. split; [|cbn; discriminate]. eapply heq_trans; [exact H1|]. eapply heq_trans; [exact H2|]. heq_done.
Qed.

Definition exit_legal (w : world) (ns : pstate) : Prop :=
  exists l, cur_label w = Some l /\ is_allowed l (label_of ns) = true.

Lemma allowed_not_terminal l x : is_allowed l x = true -> terminal l = false.
Proof. destruct l; cbn; intro H; try reflexivity; discriminate. Qed.

Lemma heq_RT n w w' : GA w -> heq w w' -> pfut w' = pfut w -> RT n w w'.
Proof.
  intros ((G1 & G2 & G3 & G5 & G6) & G4) (A1 & A2 & A3 & A4 & A5 & A7 & A8 & A9 & A10 & A11 & A12) A6.
  apply mk_RT; try assumption.
  - left; exact A2.
  - rewrite is_terminated_lbl, A2, A6, <- is_terminated_lbl. exact G1.
  - rewrite is_terminated_lbl, A2, A7, <- is_terminated_lbl. exact G2.
  - unfold pend, get_act. rewrite A4, A5. exact G3.
  - rewrite A8, A9. exact G4.
  - rewrite A2. exact G5.
  - auto.
  - rewrite A5. lia.
Qed.

Lemma eeq_heq w w' : eeq w w' -> heq w w' /\ pfut w' = pfut w.
Proof.
  intros (A1 & A2 & A3 & A4 & A5 & A6 & A7 & A8 & A9 & A10 & A11 & A12). split; [|exact A6].
  repeat split; try assumption. apply spent_same; assumption.
Qed.

(* _exit_current_state *)
Lemma exit_current_spec n ns w (Q : result unit -> world -> Prop) :
  GA w ->
  (forall r w', RT n w w' -> cur_label w' = cur_label w -> (exit_legal w ns -> is_err r -> fired w w') ->
                (is_ok r -> is_terminated w' = false) -> Q r w') ->
  wp (exit_current ns) Q w.
Proof.
  intros G HQ. unfold exit_current. do 2 wp_prim.
  destruct (st w) as [cur|] eqn:Hst.
  2: { exfalso. destruct G as ((_ & _ & _ & G5 & _) & _). apply G5. unfold cur_label. rewrite Hst. reflexivity. }
  assert (Hl : cur_label w = Some (label_of cur)) by (unfold cur_label; rewrite Hst; reflexivity).
  destruct (negb (is_allowed (label_of cur) (label_of ns))) eqn:Hal.
  { wp_prim. apply HQ; [apply RT_refl; exact G | reflexivity | | intros []].
    intros (l & Hl' & Ha) _. rewrite Hl in Hl'. injection Hl' as <-. rewrite Ha in Hal. discriminate. }
  apply negb_false_iff in Hal. pose proof (allowed_not_terminal _ _ Hal) as Hnt.
  wp_prim.
  (* the exit hook *)
  assert (Hh : forall (Q1 : result unit -> world -> Prop),
            (forall r w1, heq w w1 -> pfut w1 = pfut w -> st w1 = st w -> (is_err r -> fired w w1) -> Q1 r w1) ->
            wp (when (hooks_alive w) (match cur with SWaiting _ _ _ _ _ => hook "on_exit_waiting" | SRunning _ _ _ => hook "on_exit_running" | _ => ret tt end)) Q1 w).
  { intros Q1 H1. destruct (hooks_alive w); cbn [when]; [|wp_prim; apply H1; [apply heq_refl | reflexivity | reflexivity | intros []]].
    assert (Hk : forall name, wp (hook name) Q1 w).
    { intro name. eapply wp_use; [apply wp_conj; [apply (hook_H name w (fun r w1 => heq w w1 /\ pfut w1 = pfut w /\ (is_err r -> fired w w1))); auto|]|].
      - instantiate (1 := fun _ w1 => st w1 = st w). unfold hook, emit. repeat (wp_prim || wp_case); reflexivity.
      - intros r w1 [(A & B & C) D]. apply H1; assumption. }
    destruct cur; first [apply Hk | wp_prim; apply H1; [apply heq_refl | reflexivity | reflexivity | intros []]]. }
  apply Hh. intros r w1 H1 P1 S1 F1. destruct r; cbv beta iota.
  2: { apply HQ; [apply heq_RT; assumption | apply H1 | intros _ _; exact (F1 I) | intros []]. }
  rewrite Hnt. cbv iota.
  assert (R1 : RT n w w1) by (apply heq_RT; assumption).
  assert (L1 : cur_label w1 = cur_label w) by apply H1.
  assert (T1 : is_terminated w1 = false) by (rewrite (term_lbl _ _ L1), is_terminated_lbl, Hl; exact Hnt).
  assert (Hdone : Q (Ok tt) w1) by (apply HQ; [exact R1 | exact L1 | intros _ [] | intros _; exact T1]).
  destruct cur; try (wp_prim; exact Hdone). destruct wf; [|wp_prim; exact Hdone].
  do 4 wp_prim.
  match goal with |- wp _ _ ?wx => assert (E2 : eeq w1 wx) by (repeat split; try reflexivity; [unfold cur_label; cbn; rewrite S1, Hst; reflexivity | auto]); generalize dependent wx end.
  intros w2 E2. destruct (eeq_heq _ _ E2) as [H2 P2].
  assert (Hd2 : forall w3, eeq w2 w3 -> Q (Ok tt) w3).
  { intros w3 E3. pose proof (eeq_trans _ _ _ E2 E3) as E13. destruct (eeq_heq _ _ E13) as [H13 P13].
    assert (L3 : cur_label w3 = cur_label w) by (rewrite <- L1; apply H13).
    apply HQ; [eapply RT_trans; [exact R1|]; apply eeq_RT; [apply R1 | exact E13] | exact L3 | intros _ [] |].
    intros _. rewrite (term_lbl _ _ L3), is_terminated_lbl, Hl. exact Hnt. }
  destruct (t0 w2); try (wp_prim; apply Hd2; apply eeq_refl).
  apply wp_when_i; intro; [|apply Hd2; apply eeq_refl]. apply schedule_FrXT. intros [] w3 E3. apply Hd2. exact E3.
Qed.

Lemma close_F n w : is_terminated w = true -> Fat n True close w.
Proof.
  intros Ht Q G HQ. unfold close. do 2 wp_prim. destruct (closed w).
  - wp_prim. apply HQ; [apply RT_refl; exact G | intros _ []].
  - apply (on_close_F n); assumption.
Qed.

Lemma RT_term_keep n w w' : transitioning w = true -> RT n w w' -> is_terminated w = true -> lbl_term n = true -> is_terminated w' = true.
Proof.
  intros Ht (_ & _ & _ & L & _) T N. destruct L as [L|[[L _]|L]]; [rewrite (term_lbl _ _ L); exact T | congruence |].
  rewrite is_terminated_lbl, L. exact N.
Qed.

Lemma on_terminated_F n w : is_terminated w = true -> Fat n True on_terminated w.
Proof.
  intros Ht Q G HQ. unfold on_terminated. wp_prim. apply (hook_S n); [exact G|]. intros r w1 R1 F1 L1 _ _ _. destruct r; cbv beta iota.
  2: { apply HQ; [exact R1 | intros _; exact F1]. }
  do 3 wp_prim.
  assert (HB : FrXT (match paused w1, t0 w1 with Some fid, PcAwaitPaused f => when (Nat.eqb f fid) (schedule (RWakeT0 WkNone)) | _, _ => ret tt end)).
  { destruct (paused w1); [|apply FrXT_ret]. destruct (t0 w1); try apply FrXT_ret.
    match goal with |- FrXT (when ?b _) => destruct b end; [apply schedule_FrXT | apply FrXT_ret]. }
  apply HB. intros _ w2 E2. cbv beta iota.
  assert (R2 : RT n w1 w2) by (apply eeq_RT; [apply R1 | exact E2]).
  apply (close_F n); [|apply R2|].
  - destruct E2 as (_ & E2 & _). rewrite (term_lbl _ _ E2), (term_lbl _ _ L1). exact Ht.
  - intros r3 w3 R3 F3. apply HQ; [eapply RT_trans; [exact R1|]; eapply RT_trans; eauto|].
    intros _ He. eapply fired_mono; [|exact (F3 I He)]. intro X. apply R2. apply R1. exact X.
Qed.

Section Transition.
  Variable rec_ctl : ctl -> LM cret.
  Hypothesis Hrec : forall c, XK (rec_ctl c).

  Lemma on_entered_F n w0 w : Fat n True (on_entered rec_ctl w0) w.
  Proof.
    intros Q G HQ. unfold on_entered. do 2 wp_prim.
    assert (Hhf : forall h l, Fat n True (bind (hook h) (fun _ => fire rec_ctl l)) w).
    { intros h l Q1 _ H1. wp_prim. apply (hook_S n); [exact G|]. intros r w1 R1 F1 _ _ _ _. destruct r; cbv beta iota.
      - apply (fire_Tot rec_ctl Hrec n); [apply R1|]. intros u2 w2 R2. apply H1; [eapply RT_trans; eauto | intros _ []].
      - apply H1; [exact R1 | intros _; exact F1]. }
    destruct (st w) as [[]|]; try (exact (Hhf _ _ Q G HQ)); try (wp_prim; apply HQ; [apply RT_refl; exact G | intros _ []]).
    wp_prim. apply (hook_S n); [exact G|]. intros r w1 R1 F1 _ _ _ _. destruct r; cbv beta iota.
    2: { apply HQ; [exact R1 | intros _; exact F1]. }
    do 2 wp_prim.
    match goal with |- wp _ _ ?wx => assert (R2 : RT n w1 wx) by (apply eeq_RT; [apply R1 | repeat split; auto]); generalize dependent wx end.
    intros w2 R2. apply (fire_Tot rec_ctl Hrec n); [apply R2|]. intros u3 w3 R3.
    apply HQ; [eapply RT_trans; [exact R1|]; eapply RT_trans; eauto | intros _ []].
  Qed.

  (* _enter_next_state *)
  Definition enter_ok (w : world) (ns : pstate) : Prop :=
    is_terminated w = false \/ label_of ns = LExcepted.

  Lemma enter_next_spec ns w (Q : result (option pstate) -> world -> Prop) :
    GA w -> (is_terminated w = false \/ terminal (label_of ns) = true) ->
    (forall r w', RT (Some (label_of ns)) w w' -> (enter_ok w ns -> is_err r -> fired w w') ->
                  (forall s', r = Ok (Some s') -> cur_label w' = cur_label w /\ exists res, ns = SFinished res true /\ s' = SFinished res false) ->
                  (r = Ok None -> transitioning w = true -> cur_label w' = Some (label_of ns)) -> Q r w') ->
    wp (enter_next rec_ctl ns) Q w.
  Proof.
    intros G Hpre HQ. unfold enter_next. do 3 wp_prim.
    set (n := Some (label_of ns)).
    assert (Hpf : enter_ok w ns -> pf_ok w ns).
    { intros [Hl|He]; [|destruct ns; try discriminate; exact I]. destruct G as ((G1 & _) & _). destruct ns; cbn; auto. }
    (* after on_entering (or without it) *)
    assert (Hrest : forall w1, heq w w1 -> (terminal (label_of ns) = false -> pfut w1 = pfut w) ->
              wp (bind get (fun w1 => bind (put (w1 <| st := Some ns |> <| wintr := None |> <| wrecalled := [] |>))
                   (fun _ => bind (emit (EvEntered (cur_label w) (label_of ns)))
                   (fun _ => bind get (fun w2 => bind (when (hooks_alive w2) (on_entered rec_ctl w)) (fun _ => ret None)))))) Q w1).
    { intros w1 H1 P1. unfold emit. do 8 wp_prim.
      match goal with |- wp _ _ ?wx => assert (R2 : RT n w wx); [|assert (L2 : cur_label wx = n) by reflexivity; assert (T2 : transitioning wx = transitioning w) by apply H1; generalize dependent wx] end.
      { destruct G as ((G1 & G2 & G3 & G5 & G6) & G4). destruct H1 as (A1 & A2 & A3 & A4 & A5 & A7 & A8 & A9 & A10 & A11 & A12).
        apply mk_RT; cbn [cfg t0 stepping transitioning transition_failing pfut closed intr acts trace set]; try assumption.
        - right; right; reflexivity.
        - rewrite is_terminated_lbl. cbn. intro Hnt. rewrite (P1 Hnt). apply G1. destruct Hpre as [Hp|Hp]; [exact Hp | congruence].
        - rewrite A7, is_terminated_lbl. cbn. intro Hc. destruct Hpre as [Hp|Hp]; [|exact Hp]. rewrite (G2 Hc) in Hp. discriminate.
        - intros a Ha. unfold pend, get_act. cbn. rewrite A5. apply G3. rewrite <- A4. exact Ha.
        - rewrite A8, A9. exact G4.
        - discriminate.
        - apply errs_ok_snoc; [auto | reflexivity].
        - rewrite A5. lia. }
      intros w2 R2 L2 T2.
      assert (Hfin : forall (r3 : result unit) w3, RT n w2 w3 -> (is_err r3 -> fired w2 w3) ->
                 match r3 with Ok _ => wp (ret None) Q w3 | Err e => Q (Err e) w3 end).
      { intros r3 w3 R3 F3. pose proof (RT_trans _ _ _ _ R2 R3) as R.
        destruct r3; [wp_prim|]; apply HQ; try exact R; try discriminate.
        - intros _ [].
        - intros _ Ht. unfold n in *. destruct R3 as (_ & _ & _ & L3 & _). destruct L3 as [L3|[[L3 _]|L3]]; [congruence | congruence | exact L3].
        - intros _ _. eapply fired_mono; [|exact (F3 I)]. apply R2. }
      assert (Hoe : wp (when (hooks_alive w2) (on_entered rec_ctl w)) (fun r3 w3 => match r3 with Ok _ => wp (ret None) Q w3 | Err e => Q (Err e) w3 end) w2).
      { destruct (hooks_alive w2); cbn [when].
        - apply (on_entered_F n); [apply R2|]. intros r3 w3 R3 F3. apply Hfin; [exact R3 | intro X; apply F3; [exact I | exact X]].
        - wp_prim. apply (Hfin (Ok tt)); [apply RT_refl; apply R2 | intros []]. }
      wp_prim. exact Hoe. }
    destruct (hooks_alive w).
    - apply on_entering_spec. intros r w1 [H1 E1]. destruct r as [[s'|]|e]; cbv beta iota.
      + wp_prim. destruct E1 as (P1 & L1). apply HQ; [apply heq_RT; assumption | intros _ [] | | discriminate].
        intros s'' X. injection X as <-. split; [apply H1 | exact L1].
      + apply Hrest; assumption.
      + destruct E1 as [P1 F1]. apply HQ; [apply heq_RT; assumption | intros He _; apply F1; apply Hpf; exact He | discriminate | discriminate].
    - wp_prim. apply Hrest; [apply heq_refl | reflexivity].
  Qed.
End Transition.

Lemma RT_q n a b : RT n a b -> spent a -> spent b.
Proof. intros (_ & _ & H & _). exact H. Qed.

Lemma GA_set_transitioning w : GA0 w -> GA (w <| transitioning := true |>).
Proof. intros (G1 & G2 & G3 & G5 & G6). split; [repeat split; assumption | cbn; discriminate]. Qed.

Section Transition2.
  Variable rec_ctl : ctl -> LM cret.
  Hypothesis Hrec : forall c, XK (rec_ctl c).

  Definition body_ok (w : world) (ns : pstate) : Prop := transition_failing w = false -> exit_legal w ns.

  (* the body of transition_to *)
  Lemma transition_body_spec ns w (Q : result unit -> world -> Prop) :
    GA0 w -> transitioning w = false -> (transition_failing w = true -> label_of ns = LExcepted) ->
    (forall r w', RT (Some (label_of ns)) (w <| transitioning := true |>) w' ->
                  (body_ok w ns -> is_err r -> fired w w') ->
                  (is_ok r -> cur_label w' = Some (label_of ns)) -> Q r w') ->
    wp (transition_body rec_ctl ns) Q w.
  Proof.
    intros G0 Htr Hfl HQ. unfold transition_body. do 4 wp_prim.
    set (w0 := w <| transitioning := true |>). set (n := Some (label_of ns)).
    assert (Gw0 : GA w0) by (apply GA_set_transitioning; exact G0).
    (* the tail: on_terminated when terminal *)
    assert (Htail : forall w2, RT n w0 w2 -> cur_label w2 = n ->
              wp (bind get (fun w' => when (is_terminated w') (on_terminated))) (fun r w' =>
                  RT n w0 w' /\ (is_err r -> fired w2 w') /\ (is_ok r -> cur_label w' = n)) w2).
    { intros w2 R2 L2. do 2 wp_prim. destruct (is_terminated w2) eqn:T2; cbn [when].
      - apply (on_terminated_F n); [exact T2 | apply R2|]. intros r3 w3 R3 F3.
        split; [eapply RT_trans; eauto|]. split; [intro X; apply F3; [exact I | exact X]|].
        intros _. destruct R3 as (_ & _ & _ & L3 & _). destruct L3 as [L3|[[L3 _]|L3]]; [congruence | | exact L3].
        destruct R2 as (_ & _ & _ & _ & _ & _ & X2 & _). cbn in X2. congruence.
      - wp_prim. split; [exact R2|]. split; [intros [] | intros _; exact L2]. }
    assert (Hafter_exit : forall w1, RT n w0 w1 -> cur_label w1 = cur_label w ->
              (transition_failing w = false -> is_terminated w1 = false) ->
              (forall r w', RT n w0 w' -> (body_ok w ns -> is_err r -> fired w1 w') -> (is_ok r -> cur_label w' = n) -> Q r w') ->
              wp (bind (enter_next rec_ctl ns) (fun r => bind (match r with
                        | Some s' => bind (exit_current s') (fun _ => bind (enter_next rec_ctl s') (fun _ => ret tt))
                        | None => ret tt end) (fun _ => bind get (fun w' => when (is_terminated w') on_terminated)))) Q w1).
    { intros w1 R1 L1 T1 HQ1.
      assert (X1 : transitioning w1 = true) by (destruct R1 as (_ & _ & _ & _ & _ & _ & X & _); exact X).
      assert (Hok1 : enter_ok w1 ns).
      { destruct (transition_failing w) eqn:Ef; [right; apply Hfl; reflexivity | left; apply T1; reflexivity]. }
      wp_prim. apply enter_next_spec; [exact Hrec | apply R1 | |].
      { destruct (transition_failing w) eqn:Ef; [right; rewrite (Hfl eq_refl); reflexivity | left; apply T1; reflexivity]. }
      intros r2 w2 R2 F2 Hre Hnone.
      pose proof (RT_trans _ _ _ _ R1 R2) as R02.
      destruct r2 as [[s'|]|e]; cbv beta iota.
      - (* re-routed *)
        destruct (Hre s' eq_refl) as (L2 & res & Ens & Es'). subst ns s'.
        do 2 wp_prim. apply (exit_current_spec n); [apply R2|]. intros r3 w3 R3 L3 F3 T3.
        pose proof (RT_trans _ _ _ _ R02 R3) as R03.
        destruct r3; cbv beta iota.
        2: { apply HQ1; [exact R03 | | intros []]. intros Hb _. eapply fired_mono; [exact (RT_q _ _ _ R2)|]. apply F3; [|exact I].
             destruct (transition_failing w) eqn:Ef; [discriminate (Hfl eq_refl)|]. destruct (Hb Ef) as (l & Hl & Ha).
             exists l. split; [congruence | exact Ha]. }
        wp_prim. apply enter_next_spec; [exact Hrec | apply R3 | left; apply T3; exact I |].
        intros r4 w4 R4 F4 Hre4 Hnone4. pose proof (RT_trans _ _ _ _ R03 R4) as R04.
        destruct r4 as [[s4|]|e4]; cbv beta iota.
        + destruct (Hre4 s4 eq_refl) as (_ & res4 & X & _). discriminate.
        + wp_prim. eapply wp_use; [apply (Htail w4 R04)|].
          * apply Hnone4; [reflexivity|]. destruct R3 as (_ & _ & _ & _ & _ & _ & X3 & _). destruct R2 as (_ & _ & _ & _ & _ & _ & X2 & _). congruence.
          * intros r5 w5 (R5 & F5 & L5). apply HQ1; [exact R5 | | exact L5]. intros _ He. eapply fired_mono; [|exact (F5 He)].
            intro X. apply R4. apply R3. apply R2. exact X.
        + apply HQ1; [exact R04 | | intros []]. intros _ _. eapply fired_mono; [|apply F4; [left; apply T3; exact I | exact I]].
          intro X. apply R3. apply R2. exact X.
      - do 2 wp_prim. eapply wp_use; [apply (Htail w2 R02); apply Hnone; [reflexivity | exact X1]|].
        intros r5 w5 (R5 & F5 & L5). apply HQ1; [exact R5 | | exact L5]. intros _ He. eapply fired_mono; [exact (RT_q _ _ _ R2) | exact (F5 He)].
      - apply HQ1; [exact R02 | | intros []]. intros _ _. apply F2; [exact Hok1 | exact I]. }
    change (transition_failing w0) with (transition_failing w). destruct (transition_failing w) eqn:Ef; cbn [negb when].
    - do 2 wp_prim. apply Hafter_exit; [apply RT_refl; exact Gw0 | reflexivity | discriminate |].
      intros r w' R F L. apply HQ; assumption.
    - wp_prim. apply (exit_current_spec n); [exact Gw0|]. intros r1 w1 R1 L1 F1 T1. destruct r1; cbv beta iota.
      2: { apply HQ; [exact R1 | | intros []]. intros Hb _. apply F1; [|exact I]. destruct (Hb Ef) as (l & Hl & Ha). exists l. split; assumption. }
      apply Hafter_exit; [exact R1 | exact L1 | intros _; apply T1; exact I|].
      intros r w' R F L. apply HQ; [exact R | | exact L]. intros Hb He. eapply fired_mono; [exact (RT_q _ _ _ R1) | exact (F Hb He)].
  Qed.
End Transition2.

Lemma GA0_flags w t f : GA0 w -> GA0 (w <| transition_failing := f |> <| transitioning := t |>).
Proof. intros (G1 & G2 & G3 & G5 & G6). repeat split; assumption. Qed.

Lemma cur_label_flags w t f : cur_label (w <| transition_failing := f |> <| transitioning := t |>) = cur_label w.
Proof. reflexivity. Qed.
Lemma cur_label_flags' w t f : cur_label (w <| transitioning := t |> <| transition_failing := f |>) = cur_label w.
Proof. reflexivity. Qed.

Section Transition3.
  Variable rec_ctl : ctl -> LM cret.
  Hypothesis Hrec : forall c, XK (rec_ctl c).

  (* the second transition, to EXCEPTED, made by the handler of the first: it skips the exit phase *)
  Lemma ttf_spec e w (Q : result unit -> world -> Prop) :
    GA0 w -> transitioning w = false -> transition_failing w = true ->
    (forall r w', GA w' -> cfg w' = cfg w -> (spent w -> spent w') -> t0 w' = t0 w -> stepping w' = stepping w ->
                  transitioning w' = false -> transition_failing w' = false ->
                  (cur_label w' = cur_label w \/ cur_label w' = Some LExcepted) ->
                  List.length (acts w) <= List.length (acts w') ->
                  (spent w -> is_ok r /\ cur_label w' = Some LExcepted) -> Q r w') ->
    wp (transition_to_failing rec_ctl (SExcepted e)) Q w.
  Proof.
    intros G0 Htr Hf HQ. unfold transition_to_failing. do 2 wp_prim. rewrite Htr. do 2 wp_prim.
    apply transition_body_spec; [exact Hrec | exact G0 | exact Htr | reflexivity |].
    intros r1 w1 R1 F1 L1.
    destruct R1 as (G1 & C1 & Q1 & Lb1 & T1 & S1 & X1 & Fl1 & N1). cbn in C1, T1, S1, X1, Fl1, N1.
    assert (Hlab : cur_label w1 = cur_label w \/ cur_label w1 = Some LExcepted).
    { destruct Lb1 as [L|[[L _]|L]]; [left; exact L | cbn in L; discriminate L | right; exact L]. }
    assert (Hfin : forall (r : result unit) (rr : result unit),
               (spent w -> is_ok r /\ cur_label w1 = Some LExcepted) ->
               Q r (w1 <| transition_failing := false |> <| transitioning := false |>)).
    { intros r rr Hq. apply HQ; try reflexivity; try assumption.
      split; [apply GA0_flags; apply G1 | reflexivity]. }
    assert (Hnq : is_err r1 -> ~ spent w).
    { intro He. apply (F1 (fun X => False_ind _ (eq_ind true (fun b => if b then True else False) I false (eq_trans (eq_sym Hf) X))) He). }
    destruct r1 as [u|e1]; cbv beta iota.
    - wp_prim. apply (Hfin (Ok u) (Ok u)). intros _. split; [exact I | apply L1; exact I].
    - do 3 wp_prim. apply (Hfin (Err e1) (Err e1)). intro Hq. exfalso. apply (Hnq I). exact Hq.
  Qed.

  Definition to_ok (w : world) (ns : pstate) : Prop :=
    transitioning w = false /\ exit_legal w ns /\ label_of ns <> LCreated.

  (* StateMachine.transition_to + Process.transition_failed *)
  Lemma transition_to_spec ns w (Q : result unit -> world -> Prop) :
    GA w ->
    (forall r w', RT (Some (label_of ns)) w w' ->
                  (to_ok w ns -> is_ok r /\ (cur_label w' = Some (label_of ns) \/ cur_label w' = Some LExcepted)) ->
                  (transitioning w = true -> cur_label w' = cur_label w) -> Q r w') ->
    wp (transition_to rec_ctl (Some ns)) Q w.
  Proof.
    intros G HQ. unfold transition_to. do 2 wp_prim. destruct (transitioning w) eqn:Htr.
    { wp_prim. apply HQ; [apply RT_refl; exact G | | reflexivity]. intros (X & _). congruence. }
    destruct G as [G0 G4]. pose proof (G4 Htr) as Hfl.
    set (n := Some (label_of ns)).
    do 2 wp_prim. apply transition_body_spec; [exact Hrec | exact G0 | exact Htr | congruence |].
    intros r1 w1 R1 F1 L1.
    destruct R1 as (G1 & C1 & Q1 & Lb1 & T1 & S1 & X1 & Fl1 & N1). cbn in C1, T1, S1, X1, Fl1, N1.
    assert (Hlab : cur_label w1 = cur_label w \/ cur_label w1 = n).
    { destruct Lb1 as [L|[[L _]|L]]; [left; exact L | cbn in L; discriminate L | right; exact L]. }
    destruct r1 as [u|e1]; cbv beta iota.
    - (* the transition went through *)
      wp_prim. apply HQ.
      + split; [split; [apply GA0_flags; apply G1 | reflexivity]|]. split; [exact C1|]. split; [exact Q1|].
        split; [destruct Hlab as [L|L]; [left; exact L | right; right; exact L]|]. cbn. repeat split; try congruence; try exact N1.
      + intros _. split; [exact I|]. left. apply L1. exact I.
      + discriminate.
    - (* it failed: transition_failed *)
      do 4 wp_prim. cbn [transition_failing set]. rewrite Fl1, Hfl. do 2 wp_prim.
      destruct (label_eqb (label_of ns) LCreated) eqn:Hcr.
      + do 2 wp_prim. apply HQ.
        * split; [split; [apply GA0_flags; apply G1 | reflexivity]|]. split; [exact C1|]. split; [exact Q1|].
          split; [destruct Hlab as [L|L]; [left; exact L | right; right; exact L]|]. cbn. repeat split; try congruence; try exact N1.
        * intros (_ & _ & X). exfalso. apply X. destruct (label_of ns); try discriminate. reflexivity.
        * discriminate.
      + apply ttf_spec; [apply GA0_flags; apply G1 | reflexivity | reflexivity |].
        intros r2 w2 G2 C2 Q2 T2 S2 X2 Fl2 Lb2 N2 Hq2. cbn in C2, T2, S2, N2. rewrite cur_label_flags' in Lb2. wp_prim.
        assert (Hqq : spent w -> spent w2) by (intro X; apply Q2; apply Q1; exact X).
        assert (R : RT n w (w2 <| transition_failing := false |> <| transitioning := false |>)).
        { split; [split; [apply GA0_flags; apply G2 | reflexivity]|]. split; [cbn; congruence|]. split; [exact Hqq|].
          split; [|cbn; repeat split; try congruence; lia].
          destruct Lb2 as [L|L].
          - destruct Hlab as [L'|L']; [left | right; right]; rewrite cur_label_flags; congruence.
          - right; left. split; [exact Htr|]. rewrite is_terminated_lbl, cur_label_flags, L. reflexivity. }
        assert (Hres : to_ok w ns -> is_ok r2 /\ cur_label w2 = Some LExcepted).
        { intros (_ & Hl & _). apply Hq2. assert (Hfd : fired w w1) by (apply F1; [intros _; exact Hl | exact I]). apply Hfd. }
        destruct r2; apply HQ; try exact R; try discriminate; intro X; destruct (Hres X) as [Y Z]; try (destruct Y); (split; [exact I | right; exact Z]).
  Qed.

  Lemma transition_to_XT ns : XT (option_map label_of ns) (transition_to rec_ctl ns).
  Proof.
    intros w Q G HQ. destruct ns as [ns|]; [|unfold transition_to; do 2 wp_prim; destruct (transitioning w); wp_prim; apply HQ; apply RT_refl; exact G].
    apply transition_to_spec; [exact G|]. intros r w' R _ _. apply HQ. exact R.
  Qed.
End Transition3.

(* ------------------------------------------------------------------ control level *)
Lemma hook_XT n name : XT n (hook name).
Proof. intros w Q G HQ. apply (hook_F n name w); [exact G|]. intros r w' R _. apply HQ. exact R. Qed.

Lemma pend_snoc w a x : pend w a -> pend (w <| acts := acts w ++ [x] |>) a.
Proof.
  intros (ac & Hg & Hp). exists ac. split; [|exact Hp]. unfold get_act in *. cbn.
  rewrite nth_error_snoc_old; [exact Hg|]. apply nth_error_Some. congruence.
Qed.

Lemma sia_from_XT n k c : XT n (set_interrupt_action_from k c).
Proof.
  intros w Q G HQ. unfold set_interrupt_action_from. do 4 wp_prim.
  set (w1 := w <| acts := acts w ++ [mk_act k c AfPending] |>).
  assert (G1 : GA w1).
  { destruct G as ((G1 & G2 & G3 & G5 & G6) & G4). split; [|exact G4]. repeat split; try assumption.
    intros a Ha. apply pend_snoc. apply G3. exact Ha. }
  assert (Hnew : pend w1 (List.length (acts w)) /\ intr w1 <> Some (List.length (acts w))).
  { split.
    - exists (mk_act k c AfPending). split; [|reflexivity]. unfold get_act, w1. cbn. apply nth_error_snoc_new.
    - intro X. destruct G as ((_ & _ & G3 & _) & _). destruct (G3 _ X) as (ac & Hg & _).
      apply get_act_lt in Hg. lia. }
  wp_prim. apply (sia_X n); [exact G1 | intros a Ha; injection Ha as <-; exact Hnew|].
  intros w2 R2 I2. cbv beta iota. wp_prim. apply HQ. eapply RT_trans; [|exact R2].
  apply leq_RT; [exact G | repeat split; auto; unfold w1; cbn; rewrite app_length; lia | apply G1].
Qed.

(* play() withdrawing a pause that has not taken effect: the action is cancelled and disarmed *)
Lemma cancel_disarm_XT n a : XT n (bind (cancel_act a) (fun _ => bind (modify (fun w => w <| pausing := None |>)) (fun _ => set_interrupt_action None))).
Proof.
  intros w Q G HQ.
  eapply wp_use; [apply (wp_conj _ (fun _ w' => leq w w') (fun _ w' => intr w' = None))|].
  - unfold set_interrupt_action, cancel_act, set_act_fut. repeat (wp_prim || wp_case); eeq_done.
  - unfold set_interrupt_action, cancel_act, set_act_fut. repeat (wp_prim || wp_case); reflexivity.
  - intros r w' [L I0]. apply HQ. apply leq_RT; [exact G | exact L|]. intros b Hb. congruence.
Qed.

Lemma to_K n w w' : RT n w w' -> (cur_label w' = n -> cur_label w' = cur_label w \/ (transitioning w = false /\ is_terminated w' = true)) -> RK w w'.
Proof.
  intros (G & C & Q & L & R) H. split; [exact G|]. split; [exact C|]. split; [exact Q|]. split; [|exact R].
  destruct L as [L|[L|L]]; [left; exact L | right; left; exact L|]. destruct (H L) as [X|X]; [left; exact X | right; left; exact X].
Qed.

Section Control.
  Variable rec_ctl : ctl -> LM cret.
  Hypothesis Hrec : forall c, XK (rec_ctl c).

  Lemma fire_XT n name : XT n (fire rec_ctl name).
  Proof. intros w Q G HQ. apply (fire_Tot rec_ctl Hrec n); [exact G|]. intros a w' R. apply HQ. exact R. Qed.

  Ltac xleaf :=
    first [ apply hook_XT | apply fire_XT | apply sia_from_XT | apply transition_to_XT; exact Hrec
          | apply FrX_XT; first [ apply fresh_FrX | apply schedule_FrX | apply state_interrupt_FrX | apply state_recall_FrX
                                | apply resume_FrX | (apply modify_FrX; intro; repeat split; auto) | (apply emit_FrX; reflexivity) ] ].
  Ltac xauto := repeat first [ xstep | xleaf ].

  Lemma do_pause_XT msg next : XT (option_map label_of next) (do_pause rec_ctl msg next).
  Proof.
    intros w. unfold do_pause. xstep; [|xauto].
    xstep; [destruct next; [apply transition_to_XT; exact Hrec | apply Xat_ret]|]. xauto.
  Qed.

  Lemma pause_XK msg : XK (pause rec_ctl msg).
  Proof. intros w. unfold pause. xauto. apply (do_pause_XT msg None). Qed.

  Lemma play_XK : XK (play rec_ctl).
  Proof.
    intros w. unfold play. xstep. xstep.
    - xauto.
    - xstep; [|xauto]. xstep; [|xauto]. xstep; [xauto | xstep; apply cancel_disarm_XT].
  Qed.

  Definition live_legal (w : world) (ns : pstate) : Prop := is_terminated w = false -> exit_legal w ns.

  Lemma live_to_terminal w ns :
    GA w -> is_terminated w = false -> label_of ns = LKilled \/ label_of ns = LExcepted -> exit_legal w ns.
  Proof.
    intros ((_ & _ & _ & G5 & _) & _) Ht Hl. rewrite is_terminated_lbl in Ht. destruct (cur_label w) as [l|] eqn:El; [|contradiction].
    exists l. split; [exact El|]. destruct l; cbn in Ht; try discriminate; destruct Hl as [-> | ->]; reflexivity.
  Qed.

  (* a transition to a terminal state made by a control call *)
  Lemma transition_terminal ns w (Q : result unit -> world -> Prop) :
    GA w -> terminal (label_of ns) = true ->
    (forall r w', RK w w' ->
                  (transitioning w = false -> exit_legal w ns -> is_ok r /\ (cur_label w' = Some (label_of ns) \/ cur_label w' = Some LExcepted)) ->
                  Q r w') ->
    wp (transition_to rec_ctl (Some ns)) Q w.
  Proof.
    intros G Ht HQ. apply transition_to_spec; [exact Hrec | exact G|]. intros r w' R Hok Hsame. apply HQ.
    - apply (to_K _ _ _ R). intro L. destruct (transitioning w) eqn:Etr; [left; apply Hsame; reflexivity | right].
      split; [reflexivity|]. rewrite is_terminated_lbl, L. exact Ht.
    - intros Htr Hl. apply Hok. split; [exact Htr|]. split; [exact Hl|]. destruct (label_of ns); try discriminate; cbn in Ht; discriminate.
  Qed.

  Definition must_return (c : ctl) : bool := match c with CKill _ | CFail _ => true | _ => false end.

  Lemma arm_total k setptr w :
    wp (bind fresh (fun iid => bind (set_interrupt_action_from k iid) (fun a =>
        bind (modify (setptr a)) (fun _ => bind (state_interrupt iid) (fun _ => ret (CrAction a))))))
       (fun r _ => is_ok r) w.
  Proof.
    unfold fresh, set_interrupt_action_from, set_interrupt_action, cancel_act, set_act_fut, state_interrupt, schedule.
    repeat (wp_prim || wp_case); exact I.
  Qed.

  Lemma arm_XT n k setptr : (forall a w, eeq w (setptr a w)) ->
    XT n (bind fresh (fun iid => bind (set_interrupt_action_from k iid) (fun a =>
        bind (modify (setptr a)) (fun _ => bind (state_interrupt iid) (fun _ => ret (CrAction a)))))).
  Proof.
    intros Hs w. xstep; [xleaf|]. xstep. xstep; [xleaf|]. xstep. xstep; [apply FrX_XT; apply modify_FrX; intro; apply Hs|]. xauto.
  Qed.

  Lemma kill_spec msg w (Q : result cret -> world -> Prop) :
    GA w -> (forall r w', RK w w' -> (transitioning w = false -> is_ok r) -> Q r w') -> wp (kill rec_ctl msg) Q w.
  Proof.
    intros G HQ. unfold kill. do 2 wp_prim.
    assert (Hret : forall c, wp (ret c) Q w) by (intro c; wp_prim; apply HQ; [apply RT_refl; exact G | intros _; exact I]).
    assert (Hmain : wp (if is_terminated w then ret (CrBool false) else
                        match killing w with
                        | Some a => ret (CrAction a)
                        | None => if stepping w
                                  then bind fresh (fun iid => bind (set_interrupt_action_from (KKill msg) iid) (fun a =>
                                       bind (modify (fun w => w <| killing := Some a |>)) (fun _ => bind (state_interrupt iid) (fun _ => ret (CrAction a)))))
                                  else bind (transition_to rec_ctl (Some (SKilled (Some msg)))) (fun _ => ret (CrBool true))
                        end) Q w).
    { destruct (is_terminated w) eqn:Et; [apply Hret|]. destruct (killing w); [apply Hret|]. destruct (stepping w).
      - eapply wp_use; [apply wp_conj; [apply (arm_XT None (KKill msg) (fun a w => w <| killing := Some a |>)); [intros; repeat split; auto | exact G | intros r w' R; exact R] | apply arm_total]|].
        intros r w' [R T]. apply HQ; [exact R | intros _; exact T].
      - wp_prim. apply transition_terminal; [exact G | reflexivity|]. intros r1 w1 R1 Hok. destruct r1; cbv beta iota.
        + wp_prim. apply HQ; [exact R1 | intros _; exact I].
        + apply HQ; [exact R1|]. intro Htr. destruct (Hok Htr) as [[] _]. apply live_to_terminal; [exact G | exact Et | left; reflexivity]. }
    destruct (st w) as [[]|]; try exact Hmain. apply Hret.
  Qed.

  Lemma fail_spec e w (Q : result cret -> world -> Prop) :
    GA w -> (forall r w', RK w w' -> (transitioning w = false -> is_ok r) -> Q r w') -> wp (fail rec_ctl e) Q w.
  Proof.
    intros G HQ. unfold fail. do 2 wp_prim. destruct (is_terminated w) eqn:Et.
    { wp_prim. apply HQ; [apply RT_refl; exact G | intros _; exact I]. }
    wp_prim. apply transition_terminal; [exact G | reflexivity|]. intros r1 w1 R1 Hok. destruct r1; cbv beta iota.
    2: { apply HQ; [exact R1|]. intro Htr. destruct (Hok Htr) as [[] _]. apply live_to_terminal; [exact G | exact Et | right; reflexivity]. }
    do 2 wp_prim. destruct (st w1) as [[]|] eqn:Es; wp_prim; apply HQ; try exact R1; try (intros _; exact I).
    all: intro Htr; exfalso; destruct (Hok Htr) as [_ [L|L]]; try (apply live_to_terminal; [exact G | exact Et | right; reflexivity]);
      unfold cur_label in L; rewrite Es in L; discriminate.
  Qed.

  Lemma ctl_body_spec c w (Q : result cret -> world -> Prop) :
    GA w -> (forall r w', RK w w' -> (transitioning w = false -> must_return c = true -> is_ok r) -> Q r w') -> wp (ctl_body rec_ctl c) Q w.
  Proof.
    intros G HQ. destruct c; cbn [ctl_body].
    - apply pause_XK; [exact G|]. intros r w' R. apply HQ; [exact R | discriminate].
    - apply play_XK; [exact G|]. intros r w' R. apply HQ; [exact R | discriminate].
    - apply kill_spec; [exact G|]. intros r w' R T. apply HQ; [exact R | intros X _; apply T; exact X].
    - apply (FrX_XT None _ (resume_FrX v)); [exact G|]. intros r w' R. apply HQ; [exact R | discriminate].
    - apply fail_spec; [exact G|]. intros r w' R T. apply HQ; [exact R | intros X _; apply T; exact X].
    - wp_prim. apply HQ; [apply RT_refl; exact G | discriminate].
  Qed.
End Control.

(* ------------------------------------------------------------------ the knot of re-entrancy *)
Lemma do_ctl_spec fuel : forall c w (Q : result cret -> world -> Prop),
  GA w ->
  (forall r w', RK w w' -> (fuel <> 0 -> transitioning w = false -> must_return c = true -> is_ok r) -> Q r w') ->
  wp (do_ctl fuel c) Q w.
Proof.
  induction fuel as [|f IH]; intros c w Q G HQ; cbn [do_ctl].
  - wp_prim. apply HQ; [apply RT_refl; exact G | intro X; contradiction].
  - apply ctl_body_spec; [|exact G|].
    + intros c' w' Q' G' HQ'. apply IH; [exact G'|]. intros r w'' R _. apply HQ'. exact R.
    + intros r w' R T. apply HQ; [exact R | intros _; exact T].
Qed.

Lemma do_ctl_XK fuel c : XK (do_ctl fuel c).
Proof. intros w Q G HQ. apply do_ctl_spec; [exact G|]. intros r w' R _. apply HQ. exact R. Qed.

Lemma ctl_call_spec c w (Q : result cret -> world -> Prop) :
  GA w -> (forall r w', RK w w' -> (transitioning w = false -> must_return c = true -> is_ok r) -> Q r w') -> wp (ctl_call c) Q w.
Proof.
  intros G HQ. unfold ctl_call. apply do_ctl_spec; [exact G|]. intros r w' R T. apply HQ; [exact R|]. apply T. discriminate.
Qed.

Lemma ctl_observed_spec c w (Q : result cret -> world -> Prop) :
  GA w -> (forall x w', RK w w' -> Q (Ok x) w') -> wp (ctl_observed c) Q w.
Proof.
  intros G HQ. unfold ctl_observed. do 2 wp_prim. apply ctl_call_spec; [exact G|]. intros r w' R _. wp_prim. apply HQ. exact R.
Qed.

Lemma transition_spec ns w (Q : result unit -> world -> Prop) :
  GA w ->
  (forall r w', RT (Some (label_of ns)) w w' ->
                (to_ok w ns -> is_ok r /\ (cur_label w' = Some (label_of ns) \/ cur_label w' = Some LExcepted)) -> Q r w') ->
  wp (transition (Some ns)) Q w.
Proof.
  intros G HQ. unfold transition. apply transition_to_spec; [intro; apply do_ctl_XK | exact G|]. intros r w' R H _. apply HQ; assumption.
Qed.

Lemma put_Xat n w w' : eeq w w' -> Xat n (put w') w.
Proof. intros E Q G HQ. wp_prim. apply HQ. apply eeq_RT; assumption. Qed.

Lemma do_out_XK path v : XK (do_out path v).
Proof.
  intros w. unfold do_out. xstep. xstep; [xstep|]. xstep; [apply hook_XT|]. xstep. xstep. xstep; [apply put_Xat; repeat split; auto|].
  xstep. xstep; [xstep|]. destruct p as [outs' dyn].
  xstep; [apply FrX_XT; apply modify_FrX; intro; repeat split; auto|]. xstep.
  xstep; [apply FrX_XT; apply emit_FrX; reflexivity|]. xstep. apply fire_XT. intro; apply do_ctl_XK.
Qed.

(* ------------------------------------------------------------------ step level: outside transitions, total up to fuel *)
(* the stepping task has not failed (other than by running out of fuel) *)
Definition nf (w : world) : Prop := match t0 w with PcFailed e => e = EOutOfFuel | _ => True end.

Definition OPre (w : world) : Prop := GA w /\ transitioning w = false /\ nf w.
Definition lbl_stable (w w' : world) : Prop := is_terminated w' = true \/ cur_label w' = cur_label w.
Definition RO (w w' : world) : Prop := GA w' /\ transitioning w' = false /\ nf w' /\ lbl_stable w w'.

Lemma lbl_stable_trans a b c : lbl_stable a b -> lbl_stable b c -> lbl_stable a c.
Proof.
  unfold lbl_stable. rewrite !is_terminated_lbl. intros H1 [H2|H2]; [left; exact H2|]. rewrite H2. exact H1.
Qed.

Lemma RO_refl w : OPre w -> RO w w.
Proof. intros (G & T & N). split; [exact G|]. split; [exact T|]. split; [exact N | right; reflexivity]. Qed.
Lemma RO_trans a b c : RO a b -> RO b c -> RO a c.
Proof. intros (_ & _ & _ & L1) (G2 & T2 & N2 & L2). split; [exact G2|]. split; [exact T2|]. split; [exact N2 | eapply lbl_stable_trans; eauto]. Qed.
Lemma RO_pre a b : RO a b -> OPre b.
Proof. intros (G & T & N & _). split; [exact G | split; assumption]. Qed.

Lemma RK_RO w w' : OPre w -> RK w w' -> RO w w'.
Proof.
  intros (_ & T & N) (G & _ & _ & L & T0 & _ & X & _). split; [exact G|]. split; [congruence|]. split; [unfold nf in *; rewrite T0; exact N|].
  destruct L as [L|[[_ L]|L]]; [right; exact L | left; exact L|]. destruct G as ((_ & _ & _ & G5 & _) & _). contradiction.
Qed.

(* frames that may move the program counter (but not to "failed") *)
Definition oeq (w w' : world) : Prop :=
  cfg w' = cfg w /\ cur_label w' = cur_label w /\ stepping w' = stepping w /\ intr w' = intr w /\ acts w' = acts w
  /\ pfut w' = pfut w /\ closed w' = closed w /\ transitioning w' = transitioning w
  /\ transition_failing w' = transition_failing w /\ occ w' = occ w
  /\ (errs_ok (trace w) -> errs_ok (trace w')) /\ (nf w -> nf w').

Lemma oeq_refl w : oeq w w.
Proof. repeat split; auto. Qed.
Lemma oeq_trans a b c : oeq a b -> oeq b c -> oeq a c.
Proof.
  intros (A1 & A2 & A3 & A4 & A5 & A6 & A7 & A8 & A9 & A11 & A12 & A13) (B1 & B2 & B3 & B4 & B5 & B6 & B7 & B8 & B9 & B11 & B12 & B13).
  repeat split; try congruence; auto.
Qed.
Lemma oeq_GA w w' : oeq w w' -> GA w -> GA w'.
Proof.
  intros (A1 & A2 & A3 & A4 & A5 & A6 & A7 & A8 & A9 & A11 & A12 & A13) ((G1 & G2 & G3 & G5 & G6) & G4).
  unfold GA, GA0, pend, get_act. rewrite !is_terminated_lbl in *. rewrite A2, A4, A5, A6, A7, A8, A9. repeat split; auto.
Qed.
Lemma oeq_RO w w' : OPre w -> oeq w w' -> RO w w'.
Proof.
  intros (G & T & N) E. split; [eapply oeq_GA; eauto|]. destruct E as (A1 & A2 & A3 & A4 & A5 & A6 & A7 & A8 & A9 & A11 & A12 & A13).
  split; [congruence|]. split; [auto | right; exact A2].
Qed.
Lemma eeq_oeq w w' : eeq w w' -> oeq w w'.
Proof.
  intros (A1 & A2 & A3 & A4 & A5 & A6 & A7 & A8 & A9 & A10 & A11 & A12). repeat split; try assumption.
  unfold nf. rewrite A10. auto.
Qed.

Definition Oat {A} (m : LM A) (w : world) : Prop :=
  forall Q : result A -> world -> Prop, OPre w -> (forall a w', RO w w' -> Q (Ok a) w') -> wp m Q w.

Definition FrO {A} (m : LM A) : Prop :=
  forall w (Q : result A -> world -> Prop), (forall a w', oeq w w' -> Q (Ok a) w') -> wp m Q w.
Lemma FrO_Oat {A} (m : LM A) w : FrO m -> Oat m w.
Proof. intros H Q P HQ. apply H. intros a w' E. apply HQ. apply oeq_RO; assumption. Qed.
Ltac fro_auto := intros w Q HQ; repeat (wp_prim || wp_case); apply HQ; eeq_done.

Lemma Oat_bind {A B} (m : LM A) (f : A -> LM B) w : Oat m w -> (forall a w1, Oat (f a) w1) -> Oat (bind m f) w.
Proof.
  intros Hm Hf Q P HQ. wp_prim. apply Hm; [exact P|]. intros a w1 R1. cbv beta iota.
  apply Hf; [eapply RO_pre; eauto|]. intros b w2 R2. apply HQ. eapply RO_trans; eauto.
Qed.
Lemma Oat_ret {A} (a : A) w : Oat (ret a) w.
Proof. intros Q P HQ. wp_prim. apply HQ. apply RO_refl. exact P. Qed.

(* the target computed by a step is a legal successor of the current state (or the process has terminated meanwhile) *)
Definition legal (w : world) (next : option pstate) : Prop :=
  match next with
  | None => True
  | Some ns => is_terminated w = true \/ (exit_legal w ns /\ label_of ns <> LCreated)
  end.

Definition run_or_term (w : world) : Prop := is_terminated w = true \/ cur_label w = Some LRunning.
Definition T3 (w : world) : Prop := match t0 w with PcInStep _ _ _ => run_or_term w | _ => True end.

Lemma legal_always w ns :
  cur_label w <> None -> (label_of ns = LRunning \/ label_of ns = LExcepted \/ label_of ns = LKilled) -> legal w (Some ns).
Proof.
  intros H5 Hl. unfold legal. rewrite is_terminated_lbl. destruct (cur_label w) as [l|] eqn:El; [|contradiction].
  cbn [lbl_term]. destruct (terminal l) eqn:Tl; [left; reflexivity|]. right. split.
  - exists l. split; [exact El|]. destruct l; try discriminate Tl; destruct Hl as [->|[->| ->]]; reflexivity.
  - destruct Hl as [->|[->| ->]]; discriminate.
Qed.

Lemma legal_from_running w ns : run_or_term w -> label_of ns <> LCreated -> legal w (Some ns).
Proof.
  intros [Ht|Hr] Hn; [left; exact Ht|]. right. split; [|exact Hn]. exists LRunning. split; [exact Hr|].
  destruct (label_of ns); try reflexivity. contradiction.
Qed.

Lemma legal_stable w w' next : lbl_stable w w' -> legal w next -> legal w' next.
Proof.
  intros [L|L] H; destruct next as [ns|]; try exact I; [left; exact L|].
  destruct H as [H|[(l & Hl & Ha) Hn]]; [left; rewrite (term_lbl _ _ L); exact H|].
  right. split; [exists l; split; [congruence | exact Ha] | exact Hn].
Qed.

Lemma run_or_term_stable w w' : lbl_stable w w' -> run_or_term w -> run_or_term w'.
Proof.
  intros [L|L] [H|H]; [left; exact L | left; exact L | left; rewrite (term_lbl _ _ L); exact H | right; congruence].
Qed.

Definition okpc (p : pc) : Prop := match p with PcFailed e => e = EOutOfFuel | _ => True end.
Lemma set_t0_FrO p : okpc p -> FrO (set_t0 p).
Proof. intros Hp w Q HQ. unfold set_t0. wp_prim. apply HQ. repeat split; auto. Qed.
Lemma schedule_FrO r : FrO (schedule r). Proof. unfold schedule. fro_auto. Qed.
Lemma emit_FrO e : ev_ok e = true -> FrO (emit e).
Proof. intros He w Q HQ. unfold emit. wp_prim. apply HQ. repeat split; try reflexivity; [intro H; apply errs_ok_snoc; assumption | exact (fun H => H)]. Qed.

Lemma K_Oat {A} (m : LM A) w : XK m -> Oat (attempt m) w.
Proof. intros H Q P HQ. wp_prim. apply H; [apply P|]. intros r w' R. apply HQ. apply RK_RO; assumption. Qed.

Lemma run_actions_O acts r : forall w, Oat (run_actions acts r) w.
Proof.
  induction acts as [|a rest IH]; intro w; cbn [run_actions]; [apply Oat_ret|].
  destruct a.
  - apply Oat_bind; [apply K_Oat; apply do_out_XK|]. intros [u|e] w1; [apply IH | apply Oat_ret].
  - apply Oat_bind; [apply FrO_Oat; apply schedule_FrO|]. intros _ w1. apply Oat_bind; [apply FrO_Oat; apply set_t0_FrO; exact I|]. intros _ w2. apply Oat_ret.
  - intros Q P HQ. do 2 wp_prim. destruct (find (fun kw => Nat.eqb (fst kw) k) (exts w)) as [[k' wk]|].
    + destruct wk; first [apply IH; assumption | apply Oat_ret; assumption].
    + apply (Oat_bind (set_t0 _) _ w); [apply FrO_Oat; apply set_t0_FrO; exact I | intros _ w2; apply Oat_ret | exact P | exact HQ].
  - intros Q P HQ. wp_prim. apply ctl_observed_spec; [apply P|]. intros x w1 R1. cbv beta iota.
    pose proof (RK_RO _ _ P R1) as O1. wp_prim. apply emit_FrO; [reflexivity|]. intros _ w2 E2. cbv beta iota.
    pose proof (RO_trans _ _ _ O1 (oeq_RO _ _ (RO_pre _ _ O1) E2)) as O2.
    apply IH; [eapply RO_pre; eauto|]. intros o w3 O3. apply HQ. eapply RO_trans; eauto.
  - apply Oat_bind; [apply FrO_Oat; apply schedule_FrO|]. intros _ w1. apply IH.
  - intros Q P HQ. do 2 wp_prim. apply (Oat_bind (emit _) _ w); [apply FrO_Oat; apply emit_FrO; reflexivity | intros _ w1; apply IH | exact P | exact HQ].
  - apply Oat_bind; [|intros _ w1; apply IH]. apply FrO_Oat. intros w0 Q HQ. wp_prim. apply HQ. repeat split; auto.
Qed.

Lemma after_run_fn_O o w : Oat (after_run_fn o) w.
Proof.
  apply FrO_Oat. unfold after_run_fn, fresh. intros w0 Q HQ. destruct o; repeat (wp_prim || wp_case); apply HQ; eeq_done.
Qed.

Definition xo_ok (x : exec_out) (w : world) : Prop :=
  match x with XoNext next => legal w next | XoSuspended => T3 w | _ => True end.

Lemma after_waiting_spec fn awaited wk w (Q : result exec_out -> world -> Prop) :
  cur_label w <> None ->
  (forall x w', oeq w w' -> xo_ok x w' -> Q (Ok x) w') -> wp (after_waiting fn awaited wk) Q w.
Proof.
  intros G5 HQ. unfold after_waiting, after_waiting_once, await_current, fresh, set_t0'.
  repeat (wp_prim || wp_case); apply HQ; try (eeq_done; fail); try exact I.
  all: try (apply legal_always; [first [exact G5 | (unfold cur_label; cbn; repeat match goal with H : st _ = _ |- _ => cbn in H; rewrite H end; discriminate) | (unfold cur_label; cbn; discriminate)] | left; reflexivity]).
Qed.

Lemma command_state_label r wid ns : command_state r wid = inr ns -> label_of ns <> LCreated.
Proof. destruct r; cbn; intro H; try discriminate H; injection H as <-; discriminate. Qed.

Lemma T3_of_rot w : run_or_term w -> T3 w.
Proof. intro H. unfold T3. destruct (t0 w); try exact I. exact H. Qed.

Lemma GA_lbl w : GA w -> cur_label w <> None.
Proof. intros ((_ & _ & _ & G5 & _) & _). exact G5. Qed.

Lemma after_run_fn_spec o w (Q : result exec_out -> world -> Prop) :
  OPre w -> run_or_term w ->
  (forall x w', RO w w' -> xo_ok x w' -> Q (Ok x) w') -> wp (after_run_fn o) Q w.
Proof.
  intros P Hr HQ. unfold after_run_fn, fresh. destruct o as [r| |e].
  - repeat wp_prim. match goal with |- wp _ _ ?wx => assert (E : oeq w wx) by eeq_done; generalize dependent wx end. intros w1 E.
    pose proof (oeq_RO _ _ P E) as R1.
    destruct (command_state r (next_id w)) as [e|ns] eqn:Hc; wp_prim; (apply HQ; [exact R1|]).
    + apply legal_always; [apply GA_lbl; apply R1 | right; left; reflexivity].
    + apply legal_from_running; [eapply run_or_term_stable; [apply R1 | exact Hr] | eapply command_state_label; eauto].
  - wp_prim. apply HQ; [apply RO_refl; exact P | apply T3_of_rot; exact Hr].
  - wp_prim. apply HQ; [apply RO_refl; exact P | apply legal_always; [apply GA_lbl; apply P | right; left; reflexivity]].
Qed.

Lemma execute_state_spec w (Q : result exec_out -> world -> Prop) :
  OPre w -> (forall x w', RO w w' -> xo_ok x w' -> Q (Ok x) w') -> wp execute_state Q w.
Proof.
  intros P HQ. unfold execute_state. do 2 wp_prim. pose proof (GA_lbl _ (proj1 P)) as G5.
  destruct (st w) as [cur|] eqn:Hst; [|exfalso; apply G5; unfold cur_label; rewrite Hst; reflexivity].
  destruct cur.
  - wp_prim. apply HQ; [apply RO_refl; exact P | apply legal_always; [exact G5 | left; reflexivity]].
  - wp_prim. apply emit_FrO; [reflexivity|]. intros _ w1 E1. cbv beta iota.
    pose proof (oeq_RO _ _ P E1) as R1.
    assert (Hr1 : run_or_term w1).
    { right. destruct E1 as (_ & E1 & _). rewrite E1. unfold cur_label. rewrite Hst. reflexivity. }
    destruct (lookup_script w fn).
    + wp_prim. apply run_actions_O; [eapply RO_pre; eauto|]. intros o w2 R2. cbv beta iota.
      apply after_run_fn_spec; [eapply RO_pre; eauto | eapply run_or_term_stable; [apply R2 | exact Hr1]|].
      intros x w3 R3 X3. apply HQ; [eapply RO_trans; [exact R1|]; eapply RO_trans; eauto | exact X3].
    + wp_prim. apply HQ; [exact R1 | apply legal_always; [apply GA_lbl; apply R1 | right; left; reflexivity]].
  - destruct wf.
    + unfold set_t0. do 3 wp_prim. apply HQ; [apply oeq_RO; [exact P | eeq_done] | exact I].
    + apply after_waiting_spec; [exact G5|]. intros x w1 E1 X1. apply HQ; [apply oeq_RO; assumption | exact X1].
  - wp_prim. apply HQ; [apply RO_refl; exact P | exact I].
  - wp_prim. apply HQ; [apply RO_refl; exact P | exact I].
  - wp_prim. apply HQ; [apply RO_refl; exact P | exact I].
Qed.

(* ------------------------------------------------------------------ the end of a step *)
(* after an interrupt action has been run, the pointer still names it (done): [ran] *)
Definition GAr (ran : option nat) (w : world) : Prop :=
  (is_terminated w = false -> pfut w = PfPending) /\ (closed w = true -> is_terminated w = true)
  /\ (forall b, intr w = Some b -> ran = Some b \/ pend w b)
  /\ cur_label w <> None /\ errs_ok (trace w)
  /\ (transitioning w = false -> transition_failing w = false).

Lemma GA_GAr ran w : GA w -> GAr ran w.
Proof. intros ((G1 & G2 & G3 & G5 & G6) & G4). repeat split; auto. Qed.

Lemma GAr_GA ran a w : GAr ran w -> intr w = Some a -> ran <> Some a -> GA w.
Proof.
  intros (G1 & G2 & G3 & G5 & G6 & G4) Hi Hn. split; [|exact G4]. repeat split; auto.
  intros b Hb. destruct (G3 b Hb) as [X|X]; [|exact X]. congruence.
Qed.

Lemma GAr_disarmed ran w w' : GAr ran w -> leq w w' -> intr w' = None -> GA w'.
Proof.
  intros (G1 & G2 & G3 & G5 & G6 & G4) (A1 & A2 & A3 & A6 & A7 & A8 & A9 & A10 & A11 & A12 & A13) Hi.
  split; [|rewrite A8, A9; exact G4]. repeat split.
  - rewrite is_terminated_lbl, A2, A6, <- is_terminated_lbl. exact G1.
  - rewrite is_terminated_lbl, A2, A7, <- is_terminated_lbl. exact G2.
  - intros b Hb. congruence.
  - rewrite A2. exact G5.
  - auto.
Qed.

Lemma transition_XT ns : XT (option_map label_of ns) (transition ns).
Proof. unfold transition. apply transition_to_XT. intro c. apply do_ctl_XK. Qed.

Lemma do_pause_top_XT msg next : XT (option_map label_of next) (do_pause (do_ctl reent_fuel) msg next).
Proof. apply do_pause_XT. intro c. apply do_ctl_XK. Qed.

Lemma do_pause_deferred_X msg next w (Q : result bool -> world -> Prop) :
  GA w -> (forall r w', (exists n, RT n w w') -> Q r w') -> wp (do_pause_deferred msg next) Q w.
Proof.
  intros G HQ. unfold do_pause_deferred. do 2 wp_prim.
  assert (Hold : wp (do_pause (do_ctl reent_fuel) msg next) Q w).
  { apply do_pause_top_XT; [exact G|]. intros r w' R. apply HQ. eexists; exact R. }
  destruct next as [ns|]; [|exact Hold]. destruct (pausing w) as [a'|]; [|exact Hold].
  assert (H : Xat (Some (label_of ns)) (finally (bind (transition (Some ns)) (fun _ => bind get (fun w1 =>
                if match pausing w1 with Some b => Nat.eqb a' b | None => false end
                then do_pause (do_ctl reent_fuel) msg None else ret false)))
              (modify (fun w => w <| pausing := None |>))) w).
  { xstep; [|apply FrX_XT; apply modify_FrX; intro; repeat split; auto].
    xstep; [apply (transition_XT (Some ns))|]. xstep. xstep. xstep; [|xstep].
    apply (XK_XT (Some (label_of ns))). apply (do_pause_top_XT msg None). }
  apply H; [exact G|]. intros r w' R. apply HQ. eexists; exact R.
Qed.

Lemma action_body_X k next w (Q : result bool -> world -> Prop) :
  GA w -> (forall r w', (exists n, RT n w w') -> Q r w') ->
  wp (match k with
      | KPause msg => do_pause_deferred msg next
      | KKill msg => finally (match next with
                              | Some (SExcepted e) => bind (transition next) (fun _ => ret false)
                              | _ => bind (transition (Some (SKilled (Some msg)))) (fun _ => ret true)
                              end)
                             (modify (fun w => w <| killing := None |>))
      end) Q w.
Proof.
  intros G HQ. destruct k as [msg|msg].
  - apply do_pause_deferred_X; assumption.
  - assert (Hm : forall n, XT n (modify (fun w => w <| killing := None |>))) by (intro n; apply FrX_XT; apply modify_FrX; intro; repeat split; auto).
    assert (Hk : Xat (Some LKilled) (finally (bind (transition (Some (SKilled (Some msg)))) (fun _ => ret true)) (modify (fun w => w <| killing := None |>))) w).
    { xstep; [|apply Hm]. xstep; [apply (transition_XT (Some (SKilled (Some msg)))) | xstep; xstep]. }
    destruct next as [[]|]; try (apply Hk; [exact G|]; intros r w' R; apply HQ; eexists; exact R).
    assert (He : Xat (Some LExcepted) (finally (bind (transition (Some (SExcepted e))) (fun _ => ret false)) (modify (fun w => w <| killing := None |>))) w).
    { xstep; [|apply Hm]. xstep; [apply (transition_XT (Some (SExcepted e))) | xstep; xstep]. }
    apply He; [exact G|]. intros r w' R. apply HQ. eexists; exact R.
Qed.

Lemma run_action_spec id next w (Q : result unit -> world -> Prop) :
  GA w -> transitioning w = false -> pend w id ->
  (forall w', GAr (Some id) w' -> transitioning w' = false -> t0 w' = t0 w -> Q (Ok tt) w') -> wp (run_action id next) Q w.
Proof.
  intros G T (ac & Hg & Hp) HQ. unfold run_action. do 2 wp_prim. rewrite Hg, Hp. do 2 wp_prim.
  apply action_body_X; [exact G|]. intros r w1 [n R1]. do 2 wp_prim.
  destruct R1 as (G1 & _ & _ & _ & T01 & _ & X1 & _ & N1).
  assert (Hlt : id < List.length (acts w1)) by (apply get_act_lt in Hg; lia).
  destruct (get_act w1 id) as [a'|] eqn:Hg1.
  2: { exfalso. unfold get_act in Hg1. apply nth_error_None in Hg1. lia. }
  assert (Hdone : Q (Ok tt) w1) by (apply HQ; [apply GA_GAr; exact G1 | congruence | exact T01]).
  destruct (a_fut a'); try (wp_prim; exact Hdone).
  unfold set_act_fut. wp_prim. apply HQ; [| cbn; congruence | exact T01].
  destruct G1 as ((H1 & H2 & H3 & H5 & H6) & H4). repeat split; try assumption.
  intros b Hb. cbn in Hb. destruct (Nat.eq_dec b id) as [->|Hne]; [left; reflexivity | right].
  apply pend_upd_other; [exact Hne | apply H3; exact Hb].
Qed.

Lemma run_armed_spec fuel : forall ran w (Q : result unit -> world -> Prop),
  GAr ran w -> transitioning w = false ->
  (forall r w', (exists ran', GAr ran' w') -> transitioning w' = false -> t0 w' = t0 w -> okf r -> Q r w') ->
  wp (run_armed fuel ran) Q w.
Proof.
  induction fuel as [|f IH]; intros ran w Q G T HQ; cbn [run_armed].
  - wp_prim. apply HQ; [eexists; exact G | exact T | reflexivity | reflexivity].
  - do 2 wp_prim.
    assert (Hret : wp (ret tt) Q w) by (wp_prim; apply HQ; [eexists; exact G | exact T | reflexivity | exact I]).
    destruct (is_terminated w); [exact Hret|]. destruct (intr w) as [a|] eqn:Hi; [|exact Hret].
    destruct (match ran with Some b => Nat.eqb a b | None => false end) eqn:Hsame; [exact Hret|].
    assert (Hne : ran <> Some a).
    { intro X. subst ran. rewrite Nat.eqb_refl in Hsame. discriminate. }
    pose proof (GAr_GA _ _ _ G Hi Hne) as G'.
    wp_prim. apply run_action_spec; [exact G' | exact T | apply G'; exact Hi|].
    intros w1 G1 T1 T01. cbv beta iota. apply IH; [exact G1 | exact T1|].
    intros r w2 G2 T2 T02 Hr. apply HQ; [exact G2 | exact T2 | congruence | exact Hr].
Qed.

Lemma GA_stepping w b : GA w -> GA (w <| stepping := b |>).
Proof. intros ((G1 & G2 & G3 & G5 & G6) & G4). split; [repeat split; assumption | exact G4]. Qed.

Lemma OPre_of_RT n w w' : OPre w -> RT n w w' -> OPre w'.
Proof.
  intros (_ & T & N) (G & _ & _ & _ & T0 & _ & X & _). split; [exact G|]. split; [congruence|]. unfold nf in *. rewrite T0. exact N.
Qed.

Lemma lbl_stable_K w w' : transitioning w = false -> RK w w' -> lbl_stable w w'.
Proof.
  intros T (G & _ & _ & L & _). destruct L as [L|[[_ L]|L]]; [right; exact L | left; exact L|].
  destruct G as ((_ & _ & _ & G5 & _) & _). contradiction.
Qed.

Lemma sia_from_total k c w : wp (set_interrupt_action_from k c) (fun r _ => is_ok r) w.
Proof. unfold set_interrupt_action_from, set_interrupt_action, cancel_act, set_act_fut. repeat (wp_prim || wp_case); exact I. Qed.

(* step(), after the state's execute came back *)
Lemma finish_step_spec x w (Q : result unit -> world -> Prop) :
  OPre w -> (forall next, x = XoNext next -> legal w next) ->
  (forall r w', OPre w' -> okf r -> Q r w') -> wp (finish_step x) Q w.
Proof.
  intros P Hleg HQ. unfold finish_step. wp_prim.
  (* the finally part *)
  assert (Hfin : forall (r : result unit) ran w2, GAr ran w2 -> transitioning w2 = false -> nf w2 -> okf r ->
            wp (bind (modify (fun w => w <| stepping := false |>)) (fun _ => set_interrupt_action None))
               (fun r2 s'' => match r2 with Ok _ => Q r s'' | Err e => Q (Err e) s'' end) w2).
  { intros r ran w2 G2 T2 N2 Hr. do 2 wp_prim.
    set (w3 := w2 <| stepping := false |>).
    assert (G3 : GAr ran w3) by exact G2.
    eapply wp_use; [apply wp_conj; [apply (sia_FrL None w3 (fun r w' => leq w3 w')); auto | apply (sia_fun None w3 (fun r w' => r = Ok tt /\ intr w' = None)); auto]|].
    intros r4 w4 [L4 [-> I4]]. apply HQ; [|exact Hr].
    split; [eapply GAr_disarmed; eauto|]. destruct L4 as (_ & _ & _ & _ & _ & X & _ & T04 & _). split; [rewrite X; exact T2|].
    unfold nf in *. rewrite T04. exact N2. }
  (* run the armed action or make the transition *)
  assert (Hmid : forall next w1, OPre w1 -> legal w1 next ->
            wp (bind get (fun w => if is_terminated w then ret tt
                                   else match intr w with
                                        | Some a => bind (run_action a next) (fun _ => run_armed armed_fuel (Some a))
                                        | None => bind (transition next) (fun _ => run_armed armed_fuel None)
                                        end))
               (fun r s' => wp (bind (modify (fun w => w <| stepping := false |>)) (fun _ => set_interrupt_action None))
                               (fun r2 s'' => match r2 with Ok _ => Q r s'' | Err e => Q (Err e) s'' end) s') w1).
  { intros next w1 (G1 & T1 & N1) L1. do 2 wp_prim. destruct (is_terminated w1) eqn:Et.
    { wp_prim. apply (Hfin (Ok tt) None); [apply GA_GAr; exact G1 | exact T1 | exact N1 | exact I]. }
    assert (Harm : forall ran w2, GAr ran w2 -> transitioning w2 = false -> nf w2 ->
              wp (run_armed armed_fuel ran)
                 (fun r s' => wp (bind (modify (fun w => w <| stepping := false |>)) (fun _ => set_interrupt_action None))
                               (fun r2 s'' => match r2 with Ok _ => Q r s'' | Err e => Q (Err e) s'' end) s') w2).
    { intros ran w2 G2 T2 N2. apply run_armed_spec; [exact G2 | exact T2|]. intros r w3 [ran' G3] T3' T03 Hr.
      apply (Hfin r ran'); [exact G3 | exact T3' | unfold nf in *; rewrite T03; exact N2 | exact Hr]. }
    destruct (intr w1) as [a|] eqn:Hi.
    - wp_prim. apply run_action_spec; [exact G1 | exact T1 | apply G1; exact Hi|]. intros w2 G2 T2 T02. cbv beta iota.
      apply Harm; [exact G2 | exact T2 | unfold nf in *; rewrite T02; exact N1].
    - wp_prim. destruct next as [ns|].
      + apply transition_spec; [exact G1|]. intros r w2 R2 Hok.
        assert (P2 : OPre w2) by (eapply OPre_of_RT; [|exact R2]; split; [exact G1 | split; assumption]).
        destruct L1 as [L1|[L1 L1']]; [congruence|]. destruct (Hok (conj T1 (conj L1 L1'))) as [Hr _].
        destruct r; [|destruct Hr]. cbv beta iota. apply Harm; [apply GA_GAr; apply P2 | apply P2 | apply P2].
      + unfold transition, transition_to. do 2 wp_prim. rewrite T1. wp_prim. cbv beta iota.
        apply Harm; [apply GA_GAr; exact G1 | exact T1 | exact N1]. }
  wp_prim. destruct x as [next| |iid|e].
  - wp_prim. cbv beta iota. apply Hmid; [exact P | apply Hleg; reflexivity].
  - wp_prim. cbv beta iota. apply Hmid; [exact P | exact I].
  - do 3 wp_prim. cbv zeta.
    match goal with |- wp (if ?k then _ else _) _ _ => destruct k end.
    + do 2 wp_prim. apply Hmid; [exact P | exact I].
    + destruct (find (fun ac => Nat.eqb (a_cookie ac) iid) (acts w)).
      * wp_prim. eapply wp_use; [apply wp_conj; [apply (sia_from_XT None (a_kind a) iid w (fun r w1 => RK w w1)); [apply P | auto] | apply sia_from_total]|].
        intros r w1 [R1 Hr]. pose proof (OPre_of_RT _ _ _ P R1) as P1. destruct r; [|destruct Hr]. cbv beta iota.
        do 2 wp_prim. apply Hmid; [exact P1 | exact I].
      * do 2 wp_prim. apply Hmid; [exact P | exact I].
  - wp_prim. apply (sia_X None None); [apply P | intros a X; discriminate|]. intros w1 R1 _. cbv beta iota.
    pose proof (OPre_of_RT _ _ _ P R1) as P1. wp_prim. cbv beta iota.
    apply Hmid; [exact P1 | apply legal_always; [apply GA_lbl; apply P1 | right; left; reflexivity]].
Qed.

(* ------------------------------------------------------------------ the stepping loop *)
Definition LPost (r : result unit) (w' : world) : Prop := OPre w' /\ okf r /\ (is_ok r -> T3 w').

Lemma step_body_spec (rest : LM unit) w (Q : result unit -> world -> Prop) :
  OPre w ->
  (forall w1 (Q1 : result unit -> world -> Prop), OPre w1 -> (forall r w', LPost r w' -> Q1 r w') -> wp rest Q1 w1) ->
  (forall r w', LPost r w' -> Q r w') ->
  wp (bind (modify (fun w => w <| stepping := true |>))
           (fun _ => bind execute_state (fun x => match x with XoSuspended => ret tt | _ => bind (finish_step x) (fun _ => rest) end))) Q w.
Proof.
  intros (G & T & N) Hrest HQ. do 2 wp_prim.
  match goal with |- wp _ _ ?w1 => assert (P1 : OPre w1) by (split; [apply GA_stepping; exact G | split; assumption]) end.
  wp_prim. apply execute_state_spec; [exact P1|]. intros x w2 R2 X2. cbv beta iota.
  pose proof (RO_pre _ _ R2) as P2.
  assert (Hfs : wp (bind (finish_step x) (fun _ => rest)) Q w2).
  { wp_prim. apply finish_step_spec; [exact P2 | intros next ->; exact X2|]. intros r w3 P3 Hr. destruct r; cbv beta iota.
    - apply Hrest; [exact P3 | exact HQ].
    - apply HQ. split; [exact P3|]. split; [exact Hr | intros []]. }
  destruct x; try exact Hfs. wp_prim. apply HQ. split; [exact P2|]. split; [exact I | intros _; exact X2].
Qed.

Lemma GA_t0 w p : GA w -> GA (w <| t0 := p |>).
Proof. intros ((G1 & G2 & G3 & G5 & G6) & G4). split; [repeat split; assumption | exact G4]. Qed.

Lemma set_t0_L p w (Q : result unit -> world -> Prop) :
  OPre w -> okpc p -> (match p with PcInStep _ _ _ => False | _ => True end) ->
  (forall r w', LPost r w' -> Q r w') -> wp (set_t0 p) Q w.
Proof.
  intros (G & T & N) Hp Hn HQ. unfold set_t0. wp_prim. apply HQ.
  split; [split; [apply GA_t0; exact G | split; [exact T | exact Hp]]|]. split; [exact I|]. intros _.
  unfold T3. cbn. destruct p; try exact I. contradiction.
Qed.

Lemma loop_head_spec fuel : forall w (Q : result unit -> world -> Prop),
  OPre w -> (forall r w', LPost r w' -> Q r w') -> wp (loop_head fuel) Q w.
Proof.
  induction fuel as [|f IH]; intros w Q P HQ; cbn [loop_head].
  - wp_prim. apply HQ. split; [exact P|]. split; [reflexivity | intros []].
  - do 2 wp_prim. destruct (is_terminated w) eqn:Et; [apply set_t0_L; [exact P | exact I | exact I | exact HQ]|].
    destruct (closed w) eqn:Ec.
    { exfalso. destruct P as (((_ & G2 & _) & _) & _). rewrite (G2 Ec) in Et. discriminate. }
    destruct (paused w); [apply set_t0_L; [exact P | exact I | exact I | exact HQ]|].
    apply step_body_spec; [exact P | | exact HQ]. intros w1 Q1 P1 HQ1. apply IH; assumption.
Qed.

Definition Top (w : world) : Prop := OPre w /\ T3 w.

Lemma resume_t0_spec wk w (Q : result unit -> world -> Prop) :
  Top w -> (forall r w', LPost r w' -> Q r w') -> wp (resume_t0 wk) Q w.
Proof.
  intros [P H3] HQ. unfold resume_t0. do 2 wp_prim.
  assert (Hloop : forall w1 (Q1 : result unit -> world -> Prop), OPre w1 -> (forall r w', LPost r w' -> Q1 r w') -> wp (loop_head chain_fuel) Q1 w1)
    by (intros; apply loop_head_spec; assumption).
  assert (Htail : forall (x : exec_out) w2, OPre w2 -> xo_ok x w2 ->
             wp (match x with XoSuspended => ret tt | _ => bind (finish_step x) (fun _ => loop_head chain_fuel) end) Q w2).
  { intros x w2 P2 X2.
    assert (Hfs : wp (bind (finish_step x) (fun _ => loop_head chain_fuel)) Q w2).
    { wp_prim. apply finish_step_spec; [exact P2 | intros next ->; exact X2|]. intros r w3 P3 Hr. destruct r; cbv beta iota.
      - apply Hloop; [exact P3 | exact HQ].
      - apply HQ. split; [exact P3|]. split; [exact Hr | intros []]. }
    destruct x; try exact Hfs. wp_prim. apply HQ. split; [exact P2|]. split; [exact I | intros _; exact X2]. }
  destruct (t0 w) eqn:Et.
  - apply Hloop; assumption.
  - assert (Hb : wp (bind (modify (fun w => w <| stepping := true |>))
                       (fun _ => bind execute_state (fun x => match x with XoSuspended => ret tt | _ => bind (finish_step x) (fun _ => loop_head chain_fuel) end))) Q w).
    { apply step_body_spec; [exact P | exact Hloop | exact HQ]. }
    destruct (paused w); [destruct (is_terminated w); [exact Hb|] | exact Hb].
    apply set_t0_L; [exact P | exact I | exact I | exact HQ].
  - assert (Hr : run_or_term w) by (unfold T3 in H3; rewrite Et in H3; exact H3).
    wp_prim.
    assert (Ho : Oat (match wk with WkExn e => ret (SoRaised e) | _ => run_actions rest r end) w).
    { destruct wk; first [apply run_actions_O | apply Oat_ret]. }
    apply Ho; [exact P|]. intros o w1 R1. cbv beta iota.
    wp_prim. apply after_run_fn_spec; [eapply RO_pre; eauto | eapply run_or_term_stable; [apply R1 | exact Hr]|].
    intros x w2 R2 X2. cbv beta iota. apply Htail; [eapply RO_pre; eauto | exact X2].
  - do 3 wp_prim.
    assert (Hw : forall fn, wp (after_waiting fn wid wk) (fun rx w2 => match rx with
                    | Ok x => wp (bind (finish_step x) (fun _ => loop_head chain_fuel)) Q w2 | Err e => Q (Err e) w2 end) w).
    { intro fn. apply after_waiting_spec; [apply GA_lbl; apply P|]. intros x w2 E2 X2.
      pose proof (RO_pre _ _ (oeq_RO _ _ P E2)) as P2.
      wp_prim. apply finish_step_spec; [exact P2 | intros next ->; exact X2|]. intros r w3 P3 Hr. destruct r; cbv beta iota.
      - apply Hloop; [exact P3 | exact HQ].
      - apply HQ. split; [exact P3|]. split; [exact Hr | intros []]. }
    destruct (st w) as [[]|]; apply Hw.
  - wp_prim. apply HQ. split; [exact P|]. split; [exact I | intros _; exact H3].
  - wp_prim. apply HQ. split; [exact P|]. split; [exact I | intros _; exact H3].
Qed.

(* ------------------------------------------------------------------ one loop callback, the environment *)
Lemma Top_K w w' : Top w -> RK w w' -> Top w'.
Proof.
  intros [P H3] R. pose proof (RK_RO _ _ P R) as O. split; [eapply RO_pre; eauto|].
  destruct R as (_ & _ & _ & _ & T0 & _). unfold T3 in *. rewrite T0. destruct (t0 w); try exact I.
  eapply run_or_term_stable; [apply O | exact H3].
Qed.

Lemma Top_eeq w w' : Top w -> eeq w w' -> Top w'.
Proof. intros H E. eapply Top_K; [exact H|]. apply eeq_RT; [apply H | exact E]. Qed.

Lemma emit_Top e w (Q : result unit -> world -> Prop) :
  Top w -> ev_ok e = true -> (forall w', Top w' -> Q (Ok tt) w') -> wp (emit e) Q w.
Proof. intros H He HQ. apply emit_FrXT; [exact He|]. intros [] w' E. apply HQ. eapply Top_eeq; eauto. Qed.

Lemma ctl_call_Top c w (Q : result cret -> world -> Prop) :
  Top w -> (forall r w', Top w' -> (must_return c = true -> is_ok r) -> Q r w') -> wp (ctl_call c) Q w.
Proof.
  intros H HQ. apply ctl_call_spec; [apply H|]. intros r w' R T. apply HQ; [eapply Top_K; eauto|]. apply T. apply H.
Qed.

Lemma run_entry_spec r w (Q : result unit -> world -> Prop) :
  Top w -> (forall w', Top w' -> Q (Ok tt) w') -> wp (run_entry r) Q w.
Proof.
  intros H HQ. destruct r as [wk|cb|]; cbn [run_entry].
  - do 2 wp_prim. apply resume_t0_spec; [exact H|]. intros r w1 (P1 & Hr & H3). destruct r as [u|e]; cbv beta iota.
    + wp_prim. apply HQ. split; [exact P1 | apply H3; exact I].
    + cbn in Hr. subst e. unfold set_t0, emit. do 3 wp_prim. apply HQ.
      destruct P1 as (G1 & T1 & N1). destruct G1 as ((A1 & A2 & A3 & A5 & A6) & A4).
      split; [split; [split; [repeat split; try assumption|exact A4] | split; [exact T1 | reflexivity]] | exact I].
      apply errs_ok_snoc; [exact A6 | reflexivity].
  - wp_prim. apply emit_Top; [exact H | reflexivity|]. intros w1 H1. cbv beta iota. do 4 wp_prim.
    assert (Hbody : wp (match nth_error (cf_callbacks (cfg w1)) cb with
                        | Some CbOk | None => ret tt
                        | Some (CbRaise e) => raise e
                        | Some (CbCtl c) => bind (ctl_observed c) (fun r => emit (EvCtl c r))
                        end) (fun r w2 => Top w2 /\ (is_err r -> cur_label w2 = cur_label w1)) w1).
    { destruct (nth_error (cf_callbacks (cfg w1)) cb) as [[]|]; try (wp_prim; split; [exact H1 | reflexivity]).
      wp_prim. apply ctl_observed_spec; [apply H1|]. intros x w2 R2. cbv beta iota.
      apply emit_Top; [eapply Top_K; eauto | reflexivity|]. intros w3 H3'. split; [exact H3' | intros []]. }
    eapply wp_use; [exact Hbody|]. intros r2 w2 [H2 _]. cbv beta iota. destruct r2 as [u|e]; cbv beta iota; [wp_prim; apply HQ; exact H2|].
    do 2 wp_prim.
    assert (Hfail : wp (bind (attempt (ctl_call (CFail e))) (fun y => match y with Ok _ => ret tt | Err e' => emit (EvLoopError e') end)) Q w2).
    { do 2 wp_prim. apply ctl_call_Top; [exact H2|]. intros r3 w3 H3' Hr. destruct r3; [|destruct (Hr eq_refl)]. cbv beta iota. wp_prim. apply HQ. exact H3'. }
    destruct (st w2) as [[]|]; try exact Hfail. wp_prim. apply HQ. exact H2.
  - do 2 wp_prim. destruct (orig_fut_cancelled w); [|wp_prim; apply HQ; exact H].
    do 2 wp_prim. apply ctl_call_Top; [exact H|]. intros r3 w3 H3' Hr. destruct r3; [|destruct (Hr eq_refl)]. cbv beta iota. wp_prim. apply HQ. exact H3'.
Qed.

Lemma tick_spec w (Q : result unit -> world -> Prop) :
  Top w -> (forall w', Top w' -> Q (Ok tt) w') -> wp tick Q w.
Proof.
  intros H HQ. unfold tick. do 2 wp_prim. destruct (ready w) as [|r rest]; [wp_prim; apply HQ; exact H|].
  do 2 wp_prim. apply run_entry_spec; [|exact HQ]. eapply Top_eeq; [exact H|]. repeat split; auto.
Qed.

Lemma drain_spec n : forall w (Q : result unit -> world -> Prop),
  Top w -> (forall w', Top w' -> Q (Ok tt) w') -> wp (drain n) Q w.
Proof.
  induction n as [|n IH]; intros w Q H HQ; cbn [drain]; [wp_prim; apply HQ; exact H|].
  do 2 wp_prim. destruct (ready w) eqn:Er; [wp_prim; apply HQ; exact H|].
  wp_prim. apply tick_spec; [exact H|]. intros w1 H1. cbv beta iota. apply IH; assumption.
Qed.

Lemma env_step_m_spec e w (Q : result unit -> world -> Prop) :
  Top w -> e <> ECancelFuture -> (forall w', Top w' -> Q (Ok tt) w') -> wp (env_step_m e) Q w.
Proof.
  intros H Hne HQ. destruct e; cbn [env_step_m].
  - apply tick_spec; assumption.
  - wp_prim. apply ctl_observed_spec; [apply H|]. intros x w1 R1. cbv beta iota.
    apply emit_Top; [eapply Top_K; eauto | reflexivity | exact HQ].
  - contradiction.
  - apply schedule_FrXT. intros [] w1 E1. apply HQ. eapply Top_eeq; eauto.
  - do 2 wp_prim. destruct (find (fun kw => Nat.eqb (fst kw) k) (exts w)); [wp_prim; apply HQ; exact H|].
    do 2 wp_prim.
    match goal with |- wp _ _ ?wx => assert (H1 : Top wx) by (eapply Top_eeq; [exact H | repeat split; auto]) end.
    destruct (t0 w); try (wp_prim; apply HQ; exact H1). destruct await_ext; [|wp_prim; apply HQ; exact H1].
    apply wp_when_i; intro; [|apply HQ; exact H1]. apply schedule_FrXT. intros [] w2 E2. apply HQ. eapply Top_eeq; eauto.
  - apply drain_spec; assumption.
Qed.

Lemma env_step_Top w e : Top w -> e <> ECancelFuture -> Top (env_step w e).
Proof.
  intros H Hne. unfold env_step. apply (wp_run (env_step_m e) (fun _ w' => Top w') w).
  apply env_step_m_spec; [exact H | exact Hne | auto].
Qed.

Lemma run_from_Top es : forall w, Top w -> ~ In ECancelFuture es -> Top (run_from w es).
Proof.
  induction es as [|e es IH]; intros w H Hn; cbn; [exact H|].
  apply IH; [apply env_step_Top; [exact H | intro X; apply Hn; left; exact X] | intro X; apply Hn; right; exact X].
Qed.

(* ------------------------------------------------------------------ construction, every run *)
Lemma Top_created c oc tr :
  errs_ok tr ->
  Top (mk_world c (Some SCreated) false None None None [] 0 None None None PfPending true false false [0] true false false
           [] (cf_ospec c) PcNotStarted [RWakeT0 WkNone] [] oc tr None []).
Proof.
  intro He. split; [split; [split; [repeat split|]|split]|]; cbn; try reflexivity; try discriminate; try exact I; try exact He.
Qed.

Lemma constructed_Top c u w : construct_process c = (Ok u, w) -> Top w.
Proof.
  intro Hc. destruct c as [prog cbs ls fault osp]. unfold construct_process in Hc.
  unfold transition in Hc. revert Hc. generalize (do_ctl reent_fuel). intros rec Hc.
  destruct fault as [[[h k] e]|].
  - vm_compute in Hc.
    match type of Hc with context [match ?b with true => _ | false => _ end] => destruct b end; [discriminate Hc|].
    injection Hc as _ <-. apply Top_created. reflexivity.
  - vm_compute in Hc. injection Hc as _ <-. apply Top_created. reflexivity.
Qed.

Theorem run_Top c es w : run c es = Some w -> ~ In ECancelFuture es -> Top w.
Proof.
  intros Hr Hn. unfold run in Hr. destruct (construct_process c) as [[u|e] w0] eqn:Hc; [|discriminate].
  injection Hr as <-. apply run_from_Top; [eapply constructed_Top; eauto | exact Hn].
Qed.

Lemma errs_ok_In tr e : errs_ok tr -> In (EvLoopError e) tr -> e = EOutOfFuel.
Proof.
  unfold errs_ok. intros H Hi. rewrite forallb_forall in H. specialize (H _ Hi). cbn in H. destruct e; try discriminate H. reflexivity.
Qed.

(* C03 / C02, every run, any injected fault: nothing reaches the event loop and the stepping task never fails *)
Theorem nothing_escapes c es w e :
  run c es = Some w -> ~ In ECancelFuture es ->
  (In (EvLoopError e) (trace w) \/ t0 w = PcFailed e) -> e = EOutOfFuel.
Proof.
  intros Hr Hn H. destruct (run_Top _ _ _ Hr Hn) as [(G & _ & N) _]. destruct H as [H|H].
  - eapply errs_ok_In; [apply G | exact H].
  - unfold nf in N. rewrite H in N. exact N.
Qed.

Theorem task_never_fails c es w e :
  run c es = Some w -> ~ In ECancelFuture es -> t0 w = PcFailed e -> e = EOutOfFuel.
Proof. intros Hr Hn H. exact (nothing_escapes c es w e Hr Hn (or_intror H)). Qed.

(* never half-transitioned: between environment events no transition is under way and the failure bypass is not armed;
   an armed interrupt action is pending; a closed process has terminated; the future of a live process is pending *)
Theorem never_half_transitioned c es w :
  run c es = Some w -> ~ In ECancelFuture es ->
  transitioning w = false /\ transition_failing w = false /\ (closed w = true -> is_terminated w = true)
  /\ (is_terminated w = false -> pfut w = PfPending) /\ (forall a, intr w = Some a -> pend w a).
Proof.
  intros Hr Hn. destruct (run_Top _ _ _ Hr Hn) as [(((G1 & G2 & G3 & _) & G4) & T & _) _].
  split; [exact T|]. split; [apply G4; exact T|]. split; [exact G2|]. split; [exact G1 | exact G3].
Qed.
