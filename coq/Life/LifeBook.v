(* Life/LifeBook.v — bookkeeping invariants of the life-cycle model M1, for properties C04 and C05:

   * no user step code runs while the process reports paused: every EvStep (start of a step function /
     continuation) and every EvObserve (a sample taken inside a step, also after an await) in the trace of
     every run carries paused = false;
   * pause(), play() and kill() never raise when called from the environment (between loop callbacks), on
     any reachable world;

   for every program, every set of listener scripts (re-entrant control calls), every schedule of
   environment events; hooks do not raise (cf_fault = None).

   Method as in LifePath.v: a relation [B w0 w] that every control operation preserves (wp calculus),
   where B says: the trace flags are fine, and relative to w0 the stepping task's program counter, the
   stepping flag and the transitioning flag are untouched and a process that was stepping and not paused is
   still not paused; the stepping coroutine is handled separately; the run is a fold. *)
From Coq Require Import List ZArith String Bool Arith Lia.
From RecordUpdate Require Import RecordUpdate.
From Plumpy Require Import Val Mon MonTac PortModel Model Run.
Import ListNotations.
Local Open Scope list_scope.

(* ------------------------------------------------------------------ trace flags *)
Definition flag_ok (e : event) : bool :=
  match e with
  | EvStep _ _ _ p => negb p
  | EvObserve p _ => negb p
  | _ => true
  end.

Definition flags_ok (tr : list event) : Prop := forallb flag_ok tr = true.

Lemma flags_ok_app a b : flags_ok a -> flags_ok b -> flags_ok (a ++ b).
Proof. unfold flags_ok. rewrite forallb_app. intros -> ->. reflexivity. Qed.

Lemma flags_ok_snoc a e : flags_ok a -> flag_ok e = true -> flags_ok (a ++ [e]).
Proof. intros Ha He. apply flags_ok_app; [exact Ha|]. unfold flags_ok. cbn. rewrite He. reflexivity. Qed.

(* ------------------------------------------------------------------ the relation *)
Definition nofault (w : world) : Prop := cf_fault (cfg w) = None.

(* the failure bypass of the exit check is only armed inside a transition *)
Definition FI (w : world) : Prop := transitioning w = false -> transition_failing w = false.

Definition IB0 (w : world) : Prop := nofault w /\ flags_ok (trace w).

Definition IB (w : world) : Prop := IB0 w /\ FI w.

Definition is_paused (w : world) : bool := match paused w with Some _ => true | None => false end.

Definition FB (w0 w : world) : Prop :=
  t0 w = t0 w0 /\ stepping w = stepping w0 /\ transitioning w = transitioning w0 /\
  (stepping w0 = true -> paused w0 = None -> paused w = None) /\
  transition_failing w = transition_failing w0.

Definition B (w0 w : world) : Prop := IB w /\ FB w0 w.

Lemma FB_refl w : FB w w.
Proof. repeat split; auto. Qed.

Lemma FB_trans w0 w1 w2 : FB w0 w1 -> FB w1 w2 -> FB w0 w2.
Proof.
  intros (A1 & A2 & A3 & A4 & A5) (B1 & B2 & B3 & B4 & B5). repeat split; try congruence.
  intros H1 H2. apply B4; [congruence | auto].
Qed.

Lemma B_refl w : IB w -> B w w.
Proof. intro H. split; [exact H | apply FB_refl]. Qed.

(* a step that keeps configuration, trace, the program counter, the flags and the paused future *)
Lemma B_frame w0 w w' :
  B w0 w -> cfg w' = cfg w -> trace w' = trace w -> t0 w' = t0 w -> stepping w' = stepping w ->
  transitioning w' = transitioning w -> paused w' = paused w -> transition_failing w' = transition_failing w -> B w0 w'.
Proof.
  intros [[[Hn Hf] Hi] (A1 & A2 & A3 & A4 & A5)] Hc Ht H1 H2 H3 H4 H5. unfold B, IB, IB0, FI, FB, nofault in *.
  rewrite Hc, Ht, H1, H2, H3, H4, H5. auto 10.
Qed.

Lemma B_emit w0 w w' e :
  B w0 w -> flag_ok e = true -> cfg w' = cfg w -> trace w' = trace w ++ [e] -> t0 w' = t0 w -> stepping w' = stepping w ->
  transitioning w' = transitioning w -> paused w' = paused w -> transition_failing w' = transition_failing w -> B w0 w'.
Proof.
  intros [[[Hn Hf] Hi] (A1 & A2 & A3 & A4 & A5)] He Hc Ht H1 H2 H3 H4 H5. unfold B, IB, IB0, FI, FB, nofault in *.
  rewrite Hc, Ht, H1, H2, H3, H4, H5. repeat split; auto. apply flags_ok_snoc; assumption.
Qed.

Ltac b_frame :=
  match goal with
  | H : B ?a ?b |- B _ _ =>
      eapply (B_frame a b); [exact H | reflexivity | reflexivity | reflexivity | reflexivity | reflexivity | reflexivity | reflexivity]
  end.

Definition keeps {A} (m : LM A) : Prop :=
  forall w0 w (Q : result A -> world -> Prop), B w0 w -> (forall r w', B w0 w' -> Q r w') -> wp m Q w.

(* never raises *)
Definition total {A} (m : LM A) : Prop :=
  forall w0 w (Q : result A -> world -> Prop), B w0 w -> (forall a w', B w0 w' -> Q (Ok a) w') -> wp m Q w.

Lemma total_keeps {A} (m : LM A) : total m -> keeps m.
Proof. intros H w0 w Q HB HQ. apply (H w0 w Q HB). intros a w'. apply HQ. Qed.

Ltac use L := first [ eapply L | apply wp_bind_i; eapply L ].

(* ------------------------------------------------------------------ primitive operations *)
Lemma emit_total e : flag_ok e = true -> total (emit e).
Proof.
  intros He w0 w Q HB HQ. unfold emit. wp_prim. apply HQ.
  eapply B_emit; eauto; reflexivity.
Qed.

Lemma schedule_total r : total (schedule r).
Proof. intros w0 w Q HB HQ. unfold schedule. wp_prim. apply HQ. b_frame. Qed.

Lemma B_nofault w0 w : B w0 w -> cf_fault (cfg w) = None.
Proof. intros [[[H _] _] _]. exact H. Qed.

Lemma hook_total name : total (hook name).
Proof.
  intros w0 w Q HB HQ. unfold hook. do 5 wp_prim.
  eapply emit_total; [reflexivity | b_frame |]. intros u w' HB'. cbv beta iota.
  rewrite (B_nofault _ _ HB). wp_prim. apply HQ. exact HB'.
Qed.

Lemma set_act_fut_total id f : total (set_act_fut id f).
Proof. intros w0 w Q HB HQ. unfold set_act_fut. wp_prim. apply HQ. b_frame. Qed.

Lemma cancel_act_total id : total (cancel_act id).
Proof.
  intros w0 w Q HB HQ. unfold cancel_act. do 2 wp_prim. wp_case; [wp_case|]; try (wp_prim; apply HQ; exact HB).
  eapply set_act_fut_total; eauto.
Qed.

Lemma set_interrupt_action_total new : total (set_interrupt_action new).
Proof.
  intros w0 w Q HB HQ. unfold set_interrupt_action. do 3 wp_prim. wp_case.
  - use cancel_act_total; [exact HB|]. intros u w1 H1. cbv beta iota. repeat wp_prim. apply HQ. b_frame.
  - do 2 wp_prim. apply HQ. b_frame.
Qed.

Lemma set_interrupt_action_from_total k c : total (set_interrupt_action_from k c).
Proof.
  intros w0 w Q HB HQ. unfold set_interrupt_action_from. do 5 wp_prim.
  eapply set_interrupt_action_total; [b_frame|]. intros u w1 H1. cbv beta iota. wp_prim. apply HQ. exact H1.
Qed.

Lemma fresh_total : total fresh.
Proof. intros w0 w Q HB HQ. unfold fresh. do 5 wp_prim. apply HQ. b_frame. Qed.

Lemma set_t0_spec p w (Q : result unit -> world -> Prop) :
  IB w -> (forall w', IB w' -> t0 w' = p -> stepping w' = stepping w -> transitioning w' = transitioning w ->
                      paused w' = paused w -> st w' = st w -> closed w' = closed w -> Q (Ok tt) w') -> wp (set_t0 p) Q w.
Proof.
  intros [[Hn Hf] Hi] HQ. unfold set_t0. wp_prim. apply HQ; try reflexivity. split; [split|]; assumption.
Qed.

Section Reentrant.
  Variable rec_ctl : ctl -> LM cret.
  Hypothesis Hrec : forall c, keeps (rec_ctl c).

  Lemma fire_total name : total (fire rec_ctl name).
  Proof.
    intros w0 w Q HB HQ. unfold fire. do 4 wp_prim.
    use emit_total; [reflexivity | b_frame |]. intros u w1 H1. cbv beta iota.
    eapply wp_mapM_inv with (I := B w0); [exact H1 | | intros; apply HQ; assumption].
    intros ls s1 _ Hs1. wp_case.
    - wp_prim. wp_prim. eapply Hrec; [exact Hs1|]. intros r s2 Hs2. cbv beta iota.
      eapply emit_total; [reflexivity | exact Hs2 |]. intros [] s3 Hs3. auto.
    - wp_prim. auto.
  Qed.

  Lemma pfut_set_keeps f : keeps (pfut_set f).
  Proof.
    intros w0 w Q HB HQ. unfold pfut_set. do 2 wp_prim. wp_case.
    - wp_prim. apply HQ; auto.
    - do 2 wp_prim. wp_case.
      + eapply schedule_total; [b_frame|]. intros u w' HB'. apply HQ; auto.
      + apply HQ. b_frame.
  Qed.

  Lemma pfut_set_pending f w0 w (Q : result unit -> world -> Prop) :
    B w0 w -> pfut_done w = false -> (forall a w', B w0 w' -> Q (Ok a) w') -> wp (pfut_set f) Q w.
  Proof.
    intros HB Hp HQ. unfold pfut_set. do 2 wp_prim. rewrite Hp. do 2 wp_prim. wp_case.
    - eapply schedule_total; [b_frame|]. intros u w' HB'. apply HQ; auto.
    - apply HQ. b_frame.
  Qed.

  Lemma on_close_total : total on_close.
  Proof.
    intros w0 w Q HB HQ. unfold on_close. use hook_total; [exact HB|]. intros u w1 H1. cbv beta iota.
    wp_prim. do 3 wp_prim.
    eapply wp_mapM_inv with (I := B w0).
    - exact H1.
    - intros c s1 _ Hs1. eapply emit_total; [reflexivity | exact Hs1 |]. intros [] s2 Hs2. split; [reflexivity | exact Hs2].
    - intros s' Hs'. cbv beta iota. do 2 wp_prim. apply HQ. b_frame.
  Qed.

  Lemma close_total : total close.
  Proof.
    intros w0 w Q HB HQ. unfold close. do 2 wp_prim. wp_case.
    - wp_prim. apply HQ; auto.
    - eapply on_close_total; eauto.
  Qed.

  Lemma on_entering_keeps ns : keeps (on_entering ns).
  Proof.
    intros w0 w Q HB HQ. unfold on_entering. destruct ns.
    - use hook_total; [exact HB|]. intros u w1 H1. cbv beta iota. wp_prim. apply HQ; auto.
    - use hook_total; [exact HB|]. intros u w1 H1. cbv beta iota. wp_prim. apply HQ; auto.
    - use hook_total; [exact HB|]. intros u w1 H1. cbv beta iota. wp_prim. apply HQ; auto.
    - use hook_total; [exact HB|]. intros u w1 H1. cbv beta iota. do 2 wp_prim. wp_case.
      + wp_prim. apply HQ; auto.
      + use pfut_set_keeps; [exact H1|]. intros r w2 H2. destruct r; cbv beta iota; [wp_prim|]; apply HQ; exact H2.
    - use hook_total; [exact HB|]. intros u w1 H1. cbv beta iota. do 3 wp_prim. wp_case.
      + repeat wp_prim. apply HQ. b_frame.
      + use pfut_set_keeps; [exact H1|]. intros r w2 H2. destruct r; cbv beta iota; [wp_prim|]; apply HQ; exact H2.
    - use hook_total; [exact HB|]. intros u w1 H1. cbv beta iota. do 5 wp_prim.
      match goal with |- wp _ _ ?w' => assert (H1' : B w0 w') by b_frame end.
      wp_case; try (use pfut_set_keeps; [exact H1'|]; intros r w2 H2; destruct r; cbv beta iota; [wp_prim|]; apply HQ; exact H2).
      do 2 wp_prim. apply HQ. b_frame.
  Qed.

  (* on_entering of EXCEPTED never raises (a done future is replaced) *)
  Lemma on_entering_excepted_total e w0 w (Q : result (option pstate) -> world -> Prop) :
    B w0 w -> (forall w', B w0 w' -> Q (Ok None) w') -> wp (on_entering (SExcepted e)) Q w.
  Proof.
    intros HB HQ. unfold on_entering.
    use hook_total; [exact HB|]. intros u w1 H1. cbv beta iota. do 3 wp_prim. wp_case.
    - repeat wp_prim. apply HQ. b_frame.
    - use pfut_set_pending; [exact H1 | exact Heqb |]. intros u2 w2 H2. cbv beta iota. wp_prim. apply HQ. exact H2.
  Qed.

  Lemma on_entered_total x : total (on_entered rec_ctl x).
  Proof.
    intros w0 w Q HB HQ. unfold on_entered. do 2 wp_prim. wp_case; [wp_case|]; try (wp_prim; apply HQ; exact HB).
    - use hook_total; [exact HB|]. intros u w1 H1. cbv beta iota. eapply fire_total; eauto.
    - use hook_total; [exact HB|]. intros u w1 H1. cbv beta iota. eapply fire_total; eauto.
    - use hook_total; [exact HB|]. intros u w1 H1. cbv beta iota. eapply fire_total; eauto.
    - use hook_total; [exact HB|]. intros u w1 H1. cbv beta iota. eapply fire_total; eauto.
    - use hook_total; [exact HB|]. intros u w1 H1. cbv beta iota. do 2 wp_prim.
      eapply fire_total; [b_frame | exact HQ].
  Qed.

  Lemma exit_current_keeps ns : keeps (exit_current ns).
  Proof.
    intros w0 w Q HB HQ. unfold exit_current. do 2 wp_prim. destruct (st w) as [cur|] eqn:Hst.
    2:{ wp_case; wp_prim; apply HQ; auto. }
    wp_case; [wp_prim; apply HQ; auto|]. wp_prim.
    assert (Hk : forall w1, B w0 w1 ->
      wp (if terminal (label_of cur) then raise EInvalidState
          else match cur with
               | SWaiting fn msg data wid WfPending =>
                   bind (modify (fun w => w <| st := Some (SWaiting fn msg data wid (WfDone WkNull)) |>))
                     (fun _ => bind get (fun w' =>
                        match t0 w' with
                        | PcAwaitWaiting wid' => when (Nat.eqb wid wid') (schedule (RWakeT0 WkNull))
                        | _ => ret tt
                        end))
               | _ => ret tt
               end) Q w1).
    { intros w1 H1. wp_case; [wp_prim; apply HQ; auto|].
      destruct cur; try (wp_prim; apply HQ; exact H1). destruct wf; [|wp_prim; apply HQ; exact H1].
      do 4 wp_prim.
      match goal with |- wp _ _ ?w' => assert (H2 : B w0 w') by b_frame end.
      wp_case; try (wp_prim; apply HQ; exact H2). wp_case; [|apply HQ; exact H2].
      eapply schedule_total; [exact H2|]. intros u w3 H3. apply HQ; exact H3. }
    wp_case.
    - destruct cur; try (wp_prim; apply Hk; auto).
      + use hook_total; [exact HB|]. intros u w1 H1. cbv beta iota. apply Hk; auto.
      + use hook_total; [exact HB|]. intros u w1 H1. cbv beta iota. apply Hk; auto.
    - apply Hk; auto.
  Qed.

  Lemma enter_next_keeps ns : keeps (enter_next rec_ctl ns).
  Proof.
    intros w0 w Q HB HQ. unfold enter_next. do 3 wp_prim.
    assert (Hk : forall r w1, B w0 w1 ->
      wp (match r with
          | Some s' => ret (Some s')
          | None =>
              bind get (fun w1 => bind (put (w1 <| st := Some ns |> <| wintr := None |> <| wrecalled := [] |>)) (fun _ =>
              bind (emit (EvEntered (cur_label w) (label_of ns))) (fun _ =>
              bind get (fun w2 => bind (when (hooks_alive w2) (on_entered rec_ctl w)) (fun _ => ret None)))))
          end) Q w1).
    { intros r w1 H1. destruct r as [s'|].
      - wp_prim. apply HQ; auto.
      - do 4 wp_prim. use emit_total; [reflexivity | b_frame |]. intros u w2 H2. cbv beta iota.
        do 3 wp_prim. wp_case.
        + eapply on_entered_total; [exact H2|]. intros u3 w3 H3. cbv beta iota. wp_prim. apply HQ; auto.
        + wp_prim. apply HQ; auto. }
    wp_case.
    - eapply on_entering_keeps; [exact HB|]. intros r w1 H1. destruct r as [r|e]; cbv beta iota.
      + apply Hk; auto.
      + apply HQ; auto.
    - wp_prim. apply (Hk None); auto.
  Qed.

  (* entering EXCEPTED never raises *)
  Lemma enter_next_excepted_total e w0 w (Q : result (option pstate) -> world -> Prop) :
    B w0 w -> (forall w', B w0 w' -> Q (Ok None) w') -> wp (enter_next rec_ctl (SExcepted e)) Q w.
  Proof.
    intros HB HQ. unfold enter_next. do 3 wp_prim.
    assert (Hk : forall w1, B w0 w1 ->
      wp (bind get (fun w1 => bind (put (w1 <| st := Some (SExcepted e) |> <| wintr := None |> <| wrecalled := [] |>)) (fun _ =>
          bind (emit (EvEntered (cur_label w) (label_of (SExcepted e)))) (fun _ =>
          bind get (fun w2 => bind (when (hooks_alive w2) (on_entered rec_ctl w)) (fun _ => ret None)))))) Q w1).
    { intros w1 H1. do 4 wp_prim. use emit_total; [reflexivity | b_frame |]. intros u w2 H2. cbv beta iota.
      do 3 wp_prim. wp_case.
      + eapply on_entered_total; [exact H2|]. intros u3 w3 H3. cbv beta iota. wp_prim. apply HQ; auto.
      + wp_prim. apply HQ; auto. }
    wp_case.
    - eapply on_entering_excepted_total; [exact HB|]. intros w1 H1. cbv beta iota. apply Hk; exact H1.
    - wp_prim. apply Hk; auto.
  Qed.

  Lemma on_terminated_total : total on_terminated.
  Proof.
    intros w0 w Q HB HQ. unfold on_terminated. use hook_total; [exact HB|]. intros u w1 H1. cbv beta iota.
    do 3 wp_prim.
    assert (Hk : forall w2, B w0 w2 -> wp close Q w2).
    { intros w2 H2. eapply close_total; [exact H2|]. intros u3 w3 H3. apply HQ; auto. }
    wp_case; [wp_case|]; try (wp_prim; apply Hk; auto).
    wp_case; [|apply Hk; auto].
    eapply schedule_total; [exact H1|]. intros u2 w2 H2. cbv beta iota. apply Hk; auto.
  Qed.
End Reentrant.

(* ------------------------------------------------------------------ transitions *)
Definition FBt (w0 w : world) : Prop :=
  t0 w = t0 w0 /\ stepping w = stepping w0 /\ (stepping w0 = true -> paused w0 = None -> paused w = None).

Lemma FBt_of_FB w0 w : FB w0 w -> FBt w0 w.
Proof. intros (A1 & A2 & A3 & A4 & A5). repeat split; auto. Qed.

Lemma FBt_FB w0 w1 w2 : FBt w0 w1 -> FB w1 w2 -> FBt w0 w2.
Proof.
  intros (A1 & A2 & A4) (B1 & B2 & B3 & B4 & B5). repeat split; try congruence.
  intros H1 H2. apply B4; [congruence | auto].
Qed.

Section Transition.
  Variable rec_ctl : ctl -> LM cret.
  Hypothesis Hrec : forall c, keeps (rec_ctl c).

  (* the body of transition_to: sets the transitioning flag and leaves it set *)
  Lemma transition_body_spec ns w0 w (Q : result unit -> world -> Prop) :
    IB0 w -> FBt w0 w ->
    (forall r w', IB w' -> FBt w0 w' -> transitioning w' = true -> transition_failing w' = transition_failing w -> Q r w') ->
    wp (transition_body rec_ctl ns) Q w.
  Proof.
    intros [Hn Hf] HF HQ. unfold transition_body. do 2 wp_prim.
    set (w1 := w <| transitioning := true |>).
    assert (H1 : B w1 w1).
    { apply B_refl. split; [split; assumption|]. intro H. discriminate. }
    assert (HF1 : FBt w0 w1) by exact HF.
    assert (Hdone : forall r w', B w1 w' -> Q r w').
    { intros r w' [HI HB']. apply HQ; [exact HI | eapply FBt_FB; eauto | |].
      - destruct HB' as (_ & _ & T & _). rewrite T. reflexivity.
      - destruct HB' as (_ & _ & _ & _ & T). rewrite T. reflexivity. }
    do 3 wp_prim.
    assert (Htail : forall w2, B w1 w2 -> wp (bind get (fun w' => when (is_terminated w') on_terminated)) Q w2).
    { intros w2 H2. do 2 wp_prim. wp_case.
      - eapply on_terminated_total; [exact H2|]. intros u w3 H3. apply Hdone; exact H3.
      - apply Hdone; exact H2. }
    assert (Hent : forall w2, B w1 w2 ->
      wp (bind (enter_next rec_ctl ns) (fun r =>
            bind (match r with
                  | Some s' => bind (exit_current s') (fun _ => bind (enter_next rec_ctl s') (fun _ => ret tt))
                  | None => ret tt
                  end) (fun _ => bind get (fun w' => when (is_terminated w') on_terminated)))) Q w2).
    { intros w2 H2. use enter_next_keeps; [exact Hrec | exact H2 |]. intros r w3 H3. destruct r as [[s'|]|e]; cbv beta iota.
      - wp_prim. use exit_current_keeps; [exact H3|]. intros r4 w4 H4. destruct r4 as [u4|e4]; cbv beta iota; [|apply Hdone; exact H4].
        use enter_next_keeps; [exact Hrec | exact H4 |]. intros r5 w5 H5. destruct r5 as [r5|e5]; cbv beta iota; [|apply Hdone; exact H5].
        wp_prim. cbv beta iota. apply Htail; exact H5.
      - do 2 wp_prim. apply Htail; exact H3.
      - apply Hdone; exact H3. }
    wp_case.
    - eapply exit_current_keeps; [exact H1|]. intros r w2 H2. destruct r as [u|e]; cbv beta iota; [apply Hent; exact H2 | apply Hdone; exact H2].
    - cbv beta iota. apply Hent; exact H1.
  Qed.

  (* the body of the follow-up transition of a failed transition never raises *)
  Lemma transition_body_failing_total e w0 w (Q : result unit -> world -> Prop) :
    IB0 w -> FBt w0 w -> transition_failing w = true ->
    (forall w', IB w' -> FBt w0 w' -> transitioning w' = true -> Q (Ok tt) w') ->
    wp (transition_body rec_ctl (SExcepted e)) Q w.
  Proof.
    intros [Hn Hf] HF Hfail HQ. unfold transition_body. do 2 wp_prim.
    set (w1 := w <| transitioning := true |>).
    assert (H1 : B w1 w1).
    { apply B_refl. split; [split; assumption|]. intro H. discriminate. }
    assert (HF1 : FBt w0 w1) by exact HF.
    assert (Hdone : forall w', B w1 w' -> Q (Ok tt) w').
    { intros w' [HI HB']. apply HQ; [exact HI | eapply FBt_FB; eauto |].
      destruct HB' as (_ & _ & T & _). rewrite T. reflexivity. }
    do 3 wp_prim.
    assert (Hf1 : negb (transition_failing w1) = false) by (cbn; rewrite Hfail; reflexivity).
    rewrite Hf1. cbv iota. unfold when at 1. cbv iota. wp_prim.
    use enter_next_excepted_total; [exact Hrec | exact H1 |]. intros w2 H2. cbv beta iota. repeat wp_prim.
    wp_case.
    - eapply on_terminated_total; [exact H2|]. intros [] w3 H3. apply Hdone; exact H3.
    - apply Hdone; exact H2.
  Qed.

  Lemma reset_flags_spec w0 w (Q : result unit -> world -> Prop) (r' : result unit) :
    IB0 w -> FBt w0 w ->
    (forall w', IB w' -> FBt w0 w' -> transitioning w' = false -> Q r' w') ->
    wp (modify (fun w => w <| transition_failing := false |> <| transitioning := false |>))
       (fun r2 s'' => match r2 with Ok _ => Q r' s'' | Err e => Q (Err e) s'' end) w.
  Proof.
    intros HI HF HQ. wp_prim. apply HQ; [|exact HF | reflexivity].
    split; [exact HI|]. intros _. reflexivity.
  Qed.

  Lemma IB_IB0 w : IB w -> IB0 w.
  Proof. intros [H _]. exact H. Qed.

  Lemma transition_to_failing_total e w0 w (Q : result unit -> world -> Prop) :
    IB0 w -> FBt w0 w -> transitioning w = false -> transition_failing w = true ->
    (forall w', IB w' -> FBt w0 w' -> transitioning w' = false -> Q (Ok tt) w') ->
    wp (transition_to_failing rec_ctl (SExcepted e)) Q w.
  Proof.
    intros HI HF Ht Hfail HQ. unfold transition_to_failing. do 2 wp_prim. rewrite Ht. cbv iota.
    do 2 wp_prim. eapply transition_body_failing_total; [exact HI | exact HF | exact Hfail |].
    intros w1 I1 F1 T1. cbv beta iota.
    eapply reset_flags_spec; [apply IB_IB0; exact I1 | exact F1 | exact HQ].
  Qed.

  (* StateMachine.transition_to + Process.transition_failed: the transitioning flag is restored; called outside a
     transition with a target other than CREATED it never raises *)
  Lemma transition_to_spec ns w0 w (Q : result unit -> world -> Prop) :
    B w0 w ->
    (forall r w', B w0 w' ->
        (transitioning w = false -> match ns with Some s => label_of s <> LCreated | None => True end -> r = Ok tt) ->
        Q r w') ->
    wp (transition_to rec_ctl ns) Q w.
  Proof.
    intros HB HQ. unfold transition_to. do 2 wp_prim.
    destruct (transitioning w) eqn:Htr; [wp_prim; apply HQ; [exact HB | intro; discriminate]|].
    destruct ns as [ns|]; [|wp_prim; apply HQ; [exact HB | reflexivity]].
    pose proof HB as [[HI0 HFI] HFB]. pose proof (HFI Htr) as Hnf.
    assert (HFt : FBt w0 w) by (apply FBt_of_FB; exact HFB).
    assert (Htr0 : transitioning w0 = false) by (destruct HFB as (_ & _ & T & _); congruence).
    assert (Hnf0 : transition_failing w0 = false) by (destruct HFB as (_ & _ & _ & _ & T); congruence).
    assert (Hfin : forall r w', IB w' -> FBt w0 w' -> transitioning w' = false ->
                     (label_of ns <> LCreated -> r = Ok tt) -> Q r w').
    { intros r w' I' F' T' Hr. apply HQ; [|intros _; exact Hr].
      split; [exact I'|]. destruct F' as (A1 & A2 & A4). repeat split; auto; try congruence.
      destruct I' as [_ FI']. rewrite (FI' T'). congruence. }
    do 2 wp_prim. eapply transition_body_spec; [exact HI0 | exact HFt |].
    intros r w1 I1 F1 T1 N1. rewrite Hnf in N1. destruct r as [[]|e]; cbv beta iota.
    - eapply reset_flags_spec; [apply IB_IB0; exact I1 | exact F1 |]. intros w2 I2 F2 T2. apply Hfin; auto.
    - do 4 wp_prim.
      set (w2 := w1 <| transitioning := false |>).
      assert (I2 : IB0 w2) by (apply IB_IB0 in I1; exact I1).
      assert (F2 : FBt w0 w2) by exact F1.
      assert (N2 : transition_failing w2 = false) by exact N1.
      rewrite N2. cbv iota. do 2 wp_prim.
      set (w3 := w2 <| transition_failing := true |>).
      assert (I3 : IB0 w3) by exact I2.
      assert (F3 : FBt w0 w3) by exact F2.
      wp_case.
      { wp_prim. eapply reset_flags_spec; [exact I3 | exact F3 |]. intros w4 I4 F4 T4.
        apply Hfin; auto. intro Hc. exfalso. apply Hc. destruct ns; cbn in *; try discriminate. reflexivity. }
      eapply transition_to_failing_total; [exact I3 | exact F3 | reflexivity | reflexivity |].
      intros w4 I4 F4 T4. eapply reset_flags_spec; [apply IB_IB0; exact I4 | exact F4 |]. intros w5 I5 F5 T5.
      apply Hfin; auto.
  Qed.
End Transition.

(* ------------------------------------------------------------------ control calls *)
Lemma state_interrupt_total iid : total (state_interrupt iid).
Proof.
  intros w0 w Q HB HQ. unfold state_interrupt. do 2 wp_prim.
  destruct (st w) as [cur|]; [|wp_prim; apply HQ; exact HB].
  destruct cur; try (wp_prim; apply HQ; exact HB). destruct wf; [|wp_prim; apply HQ; exact HB].
  do 2 wp_prim.
  match goal with |- wp _ _ ?w' => assert (H1 : B w0 w') by b_frame end.
  wp_case; try (wp_prim; apply HQ; exact H1). wp_case; [|apply HQ; exact H1].
  eapply schedule_total; [exact H1|]. intros u w2 H2. apply HQ; exact H2.
Qed.

Lemma state_recall_total iid : total (state_recall iid).
Proof.
  intros w0 w Q HB HQ. unfold state_recall. do 2 wp_prim. wp_case; [|wp_prim; apply HQ; exact HB].
  wp_case; [|wp_prim; apply HQ; exact HB]. do 2 wp_prim.
  match goal with |- wp _ _ ?w' => assert (H1 : B w0 w') by b_frame end.
  destruct (st w) as [cur|]; [|wp_prim; apply HQ; exact H1].
  destruct cur; try (wp_prim; apply HQ; exact H1). destruct wf as [|wk0]; [wp_prim; apply HQ; exact H1|].
  destruct wk0; try (wp_prim; apply HQ; exact H1).
  wp_case; [|wp_prim; apply HQ; exact H1].
  use fresh_total; [exact H1|]. intros wid' w2 H2. cbv beta iota. wp_prim. apply HQ. b_frame.
Qed.

Definition raised (r : cret) : bool := match r with CrRaised _ => true | _ => false end.

Section Control.
  Variable rec_ctl : ctl -> LM cret.
  Hypothesis Hrec : forall c, keeps (rec_ctl c).

  (* _do_pause: the paused future appears; everything else as for a control call.  Without a next state it
     never raises *)
  Lemma do_pause_spec msg next w0 w (Q : result bool -> world -> Prop) :
    B w0 w ->
    (forall r w', IB w' -> t0 w' = t0 w0 -> stepping w' = stepping w0 -> transitioning w' = transitioning w0 ->
                  transition_failing w' = transition_failing w0 ->
                  (next = None -> exists b, r = Ok b) -> Q r w') ->
    wp (do_pause rec_ctl msg next) Q w.
  Proof.
    intros HB HQ. unfold do_pause. wp_prim.
    assert (Hfin : forall (r : result bool) w1, B w0 w1 -> (next = None -> exists b, r = Ok b) ->
      wp (modify (fun w => w <| pausing := None |>))
         (fun r2 s'' => match r2 with Ok _ => Q r s'' | Err e => Q (Err e) s'' end) w1).
    { intros r w1 [I1 (A1 & A2 & A3 & A4 & A5)] Hr. wp_prim. apply HQ; auto. }
    assert (Hrest : forall w1, B w0 w1 ->
      wp (bind (hook "on_pausing") (fun _ => bind (hook "on_paused") (fun _ => bind fresh (fun fid =>
          bind (modify (fun w => w <| pausing := None |> <| paused := Some fid |> <| pre_paused_status := status w |>)) (fun _ =>
          bind (match msg with Some m => modify (fun w => w <| status := Some m |>) | None => ret tt end) (fun _ =>
          bind (fire rec_ctl "on_process_paused") (fun _ => ret true)))))))
         (fun r s' => wp (modify (fun w => w <| pausing := None |>))
            (fun r2 s'' => match r2 with Ok _ => Q r s'' | Err e => Q (Err e) s'' end) s') w1).
    { intros w1 H1. use hook_total; [exact H1|]. intros u2 w2 H2. cbv beta iota.
      use hook_total; [exact H2|]. intros u3 w3 H3. cbv beta iota.
      use fresh_total; [exact H3|]. intros fid w4 H4. cbv beta iota.
      do 3 wp_prim.
      (* from here on the paused future exists: the B relation is re-based on the new world *)
      match goal with |- wp _ _ ?w' => set (w5 := w') end.
      assert (I5 : IB w5) by (destruct H4 as [I4 _]; exact I4).
      assert (H5 : B w5 w5) by (apply B_refl; exact I5).
      assert (Hback : forall (r : result bool) w6, B w5 w6 -> (next = None -> exists b, r = Ok b) ->
                 wp (modify (fun w => w <| pausing := None |>))
                    (fun r2 s'' => match r2 with Ok _ => Q r s'' | Err e => Q (Err e) s'' end) w6).
      { intros r w6 [I6 (C1 & C2 & C3 & C4 & C5)] Hr. wp_prim.
        destruct H4 as [_ (A1 & A2 & A3 & A4 & A5)].
        apply HQ; auto; cbn in *; congruence. }
      assert (H6 : forall w6, B w5 w6 ->
         wp (bind (fire rec_ctl "on_process_paused") (fun _ => ret true))
            (fun r s' => wp (modify (fun w => w <| pausing := None |>))
              (fun r2 s'' => match r2 with Ok _ => Q r s'' | Err e => Q (Err e) s'' end) s') w6).
      { intros w6 H6. wp_prim. eapply fire_total; [exact Hrec | exact H6|]. intros u7 w7 H7. cbv beta iota. wp_prim.
        apply Hback; [exact H7 | eauto]. }
      destruct msg; wp_prim; apply H6; [b_frame | exact H5]. }
    destruct next as [ns|].
    - wp_prim. eapply transition_to_spec; [exact Hrec | exact HB |].
      intros r w1 H1 _. destruct r; cbv beta iota; [apply Hrest; exact H1 | apply Hfin; [exact H1 | discriminate]].
    - do 2 wp_prim. apply Hrest; exact HB.
  Qed.

  Lemma pause_total msg w0 w (Q : result cret -> world -> Prop) :
    B w0 w -> (forall a w', B w0 w' -> raised a = false -> Q (Ok a) w') -> wp (pause rec_ctl msg) Q w.
  Proof.
    intros HB HQ. unfold pause. do 2 wp_prim. wp_case; [wp_prim; apply HQ; [exact HB | reflexivity]|].
    wp_case; [wp_prim; apply HQ; [exact HB | reflexivity]|]. wp_case; [wp_prim; apply HQ; [exact HB | reflexivity]|].
    wp_case; [wp_prim; apply HQ; [exact HB | reflexivity]|].
    destruct (stepping w) eqn:Hstp.
    - use fresh_total; [exact HB|]. intros iid w1 H1. cbv beta iota.
      use set_interrupt_action_from_total; [exact H1|]. intros a w2 H2. cbv beta iota.
      do 2 wp_prim. use state_interrupt_total; [b_frame|]. intros u w3 H3. cbv beta iota.
      wp_prim. apply HQ; [exact H3 | reflexivity].
    - use do_pause_spec; [exact HB|]. intros r w1 I1 A1 A2 A3 A5 Hr. destruct (Hr eq_refl) as [b ->]. cbv beta iota.
      wp_prim. apply HQ; [|reflexivity]. split; [exact I1|]. repeat split; auto.
      intros Hs. destruct HB as [_ (B1 & B2 & _)]. congruence.
  Qed.

  Lemma play_total w0 w (Q : result cret -> world -> Prop) :
    B w0 w -> (forall a w', B w0 w' -> raised a = false -> Q (Ok a) w') -> wp (play rec_ctl) Q w.
  Proof.
    intros HB HQ. unfold play. do 2 wp_prim. wp_case.
    - use hook_total; [exact HB|]. intros u w1 H1. cbv beta iota. wp_prim.
      assert (Hk : forall w2, B w0 w2 ->
        wp (bind (modify (fun w => w <| paused := None |> <| status := pre_paused_status w |> <| pre_paused_status := None |>))
              (fun _ => bind (fire rec_ctl "on_process_played") (fun _ => ret (CrBool true)))) Q w2).
      { intros w2 [I2 (A1 & A2 & A3 & A4 & A5)]. do 2 wp_prim.
        match goal with |- wp _ _ ?w' => assert (H3 : B w0 w') end.
        { split; [exact I2|]. repeat split; auto. }
        use fire_total; [exact Hrec | exact H3 |]. intros u4 w4 H4. cbv beta iota.
        wp_prim. apply HQ; [exact H4 | reflexivity]. }
      wp_case; try (wp_prim; apply Hk; exact H1). wp_case; [|apply Hk; exact H1].
      eapply schedule_total; [exact H1|]. intros u2 w2 H2. cbv beta iota. apply Hk; exact H2.
    - wp_prim. wp_case.
      + assert (Hk : forall w1, B w0 w1 ->
          wp (bind (cancel_act n) (fun _ => bind (modify (fun w => w <| pausing := None |>)) (fun _ => set_interrupt_action None)))
             (fun r s' => match r with Ok _ => wp (ret (CrBool true)) Q s' | Err e => Q (Err e) s' end) w1).
        { intros w1 H1. use cancel_act_total; [exact H1|]. intros u w2 H2. cbv beta iota.
          do 2 wp_prim. eapply set_interrupt_action_total; [b_frame|]. intros u3 w3 H3. cbv beta iota.
          wp_prim. apply HQ; [exact H3 | reflexivity]. }
        wp_prim. wp_case.
        * eapply state_recall_total; [exact HB|]. intros u w1 H1. cbv beta iota. apply Hk; exact H1.
        * wp_prim. apply Hk; exact HB.
      + do 2 wp_prim. apply HQ; [exact HB | reflexivity].
  Qed.

  (* kill: never raises when called outside a transition *)
  Lemma kill_spec msg w0 w (Q : result cret -> world -> Prop) :
    B w0 w ->
    (forall r w', B w0 w' -> (transitioning w = false -> exists c, r = Ok c /\ raised c = false) -> Q r w') ->
    wp (kill rec_ctl msg) Q w.
  Proof.
    intros HB HQ. unfold kill. do 2 wp_prim.
    assert (Hk : wp (if is_terminated w then ret (CrBool false)
                     else match killing w with
                          | Some a => ret (CrAction a)
                          | None =>
                              if stepping w
                              then bind fresh (fun iid => bind (set_interrupt_action_from (KKill msg) iid) (fun a =>
                                   bind (modify (fun w => w <| killing := Some a |>)) (fun _ =>
                                   bind (state_interrupt iid) (fun _ => ret (CrAction a)))))
                              else bind (transition_to rec_ctl (Some (SKilled (Some msg)))) (fun _ => ret (CrBool true))
                          end) Q w).
    { wp_case; [wp_prim; apply HQ; [exact HB | intros _; eexists; split; reflexivity]|]. wp_case; [wp_prim; apply HQ; [exact HB | intros _; eexists; split; reflexivity]|]. wp_case.
      - use fresh_total; [exact HB|]. intros iid w1 H1. cbv beta iota.
        use set_interrupt_action_from_total; [exact H1|]. intros a w2 H2. cbv beta iota.
        do 2 wp_prim. use state_interrupt_total; [b_frame|]. intros u w3 H3. cbv beta iota.
        wp_prim. apply HQ; [exact H3 | intros _; eexists; split; reflexivity].
      - use transition_to_spec; [exact Hrec | exact HB |].
        intros r w1 H1 Hr. destruct r; cbv beta iota.
        + wp_prim. apply HQ; [exact H1 | intros _; eexists; split; reflexivity].
        + apply HQ; [exact H1|]. intro Ht. specialize (Hr Ht). cbn in Hr.
          assert (Err e = Ok tt) by (apply Hr; discriminate). discriminate. }
    destruct (st w) as [[]|]; try exact Hk. wp_prim. apply HQ; [exact HB | intros _; eexists; split; reflexivity].
  Qed.

  Lemma resume_keeps v : keeps (resume v).
  Proof.
    intros w0 w Q HB HQ. unfold resume. do 2 wp_prim.
    destruct (st w) as [cur|]; [|wp_prim; apply HQ; exact HB].
    destruct cur; try (wp_prim; apply HQ; exact HB). cbv zeta. destruct wf as [|wk0].
    - do 2 wp_prim.
      match goal with |- wp _ _ ?w' => assert (H1 : B w0 w') by b_frame end.
      wp_prim.
      wp_case; try (wp_prim; cbv beta iota; wp_prim; apply HQ; exact H1).
      wp_case.
      + eapply schedule_total; [exact H1|]. intros u w2 H2. cbv beta iota. wp_prim. apply HQ; exact H2.
      + cbv beta iota. wp_prim. apply HQ; exact H1.
    - destruct wk0; (wp_prim; apply HQ; exact HB).
  Qed.

  Lemma fail_keeps e : keeps (fail rec_ctl e).
  Proof.
    intros w0 w Q HB HQ. unfold fail. do 2 wp_prim. wp_case; [wp_prim; apply HQ; exact HB|].
    use transition_to_spec; [exact Hrec | exact HB |].
    intros r w1 H1 _. destruct r; cbv beta iota; [|apply HQ; exact H1].
    do 2 wp_prim. wp_case; [wp_case|]; wp_prim; apply HQ; exact H1.
  Qed.

  Lemma ctl_body_keeps c : keeps (ctl_body rec_ctl c).
  Proof.
    destruct c; cbn [ctl_body].
    - intros w0 w Q HB HQ. eapply pause_total; [exact HB|]. intros a w' H' _. apply HQ; exact H'.
    - intros w0 w Q HB HQ. eapply play_total; [exact HB|]. intros a w' H' _. apply HQ; exact H'.
    - intros w0 w Q HB HQ. eapply kill_spec; [exact HB|]. intros r w' H' _. apply HQ; exact H'.
    - apply resume_keeps.
    - apply fail_keeps.
    - intros w0 w Q HB HQ. wp_prim. apply HQ; exact HB.
  Qed.
End Control.

Lemma do_ctl_keeps fuel c : keeps (do_ctl fuel c).
Proof.
  revert c. induction fuel as [|f IH]; intro c; cbn [do_ctl].
  - intros w0 w Q HB HQ. wp_prim. apply HQ; exact HB.
  - apply ctl_body_keeps. exact IH.
Qed.

(* pause / play / kill called from the environment (or from user code outside a transition): a result, never an
   exception *)
Definition benign (c : ctl) : bool := match c with CPause _ | CPlay | CKill _ => true | _ => false end.

Lemma ctl_call_spec c w0 w (Q : result cret -> world -> Prop) :
  B w0 w ->
  (forall r w', B w0 w' -> (transitioning w = false -> benign c = true -> exists x, r = Ok x /\ raised x = false) -> Q r w') ->
  wp (ctl_call c) Q w.
Proof.
  intros HB HQ. unfold ctl_call. change (do_ctl reent_fuel c) with (ctl_body (do_ctl 5) c). destruct c; cbn [ctl_body].
  - eapply pause_total; [apply do_ctl_keeps | exact HB |]. intros a w' H' Ha. apply HQ; [exact H' | eauto].
  - eapply play_total; [apply do_ctl_keeps | exact HB |]. intros a w' H' Ha. apply HQ; [exact H' | eauto].
  - eapply kill_spec; [apply do_ctl_keeps | exact HB |]. intros r w' H' Hr. apply HQ; [exact H' | auto].
  - eapply resume_keeps; [exact HB|]. intros r w' H'. apply HQ; [exact H' | discriminate].
  - eapply fail_keeps; [apply do_ctl_keeps | exact HB |]. intros r w' H'. apply HQ; [exact H' | discriminate].
  - wp_prim. apply HQ; [exact HB | discriminate].
Qed.

Lemma ctl_observed_spec c w0 w (Q : result cret -> world -> Prop) :
  B w0 w ->
  (forall x w', B w0 w' -> (transitioning w = false -> benign c = true -> raised x = false) -> Q (Ok x) w') ->
  wp (ctl_observed c) Q w.
Proof.
  intros HB HQ. unfold ctl_observed. do 2 wp_prim.
  eapply ctl_call_spec; [exact HB|]. intros r w1 H1 Hr. cbv beta iota. wp_prim. apply HQ; [exact H1|].
  intros Ht Hb. destruct (Hr Ht Hb) as (x & -> & Hx). exact Hx.
Qed.

(* ------------------------------------------------------------------ the stepping coroutine *)
Lemma transition_keeps ns : keeps (transition ns).
Proof.
  intros w0 w Q HB HQ. unfold transition. eapply transition_to_spec; [apply do_ctl_keeps | exact HB |].
  intros r w' H' _. apply HQ; exact H'.
Qed.

Lemma ctl_observed_keeps c : keeps (ctl_observed c).
Proof. intros w0 w Q HB HQ. eapply ctl_observed_spec; [exact HB|]. intros x w' H' _. apply HQ; exact H'. Qed.

Lemma do_out_keeps path v : keeps (do_out path v).
Proof.
  intros w0 w Q HB HQ. unfold do_out. do 2 wp_prim. wp_case; [wp_prim; apply HQ; exact HB|].
  use hook_total; [exact HB|]. intros u w1 H1. cbv beta iota. do 4 wp_prim.
  match goal with |- wp _ _ ?w' => assert (H2 : B w0 w') by b_frame end.
  wp_case; [wp_prim; apply HQ; exact H2|]. destruct p as [outs' dyn].
  do 2 wp_prim. use emit_total; [reflexivity | b_frame |]. intros u3 w3 H3. cbv beta iota.
  eapply fire_total; [apply do_ctl_keeps | exact H3 |]. intros u4 w4 H4. apply HQ; exact H4.
Qed.

(* what holds while user step code runs *)
Definition in_user_step (w : world) : Prop :=
  IB w /\ transitioning w = false /\ stepping w = true /\ paused w = None.

Lemma in_user_step_B w w' : in_user_step w -> B w w' -> in_user_step w' /\ t0 w' = t0 w.
Proof.
  intros (I & T & S & P) [I' (A1 & A2 & A3 & A4 & A5)].
  split; [|exact A1]. split; [exact I'|]. split; [congruence|]. split; [congruence|]. apply A4; assumption.
Qed.

Definition in_step (p : pc) : bool := match p with PcInStep _ _ _ => true | _ => false end.

Lemma run_actions_spec acts r : forall w (Q : result step_out -> world -> Prop),
  in_user_step w ->
  (forall o w', in_user_step w' -> (o = SoSuspended -> in_step (t0 w') = true) -> Q (Ok o) w') ->
  wp (run_actions acts r) Q w.
Proof.
  induction acts as [|a rest IH]; intros w Q HU HQ; cbn [run_actions].
  - wp_prim. apply HQ; [exact HU|]. destruct r; discriminate.
  - pose proof HU as (HI & HT & HS & HP).
    assert (HB : B w w) by (apply B_refl; exact HI).
    destruct a.
    + do 2 wp_prim. eapply do_out_keeps; [exact HB|]. intros x w1 H1. cbv beta iota.
      destruct (in_user_step_B _ _ HU H1) as [HU1 _].
      destruct x; [apply IH; assumption | wp_prim; apply HQ; [exact HU1 | discriminate]].
    + use schedule_total; [exact HB|]. intros u w1 H1. cbv beta iota.
      destruct (in_user_step_B _ _ HU H1) as [(I1 & T1 & S1 & P1) _].
      use set_t0_spec; [exact I1|]. intros w2 I2 E2 S2 T2 P2 _ _. cbv beta iota. wp_prim.
      apply HQ; [split; [exact I2|]; split; [congruence|]; split; congruence | intros _; rewrite E2; reflexivity].
    + do 2 wp_prim. wp_case.
      * destruct p as [k' wk]. destruct wk; try (apply IH; assumption). wp_prim. apply HQ; [exact HU | discriminate].
      * use set_t0_spec; [exact HI|]. intros w2 I2 E2 S2 T2 P2 _ _. cbv beta iota. wp_prim.
        apply HQ; [split; [exact I2|]; split; [congruence|]; split; congruence | intros _; rewrite E2; reflexivity].
    + use ctl_observed_spec; [exact HB|]. intros x w1 H1 _. cbv beta iota.
      use emit_total; [reflexivity | exact H1 |]. intros u w2 H2. cbv beta iota.
      destruct (in_user_step_B _ _ HU H2) as [HU2 _]. apply IH; assumption.
    + use schedule_total; [exact HB|]. intros u w1 H1. cbv beta iota.
      destruct (in_user_step_B _ _ HU H1) as [HU1 _]. apply IH; assumption.
    + do 2 wp_prim. use emit_total; [cbn; rewrite HP; reflexivity | exact HB |]. intros u w2 H2. cbv beta iota.
      destruct (in_user_step_B _ _ HU H2) as [HU2 _]. apply IH; assumption.
    + do 2 wp_prim. apply IH; [|exact HQ]. split; [exact HI|]. split; [exact HT|]. split; [exact HS | exact HP].
Qed.

(* a weaker frame for the code at the end of a step: t0, the transitioning flag and the trace flags are kept; the
   stepping flag and the paused future may change *)
Definition SI (w : world) : Prop := IB w /\ transitioning w = false.

Lemma SI_B w w' : SI w -> B w w' -> SI w' /\ t0 w' = t0 w /\ stepping w' = stepping w.
Proof. intros [I T] [I' (A1 & A2 & A3 & A4 & A5)]. split; [split; [exact I' | congruence]|]. split; assumption. Qed.

Lemma after_run_fn_keeps o : keeps (after_run_fn o).
Proof.
  intros w0 w Q HB HQ. unfold after_run_fn. destruct o; try (wp_prim; apply HQ; exact HB).
  use fresh_total; [exact HB|]. intros wid w1 H1. cbv beta iota.
  wp_case; wp_prim; apply HQ; exact H1.
Qed.

(* Waiting.execute after the awaited future is done: no user code runs; only the state payload, the waiting
   bookkeeping and the program counter change *)
Definition SIp (w0 w : world) : Prop := SI w /\ stepping w = stepping w0 /\ paused w = paused w0.

Lemma SIp_frame w0 w w' :
  SIp w0 w -> cfg w' = cfg w -> trace w' = trace w -> transitioning w' = transitioning w ->
  transition_failing w' = transition_failing w -> stepping w' = stepping w -> paused w' = paused w -> SIp w0 w'.
Proof.
  intros [[[[Hn Hf] Hi] HT] [HS HP]] Hc Ht H1 H2 H3 H4. unfold SIp, SI, IB, IB0, FI, nofault in *.
  rewrite Hc, Ht, H1, H2, H3, H4. auto 10.
Qed.

Ltac sip_frame :=
  match goal with
  | H : SIp ?a ?b |- SIp _ _ =>
      eapply (SIp_frame a b); [exact H | reflexivity | reflexivity | reflexivity | reflexivity | reflexivity | reflexivity]
  end.

(* never raises; a suspension leaves the program counter on the waiting future *)
Definition waits_ok (m : LM exec_out) : Prop :=
  forall w0 w (Q : result exec_out -> world -> Prop),
    SIp w0 w ->
    (forall x w', SIp w0 w' -> (x = XoSuspended -> exists wid, t0 w' = PcAwaitWaiting wid) -> Q (Ok x) w') ->
    wp m Q w.

Lemma after_waiting_once_ok fn aw wk again :
  (forall i, waits_ok (again i)) -> waits_ok (after_waiting_once fn aw wk again).
Proof.
  intros Hag w0 w Q H HQ. unfold after_waiting_once.
  destruct wk; try (wp_prim; apply HQ; [exact H | discriminate]).
  do 4 wp_prim.
  match goal with |- wp _ _ ?w' => assert (H0 : SIp w0 w') by sip_frame end.
  match goal with |- wp _ _ ?w' => destruct (st w') as [cur|] end; [|wp_prim; apply HQ; [exact H0 | discriminate]].
  destruct cur; try (wp_prim; apply HQ; [exact H0 | discriminate]).
  assert (Hk : forall w1, SIp w0 w1 ->
     wp (bind get (fun w' =>
          if existsb (Nat.eqb id) (wrecalled w')
          then bind (modify (fun w => w <| wrecalled := filter (fun r => negb (Nat.eqb id r)) (wrecalled w) |>)) (fun _ => again (Some id))
          else ret (XoInterrupted id))) Q w1).
  { intros w1 H1. do 2 wp_prim. wp_case; [|wp_prim; apply HQ; [exact H1 | discriminate]].
    do 2 wp_prim. eapply Hag; [sip_frame | exact HQ]. }
  wp_prim. wp_case.
  - unfold fresh. do 5 wp_prim. do 2 wp_prim. apply Hk. sip_frame.
  - wp_prim. apply Hk; exact H0.
Qed.

Lemma await_current_ok fn k : (forall a b, waits_ok (k a b)) -> waits_ok (await_current fn k).
Proof.
  intros Hk w0 w Q H HQ. unfold await_current. do 2 wp_prim.
  destruct (st w) as [cur|]; [|wp_prim; apply HQ; [exact H | discriminate]].
  destruct cur; try (wp_prim; apply HQ; [exact H | discriminate]). destruct wf.
  - unfold set_t0'. do 2 wp_prim. wp_prim. apply HQ; [sip_frame | intros _; eexists; reflexivity].
  - eapply Hk; eauto.
Qed.

Lemma after_waiting_ok fn aw wk : waits_ok (after_waiting fn aw wk).
Proof.
  unfold after_waiting. apply after_waiting_once_ok. intro i.
  apply await_current_ok. intros a b. apply after_waiting_once_ok. intro j.
  intros w0 w Q H HQ. wp_prim. apply HQ; [exact H | discriminate].
Qed.

Lemma after_run_fn_spec o w0 w (Q : result exec_out -> world -> Prop) :
  B w0 w -> (forall x w', B w0 w' -> (x = XoSuspended -> o = SoSuspended) -> Q (Ok x) w') -> wp (after_run_fn o) Q w.
Proof.
  intros HB HQ. unfold after_run_fn. destruct o; try (wp_prim; apply HQ; [exact HB | discriminate || reflexivity]).
  use fresh_total; [exact HB|]. intros wid w1 H1. cbv beta iota.
  wp_case; wp_prim; apply HQ; [exact H1 | discriminate | exact H1 | discriminate].
Qed.

(* where the stepping coroutine is suspended inside a step *)
Definition suspended_in_step (w : world) : Prop :=
  in_step (t0 w) = true \/ exists wid, t0 w = PcAwaitWaiting wid.

(* self._state.execute() from its beginning: runs user code only when the process is not paused; for a terminated
   process (released from a pause by its termination) nothing runs *)
Lemma execute_state_spec w (Q : result exec_out -> world -> Prop) :
  SI w -> stepping w = true -> (paused w = None \/ is_terminated w = true) ->
  (forall x w', SI w' -> stepping w' = true -> paused w' = paused w ->
                (x = XoSuspended -> suspended_in_step w' /\ is_terminated w = false) -> Q (Ok x) w') ->
  wp execute_state Q w.
Proof.
  intros [HI HT] HS HP HQ0. unfold execute_state. do 2 wp_prim.
  assert (HSI : SI w) by (split; assumption).
  assert (Hsame : forall x, x <> XoSuspended -> Q (Ok x) w).
  { intros x Hx. apply HQ0; auto. intro; contradiction. }
  assert (HQ : is_terminated w = false -> forall x w', SI w' -> stepping w' = true -> paused w' = paused w ->
                (x = XoSuspended -> suspended_in_step w') -> Q (Ok x) w').
  { intros Hnt x w' A1 A2 A3 A4. apply HQ0; auto. }
  destruct (st w) as [cur|] eqn:Hst; [|wp_prim; apply Hsame; discriminate].
  destruct cur; try (wp_prim; apply Hsame; discriminate).
  - (* RUNNING: user code *)
    assert (Hnt : is_terminated w = false) by (unfold is_terminated; rewrite Hst; reflexivity).
    specialize (HQ Hnt).
    destruct HP as [HP | HP]; [|unfold is_terminated in HP; rewrite Hst in HP; discriminate].
    assert (HB : B w w) by (apply B_refl; exact HI).
    use emit_total; [cbn; rewrite HP; reflexivity | exact HB |]. intros u w1 H1. cbv beta iota.
    assert (HU : in_user_step w) by (split; [exact HI|]; split; [exact HT|]; split; assumption).
    destruct (in_user_step_B _ _ HU H1) as [HU1 E1].
    assert (P1 : paused w1 = paused w) by (destruct HU1 as (_ & _ & _ & P1); congruence).
    wp_case.
    + use run_actions_spec; [exact HU1|]. intros o w2 HU2 Ho. cbv beta iota.
      pose proof HU2 as (I2 & T2 & S2 & P2).
      assert (HB2 : B w2 w2) by (apply B_refl; exact I2).
      eapply after_run_fn_spec; [exact HB2|]. intros x w3 H3 Hx.
      destruct (in_user_step_B _ _ HU2 H3) as [(I3 & T3 & S3 & P3) E3].
      apply HQ; [split; assumption | exact S3 | congruence |].
      intro Hs. left. rewrite E3. apply Ho. apply Hx. exact Hs.
    + wp_prim. apply HQ; [destruct HU1 as (I1 & T1 & _); split; assumption | apply HU1 | exact P1 | discriminate].
  - (* WAITING *)
    assert (Hnt : is_terminated w = false) by (unfold is_terminated; rewrite Hst; reflexivity).
    specialize (HQ Hnt).
    destruct wf.
    + use set_t0_spec; [exact HI|]. intros w2 I2 E2 S2 T2 P2 _ _. cbv beta iota. wp_prim.
      apply HQ; [split; [exact I2 | congruence] | congruence | exact P2 | intros _; right; eauto].
    + assert (Hp : SIp w w) by (split; [exact HSI | split; reflexivity]).
      eapply after_waiting_ok; [exact Hp|]. intros x w' (S' & E1 & E2) Hx.
      apply HQ; [exact S' | congruence | exact E2 | intro Hs; right; apply Hx; exact Hs].
Qed.

(* the end of a step: t0 and the transitioning flag are kept, the trace flags stay fine; the stepping flag and the
   paused future may change *)
Definition SE (w0 w : world) : Prop := SI w /\ t0 w = t0 w0.

Lemma SE_of_B w w' : SI w -> B w w' -> SE w w'.
Proof. intros H HB. destruct (SI_B _ _ H HB) as (A & B' & _). split; assumption. Qed.

Lemma SE_trans w0 w1 w2 : SE w0 w1 -> SE w1 w2 -> SE w0 w2.
Proof. intros [A1 A2] [B1 B2]. split; [exact B1 | congruence]. Qed.

Lemma do_pause_deferred_spec msg next w0 w (Q : result bool -> world -> Prop) :
  B w0 w ->
  (forall r w', IB w' -> t0 w' = t0 w0 -> stepping w' = stepping w0 -> transitioning w' = transitioning w0 ->
                transition_failing w' = transition_failing w0 -> Q r w') ->
  wp (do_pause_deferred msg next) Q w.
Proof.
  intros HB HQ. unfold do_pause_deferred. do 2 wp_prim.
  assert (Hold : wp (do_pause (do_ctl reent_fuel) msg next) Q w).
  { eapply do_pause_spec; [apply do_ctl_keeps | exact HB|]. intros r w1 I1 A1 A2 A3 A5 _. apply HQ; assumption. }
  destruct next as [ns|]; [|exact Hold]. destruct (pausing w) as [a'|]; [|exact Hold].
  wp_prim. wp_prim. apply (transition_keeps (Some ns) w0); [exact HB|]. intros r1 w1 H1. destruct r1; cbv beta iota.
  - do 2 wp_prim.
    match goal with |- wp (if ?c then _ else _) _ _ => destruct c end.
    + eapply do_pause_spec; [apply do_ctl_keeps | exact H1|]. intros r w2 I2 A1 A2 A3 A5 _. wp_prim. destruct r; apply HQ; assumption.
    + do 2 wp_prim. destruct H1 as [I1 (A1 & A2 & A3 & A4 & A5)]. apply HQ; assumption.
  - wp_prim. destruct H1 as [I1 (A1 & A2 & A3 & A4 & A5)]. apply HQ; assumption.
Qed.

Lemma run_action_spec id next w (Q : result unit -> world -> Prop) :
  SI w -> (forall r w', SE w w' -> stepping w' = stepping w -> Q r w') -> wp (run_action id next) Q w.
Proof.
  intros HS HQ. unfold run_action. do 2 wp_prim.
  pose proof HS as [HI HT].
  assert (HB : B w w) by (apply B_refl; exact HI).
  assert (Hdone : forall r w', B w w' -> Q r w').
  { intros r w' H'. destruct (SI_B _ _ HS H') as (A1 & A2 & A3). apply HQ; [split; assumption | exact A3]. }
  wp_case; [|wp_prim; apply Hdone; exact HB].
  wp_case; try (wp_prim; apply Hdone; exact HB). do 2 wp_prim.
  assert (Hk : forall (r : result bool) w1, SE w w1 -> stepping w1 = stepping w ->
     wp (bind get (fun w' =>
           match get_act w' id with
           | Some a' => match a_fut a' with
                        | AfPending => set_act_fut id (match r with Ok b => AfVal b | Err e => AfExn e end)
                        | _ => ret tt
                        end
           | None => raise EIndex
           end)) Q w1).
  { intros r w1 [[I1 T1] E1] S1. do 2 wp_prim.
    assert (HB1 : B w1 w1) by (apply B_refl; exact I1).
    assert (Hd1 : forall r' w', B w1 w' -> Q r' w').
    { intros r' w' H'. destruct (SI_B w1 w' (conj I1 T1) H') as ([A1 A1'] & A2 & A3).
      apply HQ; [split; [split; assumption | congruence] | congruence]. }
    wp_case; [|wp_prim; apply Hd1; exact HB1].
    wp_case; try (wp_prim; apply Hd1; exact HB1).
    eapply set_act_fut_total; [exact HB1|]. intros u w2 H2. apply Hd1; exact H2. }
  wp_case.
  - eapply do_pause_deferred_spec; [exact HB |]. intros r w1 I1 A1 A2 A3 A5. cbv beta iota.
    apply Hk; [split; [split; [exact I1 | congruence] | exact A1] | exact A2].
  - wp_prim.
    assert (Hcase : forall (tgt : option pstate) (b : bool),
       wp (bind (transition tgt) (fun _ => ret b))
          (fun r s' => wp (modify (fun w => w <| killing := None |>))
             (fun r2 s'' => match r2 with
                            | Ok _ => wp (bind get (fun w' =>
                                match get_act w' id with
                                | Some a' => match a_fut a' with
                                             | AfPending => set_act_fut id (match r with Ok b => AfVal b | Err e => AfExn e end)
                                             | _ => ret tt
                                             end
                                | None => raise EIndex
                                end)) Q s''
                            | Err e => wp (bind get (fun w' =>
                                match get_act w' id with
                                | Some a' => match a_fut a' with
                                             | AfPending => set_act_fut id (AfExn e)
                                             | _ => ret tt
                                             end
                                | None => raise EIndex
                                end)) Q s''
                            end) s') w).
    { intros tgt b. use transition_keeps; [exact HB|]. intros r w1 H1.
      destruct (SI_B _ _ HS H1) as ([I1 T1] & E1 & S1).
      assert (H2 : B w (w1 <| killing := None |>)) by b_frame.
      destruct (SI_B _ _ HS H2) as (SI2 & E2 & S2).
      destruct r; cbv beta iota.
      + do 2 wp_prim. apply (Hk (Ok b)); [split; assumption | exact S2].
      + wp_prim. apply (Hk (Err e)); [split; assumption | exact S2]. }
    destruct next as [[]|]; apply Hcase.
Qed.

Lemma run_armed_spec fuel : forall ran w (Q : result unit -> world -> Prop),
  SI w -> (forall r w', SE w w' -> Q r w') -> wp (run_armed fuel ran) Q w.
Proof.
  induction fuel as [|f IH]; intros ran w Q HS HQ; cbn [run_armed].
  { wp_prim. apply HQ. split; [exact HS | reflexivity]. }
  assert (HSE : SE w w) by (split; [exact HS | reflexivity]).
  do 2 wp_prim. wp_case; [wp_prim; apply HQ; exact HSE|].
  wp_case; [|wp_prim; apply HQ; exact HSE].
  wp_case; [wp_prim; apply HQ; exact HSE|].
  wp_prim. eapply run_action_spec; [exact HS|]. intros r w2 H2 _. destruct r; cbv beta iota.
  - apply IH; [apply H2|]. intros r3 w3 H3. apply HQ. eapply SE_trans; eauto.
  - apply HQ. exact H2.
Qed.

Lemma finish_step_spec x w (Q : result unit -> world -> Prop) :
  SI w -> (forall r w', SE w w' -> stepping w' = false -> Q r w') -> wp (finish_step x) Q w.
Proof.
  intros HS HQ. unfold finish_step. wp_prim.
  pose proof HS as [HI HT].
  assert (HB : B w w) by (apply B_refl; exact HI).
  assert (Hfin : forall (r : result unit) w1, SE w w1 ->
     wp (bind (modify (fun w => w <| stepping := false |>)) (fun _ => set_interrupt_action None))
        (fun r2 s'' => match r2 with Ok _ => Q r s'' | Err e => Q (Err e) s'' end) w1).
  { intros r w1 [[I1 T1] E1]. do 2 wp_prim.
    set (w2 := w1 <| stepping := false |>).
    assert (I2 : IB w2) by exact I1.
    assert (HB2 : B w2 w2) by (apply B_refl; exact I2).
    eapply set_interrupt_action_total; [exact HB2|]. intros u w3 H3.
    destruct (SI_B w2 w3 (conj I2 T1) H3) as (A1 & A2 & A3).
    apply HQ; [split; [exact A1 | rewrite A2; exact E1] | rewrite A3; reflexivity]. }
  assert (Hk : forall next w1, SE w w1 ->
     wp (bind get (fun w => if is_terminated w then ret tt
                            else match intr w with
                                 | Some a => bind (run_action a next) (fun _ => run_armed armed_fuel (Some a))
                                 | None => bind (transition next) (fun _ => run_armed armed_fuel None)
                                 end))
        (fun r s' => wp (bind (modify (fun w => w <| stepping := false |>)) (fun _ => set_interrupt_action None))
           (fun r2 s'' => match r2 with Ok _ => Q r s'' | Err e => Q (Err e) s'' end) s') w1).
  { intros next w1 H1. pose proof H1 as [[I1 T1] E1]. do 2 wp_prim. wp_case; [wp_prim; apply Hfin; exact H1|].
    assert (Harm : forall ran w2, SE w w2 ->
              wp (run_armed armed_fuel ran)
                 (fun r s' => wp (bind (modify (fun w => w <| stepping := false |>)) (fun _ => set_interrupt_action None))
                    (fun r2 s'' => match r2 with Ok _ => Q r s'' | Err e => Q (Err e) s'' end) s') w2).
    { intros ran w2 H2. apply run_armed_spec; [apply H2|]. intros r3 w3 H3. apply Hfin. eapply SE_trans; eauto. }
    wp_case.
    - wp_prim. eapply run_action_spec; [split; assumption|]. intros r w2 H2 _.
      assert (H12 : SE w w2) by (eapply SE_trans; eauto).
      destruct r; cbv beta iota; [apply Harm; exact H12 | apply Hfin; exact H12].
    - wp_prim. eapply transition_keeps; [apply B_refl; exact I1|]. intros r w2 H2.
      assert (H12 : SE w w2) by (eapply SE_trans; [exact H1|]; apply SE_of_B; [split; assumption | exact H2]).
      destruct r; cbv beta iota; [apply Harm; exact H12 | apply Hfin; exact H12]. }
  assert (HSE : SE w w) by (split; [exact HS | reflexivity]).
  wp_prim. destruct x.
  - wp_prim. apply Hk; exact HSE.
  - wp_prim. apply Hk; exact HSE.
  - do 3 wp_prim. wp_case.
    + do 2 wp_prim. apply (Hk None); exact HSE.
    + wp_case.
      * use set_interrupt_action_from_total; [exact HB|]. intros a' w1 H1. cbv beta iota.
        do 2 wp_prim. apply (Hk None). apply SE_of_B; assumption.
      * do 2 wp_prim. apply (Hk None); exact HSE.
  - use set_interrupt_action_total; [exact HB|]. intros u w1 H1. cbv beta iota.
    wp_prim. apply Hk. apply SE_of_B; assumption.
Qed.

(* what holds between loop callbacks *)
Definition EI (w : world) : Prop :=
  SI w /\
  (stepping w = true -> paused w = None) /\
  (stepping w = true -> suspended_in_step w) /\
  (in_step (t0 w) = true -> stepping w = true).

Definition EI_post (r : result unit) (w' : world) : Prop :=
  SI w' /\ (forall u, r = Ok u -> EI w') /\ (forall e, r = Err e -> stepping w' = false).

Lemma loop_head_spec fuel : forall w (Q : result unit -> world -> Prop),
  SI w -> stepping w = false ->
  (forall r w', EI_post r w' -> Q r w') -> wp (loop_head fuel) Q w.
Proof.
  induction fuel as [|f IH]; intros w Q HS Hstp HQ; cbn [loop_head].
  - wp_prim. apply HQ. split; [exact HS|]. split; [discriminate | intros; exact Hstp].
  - pose proof HS as [HI HT]. do 2 wp_prim.
    assert (Hnot : forall p, in_step p = false -> (forall wid, p <> PcAwaitWaiting wid) ->
              wp (set_t0 p) Q w).
    { intros p Hp Hp'. eapply set_t0_spec; [exact HI|]. intros w1 I1 E1 S1 T1 P1 _ _. apply HQ.
      split; [split; [exact I1 | congruence]|]. split; [|discriminate].
      intros u _. split; [split; [exact I1 | congruence]|].
      split; [intro H; congruence|]. split; [intro H; congruence|]. rewrite E1, Hp. discriminate. }
    wp_case; [apply Hnot; [reflexivity | discriminate]|].
    wp_case; [wp_prim; apply HQ; split; [exact HS|]; split; [discriminate | intros; exact Hstp]|].
    wp_case; [apply Hnot; [reflexivity | discriminate]|].
    do 2 wp_prim.
    set (w1 := w <| stepping := true |>).
    assert (S1 : SI w1) by exact HS.
    use execute_state_spec; [exact S1 | reflexivity | left; assumption |].
    intros x w2 S2 St2 P2 Hx. cbv beta iota.
    assert (Hgo : wp (bind (finish_step x) (fun _ => loop_head f)) Q w2).
    { use finish_step_spec; [exact S2|]. intros r w3 [S3 E3] St3. destruct r; cbv beta iota.
      - apply IH; [exact S3 | exact St3 | exact HQ].
      - apply HQ. split; [exact S3|]. split; [discriminate | intros; exact St3]. }
    destruct x; try exact Hgo.
    wp_prim. apply HQ. split; [exact S2|]. split; [|discriminate].
    intros u _. split; [exact S2|]. split; [intros _; rewrite P2; assumption|].
    split; [intros _; apply Hx; reflexivity | intros _; exact St2].
Qed.

Lemma EI_SI w : EI w -> SI w.
Proof. intros [H _]. exact H. Qed.

Lemma resume_t0_spec wk w (Q : result unit -> world -> Prop) :
  EI w -> (forall r w', EI_post r w' -> Q r w') -> wp (resume_t0 wk) Q w.
Proof.
  intros HEI HQ. pose proof HEI as (HS & E5 & ST & Q5). unfold resume_t0. do 2 wp_prim.
  pose proof HS as [HI HT].
  assert (Hcont : forall x w1, SI w1 ->
     wp (bind (finish_step x) (fun _ => loop_head chain_fuel)) Q w1).
  { intros x w1 S1. use finish_step_spec; [exact S1|]. intros r w2 [S2 E2] St2. destruct r; cbv beta iota.
    - apply loop_head_spec; [exact S2 | exact St2 | exact HQ].
    - apply HQ. split; [exact S2|]. split; [discriminate | intros; exact St2]. }
  assert (Hsusp : forall w', SI w' -> stepping w' = true -> paused w' = None -> suspended_in_step w' -> Q (Ok tt) w').
  { intros w' S' St' P' Hs. apply HQ. split; [exact S'|]. split; [|discriminate].
    intros u _. split; [exact S'|]. split; [intros _; exact P'|]. split; [intros _; exact Hs | intros _; exact St']. }
  destruct (t0 w) eqn:Ht0.
  - (* the task starts *)
    apply loop_head_spec; [exact HS | | exact HQ].
    destruct (stepping w) eqn:Hst; [|reflexivity]. destruct (ST eq_refl) as [H | [wid H]]; rewrite Ht0 in H; discriminate.
  - (* woken from `await self._paused` *)
    assert (Hgo : (paused w = None \/ is_terminated w = true) ->
       wp (bind (modify (fun w => w <| stepping := true |>)) (fun _ => bind execute_state (fun x =>
             match x with
             | XoSuspended => ret tt
             | _ => bind (finish_step x) (fun _ => loop_head chain_fuel)
             end))) Q w).
    { intro Hp. do 2 wp_prim.
      set (w1 := w <| stepping := true |>).
      assert (S1 : SI w1) by exact HS.
      use execute_state_spec; [exact S1 | reflexivity | exact Hp |].
      intros x w2 S2 St2 P2 Hx. cbv beta iota.
      destruct x; try (apply Hcont; exact S2).
      wp_prim. destruct (Hx eq_refl) as [Hs Hnt]. destruct Hp as [Hp | Hp]; [|change (is_terminated w = false) in Hnt; congruence].
      apply Hsusp; [exact S2 | exact St2 | rewrite P2; exact Hp | exact Hs]. }
    destruct (paused w) eqn:Hp.
    + destruct (is_terminated w) eqn:Hterm.
      * apply Hgo. right. reflexivity.
      * eapply set_t0_spec; [exact HI|]. intros w1 I1 E1 S1 T1 P1 _ _. apply HQ.
        assert (Hnst : stepping w = false).
        { destruct (stepping w) eqn:Hst; [|reflexivity]. specialize (E5 eq_refl). congruence. }
        split; [split; [exact I1 | congruence]|]. split; [|discriminate].
        intros u _. split; [split; [exact I1 | congruence]|].
        split; [intro H; congruence|]. split; [intro H; congruence|]. rewrite E1. discriminate.
    + apply Hgo. left. reflexivity.
  - (* woken inside a user step *)
    assert (Hst : stepping w = true) by (apply Q5; reflexivity).
    assert (HU : in_user_step w) by (split; [exact HI|]; split; [exact HT|]; split; [exact Hst | apply E5; exact Hst]).
    wp_prim.
    assert (Hk : forall o w1, in_user_step w1 -> (o = SoSuspended -> in_step (t0 w1) = true) ->
       wp (bind (after_run_fn o) (fun x => match x with
         | XoSuspended => ret tt
         | _ => bind (finish_step x) (fun _ => loop_head chain_fuel)
         end)) Q w1).
    { intros o w1 HU1 Ho. pose proof HU1 as (I1 & T1 & S1 & P1).
      use after_run_fn_spec; [apply B_refl; exact I1|]. intros x w2 H2 Hx. cbv beta iota.
      destruct (in_user_step_B _ _ HU1 H2) as [(I2 & T2 & S2 & P2) E2].
      destruct x; try (apply Hcont; split; assumption).
      wp_prim. apply Hsusp; [split; assumption | exact S2 | exact P2 |].
      left. rewrite E2. apply Ho. apply Hx. reflexivity. }
    destruct wk; try (eapply run_actions_spec; [exact HU|]; intros o w1 HU1 Ho; cbv beta iota; apply Hk; assumption).
    wp_prim. apply Hk; [exact HU | discriminate].
  - (* woken from the waiting future *)
    do 3 wp_prim.
    assert (Hp : SIp w w) by (split; [exact HS | split; reflexivity]).
    assert (Hk : forall fn, wp (after_waiting fn wid wk) (fun r s' => match r with
          | Ok a => wp (bind (finish_step a) (fun _ => loop_head chain_fuel)) Q s'
          | Err e => Q (Err e) s' end) w).
    { intro fn. eapply after_waiting_ok; [exact Hp|]. intros x w1 (S1 & _ & _) _. apply Hcont; exact S1. }
    destruct (st w) as [[]|]; apply Hk.
  - wp_prim. apply HQ. split; [exact HS|]. split; [|discriminate]. intros u _. exact HEI.
  - wp_prim. apply HQ. split; [exact HS|]. split; [|discriminate]. intros u _. exact HEI.
Qed.

(* ------------------------------------------------------------------ the environment *)
Lemma EI_B w w' : EI w -> B w w' -> EI w'.
Proof.
  intros (HS & E5 & ST & Q5) HB. destruct (SI_B _ _ HS HB) as (S' & E' & St').
  destruct HB as [_ (A1 & A2 & A3 & A4 & A5)].
  split; [exact S'|]. unfold suspended_in_step in *. rewrite E', St'.
  split; [|split; assumption]. intro H. apply A4; [exact H | apply E5; exact H].
Qed.

Lemma keeps_EI {A} (m : LM A) w (Q : result A -> world -> Prop) :
  keeps m -> EI w -> (forall r w', EI w' -> Q r w') -> wp m Q w.
Proof.
  intros Hk HE HQ. eapply Hk; [apply B_refl; apply HE|]. intros r w' H'. apply HQ. eapply EI_B; eauto.
Qed.

Lemma ctl_call_keeps c : keeps (ctl_call c).
Proof. intros w0 w Q HB HQ. eapply ctl_call_spec; [exact HB|]. intros r w' H' _. apply HQ; exact H'. Qed.

Lemma total_EI {A} (m : LM A) w (Q : result A -> world -> Prop) :
  total m -> EI w -> (forall a w', EI w' -> Q (Ok a) w') -> wp m Q w.
Proof.
  intros Hk HE HQ. eapply Hk; [apply B_refl; apply HE|]. intros a w' H'. apply HQ. eapply EI_B; eauto.
Qed.

Lemma run_entry_spec r w (Q : result unit -> world -> Prop) :
  EI w -> (forall w', EI w' -> Q (Ok tt) w') -> wp (run_entry r) Q w.
Proof.
  intros HE HQ. unfold run_entry. destruct r as [wk|cb|].
  - do 2 wp_prim. eapply resume_t0_spec; [exact HE|]. intros x w1 (S1 & Hok & Herr). cbv beta iota. destruct x as [[]|e].
    + wp_prim. apply HQ. apply (Hok tt). reflexivity.
    + pose proof S1 as [I1 T1].
      use set_t0_spec; [exact I1|]. intros w2 I2 E2 St2 T2 P2 _ _. cbv beta iota.
      assert (HE2 : EI w2).
      { assert (Hs : stepping w2 = false) by (rewrite St2; apply (Herr e); reflexivity).
        split; [split; [exact I2 | congruence]|]. split; [intro; congruence|]. split; [intro; congruence|].
        rewrite E2. discriminate. }
      eapply total_EI; [apply emit_total; reflexivity | exact HE2 |]. intros [] w3 H3. apply HQ; exact H3.
  - use (total_EI (emit (EvCallback cb))); [apply emit_total; reflexivity | exact HE |]. intros [] w1 H1. cbv beta iota.
    do 4 wp_prim.
    assert (Hk : forall (x : result unit) w2, EI w2 ->
      wp (match x with
          | Ok _ => ret tt
          | Err e =>
              bind get (fun w => match st w with
                                 | Some (SExcepted _) => ret tt
                                 | _ => bind (attempt (ctl_call (CFail e)))
                                          (fun y => match y with Ok _ => ret tt | Err e' => emit (EvLoopError e') end)
                                 end)
          end) Q w2).
    { intros x w2 H2. destruct x; [wp_prim; apply HQ; exact H2|]. do 2 wp_prim.
      assert (Hf : wp (bind (attempt (ctl_call (CFail e)))
                         (fun y => match y with Ok _ => ret tt | Err e' => emit (EvLoopError e') end)) Q w2).
      { do 2 wp_prim. eapply keeps_EI; [apply ctl_call_keeps | exact H2 |]. intros y w3 H3. cbv beta iota. destruct y.
        - wp_prim. apply HQ; exact H3.
        - eapply total_EI; [apply emit_total; reflexivity | exact H3 |]. intros [] w4 H4. apply HQ; exact H4. }
      destruct (st w2) as [[]|]; try exact Hf. wp_prim. apply HQ; exact H2. }
    wp_case; [wp_case|].
    + wp_prim. apply (Hk (Ok tt)); exact H1.
    + wp_prim. apply (Hk (Err e)); exact H1.
    + wp_prim. eapply keeps_EI; [apply ctl_observed_keeps | exact H1 |]. intros x w2 H2. destruct x; cbv beta iota.
      * eapply total_EI; [apply emit_total; reflexivity | exact H2 |]. intros [] w3 H3. apply (Hk (Ok tt)); exact H3.
      * apply (Hk (Err e)); exact H2.
    + wp_prim. apply (Hk (Ok tt)); exact H1.
  - do 2 wp_prim. wp_case; [|wp_prim; apply HQ; exact HE].
    do 2 wp_prim. eapply keeps_EI; [apply ctl_call_keeps | exact HE |]. intros y w3 H3. cbv beta iota. destruct y.
    + wp_prim. apply HQ; exact H3.
    + eapply total_EI; [apply emit_total; reflexivity | exact H3 |]. intros [] w4 H4. apply HQ; exact H4.
Qed.

Lemma tick_spec w (Q : result unit -> world -> Prop) :
  EI w -> (forall w', EI w' -> Q (Ok tt) w') -> wp tick Q w.
Proof.
  intros HE HQ. unfold tick. do 2 wp_prim. wp_case; [wp_prim; apply HQ; exact HE|].
  do 2 wp_prim. eapply run_entry_spec; [|exact HQ].
  eapply EI_B; [exact HE|]. eapply (B_frame w w); [apply B_refl; apply HE | reflexivity ..].
Qed.

Lemma drain_spec n : forall w (Q : result unit -> world -> Prop),
  EI w -> (forall w', EI w' -> Q (Ok tt) w') -> wp (drain n) Q w.
Proof.
  induction n as [|n IH]; intros w Q HE HQ; cbn [drain].
  - wp_prim. apply HQ; exact HE.
  - do 2 wp_prim. wp_case; [wp_prim; apply HQ; exact HE|].
    use tick_spec; [exact HE|]. intros w1 H1. cbv beta iota. apply IH; assumption.
Qed.

(* an environment event keeps the invariant; a pause / play / kill request gets a result, never an exception *)
Lemma env_step_m_spec e w (Q : result unit -> world -> Prop) :
  EI w ->
  (forall w', EI w' ->
     (forall c, e = ECtl c -> benign c = true ->
        exists x tr, trace w' = tr ++ [EvCtl c x] /\ raised x = false) -> Q (Ok tt) w') ->
  wp (env_step_m e) Q w.
Proof.
  intros HE HQ. destruct e as [|c| |cb|k wk|n]; cbn [env_step_m].
  - eapply tick_spec; [exact HE|]. intros w' H'. apply HQ; [exact H' | discriminate].
  - wp_prim. pose proof HE as ([HI HT] & _).
    eapply ctl_observed_spec; [apply B_refl; exact HI|]. intros x w1 H1 Hx. cbv beta iota.
    unfold emit. wp_prim. apply HQ.
    + eapply EI_B; [exact HE|]. eapply (B_emit w w1 _ (EvCtl c x)); [exact H1 | reflexivity ..].
    + intros c' Hc Hb. injection Hc as <-. exists x, (trace w1). split; [reflexivity | apply Hx; assumption].
  - do 2 wp_prim. pose proof HE as ([HI HT] & _).
    assert (HB : B w w) by (apply B_refl; exact HI).
    wp_case; try (wp_prim; apply HQ; [exact HE | discriminate]). wp_case.
    + do 2 wp_prim. eapply total_EI; [apply schedule_total | |].
      * eapply EI_B; [exact HE|]. eapply (B_frame w w); [exact HB | reflexivity ..].
      * intros [] w1 H1. apply HQ; [exact H1 | discriminate].
    + wp_prim. apply HQ; [|discriminate]. eapply EI_B; [exact HE|]. eapply (B_frame w w); [exact HB | reflexivity ..].
  - eapply total_EI; [apply schedule_total | exact HE |]. intros [] w1 H1. apply HQ; [exact H1 | discriminate].
  - do 2 wp_prim. pose proof HE as ([HI HT] & _).
    assert (HB : B w w) by (apply B_refl; exact HI).
    wp_case; [wp_prim; apply HQ; [exact HE | discriminate]|]. do 2 wp_prim.
    match goal with |- wp _ _ ?w' => assert (H1 : EI w') end.
    { eapply EI_B; [exact HE|]. eapply (B_frame w w); [exact HB | reflexivity ..]. }
    wp_case; try (wp_prim; apply HQ; [exact H1 | discriminate]). wp_case; try (wp_prim; apply HQ; [exact H1 | discriminate]).
    wp_case; [|apply HQ; [exact H1 | discriminate]].
    eapply total_EI; [apply schedule_total | exact H1 |]. intros [] w2 H2. apply HQ; [exact H2 | discriminate].
  - eapply drain_spec; [exact HE|]. intros w' H'. apply HQ; [exact H' | discriminate].
Qed.

Lemma env_step_EI w e : EI w -> EI (env_step w e).
Proof.
  intro HE. unfold env_step. apply (wp_run (env_step_m e) (fun _ w' => EI w') w).
  eapply env_step_m_spec; [exact HE|]. intros w' H' _. exact H'.
Qed.

Lemma run_from_EI es : forall w, EI w -> EI (run_from w es).
Proof.
  unfold run_from. induction es as [|e es IH]; intros w HE; cbn [fold_left]; [exact HE|].
  apply IH. apply env_step_EI. exact HE.
Qed.

(* the world the constructor produces satisfies the invariant *)
Lemma constructed_EI c w : cf_fault c = None -> construct_process c = (Ok tt, w) -> EI w.
Proof.
  intros Hf Hc. destruct c as [prog cbs ls fault ospec0]. cbn in Hf. subst fault.
  vm_compute in Hc. injection Hc as <-.
  split; [split; [split; [split; reflexivity | intros _; reflexivity] | reflexivity]|].
  split; [discriminate|]. split; discriminate.
Qed.

Lemma construct_ok c r w : cf_fault c = None -> construct_process c = (r, w) -> r = Ok tt.
Proof.
  intros Hf Hc. destruct c as [prog cbs ls fault ospec0]. cbn in Hf. subst fault.
  vm_compute in Hc. injection Hc as <- _. reflexivity.
Qed.

(* ------------------------------------------------------------------ the theorems *)
Theorem run_EI c es w : cf_fault c = None -> run c es = Some w -> EI w.
Proof.
  intros Hf Hr. unfold run in Hr. destruct (construct_process c) as [r w0] eqn:Hc.
  pose proof (construct_ok _ _ _ Hf Hc) as ->. injection Hr as <-.
  apply run_from_EI. eapply constructed_EI; eauto.
Qed.

(* C05: in every run no step function / continuation starts, and no code inside a step (also after an await)
   observes, a paused process *)
Theorem no_step_while_paused c es w :
  cf_fault c = None -> run c es = Some w -> flags_ok (trace w).
Proof. intros Hf Hr. destruct (run_EI _ _ _ Hf Hr) as ([[[_ H] _] _] & _). exact H. Qed.

(* C04 / C05: pause(), play(), kill() called from the environment on any reachable world return a result *)
Theorem control_calls_total c es w ctl' :
  cf_fault c = None -> run c es = Some w -> benign ctl' = true ->
  exists x tr, trace (env_step w (ECtl ctl')) = tr ++ [EvCtl ctl' x] /\ raised x = false.
Proof.
  intros Hf Hr Hb. pose proof (run_EI _ _ _ Hf Hr) as HE. unfold env_step.
  apply (wp_run (env_step_m (ECtl ctl')) (fun _ w' => exists x tr, trace w' = tr ++ [EvCtl ctl' x] /\ raised x = false) w).
  eapply env_step_m_spec; [exact HE|]. intros w' _ H. apply (H ctl' eq_refl Hb).
Qed.

(* between loop callbacks: a process whose step is in flight is not paused, and the stepping flag is set exactly
   while the stepping coroutine is suspended inside a step *)
Theorem stepping_not_paused c es w :
  cf_fault c = None -> run c es = Some w -> stepping w = true -> paused w = None /\ suspended_in_step w.
Proof. intros Hf Hr Hs. destruct (run_EI _ _ _ Hf Hr) as (_ & E5 & ST & _). auto. Qed.
