(* Life/LifeWake.v — property C02 ("step_until_terminated() returns", "waiters are released") and C06 (no lost wake-up)
   over the life-cycle model M1, for every run:

     W w :  a suspended stepping task is always going to be woken —
            not started yet            : its first wake-up is in the loop's ready queue
            await self._paused (f)     : a wake-up is queued, or f IS the current pause future of a live process
            await waiting future (wid) : a wake-up is queued, or wid IS the current, still pending waiting future
            await sleep(0)             : a wake-up is queued
            await an environment future: a wake-up is queued, or that future has not completed.

   Consequence: when the process has terminated and the loop has nothing left to run, step_until_terminated() has
   returned (or the task failed, or the step is still blocked in the program's own await of a future nobody completed).
   A process whose wait has been resumed is never left parked: the wake-up is in the queue.

   Control level (pause / play / kill / resume / fail, from outside or from listeners): Hoare triples in wp form
   (LifeAgree.Hat) whose relation says: the program counter of the stepping task is untouched, the ready queue only
   grows, and W is carried over.  Stepping level: every way a loop callback ends re-establishes W from scratch. *)
From Coq Require Import List ZArith String Bool Arith Lia.
From RecordUpdate Require Import RecordUpdate.
From Plumpy Require Import Val Mon MonTac PortModel Model Run LifeAgree.
Import ListNotations.
Local Open Scope list_scope.

Definition is_wake (r : rentry) : bool := match r with RWakeT0 _ => true | _ => false end.
Definition wake_ready (w : world) : Prop := existsb is_wake (ready w) = true.

Definition waiting_on (s : option pstate) (wid : nat) : Prop :=
  exists fn m d, s = Some (SWaiting fn m d wid WfPending).

Definition W (w : world) : Prop :=
  match t0 w with
  | PcNotStarted => wake_ready w
  | PcAwaitPaused f => wake_ready w \/ (paused w = Some f /\ is_terminated w = false)
  | PcInStep _ _ None => wake_ready w
  | PcInStep _ _ (Some k) => wake_ready w \/ find (fun kw => Nat.eqb (fst kw) k) (exts w) = None
  | PcAwaitWaiting wid => wake_ready w \/ waiting_on (st w) wid
  | PcDone | PcFailed _ => True
  end.

(* the same, not caring whether the process has terminated: what holds between entering a terminal state and on_terminated *)
Definition Wp (w : world) : Prop :=
  match t0 w with
  | PcNotStarted => wake_ready w
  | PcAwaitPaused f => wake_ready w \/ paused w = Some f
  | PcInStep _ _ None => wake_ready w
  | PcInStep _ _ (Some k) => wake_ready w \/ find (fun kw => Nat.eqb (fst kw) k) (exts w) = None
  | PcAwaitWaiting wid => wake_ready w \/ waiting_on (st w) wid
  | PcDone | PcFailed _ => True
  end.

Lemma W_Wp w : W w -> Wp w.
Proof. unfold W, Wp. destruct (t0 w) as [| | ? ? [k|] | | |]; try tauto. Qed.

Lemma Wp_W w : Wp w -> is_terminated w = false -> W w.
Proof. unfold W, Wp. intros H Hl. destruct (t0 w) as [| | ? ? [k|] | | |]; try tauto. Qed.

Definition grows (w w' : world) : Prop := exists more, ready w' = ready w ++ more.

Lemma grows_refl w : grows w w.
Proof. exists []. symmetry. apply app_nil_r. Qed.

Lemma grows_trans a b c : grows a b -> grows b c -> grows a c.
Proof. intros [m1 H1] [m2 H2]. exists (m1 ++ m2). rewrite H2, H1, app_assoc. reflexivity. Qed.

Lemma grows_wake w w' : grows w w' -> wake_ready w -> wake_ready w'.
Proof. intros [m H]. unfold wake_ready. rewrite H, existsb_app. intros ->. reflexivity. Qed.

(* control level *)
Definition flags_eq (w w' : world) : Prop :=
  transitioning w' = transitioning w /\ transition_failing w' = transition_failing w.

Definition RelW (w w' : world) : Prop :=
  cfg w' = cfg w /\ t0 w' = t0 w /\ grows w w' /\ (W w -> W w') /\ (Wp w -> Wp w') /\ flags_eq w w'.

Lemma RelW_refl w : RelW w w.
Proof. split; [reflexivity | split; [reflexivity | split; [apply grows_refl | split; [auto | split; [auto | split; reflexivity]]]]]. Qed.

Lemma RelW_trans a b c : RelW a b -> RelW b c -> RelW a c.
Proof.
  intros (C1 & T1 & G1 & W1 & P1 & F1 & F1') (C2 & T2 & G2 & W2 & P2 & F2 & F2').
  split; [congruence | split; [congruence | split; [eapply grows_trans; eauto | split; [auto | split; [auto | split; congruence]]]]].
Qed.

Definition nofault (w : world) : Prop := cf_fault (cfg w) = None.
(* the failure bypass of the exit check is only armed inside a transition *)
Definition PreW (w : world) : Prop := nofault w /\ (transitioning w = false -> transition_failing w = false).

Lemma RelW_pre a b : PreW a -> RelW a b -> PreW b.
Proof. intros [H F] (C & _ & _ & _ & _ & F1 & F2). unfold PreW, nofault in *. rewrite C, F1, F2. split; assumption. Qed.

Notation Wat := (Hat PreW RelW).
Definition WK {A} (m : LM A) : Prop := forall w, Wat m w.

Section CombW.
  Context {A B : Type}.
  Lemma Wat_ret (a : A) w : Wat (ret a) w. Proof. apply Hat_ret. intros; apply RelW_refl. Qed.
  Lemma Wat_raise e w : Wat (raise e : LM A) w. Proof. apply Hat_raise. intros; apply RelW_refl. Qed.
  Lemma Wat_bind (m : LM A) (f : A -> LM B) w : Wat m w -> (forall a, WK (f a)) -> Wat (bind m f) w.
  Proof. intros H1 H2. eapply Hat_bind; [exact RelW_trans | exact RelW_pre | exact H1 | intros a w1; apply H2]. Qed.
  Lemma Wat_get (f : world -> LM A) w : Wat (f w) w -> Wat (bind get f) w. Proof. apply Hat_get. Qed.
  Lemma Wat_attempt (m : LM A) w : Wat m w -> Wat (attempt m) w. Proof. apply Hat_attempt. Qed.
  Lemma Wat_finally (m : LM A) f w : Wat m w -> WK f -> Wat (finally m f) w.
  Proof. intros H1 H2. eapply Hat_finally; [exact RelW_trans | exact RelW_pre | exact H1 | exact H2]. Qed.
  Lemma Wat_try_catch (m : LM A) h w : Wat m w -> (forall e, WK (h e)) -> Wat (try_catch m h) w.
  Proof. intros H1 H2. eapply Hat_try_catch; [exact RelW_trans | exact RelW_pre | exact H1 | intros e w1; apply H2]. Qed.
End CombW.
Lemma Wat_when b (m : LM unit) w : (b = true -> Wat m w) -> Wat (when b m) w.
Proof. apply Hat_when. intros; apply RelW_refl. Qed.
Lemma WK_mapM {A} (f : A -> LM unit) l : (forall x, WK (f x)) -> WK (mapM_ f l).
Proof. intros H w. eapply Hat_mapM; [intros; apply RelW_refl | exact RelW_trans | exact RelW_pre | intros x w1; apply H]. Qed.

Ltac wstep :=
  lazymatch goal with
  | |- WK _ => intro
  | |- Hat PreW RelW (bind get _) _ => apply Wat_get; cbv beta
  | |- Hat PreW RelW (bind _ _) _ => apply Wat_bind; [ | intro ]
  | |- Hat PreW RelW (ret _) _ => apply Wat_ret
  | |- Hat PreW RelW (raise _) _ => apply Wat_raise
  | |- Hat PreW RelW (attempt _) _ => apply Wat_attempt
  | |- Hat PreW RelW (finally _ _) _ => apply Wat_finally
  | |- Hat PreW RelW (try_catch _ _) _ => apply Wat_try_catch; [ | intro ]
  | |- Hat PreW RelW (when _ _) _ => apply Wat_when; intro
  | |- Hat _ _ (match ?x with _ => _ end) _ => destruct x eqn:?
  | |- Hat _ _ (if ?x then _ else _) _ => destruct x eqn:?
  | |- Hat _ _ (let _ := _ in _) _ => cbv zeta
  end.

(* ------------------------------------------------------------------ frames: nothing W looks at is written *)
Definition weq (w w' : world) : Prop :=
  t0 w' = t0 w /\ ready w' = ready w /\ paused w' = paused w /\ st w' = st w /\ exts w' = exts w /\ cfg w' = cfg w
  /\ flags_eq w w'.

Lemma weq_RelW w w' : weq w w' -> RelW w w'.
Proof.
  intros (A1 & A2 & A3 & A4 & A5 & A6 & A7). split; [exact A6|]. split; [exact A1|].
  split; [exists []; rewrite A2; symmetry; apply app_nil_r|].
  unfold W, Wp, wake_ready, is_terminated. rewrite A1, A2, A3, A4, A5. auto.
Qed.

Definition FrW {A} (m : LM A) : Prop :=
  forall w (Q : result A -> world -> Prop), (forall r w', weq w w' -> Q r w') -> wp m Q w.

Lemma FrW_WK {A} (m : LM A) : FrW m -> WK m.
Proof. intros HF w Q _ HQ. apply HF. intros r w' E. apply HQ. apply weq_RelW. exact E. Qed.

Ltac frw_auto :=
  let w := fresh "w" in let Q := fresh "Q" in let HQ := fresh "HQ" in
  intros w Q HQ; unfold emit, fresh, set_act_fut; repeat (wp_prim || wp_case); apply HQ; repeat split; reflexivity.

Lemma emit_FrW e : FrW (emit e). Proof. frw_auto. Qed.
Lemma hook_FrW name : FrW (hook name). Proof. unfold hook. frw_auto. Qed.
Lemma fresh_FrW : FrW fresh. Proof. frw_auto. Qed.
Lemma set_act_fut_FrW id f : FrW (set_act_fut id f). Proof. frw_auto. Qed.
Lemma cancel_act_FrW id : FrW (cancel_act id). Proof. unfold cancel_act. frw_auto. Qed.
Lemma set_interrupt_action_FrW new : FrW (set_interrupt_action new). Proof. unfold set_interrupt_action, cancel_act. frw_auto. Qed.
Lemma set_interrupt_action_from_FrW k c : FrW (set_interrupt_action_from k c).
Proof. unfold set_interrupt_action_from, set_interrupt_action, cancel_act. frw_auto. Qed.
Lemma FrW_ret {A} (a : A) : FrW (ret a : LM A). Proof. frw_auto. Qed.
Lemma FrW_raise {A} e : FrW (raise e : LM A). Proof. frw_auto. Qed.
Lemma modify_FrW f : (forall w, weq w (f w)) -> FrW (modify f).
Proof. intros H w Q HQ. wp_prim. apply HQ. apply H. Qed.

Lemma put_Wat w w' : weq w w' -> Wat (put w') w.
Proof. intros E Q _ HQ. wp_prim. apply HQ. apply weq_RelW. exact E. Qed.

(* scheduling a callback: the queue grows *)
Lemma schedule_WK r : WK (schedule r).
Proof.
  intros w Q _ HQ. unfold schedule. wp_prim. apply HQ. split; [reflexivity|]. split; [reflexivity|]. split; [exists [r]; reflexivity|].
  unfold W, Wp, wake_ready, is_terminated. cbn. rewrite existsb_app.
  split; [|split; [|split; reflexivity]]; intro H; destruct (t0 w) as [| | ? ? [k|] | | |]; try exact H;
    try (rewrite H; reflexivity); (destruct H as [H|H]; [left; rewrite H; reflexivity | right; exact H]).
Qed.

Ltac wput := apply put_Wat; repeat split; reflexivity.
Ltac wfr := apply FrW_WK; first [ apply emit_FrW | apply hook_FrW | apply fresh_FrW | apply set_act_fut_FrW | apply cancel_act_FrW
                                 | apply set_interrupt_action_FrW | apply set_interrupt_action_from_FrW | apply FrW_ret | apply FrW_raise
                                 | (apply modify_FrW; intro; repeat split; reflexivity) ].
Ltac wauto := repeat first [ wstep | wput | wfr | apply schedule_WK ].

(* ------------------------------------------------------------------ writes W looks at *)
Definition pend (s : option pstate) : Prop := exists fn m d wid, s = Some (SWaiting fn m d wid WfPending).

Lemma waiting_on_pend s wid : waiting_on s wid -> pend s.
Proof. intros (fn & m & d & H). exists fn, m, d, wid. exact H. Qed.

(* a world change that keeps the program counter and only lets the queue grow: what is left to show for W and Wp *)
Lemma RelW_intro w w' :
  cfg w' = cfg w -> t0 w' = t0 w -> grows w w' -> exts w' = exts w -> flags_eq w w' ->
  (forall f, t0 w = PcAwaitPaused f -> paused w = Some f -> wake_ready w' \/ paused w' = Some f) ->
  (forall f, t0 w = PcAwaitPaused f -> paused w = Some f -> is_terminated w = false ->
             wake_ready w' \/ is_terminated w' = false) ->
  (forall wid, t0 w = PcAwaitWaiting wid -> waiting_on (st w) wid -> wake_ready w' \/ waiting_on (st w') wid) ->
  RelW w w'.
Proof.
  intros C T G X Fl Hp Hpt Hw. split; [exact C|]. split; [exact T|]. split; [exact G|].
  pose proof (grows_wake _ _ G) as Gw. unfold W, Wp. rewrite T, X.
  split; [|split; [|exact Fl]]; intro H; destruct (t0 w) as [| f | ? ? [k|] | wid | |] eqn:Et; auto.
  - destruct H as [H|[H1 H2]]; [left; auto|]. destruct (Hp f eq_refl H1) as [Y|Y]; [left; exact Y|].
    destruct (Hpt f eq_refl H1 H2) as [Z|Z]; [left; exact Z | right; split; assumption].
  - destruct H as [H|H]; [left; auto | right; exact H].
  - destruct H as [H|H]; [left; auto | apply (Hw wid eq_refl H)].
  - destruct H as [H|H]; [left; auto | apply (Hp f eq_refl H)].
  - destruct H as [H|H]; [left; auto | right; exact H].
  - destruct H as [H|H]; [left; auto | apply (Hw wid eq_refl H)].
Qed.

Lemma wake_snoc w wk : existsb is_wake (ready w ++ [RWakeT0 wk]) = true.
Proof. rewrite existsb_app. cbn. apply orb_true_r. Qed.

(* a pending wait is completed (resume / interrupt / leaving the state): the task awaiting it, if any, is woken *)
Lemma done_RelW w w1 fn m d wid :
  st w = Some (SWaiting fn m d wid WfPending) ->
  cfg w1 = cfg w -> t0 w1 = t0 w -> exts w1 = exts w -> flags_eq w w1 -> paused w1 = paused w -> is_terminated w1 = false ->
  (ready w1 = ready w /\ (forall wid0, t0 w = PcAwaitWaiting wid0 -> wid0 <> wid)) \/ (exists wk, ready w1 = ready w ++ [RWakeT0 wk]) ->
  RelW w w1.
Proof.
  intros Hst C T X Fl Pz Tm Hr. apply RelW_intro; try assumption.
  - destruct Hr as [[R _]|[wk R]]; [exists []; rewrite R; symmetry; apply app_nil_r | exists [RWakeT0 wk]; exact R].
  - intros f _ Hp. right. congruence.
  - intros f _ _ _. right. exact Tm.
  - intros wid0 Et (fn0 & m0 & d0 & Hw). left. destruct Hr as [[_ Hne]|[wk R]].
    + exfalso. apply (Hne wid0 Et). congruence.
    + unfold wake_ready. rewrite R. apply wake_snoc.
Qed.

(* the same when the state is only re-labelled without completing anything the task could be waiting for *)
Lemma relabel_RelW w w1 :
  ~ pend (st w) -> cfg w1 = cfg w -> t0 w1 = t0 w -> exts w1 = exts w -> flags_eq w w1 -> paused w1 = paused w -> ready w1 = ready w ->
  is_terminated w1 = is_terminated w -> RelW w w1.
Proof.
  intros Np C T X Fl Pz R Tm. apply RelW_intro; try assumption.
  - exists []. rewrite R. symmetry. apply app_nil_r.
  - intros f _ Hp. right. congruence.
  - intros f _ _ Hl. right. congruence.
  - intros wid0 _ Hw. exfalso. apply Np. eapply waiting_on_pend. exact Hw.
Qed.

Lemma state_interrupt_WK iid : WK (state_interrupt iid).
Proof.
  intros w Q _ HQ. unfold state_interrupt. do 2 wp_prim.
  destruct (st w) as [[]|] eqn:Hst; try (wp_prim; apply HQ; apply RelW_refl).
  destruct wf; [|wp_prim; apply HQ; apply RelW_refl]. do 2 wp_prim.
  destruct (t0 w) eqn:Et; try (wp_prim; apply HQ; eapply done_RelW; try reflexivity; try (split; reflexivity); [exact Hst | left; split; [reflexivity | intros ? X; congruence]]).
  unfold when. destruct (Nat.eqb wid wid0) eqn:Ee.
  - unfold schedule. wp_prim. apply HQ. eapply done_RelW; try reflexivity; try (split; reflexivity); [exact Hst | right; eexists; reflexivity].
  - wp_prim. apply HQ. eapply done_RelW; try reflexivity; try (split; reflexivity); [exact Hst|]. left. split; [reflexivity|].
    intros wid1 X. rewrite Et in X. injection X as <-. intro Y. subst. rewrite Nat.eqb_refl in Ee. discriminate.
Qed.

Lemma not_pend_done fn m d wid wk : ~ pend (Some (SWaiting fn m d wid (WfDone wk))).
Proof. intros (a & b & c & e & H). discriminate. Qed.

Lemma resume_WK v : WK (resume v).
Proof.
  intros w Q _ HQ. unfold resume. do 2 wp_prim.
  destruct (st w) as [[]|] eqn:Hst; try (wp_prim; apply HQ; apply RelW_refl). cbv zeta.
  destruct wf as [|wk0].
  - do 2 wp_prim.
    assert (Hret : forall w1 (wk : wake), RelW w w1 -> wp (bind (ret tt) (fun _ => ret CrNone)) Q w1) by (intros; do 2 wp_prim; apply HQ; assumption).
    destruct (t0 w) eqn:Et; try (wp_prim; cbv beta iota; wp_prim; apply HQ; eapply done_RelW; try reflexivity; try (split; reflexivity);
                                 [exact Hst | left; split; [reflexivity | intros ? X; congruence]]).
    wp_prim. unfold when. destruct (Nat.eqb wid wid0) eqn:Ee.
    + unfold schedule. wp_prim. cbv beta iota. wp_prim. apply HQ. eapply done_RelW; try reflexivity; try (split; reflexivity); [exact Hst | right; eexists; reflexivity].
    + wp_prim. cbv beta iota. wp_prim. apply HQ. eapply done_RelW; try reflexivity; try (split; reflexivity); [exact Hst|]. left. split; [reflexivity|].
      intros wid1 X. rewrite Et in X. injection X as <-. intro Y. subst. rewrite Nat.eqb_refl in Ee. discriminate.
  - destruct wk0; try (wp_prim; apply HQ; apply RelW_refl).
    unfold fresh. repeat wp_prim. apply HQ. apply relabel_RelW; try reflexivity; try (split; reflexivity).
    + rewrite Hst. apply not_pend_done.
    + unfold is_terminated. cbn. try rewrite Hst. reflexivity.
Qed.

Lemma state_recall_WK iid : WK (state_recall iid).
Proof.
  intros w Q _ HQ. unfold state_recall. do 2 wp_prim.
  destruct (wintr w); [|wp_prim; apply HQ; apply RelW_refl].
  destruct (Nat.eqb n iid); [|wp_prim; apply HQ; apply RelW_refl]. do 2 wp_prim.
  assert (R1 : RelW w (w <| wrecalled := wrecalled w ++ [iid] |>)) by (apply weq_RelW; repeat split).
  destruct (st w) as [[]|] eqn:Hst; try (wp_prim; apply HQ; exact R1).
  destruct wf as [|wk0]; [wp_prim; apply HQ; exact R1|]. destruct wk0; try (wp_prim; apply HQ; exact R1).
  destruct (Nat.eqb id iid); [|wp_prim; apply HQ; exact R1].
  unfold fresh. repeat wp_prim. apply HQ. apply relabel_RelW; try reflexivity; try (split; reflexivity).
  - rewrite Hst. apply not_pend_done.
  - unfold is_terminated. cbn. try rewrite Hst. reflexivity.
Qed.

Ltac wauto ::= repeat first [ wstep | wput | wfr | apply schedule_WK | apply state_interrupt_WK | apply state_recall_WK | apply resume_WK ].

(* without an injected fault a hook returns normally *)
Lemma hook_okW name w (Q : result unit -> world -> Prop) :
  nofault w -> (forall w', weq w w' -> Q (Ok tt) w') -> wp (hook name) Q w.
Proof.
  intros Hn HQ. unfold hook, emit. repeat wp_prim. unfold nofault in Hn. rewrite Hn. wp_prim. apply HQ. repeat split.
Qed.

(* _exit_current_state: a pending wait that is left is completed; unless the target is CREATED no pending wait is left behind *)
Lemma exit_current_spec ns w (Q : result unit -> world -> Prop) :
  nofault w -> (label_of ns <> LCreated \/ ~ pend (st w)) ->
  (forall r w', RelW w w' -> ~ pend (st w') -> Q r w') -> wp (exit_current ns) Q w.
Proof.
  intros Hn Hpre HQ. unfold exit_current. do 2 wp_prim. destruct (st w) as [cur|] eqn:Hst.
  2: { wp_case; wp_prim; (apply HQ; [apply RelW_refl | rewrite Hst; intros (a & b & c & e & X); discriminate]). }
  destruct (negb (is_allowed (label_of cur) (label_of ns))) eqn:Hal.
  { wp_prim. apply HQ; [apply RelW_refl|]. rewrite Hst. intros (a & b & c & e & X). injection X as ->.
    destruct Hpre as [Hc|Hp]; [|apply Hp; try rewrite Hst; do 4 eexists; reflexivity].
    destruct ns; cbn in Hal; try discriminate. apply Hc. reflexivity. }
  assert (Hrest : forall w1, RelW w w1 -> st w1 = st w ->
            wp (if terminal (label_of cur) then raise EInvalidState
                else match cur with
                     | SWaiting fn msg data wid WfPending =>
                         bind (modify (fun w => w <| st := Some (SWaiting fn msg data wid (WfDone WkNull)) |>))
                           (fun _ => bind get (fun w' => match t0 w' with
                                                     | PcAwaitWaiting wid' => when (Nat.eqb wid wid') (schedule (RWakeT0 WkNull))
                                                     | _ => ret tt
                                                     end))
                     | _ => ret tt
                     end) Q w1).
  { intros w1 R1 S1. destruct (terminal (label_of cur)) eqn:Hterm.
    { wp_prim. apply HQ; [exact R1|]. rewrite S1, Hst. intros (a & b & c & e & X). injection X as ->. discriminate. }
    assert (Hnp : forall r, (forall a b c e, cur <> SWaiting a b c e WfPending) -> Q r w1).
    { intros r Hne. apply HQ; [exact R1|]. rewrite S1, Hst. intros (a & b & c & e & X). injection X as X. exact (Hne _ _ _ _ X). }
    destruct cur; try (wp_prim; apply Hnp; intros; discriminate).
    destruct wf; [|wp_prim; apply Hnp; intros; discriminate].
    do 3 wp_prim. wp_prim.
    match goal with |- wp (match t0 ?x with _ => _ end) _ _ => change (t0 x) with (t0 w1) end.
    assert (St1 : st w1 = Some (SWaiting fn msg data wid WfPending)) by congruence.
    assert (Hdone : forall w2, RelW w1 w2 -> st w2 = Some (SWaiting fn msg data wid (WfDone WkNull)) -> Q (Ok tt) w2).
    { intros w2 R2 S2. apply HQ; [eapply RelW_trans; eauto|]. rewrite S2. apply not_pend_done. }
    destruct (t0 w1) as [| fidA | ra rb rc | wid0 | | eA] eqn:Et; try (wp_prim; apply Hdone; [|reflexivity]; eapply done_RelW; try reflexivity; try (split; reflexivity);
                                  [exact St1 | left; split; [reflexivity | intros ? X; congruence]]).
    unfold when. destruct (Nat.eqb wid wid0) eqn:Ee.
    - unfold schedule. wp_prim. apply Hdone; [|reflexivity]. eapply done_RelW; try reflexivity; try (split; reflexivity); [exact St1 | right; eexists; reflexivity].
    - wp_prim. apply Hdone; [|reflexivity]. eapply done_RelW; try reflexivity; try (split; reflexivity); [exact St1|]. left. split; [reflexivity|].
      intros wid1 X. rewrite Et in X. injection X as <-. intro Y. subst. rewrite Nat.eqb_refl in Ee. discriminate. }
  wp_prim. unfold when. destruct (hooks_alive w).
  - destruct cur; first [ wp_prim; cbv beta iota; apply Hrest; [apply RelW_refl | reflexivity]
                        | apply hook_okW; [exact Hn|]; intros w1 E1; cbv beta iota;
                          apply Hrest; [apply weq_RelW; exact E1 | apply E1] ].
  - wp_prim. cbv beta iota. apply Hrest; [apply RelW_refl | reflexivity].
Qed.

Section Reentrant.
  Variable rec_ctl : ctl -> LM cret.
  Hypothesis Hrec : forall c, WK (rec_ctl c).

  Lemma fire_WK name : WK (fire rec_ctl name).
  Proof. intro w. unfold fire. wauto. apply WK_mapM. intros ls wx. wauto. apply Hrec. Qed.

  Lemma pfut_set_WK f : WK (pfut_set f).
  Proof. intro w. unfold pfut_set. wauto. Qed.

  Lemma close_WK : WK close.
  Proof. intro w. unfold close, on_close. wauto. apply WK_mapM. intros c wx. wfr. Qed.

  Lemma on_entering_WK ns : WK (on_entering ns).
  Proof. intro w. unfold on_entering. destruct ns; wauto; apply pfut_set_WK. Qed.

  Lemma on_entered_WK w0 : WK (on_entered rec_ctl w0).
  Proof. intro w. unfold on_entered. wauto; apply fire_WK. Qed.

  Lemma weq_trans a b c : weq a b -> weq b c -> weq a c.
  Proof.
    intros (A1 & A2 & A3 & A4 & A5 & A6 & A7 & A8) (B1 & B2 & B3 & B4 & B5 & B6 & B7 & B8).
    repeat split; congruence.
  Qed.

  Lemma close_okW w (Q : result unit -> world -> Prop) :
    PreW w -> (forall w', weq w w' -> Q (Ok tt) w') -> wp close Q w.
  Proof.
    intros Hn HQ. unfold close, on_close. do 2 wp_prim. destruct (closed w); [wp_prim; apply HQ; repeat split|].
    wp_prim. apply hook_okW; [apply Hn|]. intros w1 E1. cbv beta iota. do 4 wp_prim.
    eapply wp_mapM_inv with (I := fun s => weq w s); [exact E1 | |].
    - intros c s1 _ H1. unfold emit. wp_prim. split; [reflexivity|]. eapply weq_trans; [exact H1|]. repeat split.
    - intros s' H'. cbv beta iota. do 2 wp_prim. apply HQ. eapply weq_trans; [exact H'|]. repeat split.
  Qed.

  (* on_terminated: a stepping task parked on the pause future is released *)
  Lemma on_terminated_spec w (Q : result unit -> world -> Prop) :
    PreW w ->
    (forall w', cfg w' = cfg w -> t0 w' = t0 w -> grows w w' -> flags_eq w w' -> (W w -> W w') -> (Wp w -> W w' /\ Wp w') -> Q (Ok tt) w') ->
    wp on_terminated Q w.
  Proof.
    intros Hn HQ. unfold on_terminated. wp_prim. apply hook_okW; [apply Hn|]. intros w1 E1. cbv beta iota. do 3 wp_prim.
    assert (Hn1 : PreW w1) by (eapply RelW_pre; [exact Hn | apply weq_RelW; exact E1]).
    assert (Hclose : forall w2, RelW w1 w2 -> (Wp w1 -> W w2) -> wp close Q w2).
    { intros w2 R2 H2. apply close_okW; [eapply RelW_pre; eauto|]. intros w3 E3. pose proof (weq_RelW _ _ E3) as (C3 & T3 & G3 & W3 & P3 & F3 & F3').
      destruct R2 as (C2 & T2 & G2 & W2 & P2 & F2 & F2').
      pose proof (weq_RelW w w1 E1) as (C1 & T1 & G1 & W1 & P1 & F1 & F1').
      apply HQ; [congruence | congruence | eapply grows_trans; [exact G1 | eapply grows_trans; eauto] | split; congruence | auto |].
      intro Hp. split; [apply W3; apply H2; apply P1; exact Hp | apply P3; apply P2; apply P1; exact Hp]. }
    destruct (paused w1) as [fid|] eqn:Ep.
    - destruct (t0 w1) as [| f | ra rb rc | widA | | eA] eqn:Et;
        try (wp_prim; cbv beta iota; apply Hclose; [apply RelW_refl | unfold Wp, W; rewrite Et; tauto]).
      unfold when. destruct (Nat.eqb f fid) eqn:Ee.
      + unfold schedule. wp_prim. cbv beta iota. apply Hclose.
        * exact (schedule_WK (RWakeT0 WkNone) w1 (fun _ w' => RelW w1 w') Hn1 (fun _ _ H => H)).
        * intros _. unfold W. cbn. rewrite Et. left. unfold wake_ready. cbn. apply wake_snoc.
      + wp_prim. cbv beta iota. apply Hclose; [apply RelW_refl|]. unfold Wp, W. rewrite Et, Ep. intros [H|H]; [left; exact H|].
        injection H as <-. rewrite Nat.eqb_refl in Ee. discriminate.
    - wp_prim. cbv beta iota. apply Hclose; [apply RelW_refl|]. unfold Wp, W. rewrite Ep.
      destruct (t0 w1) as [| f | ra rb [k|] | widA | | eA]; try tauto. intros [H|H]; [left; exact H | discriminate].
  Qed.
  (* nothing raises out of fire_event / on_entered when hooks do not *)
  Lemma fire_okW name w (Q : result unit -> world -> Prop) :
    PreW w -> (forall w', RelW w w' -> Q (Ok tt) w') -> wp (fire rec_ctl name) Q w.
  Proof.
    intros Hn HQ. unfold fire, emit. repeat wp_prim.
    match goal with |- wp _ _ ?w1 => assert (H1 : RelW w w1 /\ PreW w1) by (split; [apply weq_RelW; repeat split | exact Hn]) end.
    eapply wp_mapM_inv with (I := fun s => RelW w s /\ PreW s); [exact H1 | | intros s' [H _]; apply HQ; exact H].
    intros ls s1 _ [R1 N1]. wp_case.
    - do 2 wp_prim. apply Hrec; [exact N1|]. intros r s2 R2. cbv beta iota. wp_prim. split; [reflexivity|].
      assert (R3 : RelW s1 (s2 <| trace := trace s2 ++ [EvCtl (ls_ctl ls) match r with Ok c => c | Err e => CrRaised e end] |>)).
      { eapply RelW_trans; [exact R2|]. apply weq_RelW. repeat split. }
      split; [eapply RelW_trans; eauto | eapply RelW_pre; eauto].
    - wp_prim. auto.
  Qed.

  Lemma on_entered_okW w0 w (Q : result unit -> world -> Prop) :
    PreW w -> (forall w', RelW w w' -> Q (Ok tt) w') -> wp (on_entered rec_ctl w0) Q w.
  Proof.
    intros Hn HQ. unfold on_entered. do 2 wp_prim.
    assert (Hhf : forall h l, wp (bind (hook h) (fun _ => fire rec_ctl l)) Q w).
    { intros h l. wp_prim. apply hook_okW; [apply Hn|]. intros w1 E1. cbv beta iota.
      apply fire_okW; [eapply RelW_pre; [exact Hn | apply weq_RelW; exact E1]|].
      intros w2 R2. apply HQ. eapply RelW_trans; [apply weq_RelW; exact E1 | exact R2]. }
    destruct (st w) as [[]|]; try apply Hhf; try (wp_prim; apply HQ; apply RelW_refl).
    wp_prim. apply hook_okW; [apply Hn|]. intros w1 E1. cbv beta iota. do 2 wp_prim.
    assert (R2 : RelW w (w1 <| killing := None |>)).
    { eapply RelW_trans; [apply weq_RelW; exact E1 | apply weq_RelW; repeat split]. }
    apply fire_okW; [eapply RelW_pre; eauto|]. intros w3 R3. apply HQ. eapply RelW_trans; eauto.
  Qed.

  Lemma wp_conj {A} (m : LM A) (Q1 Q2 : result A -> world -> Prop) w :
    wp m Q1 w -> wp m Q2 w -> wp m (fun r s => Q1 r s /\ Q2 r s) w.
  Proof. unfold wp. auto. Qed.

  (* on_entering does not touch the state *)
  Lemma on_entering_st ns w : wp (on_entering ns) (fun _ w1 => st w1 = st w) w.
  Proof.
    unfold on_entering, hook, emit, pfut_set, schedule, when. destruct ns; repeat (wp_prim || wp_case); reflexivity.
  Qed.

  (* entering a state that replaces one in which no wait is pending *)
  Lemma setst_Wp w w' :
    ~ pend (st w) -> t0 w' = t0 w -> ready w' = ready w -> paused w' = paused w -> exts w' = exts w -> Wp w -> Wp w'.
  Proof.
    intros Np T R Pz X. unfold Wp, wake_ready. rewrite T, R, Pz, X. destruct (t0 w) as [| f | ra rb [k|] | wid | |]; auto.
    intros [H|H]; [left; exact H|]. exfalso. apply Np. eapply waiting_on_pend. exact H.
  Qed.

  Definition RelX (w w' : world) : Prop :=
    cfg w' = cfg w /\ t0 w' = t0 w /\ grows w w' /\ (Wp w -> Wp w') /\ flags_eq w w'.

  Lemma RelX_of_RelW w w' : RelW w w' -> RelX w w'.
  Proof. intros (C & T & G & _ & P & F). repeat split; try assumption; apply F. Qed.

  Lemma RelX_trans a b c : RelX a b -> RelX b c -> RelX a c.
  Proof.
    intros (C1 & T1 & G1 & P1 & F1 & F1') (C2 & T2 & G2 & P2 & F2 & F2').
    split; [congruence | split; [congruence | split; [eapply grows_trans; eauto | split; [auto | split; congruence]]]].
  Qed.

  Lemma enter_next_spec ns w (Q : result (option pstate) -> world -> Prop) :
    PreW w -> ~ pend (st w) ->
    (forall r w', RelX w w' -> PreW w' -> (match r with Ok None => True | _ => ~ pend (st w') /\ RelW w w' end) -> Q r w') ->
    wp (enter_next rec_ctl ns) Q w.
  Proof.
    intros Hn Np HQ. unfold enter_next. do 2 wp_prim. wp_prim.
    assert (Hent : wp (if hooks_alive w then on_entering ns else ret None) (fun r w1 => RelW w w1 /\ st w1 = st w) w).
    { destruct (hooks_alive w).
      - apply wp_conj; [apply (on_entering_WK ns w (fun _ w1 => RelW w w1) Hn); auto | apply on_entering_st].
      - wp_prim. split; [apply RelW_refl | reflexivity]. }
    eapply wp_use; [exact Hent|]. intros r w1 [R1 S1]. assert (Hn1 : PreW w1) by (eapply RelW_pre; eauto).
    assert (Np1 : ~ pend (st w1)) by (rewrite S1; exact Np).
    destruct r as [[s'|]|e]; cbv beta iota.
    - wp_prim. apply HQ; [apply RelX_of_RelW; exact R1 | exact Hn1 | split; assumption].
    - do 4 wp_prim. unfold emit. do 3 wp_prim.
      match goal with |- wp _ _ ?w2 => set (w2s := w2) end.
      assert (R2 : RelX w1 w2s).
      { split; [reflexivity|]. split; [reflexivity|]. split; [exists []; symmetry; apply app_nil_r|]. split; [|split; reflexivity].
        apply setst_Wp; try reflexivity. exact Np1. }
      assert (Hn2 : PreW w2s) by exact Hn1.
      wp_prim. unfold when. destruct (hooks_alive w2s).
      + wp_prim. apply on_entered_okW; [exact Hn2|]. intros w3 R3. cbv beta iota. wp_prim.
        apply HQ; [eapply RelX_trans; [apply RelX_of_RelW; exact R1 | eapply RelX_trans; [exact R2 | apply RelX_of_RelW; exact R3]]
                  | eapply RelW_pre; eauto | exact I].
      + wp_prim. cbv beta iota. wp_prim. apply HQ; [eapply RelX_trans; [apply RelX_of_RelW; exact R1 | exact R2] | exact Hn2 | exact I].
    - apply HQ; [apply RelX_of_RelW; exact R1 | exact Hn1 | split; assumption].
  Qed.
  (* the end of a transition body: a terminal state releases the parked stepping task *)
  Lemma tail_spec w2 (Q : result unit -> world -> Prop) :
    PreW w2 ->
    (forall w3, cfg w3 = cfg w2 -> t0 w3 = t0 w2 -> grows w2 w3 -> flags_eq w2 w3 -> (Wp w2 -> W w3 /\ Wp w3) -> Q (Ok tt) w3) ->
    wp (bind get (fun w' => when (is_terminated w') on_terminated)) Q w2.
  Proof.
    intros Hn HQ. do 2 wp_prim. unfold when. destruct (is_terminated w2) eqn:Ht.
    - apply on_terminated_spec; [exact Hn|]. intros w3 C T G F _ H. apply HQ; assumption.
    - wp_prim. apply HQ; try reflexivity; [apply grows_refl | split; reflexivity|]. intro H. split; [apply Wp_W; assumption | exact H].
  Qed.

  Lemma RelW_of_X_tail w1 w2 w3 :
    RelX w1 w2 -> cfg w3 = cfg w2 -> t0 w3 = t0 w2 -> grows w2 w3 -> flags_eq w2 w3 -> (Wp w2 -> W w3 /\ Wp w3) -> RelW w1 w3.
  Proof.
    intros (C & T & G & P & F & F') C3 T3 G3 [F3 F3'] H.
    split; [congruence | split; [congruence | split; [eapply grows_trans; eauto|]]].
    split; [intro X; apply H; apply P; apply W_Wp; exact X|]. split; [intro X; apply H; apply P; exact X | split; congruence].
  Qed.

  Lemma transition_body_spec ns w (Q : result unit -> world -> Prop) :
    nofault w -> (label_of ns <> LCreated \/ ~ pend (st w)) -> (transition_failing w = true -> ~ pend (st w)) ->
    (forall r w', RelW (w <| transitioning := true |>) w' ->
                  (match r with Ok _ => True | Err _ => ~ pend (st w') end) -> Q r w') ->
    wp (transition_body rec_ctl ns) Q w.
  Proof.
    intros Hn Hpre Hfl HQ. rewrite transition_body_unfold. do 2 wp_prim.
    match goal with |- wp _ _ ?w0 => set (w0s := w0) in * end.
    assert (N0 : PreW w0s) by (split; [exact Hn | intro X; discriminate]).
    assert (Hrest : forall w1, RelW w0s w1 -> ~ pend (st w1) -> wp (body_rest rec_ctl ns) Q w1).
    { intros w1 R1 Np1. assert (N1 : PreW w1) by (eapply RelW_pre; eauto).
      assert (Hout : forall (r : result unit) w', RelW w1 w' -> (match r with Ok _ => True | Err _ => ~ pend (st w') end) -> Q r w').
      { intros r w' R HE. apply HQ; [eapply RelW_trans; eauto | exact HE]. }
      unfold body_rest. wp_prim. apply enter_next_spec; [exact N1 | exact Np1 |].
      intros r w2 X2 N2 H2. destruct r as [[s'|]|e]; cbv beta iota.
      - destruct H2 as [Np2 R2]. do 2 wp_prim. apply exit_current_spec; [apply N2 | right; exact Np2 |].
        intros r3 w3 R3 Np3. assert (N3 : PreW w3) by (eapply RelW_pre; eauto).
        assert (R13 : RelW w1 w3) by (eapply RelW_trans; eauto).
        destruct r3; cbv beta iota; [|apply Hout; assumption].
        wp_prim. apply enter_next_spec; [exact N3 | exact Np3 |]. intros r4 w4 X4 N4 H4.
        assert (X14 : RelX w1 w4) by (eapply RelX_trans; [apply RelX_of_RelW; exact R13 | exact X4]).
        destruct r4 as [[s''|]|e4]; cbv beta iota.
        + wp_prim. apply tail_spec; [exact N4|]. intros w5 C5 T5 G5 F5 H5. apply Hout; [eapply RelW_of_X_tail; eauto | exact I].
        + wp_prim. apply tail_spec; [exact N4|]. intros w5 C5 T5 G5 F5 H5. apply Hout; [eapply RelW_of_X_tail; eauto | exact I].
        + destruct H4 as [Np4 R4]. apply Hout; [eapply RelW_trans; eauto | exact Np4].
      - do 2 wp_prim. apply tail_spec; [exact N2|]. intros w5 C5 T5 G5 F5 H5. apply Hout; [eapply RelW_of_X_tail; eauto | exact I].
      - destruct H2 as [Np2 R2]. apply Hout; assumption. }
    do 2 wp_prim. change (transition_failing w0s) with (transition_failing w). unfold when.
    destruct (transition_failing w) eqn:Hf; cbn [negb].
    - do 2 wp_prim. apply Hrest; [apply RelW_refl | apply Hfl; reflexivity].
    - wp_prim. apply exit_current_spec; [exact Hn | exact Hpre |]. intros r w1 R1 Np1. destruct r; cbv beta iota.
      + apply Hrest; assumption.
      + apply HQ; assumption.
  Qed.
  Lemma RelW_pre_nofault w w' : nofault w -> (cfg w' = cfg w /\ t0 w' = t0 w /\ grows w w' /\ (W w -> W w') /\ (Wp w -> Wp w')) -> nofault w'.
  Proof. intros H (C & _). unfold nofault in *. congruence. Qed.

  (* the relation without the transition flags (W and Wp do not look at them) *)
  Definition RelF (w w' : world) : Prop :=
    cfg w' = cfg w /\ t0 w' = t0 w /\ grows w w' /\ (W w -> W w') /\ (Wp w -> Wp w').

  Lemma RelF_of_RelW w w' : RelW w w' -> RelF w w'.
  Proof. intros (C & T & G & Wc & Pc & _). repeat split; assumption. Qed.

  Lemma RelW_of_RelF w w' : RelF w w' -> flags_eq w w' -> RelW w w'.
  Proof. intros (C & T & G & Wc & Pc) F. repeat split; try assumption; apply F. Qed.

  Lemma RelF_trans a b c : RelF a b -> RelF b c -> RelF a c.
  Proof.
    intros (C1 & T1 & G1 & W1 & P1) (C2 & T2 & G2 & W2 & P2).
    split; [congruence | split; [congruence | split; [eapply grows_trans; eauto | split; auto]]].
  Qed.

  (* transition_to while _transition_failing is set, from a world in which no wait is pending *)
  Lemma ttf_spec ns w (Q : result unit -> world -> Prop) :
    nofault w -> transitioning w = false -> transition_failing w = true -> ~ pend (st w) ->
    (forall r w1, RelF w w1 -> Q r (w1 <| transition_failing := false |> <| transitioning := false |>)) ->
    wp (transition_to_failing rec_ctl ns) Q w.
  Proof.
    intros Hn Ht Hf Np HQ. unfold transition_to_failing. do 2 wp_prim. rewrite Ht. do 2 wp_prim.
    apply transition_body_spec; [exact Hn | right; exact Np | intros _; exact Np |]. intros r w1 R1 _.
    assert (F1 : RelF w w1) by (apply RelF_of_RelW in R1; exact R1).
    destruct r; cbv beta iota.
    - wp_prim. apply HQ. exact F1.
    - do 3 wp_prim. apply (HQ _ (w1 <| transitioning := false |>)). exact F1.
  Qed.

  (* StateMachine.transition_to + Process.transition_failed *)
  Lemma transition_to_Wat ns w :
    (match ns with Some n => label_of n <> LCreated \/ ~ pend (st w) | None => True end) -> Wat (transition_to rec_ctl ns) w.
  Proof.
    intros Hpre Q [Hn Hfi] HQ. unfold transition_to. do 2 wp_prim. destruct (transitioning w) eqn:Ht.
    { wp_prim. apply HQ. apply RelW_refl. }
    destruct ns as [ns|]; [|wp_prim; apply HQ; apply RelW_refl]. specialize (Hfi eq_refl).
    assert (Hfin : forall r w1, RelF w w1 -> Q r (w1 <| transition_failing := false |> <| transitioning := false |>)).
    { intros r w1 F1. apply HQ. apply RelW_of_RelF; [exact F1 | split; cbn; congruence]. }
    do 2 wp_prim. apply transition_body_spec; [exact Hn | exact Hpre | intro X; congruence |].
    intros r w1 R1 HE. assert (F1 : RelF w w1) by (apply RelF_of_RelW in R1; exact R1).
    destruct R1 as (_ & _ & _ & _ & _ & _ & Ff). cbn in Ff.
    destruct r; cbv beta iota.
    - wp_prim. apply Hfin. exact F1.
    - do 4 wp_prim. change (transition_failing (w1 <| transitioning := false |>)) with (transition_failing w1). rewrite Ff, Hfi.
      do 2 wp_prim. wp_case.
      + do 2 wp_prim. apply (Hfin _ (w1 <| transitioning := false |> <| transition_failing := true |>)). exact F1.
      + apply ttf_spec; try reflexivity; [exact (RelW_pre_nofault _ _ Hn F1) | exact HE |].
        intros r2 w2 F2. wp_prim. apply Hfin. eapply RelF_trans; [exact F1 | exact F2].
  Qed.
  (* ---------------------------------------------------------------- control calls *)
  (* _do_pause on a process that is not paused (the only way pause() reaches it) *)
  Lemma do_pause_now_Wat msg w : paused w = None -> Wat (do_pause rec_ctl msg None) w.
  Proof.
    intros Hp Q Hn HQ. unfold do_pause. wp_prim. do 2 wp_prim. cbv beta iota.
    wp_prim. apply hook_okW; [apply Hn|]. intros w1 E1. cbv beta iota.
    wp_prim. apply hook_okW; [eapply RelW_pre; [exact Hn | apply weq_RelW; exact E1]|]. intros w2 E2. cbv beta iota.
    assert (E12 : weq w w2) by (eapply weq_trans; eauto).
    unfold fresh. do 9 wp_prim.
    match goal with |- wp _ _ ?w3 => set (w3s := w3) end.
    assert (R3 : RelW w w3s).
    { destruct E12 as (A1 & A2 & A3 & A4 & A5 & A6 & A7 & A8). subst w3s.
      apply RelW_intro; cbn; try assumption; try (split; cbn; assumption).
      - exists []. cbn. rewrite A2. symmetry. apply app_nil_r.
      - intros f _ X. congruence.
      - intros f _ X. congruence.
      - intros wid _ X. right. rewrite A4. exact X. }
    assert (N3 : PreW w3s) by (eapply RelW_pre; eauto).
    assert (Hrest : forall w4, RelW w w4 -> PreW w4 ->
              wp (bind (fire rec_ctl "on_process_paused") (fun _ => ret true))
                 (fun r s' => wp (modify (fun w => w <| pausing := None |>))
                                 (fun r2 s'' => match r2 with Ok _ => Q r s'' | Err e => Q (Err e) s'' end) s') w4).
    { intros w4 R4 N4. wp_prim. apply fire_okW; [exact N4|]. intros w5 R5. cbv beta iota. do 2 wp_prim.
      apply HQ. eapply RelW_trans; [exact R4|]. eapply RelW_trans; [exact R5|]. apply weq_RelW. repeat split. }
    destruct msg; cbv beta iota.
    - wp_prim. cbv beta iota. apply Hrest; [eapply RelW_trans; [exact R3 | apply weq_RelW; repeat split] | exact N3].
    - wp_prim. cbv beta iota. apply Hrest; assumption.
  Qed.

  Lemma pause_WK msg : WK (pause rec_ctl msg).
  Proof.
    intro w. unfold pause. wstep. destruct (is_terminated w); [apply Wat_ret|]. destruct (paused w) eqn:Ep; [apply Wat_ret|].
    destruct (pausing w); [apply Wat_ret|]. destruct (killing w); [apply Wat_ret|].
    destruct (stepping w); [wauto|]. wstep; [apply do_pause_now_Wat; exact Ep | intro; intro; apply Wat_ret].
  Qed.

  Lemma play_WK : WK (play rec_ctl).
  Proof.
    intro w. unfold play. wstep. destruct (paused w) as [fid|] eqn:Ep; [|wauto].
    intros Q Hn HQ. wp_prim. apply hook_okW; [apply Hn|]. intros w1 E1. cbv beta iota.
    assert (N1 : PreW w1) by (eapply RelW_pre; [exact Hn | apply weq_RelW; exact E1]).
    destruct E1 as (A1 & A2 & A3 & A4 & A5 & A6 & A7 & A8).
    (* after the wake-up (if any) has been scheduled: drop the paused flag, tell the listeners *)
    assert (Hrest : forall w2, cfg w2 = cfg w1 -> t0 w2 = t0 w1 -> exts w2 = exts w1 -> st w2 = st w1 -> flags_eq w1 w2 ->
              (ready w2 = ready w1 /\ (forall f, t0 w = PcAwaitPaused f -> f <> fid)) \/ (exists wk, ready w2 = ready w1 ++ [RWakeT0 wk]) ->
              wp (bind (modify (fun w => w <| paused := None |> <| status := pre_paused_status w |> <| pre_paused_status := None |>))
                       (fun _ => bind (fire rec_ctl "on_process_played") (fun _ => ret (CrBool true)))) Q w2).
    { intros w2 C2 T2 X2 S2 [F2 F2'] Hr. do 2 wp_prim.
      match goal with |- wp _ _ ?w3 => set (w3s := w3) end.
      assert (R3 : RelW w w3s).
      { subst w3s. apply RelW_intro; cbn; try congruence; try (split; cbn; congruence).
        - destruct Hr as [[R _]|[wk R]]; [exists []; cbn; rewrite R, A2; symmetry; apply app_nil_r | exists [RWakeT0 wk]; cbn; rewrite R, A2; reflexivity].
        - intros f Et Pf. left. destruct Hr as [[_ Hne]|[wk R]]; [exfalso; apply (Hne f Et); congruence|].
          unfold wake_ready. cbn. rewrite R. apply wake_snoc.
        - intros f Et Pf _. left. destruct Hr as [[_ Hne]|[wk R]]; [exfalso; apply (Hne f Et); congruence|].
          unfold wake_ready. cbn. rewrite R. apply wake_snoc.
        - intros wid _ X. right. change (waiting_on (st w2) wid). rewrite S2, A4. exact X. }
      wp_prim. apply fire_okW; [eapply RelW_pre; [exact Hn | exact R3]|]. intros w4 R4. cbv beta iota. wp_prim. apply HQ. eapply RelW_trans; eauto. }
    wp_prim.
    destruct (t0 w) as [| f | ra rb rc | widA | | eA] eqn:Et;
      try (wp_prim; cbv beta iota; apply Hrest; try reflexivity; [split; reflexivity | left; split; [reflexivity | intros ? X; discriminate]]).
    unfold when. destruct (Nat.eqb f fid) eqn:Ee.
    - unfold schedule. wp_prim. cbv beta iota. apply Hrest; try reflexivity; [split; reflexivity | right; eexists; reflexivity].
    - wp_prim. cbv beta iota. apply Hrest; try reflexivity; [split; reflexivity|]. left. split; [reflexivity|].
      intros f' X. injection X as <-. intro Y. subst. rewrite Nat.eqb_refl in Ee. discriminate.
  Qed.

  Lemma kill_WK msg : WK (kill rec_ctl msg).
  Proof.
    intro w. unfold kill. wstep.
    assert (Hrest : Wat (if is_terminated w then ret (CrBool false)
                         else match killing w with
                              | Some a => ret (CrAction a)
                              | None =>
                                  if stepping w
                                  then bind fresh (fun iid => bind (set_interrupt_action_from (KKill msg) iid) (fun a =>
                                         bind (modify (fun w => w <| killing := Some a |>)) (fun _ =>
                                         bind (state_interrupt iid) (fun _ => ret (CrAction a)))))
                                  else bind (transition_to rec_ctl (Some (SKilled (Some msg)))) (fun _ => ret (CrBool true))
                              end) w).
    { destruct (is_terminated w); [apply Wat_ret|]. destruct (killing w); [apply Wat_ret|]. destruct (stepping w); [wauto|].
      wstep; [apply transition_to_Wat; left; discriminate | intro; intro; apply Wat_ret]. }
    destruct (st w) as [[]|]; first [exact Hrest | apply Wat_ret].
  Qed.

  Lemma fail_WK e : WK (fail rec_ctl e).
  Proof.
    intro w. unfold fail. wstep. destruct (is_terminated w); [apply Wat_ret|].
    wstep; [apply transition_to_Wat; left; discriminate|]. wauto.
  Qed.

  Lemma ctl_body_WK c : WK (ctl_body rec_ctl c).
  Proof.
    destruct c; cbn [ctl_body].
    - apply pause_WK.
    - apply play_WK.
    - apply kill_WK.
    - apply resume_WK.
    - apply fail_WK.
    - intro w. apply Wat_raise.
  Qed.
End Reentrant.

Lemma do_ctl_WK fuel c : WK (do_ctl fuel c).
Proof.
  revert c. induction fuel as [|f IH]; intro c; cbn [do_ctl]; [intro w; apply Wat_raise|].
  apply ctl_body_WK. exact IH.
Qed.

Lemma ctl_call_WK c : WK (ctl_call c).
Proof. apply do_ctl_WK. Qed.

Lemma ctl_observed_WK c : WK (ctl_observed c).
Proof. intro w. unfold ctl_observed. wauto. apply ctl_call_WK. Qed.

(* ------------------------------------------------------------------ the stepping coroutine: every way a callback ends *)
Lemma wp_bind_any {A B} (m : LM A) (k : A -> LM B) (Q : result B -> world -> Prop) w :
  (forall a w1, wp (k a) Q w1) -> (forall e w1, Q (Err e) w1) -> wp (bind m k) Q w.
Proof. intros Hk He. unfold wp, bind. destruct (m w) as [[a|e] w1]; [apply Hk | apply He]. Qed.

Definition SusW (r : result step_out) (w' : world) : Prop := r = Ok SoSuspended -> W w'.
Definition XsusW (r : result exec_out) (w' : world) : Prop := r = Ok XoSuspended -> W w'.
Definition LW (r : result unit) (w' : world) : Prop := r = Ok tt -> W w'.

Lemma run_actions_susp acts r : forall w, wp (run_actions acts r) SusW w.
Proof.
  induction acts as [|a rest IH]; intro w; cbn [run_actions].
  { wp_prim. intro X. destruct r; discriminate. }
  destruct a.
  - apply wp_bind_any; [|intros e w1 X; discriminate]. intros x w1. destruct x; [apply IH | wp_prim; intro X; discriminate].
  - unfold schedule, set_t0. repeat wp_prim. intros _. unfold W, wake_ready. cbn. apply wake_snoc.
  - do 2 wp_prim. destruct (find (fun kw => Nat.eqb (fst kw) k) (exts w)) as [[? wk]|] eqn:Ef.
    + destruct wk; try apply IH. wp_prim. intro X; discriminate.
    + unfold set_t0. repeat wp_prim. intros _. unfold W. cbn. right. exact Ef.
  - apply wp_bind_any; [|intros e w1 X; discriminate]. intros x w1. apply wp_bind_any; [|intros e w2 X; discriminate]. intros _ w2. apply IH.
  - apply wp_bind_any; [|intros e w1 X; discriminate]. intros _ w1. apply IH.
  - do 2 wp_prim. apply wp_bind_any; [|intros e w1 X; discriminate]. intros _ w1. apply IH.
  - apply wp_bind_any; [|intros e w1 X; discriminate]. intros _ w1. apply IH.
Qed.

Lemma after_run_fn_susp o w : (o = SoSuspended -> W w) -> wp (after_run_fn o) XsusW w.
Proof.
  intro H. unfold after_run_fn. destruct o.
  - unfold fresh. repeat wp_prim. destruct (command_state r (next_id w)); wp_prim; intro X; discriminate.
  - wp_prim. intros _. apply H. reflexivity.
  - wp_prim. intro X; discriminate.
Qed.

Lemma after_waiting_once_susp fn aw wk again :
  (forall x w, wp (again x) XsusW w) -> forall w, wp (after_waiting_once fn aw wk again) XsusW w.
Proof.
  intros Hagain w. unfold after_waiting_once. destruct wk; try (wp_prim; intro X; discriminate).
  apply wp_bind_any; [|intros e w1 X; discriminate]. intros _ w1. do 2 wp_prim.
  destruct (st w1) as [[]|]; try (wp_prim; intro X; discriminate).
  apply wp_bind_any; [|intros e w2 X; discriminate]. intros _ w2. do 2 wp_prim.
  destruct (existsb (Nat.eqb id) (wrecalled w2)); [|wp_prim; intro X; discriminate].
  apply wp_bind_any; [|intros e w3 X; discriminate]. intros _ w3. apply Hagain.
Qed.

Lemma await_current_susp fn k : (forall a b w, wp (k a b) XsusW w) -> forall w, wp (await_current fn k) XsusW w.
Proof.
  intros Hk w. unfold await_current. do 2 wp_prim. destruct (st w) as [[]|] eqn:Hst; try (wp_prim; intro X; discriminate).
  destruct wf; [|apply Hk]. unfold set_t0'. repeat wp_prim. intros _. unfold W. cbn. right. rewrite Hst. do 3 eexists. reflexivity.
Qed.

Lemma after_waiting_susp fn aw wk w : wp (after_waiting fn aw wk) XsusW w.
Proof.
  unfold after_waiting. apply after_waiting_once_susp. intros x w1. apply await_current_susp. intros a b w2.
  apply after_waiting_once_susp. intros y w3. wp_prim. intro X; discriminate.
Qed.

Lemma execute_state_susp w : wp execute_state XsusW w.
Proof.
  unfold execute_state. do 2 wp_prim. destruct (st w) as [[]|] eqn:Hst; try (wp_prim; intro X; discriminate).
  - apply wp_bind_any; [|intros e w1 X; discriminate]. intros _ w1.
    destruct (lookup_script w fn); [|wp_prim; intro X; discriminate].
    wp_prim. eapply wp_use; [apply run_actions_susp|]. intros ro w2 H. destruct ro as [o|e]; cbv beta iota; [|intro X; discriminate].
    apply after_run_fn_susp. intro X. apply H. congruence.
  - destruct wf; [|apply after_waiting_susp]. unfold set_t0. repeat wp_prim. intros _. unfold W. cbn. right. rewrite Hst. do 3 eexists. reflexivity.
Qed.

Lemma loop_head_W fuel : forall w, wp (loop_head fuel) LW w.
Proof.
  induction fuel as [|f IH]; intro w; cbn [loop_head]; [wp_prim; intro X; discriminate|].
  do 2 wp_prim. destruct (is_terminated w) eqn:Ht; [unfold set_t0; wp_prim; intros _; exact I|].
  destruct (closed w); [wp_prim; intro X; discriminate|].
  destruct (paused w) as [fid|] eqn:Ep.
  { unfold set_t0. wp_prim. intros _. unfold W. cbn. right. split; [exact Ep | exact Ht]. }
  apply wp_bind_any; [|intros e w1 X; discriminate]. intros _ w1. wp_prim.
  eapply wp_use; [apply execute_state_susp|]. intros rx w2 H. destruct rx as [x|e]; cbv beta iota; [|intro X; discriminate].
  assert (Hfs : wp (bind (finish_step x) (fun _ => loop_head f)) LW w2).
  { apply wp_bind_any; [|intros e w3 X; discriminate]. intros _ w3. apply IH. }
  destruct x; try exact Hfs. wp_prim. intros _. apply H. reflexivity.
Qed.

Lemma step_tail_W (x : exec_out) w : (x = XoSuspended -> W w) ->
  wp (match x with XoSuspended => ret tt | _ => bind (finish_step x) (fun _ => loop_head chain_fuel) end) LW w.
Proof.
  intro H.
  assert (Hfs : wp (bind (finish_step x) (fun _ => loop_head chain_fuel)) LW w).
  { apply wp_bind_any; [|intros e w3 X; discriminate]. intros _ w3. apply loop_head_W. }
  destruct x; try exact Hfs. wp_prim. intros _. apply H. reflexivity.
Qed.

Lemma resume_t0_W wk w : wp (resume_t0 wk) LW w.
Proof.
  unfold resume_t0. do 2 wp_prim. destruct (t0 w) eqn:Et.
  - apply loop_head_W.
  - assert (Hb : wp (bind (modify (fun w => w <| stepping := true |>))
                       (fun _ => bind execute_state (fun x => match x with XoSuspended => ret tt | _ => bind (finish_step x) (fun _ => loop_head chain_fuel) end))) LW w).
    { apply wp_bind_any; [|intros e w1 X; discriminate]. intros _ w1. wp_prim.
      eapply wp_use; [apply execute_state_susp|]. intros rx w2 H. destruct rx as [x|e]; cbv beta iota; [|intro X; discriminate].
      apply step_tail_W. intro X. apply H. congruence. }
    destruct (paused w) as [f|] eqn:Ep; [|exact Hb]. destruct (is_terminated w) eqn:Ht; [exact Hb|].
    unfold set_t0. wp_prim. intros _. unfold W. cbn. right. split; [exact Ep | exact Ht].
  - wp_prim.
    assert (Ho : wp (match wk with WkExn e => ret (SoRaised e) | _ => run_actions rest r end) SusW w).
    { destruct wk; try apply run_actions_susp. wp_prim. intro X; discriminate. }
    eapply wp_use; [exact Ho|]. intros ro w1 H. destruct ro as [o|e]; cbv beta iota; [|intro X; discriminate].
    wp_prim. eapply wp_use; [apply after_run_fn_susp; intro X; apply H; congruence|].
    intros rx w2 H2. destruct rx as [x|e]; cbv beta iota; [|intro X; discriminate]. apply step_tail_W. intro X. apply H2. congruence.
  - do 3 wp_prim.
    assert (Hw : wp (match st w with Some (SWaiting fn _ _ _ _) => after_waiting fn wid wk | _ => after_waiting None wid wk end) XsusW w).
    { destruct (st w) as [[]|]; apply after_waiting_susp. }
    eapply wp_use; [exact Hw|]. intros rx w2 H2. destruct rx as [x|e]; cbv beta iota; [|intro X; discriminate].
    apply wp_bind_any; [|intros e w3 X; discriminate]. intros _ w3. apply loop_head_W.
  - wp_prim. intros _. unfold W. rewrite Et. exact I.
  - wp_prim. intros _. unfold W. rewrite Et. exact I.
Qed.

(* ------------------------------------------------------------------ the loop and the environment *)
Lemma wp_conj_top {A} (m : LM A) (Q1 Q2 : result A -> world -> Prop) w :
  wp m Q1 w -> wp m Q2 w -> wp m (fun r s => Q1 r s /\ Q2 r s) w.
Proof. unfold wp. auto. Qed.

Lemma PreS_PreW w : PreS w -> PreW w.
Proof. intros [(Hn & Hfi & _) _]. split; [exact Hn | exact Hfi]. Qed.

Lemma wake_tail r rest : is_wake r = false -> existsb is_wake (r :: rest) = existsb is_wake rest.
Proof. intro H. cbn. rewrite H. reflexivity. Qed.

(* a callback that is not a wake-up of the stepping task has been taken off the queue *)
Lemma pop_W w r rest : ready w = r :: rest -> is_wake r = false -> W w -> W (w <| ready := rest |>).
Proof.
  intros Hr Hw. unfold W, wake_ready. cbn. rewrite Hr, (wake_tail r rest Hw). auto.
Qed.

Lemma run_entry_W r w :
  PreW w -> (is_wake r = false -> W w) -> wp (run_entry r) (fun _ w' => W w') w.
Proof.
  intros Hn Hw. unfold run_entry. destruct r.
  - do 2 wp_prim. eapply wp_use; [apply resume_t0_W|]. intros r w1 H. destruct r; cbv beta iota.
    + wp_prim. apply H. destruct a. reflexivity.
    + unfold set_t0, emit. repeat wp_prim. exact I.
  - specialize (Hw eq_refl).
    assert (HK : Wat (bind (emit (EvCallback cb)) (fun _ => bind get (fun w =>
               bind (attempt (match nth_error (cf_callbacks (cfg w)) cb with
                              | Some CbOk | None => ret tt
                              | Some (CbRaise e) => raise e
                              | Some (CbCtl c) => bind (ctl_observed c) (fun r => emit (EvCtl c r))
                              end))
                    (fun x => match x with
                              | Ok _ => ret tt
                              | Err e => bind get (fun w => match st w with
                                                            | Some (SExcepted _) => ret tt
                                                            | _ => bind (attempt (ctl_call (CFail e)))
                                                                        (fun y => match y with Ok _ => ret tt | Err e' => emit (EvLoopError e') end)
                                                            end)
                              end)))) w).
    { wstep; [wfr|]. intro w1. wstep. wstep.
      - wstep. destruct (nth_error (cf_callbacks (cfg w1)) cb) as [[]|]; try apply Wat_ret; try apply Wat_raise.
        wstep; [apply ctl_observed_WK | intro; intro; wfr].
      - intro w2. destruct a0; [apply Wat_ret|]. wstep. destruct (st w2) as [[]|]; try apply Wat_ret;
          (wstep; [wstep; apply ctl_call_WK | intro wz; destruct a0; wauto]). }
    apply HK; [exact Hn|]. intros r w' (_ & _ & _ & Wc & _). apply Wc. exact Hw.
  - specialize (Hw eq_refl).
    assert (HK : Wat (bind get (fun w => if orig_fut_cancelled w
                                         then bind (attempt (ctl_call (CKill (Some "Killed by future being cancelled"%string))))
                                                   (fun y => match y with Ok _ => ret tt | Err e' => emit (EvLoopError e') end)
                                         else ret tt)) w).
    { wstep. destruct (orig_fut_cancelled w); [|apply Wat_ret]. wstep; [wstep; apply ctl_call_WK | intro wz; destruct a; wauto]. }
    apply HK; [exact Hn|]. intros r w' (_ & _ & _ & Wc & _). apply Wc. exact Hw.
Qed.

Definition EW (w : world) : Prop := PreS w /\ W w.

Lemma tick_EW w : EW w -> wp tick (fun _ w' => EW w') w.
Proof.
  intros [HS HW]. apply wp_conj_top; [apply (tick_S w (fun _ w' => PreS w') HS); auto|].
  unfold tick. do 2 wp_prim. destruct (ready w) as [|r rest] eqn:Hr; [wp_prim; exact HW|].
  do 2 wp_prim. apply run_entry_W; [apply PreS_PreW in HS; exact HS|].
  intro Hw. apply (pop_W w r rest Hr Hw HW).
Qed.

Lemma drain_EW n : forall w, EW w -> wp (drain n) (fun _ w' => EW w') w.
Proof.
  induction n as [|n IH]; intros w H; cbn [drain]; [wp_prim; exact H|].
  do 2 wp_prim. destruct (ready w) eqn:Hr; [wp_prim; exact H|].
  wp_prim. eapply wp_use; [apply tick_EW; exact H|]. intros rr w1 H1. destruct rr; cbv beta iota; [apply IH; exact H1 | exact H1].
Qed.

Lemma find_snoc_ne (l : list (nat * wake)) k k0 wk :
  find (fun kw => Nat.eqb (fst kw) k0) l = None -> Nat.eqb k k0 = false ->
  find (fun kw => Nat.eqb (fst kw) k0) (l ++ [(k, wk)]) = None.
Proof.
  intros H Hne. induction l as [|x l IH]; cbn in *.
  - rewrite Hne. reflexivity.
  - destruct (Nat.eqb (fst x) k0); [discriminate | apply IH; exact H].
Qed.

Lemma env_step_EW w e : EW w -> EW (env_step w e).
Proof.
  intros [HS HW]. unfold env_step. apply (wp_run (env_step_m e) (fun _ w' => EW w') w).
  destruct e; cbn [env_step_m].
  - apply tick_EW. split; assumption.
  - apply wp_conj_top; [apply (env_step_m_S (ECtl c) w (fun _ w' => PreS w') HS); auto|].
    assert (HK : Wat (bind (ctl_observed c) (fun r => emit (EvCtl c r))) w) by (wstep; [apply ctl_observed_WK | intro; intro; wfr]).
    apply HK; [apply PreS_PreW; exact HS|]. intros r w' (_ & _ & _ & Wc & _). apply Wc. exact HW.
  - apply wp_conj_top; [apply (env_step_m_S ECancelFuture w (fun _ w' => PreS w') HS); auto|].
    assert (HK : Wat (env_step_m ECancelFuture) w) by (cbn [env_step_m]; wauto).
    apply HK; [apply PreS_PreW; exact HS|]. intros r w' (_ & _ & _ & Wc & _). apply Wc. exact HW.
  - apply wp_conj_top; [apply (env_step_m_S (ELate cb) w (fun _ w' => PreS w') HS); auto|].
    apply schedule_WK; [apply PreS_PreW; exact HS|]. intros r w' (_ & _ & _ & Wc & _). apply Wc. exact HW.
  - apply wp_conj_top; [apply (env_step_m_S (EExtDone k w0) w (fun _ w' => PreS w') HS); auto|].
    do 2 wp_prim. destruct (find (fun kw => Nat.eqb (fst kw) k) (exts w)) eqn:Ef; [wp_prim; exact HW|].
    do 2 wp_prim.
    destruct (t0 w) as [| f | ra rb rc | widA | | eA] eqn:Et.
    1, 2, 4, 5, 6: (wp_prim; revert HW; unfold W, wake_ready; cbn; rewrite Et; auto).
    destruct rc as [k'|].
    + unfold when. destruct (Nat.eqb k k') eqn:Ee.
      * unfold schedule. wp_prim. unfold W, wake_ready. cbn. rewrite Et. left. apply wake_snoc.
      * wp_prim. revert HW. unfold W, wake_ready. cbn. rewrite Et. intros [H|H]; [left; exact H | right; apply find_snoc_ne; assumption].
    + wp_prim. revert HW. unfold W, wake_ready. cbn. rewrite Et. auto.
  - apply drain_EW. split; assumption.
Qed.

Lemma run_from_EW es : forall w, EW w -> EW (run_from w es).
Proof.
  unfold run_from. induction es as [|e es IH]; intros w H; cbn [fold_left]; [exact H|]. apply IH. apply env_step_EW. exact H.
Qed.

Lemma constructed_EW c u w : cf_fault c = None -> construct_process c = (Ok u, w) -> EW w.
Proof.
  intros Hf Hc. split; [eapply constructed_PreS; eauto|].
  unfold construct_process in Hc.
  assert (Hn : PreW (init_world c)) by (split; [exact Hf | intros _; reflexivity]).
  assert (H : wp (bind (transition (Some SCreated)) (fun _ => schedule (RWakeT0 WkNone)))
                 (fun r w' => (exists u', r = Ok u') -> W w') (init_world c)).
  { wp_prim. apply (transition_to_Wat (do_ctl reent_fuel) (do_ctl_WK reent_fuel) (Some SCreated) (init_world c)); [| exact Hn |].
    - right. intros (a & b & c0 & d & X). discriminate.
    - intros r1 w1 (_ & T1 & G1 & _). destruct r1; cbv beta iota.
      + unfold schedule. wp_prim. intros _. unfold W, wake_ready. cbn. rewrite T1. cbn. apply wake_snoc.
      + intros (u' & X). discriminate. }
  pose proof (wp_run _ _ _ H) as H2. rewrite Hc in H2. apply H2. eexists. reflexivity.
Qed.

(* in every run a suspended stepping task is going to be woken *)
Theorem run_wake c es w : cf_fault c = None -> run c es = Some w -> W w.
Proof.
  intros Hf Hr. unfold run in Hr. destruct (construct_process c) as [[u|e] w0] eqn:Hc; [|discriminate].
  injection Hr as <-. apply (run_from_EW es w0 (constructed_EW _ _ _ Hf Hc)).
Qed.

(* C02: when the process has terminated and the loop has nothing left to run, step_until_terminated() has returned — unless
   the task itself failed, or the step is still blocked in the program's own await of a future that nobody completed *)
Theorem stepping_returns c es w :
  cf_fault c = None -> run c es = Some w -> is_terminated w = true -> ready w = [] ->
  t0 w = PcDone \/ (exists e, t0 w = PcFailed e)
  \/ (exists rest r k, t0 w = PcInStep rest r (Some k) /\ find (fun kw => Nat.eqb (fst kw) k) (exts w) = None).
Proof.
  intros Hf Hr Ht Hq. pose proof (run_wake _ _ _ Hf Hr) as H. unfold W, wake_ready in H. rewrite Hq in H. cbn in H.
  destruct (t0 w) as [| f | ra rb [k|] | wid | | e] eqn:Et; try discriminate.
  - destruct H as [H|[_ H]]; [discriminate | congruence].
  - destruct H as [H|H]; [discriminate|]. right. right. exists ra, rb, k. split; [reflexivity | exact H].
  - destruct H as [H|(fn & m & d & H)]; [discriminate|]. unfold is_terminated in Ht. rewrite H in Ht. discriminate.
  - left. reflexivity.
  - right. left. exists e. reflexivity.
Qed.

(* C06: a wake-up is never lost — whenever the stepping task is parked on a waiting future that is no longer the current,
   pending one (it was resumed, interrupted, or the state was left), its wake-up is in the loop's queue; and a task parked on
   a pause future that is no longer the current one (play() was called) has its wake-up queued too *)
Theorem wake_up_not_lost c es w :
  cf_fault c = None -> run c es = Some w ->
  (forall wid, t0 w = PcAwaitWaiting wid -> ~ waiting_on (st w) wid -> wake_ready w)
  /\ (forall f, t0 w = PcAwaitPaused f -> paused w <> Some f -> wake_ready w).
Proof.
  intros Hf Hr. pose proof (run_wake _ _ _ Hf Hr) as H. unfold W in H. split.
  - intros wid Et Hn. rewrite Et in H. destruct H as [H|H]; [exact H | contradiction].
  - intros f Et Hn. rewrite Et in H. destruct H as [H|[H _]]; [exact H | contradiction].
Qed.
