(* Life/LifeCarry.v — C04: the end of a step carries out the armed kill.  For EVERY world that satisfies the run invariants of
   LifeEsc (all reachable worlds do, with any injected fault) in which a kill action is armed — `_killing` = a, a is THE
   interrupt action, pending, of kind kill — and for every way the state's execute() can come back (a next state, an
   interruption, an exception), step()'s tail (`finish_step`) returns normally and leaves the process TERMINATED: KILLED by
   the action, or EXCEPTED when the step itself failed or the transition did.  Together with LifeArmed (the armed kill
   survives everything but the stepping task's own callback) and LifeWake (a suspended stepping task is going to be woken):
   a kill requested during a step is not lost. *)
From Coq Require Import List ZArith String Bool Arith Lia.
From RecordUpdate Require Import RecordUpdate.
From Plumpy Require Import Val Mon MonTac PortModel Model Run LifeAgree LifePtr LifeEsc.
Import ListNotations.
Local Open Scope list_scope.

Definition term_ke (w : world) : Prop := cur_label w = Some LKilled \/ cur_label w = Some LExcepted.

Lemma term_ke_terminated w : term_ke w -> is_terminated w = true.
Proof. intros [H|H]; rewrite is_terminated_lbl, H; reflexivity. Qed.

(* what only keeps the label *)
Lemma sia_label new w : wp (set_interrupt_action new) (fun _ w' => cur_label w' = cur_label w) w.
Proof. unfold set_interrupt_action, cancel_act, set_act_fut. repeat (wp_prim || wp_case); reflexivity. Qed.

Lemma run_armed_terminated fuel ran w : is_terminated w = true -> wp (run_armed fuel ran) (fun r w' => w' = w /\ okf r) w.
Proof.
  intro Ht. destruct fuel; cbn [run_armed]; [wp_prim; split; reflexivity|]. do 2 wp_prim. rewrite Ht. wp_prim. split; [reflexivity | exact I].
Qed.

(* the kill action itself *)
Lemma do_kill_terminates msg next w :
  GA w -> transitioning w = false -> is_terminated w = false -> legal w next ->
  wp (finally (match next with
               | Some (SExcepted e) => bind (transition next) (fun _ => ret false)
               | _ => bind (transition (Some (SKilled (Some msg)))) (fun _ => ret true)
               end)
              (modify (fun w => w <| killing := None |>)))
     (fun r w' => is_ok r /\ term_ke w') w.
Proof.
  intros G T Hl Hleg.
  assert (Hk : wp (finally (bind (transition (Some (SKilled (Some msg)))) (fun _ => ret true)) (modify (fun w => w <| killing := None |>)))
                  (fun r w' => is_ok r /\ term_ke w') w).
  { do 2 wp_prim. apply transition_spec; [exact G|]. intros r w1 _ Hok.
    assert (Hto : to_ok w (SKilled (Some msg))).
    { split; [exact T|]. split; [apply live_to_terminal; [exact G | exact Hl | left; reflexivity] | discriminate]. }
    destruct (Hok Hto) as [Hr Hlab].
    destruct r; [|destruct Hr]. cbv beta iota. do 2 wp_prim. split; [exact I|]. exact Hlab. }
  destruct next as [[| | | |e|]|]; [exact Hk | exact Hk | exact Hk | exact Hk | | exact Hk | exact Hk].
  do 2 wp_prim. apply transition_spec; [exact G|]. intros r w1 _ Hok.
  assert (Hto : to_ok w (SExcepted e)).
  { split; [exact T|]. split; [apply live_to_terminal; [exact G | exact Hl | right; reflexivity] | discriminate]. }
  destruct (Hok Hto) as [Hr Hlab].
  destruct r; [|destruct Hr]. cbv beta iota. do 2 wp_prim. split; [exact I|]. right. destruct Hlab as [X|X]; exact X.
Qed.

Lemma run_action_kill a next ac msg w :
  GA w -> transitioning w = false -> is_terminated w = false -> legal w next ->
  get_act w a = Some ac -> a_fut ac = AfPending -> a_kind ac = KKill msg ->
  wp (run_action a next) (fun _ w' => term_ke w') w.
Proof.
  intros G T Hl Hleg Hg Hp Hk. unfold run_action. do 2 wp_prim. rewrite Hg, Hp, Hk. do 2 wp_prim.
  eapply wp_use; [apply do_kill_terminates; assumption|]. intros r w1 [_ Ht]. do 2 wp_prim.
  destruct (get_act w1 a) as [a'|]; [|wp_prim; exact Ht].
  destruct (a_fut a'); try (wp_prim; exact Ht). unfold set_act_fut. wp_prim. exact Ht.
Qed.

Definition Tm (w : world) : Prop := is_terminated w = true.

Theorem armed_kill_carried_out x w a ac msg :
  OPre w -> (forall next, x = XoNext next -> legal w next) ->
  killing w = Some a -> intr w = Some a -> get_act w a = Some ac -> a_fut ac = AfPending -> a_kind ac = KKill msg ->
  wp (finish_step x) (fun r w' => okf r /\ OPre w' /\ is_terminated w' = true) w.
Proof.
  intros P Hleg Hkl Hi Hg Hp Hk.
  eapply wp_use; [apply wp_conj; [apply (finish_step_spec x w (fun r w' => okf r /\ OPre w')); [exact P | exact Hleg | auto]|]|].
  2: { intros r w' [[A B] C]. split; [exact A|]. split; [exact B | exact C]. }
  cbv beta. change (wp (finish_step x) (fun _ w' => Tm w') w).
  (* second pass: only the label *)
  unfold finish_step. wp_prim.
  assert (Hfin : forall (r : result unit) w2, Tm w2 ->
            wp (bind (modify (fun w => w <| stepping := false |>)) (fun _ => set_interrupt_action None))
               (fun r2 s'' => match r2 with Ok _ => Tm s'' | Err e => Tm s'' end) w2).
  { intros r w2 Ht. do 2 wp_prim. eapply wp_use; [apply sia_label|]. intros r3 w3 L. cbv beta in L.
    destruct r3; unfold Tm; rewrite (term_lbl _ _ L); exact Ht. }
  assert (Harm : forall ran w2, Tm w2 ->
            wp (run_armed armed_fuel ran)
               (fun r s' => wp (bind (modify (fun w => w <| stepping := false |>)) (fun _ => set_interrupt_action None))
                               (fun r2 s'' => match r2 with Ok _ => Tm s'' | Err e => Tm s'' end) s') w2).
  { intros ran w2 Ht. eapply wp_use; [apply run_armed_terminated; exact Ht|]. intros r w3 [-> _]. apply (Hfin r). exact Ht. }
  assert (Hmid : forall next, legal w next ->
            wp (bind get (fun w => if is_terminated w then ret tt
                                   else match intr w with
                                        | Some a => bind (run_action a next) (fun _ => run_armed armed_fuel (Some a))
                                        | None => bind (transition next) (fun _ => run_armed armed_fuel None)
                                        end))
               (fun r s' => wp (bind (modify (fun w => w <| stepping := false |>)) (fun _ => set_interrupt_action None))
                               (fun r2 s'' => match r2 with Ok _ => Tm s'' | Err e => Tm s'' end) s') w).
  { intros next Hl. do 2 wp_prim. destruct (is_terminated w) eqn:Et; [wp_prim; apply (Hfin (Ok tt)); exact Et|].
    rewrite Hi. wp_prim. eapply wp_use; [apply (run_action_kill a next ac msg w); try assumption; apply P|].
    intros r w2 Ht. cbv beta in Ht. destruct r; cbv beta iota; [apply Harm | apply (Hfin (Err e))]; apply term_ke_terminated; exact Ht. }
  wp_prim. destruct x as [next| |iid|e].
  - wp_prim. cbv beta iota. apply Hmid. apply Hleg. reflexivity.
  - wp_prim. cbv beta iota. apply Hmid. exact I.
  - do 3 wp_prim. cbv zeta. rewrite Hi, Hg, Hkl. rewrite orb_true_r. do 2 wp_prim. apply Hmid. exact I.
  - wp_prim. apply (sia_X None None); [apply P | intros b X; discriminate|]. intros w1 R1 I1. cbv beta iota.
    pose proof (OPre_of_RT _ _ _ P R1) as (G1 & T1 & _). wp_prim. cbv beta iota. do 2 wp_prim.
    destruct (is_terminated w1) eqn:Et; [wp_prim; apply (Hfin (Ok tt)); exact Et|]. rewrite I1. wp_prim.
    apply transition_spec; [exact G1|]. intros r w2 _ Hok.
    assert (Hto : to_ok w1 (SExcepted e)).
    { split; [exact T1|]. split; [apply live_to_terminal; [exact G1 | exact Et | right; reflexivity] | discriminate]. }
    destruct (Hok Hto) as [Hr Hlab].
    destruct r; [|destruct Hr]. cbv beta iota. apply Harm. unfold Tm. rewrite is_terminated_lbl. destruct Hlab as [-> | ->]; reflexivity.
Qed.

(* on every reachable world: P of LifePtr supplies the armed action, Top of LifeEsc the rest *)
Theorem armed_kill_carried_out_run c es w a x :
  run c es = Some w -> ~ In ECancelFuture es -> killing w = Some a ->
  (forall next, x = XoNext next -> legal w next) ->
  wp (finish_step x) (fun r w' => okf r /\ is_terminated w' = true) w.
Proof.
  intros Hr Hn Hk Hl. destruct (run_Top _ _ _ Hr Hn) as [P _].
  destruct (run_pointers _ _ _ Hr) as (_ & _ & H3 & _). destruct (H3 a Hk) as (Hi & ac & Hg & Hp & Hkind).
  destruct (a_kind ac) as [m|msg] eqn:Ek; [discriminate Hkind|].
  eapply wp_use; [apply (armed_kill_carried_out x w a ac msg); assumption|].
  intros r w' (A & _ & B). split; assumption.
Qed.
