(* Life/LifePtr.v — property C04 (and C05): the bookkeeping of pending requests never goes stale, in every run
   (any program, listener scripts with re-entrant control calls, callbacks, any schedule; hooks do not raise or do):

     P w :  stepping w = false  ->  no interrupt action is armed
            pausing w = Some a  ->  a IS the armed interrupt action, it is a pending pause action
            killing w = Some a  ->  a IS the armed interrupt action, it is a pending kill action
            the armed action exists.

   Consequences: between steps nothing is pending (`_pausing`, `_killing`, `_interrupt_action` are all None), so a
   kill() / pause() made then acts at once; `is_killing` never points at an action that is cancelled or already ran —
   the configuration in which kill() keeps handing back a dead future and the process is unkillable (defects D9, D16,
   D17 of DESIGN.md before their repair) is unreachable.

   Same compositional style as LifeAgree.v: one level of Hoare triples in wp form (Section Hoare there). *)
From Coq Require Import List ZArith String Bool Arith Lia.
From RecordUpdate Require Import RecordUpdate.
From Plumpy Require Import Val Mon MonTac PortModel Model Run LifeAgree.
Import ListNotations.
Local Open Scope list_scope.

Definition is_pause (k : akind) : bool := match k with KPause _ => true | KKill _ => false end.
Definition is_kill (k : akind) : bool := match k with KKill _ => true | KPause _ => false end.

Definition pending_of (w : world) (a : nat) (sel : akind -> bool) : Prop :=
  exists ac, get_act w a = Some ac /\ a_fut ac = AfPending /\ sel (a_kind ac) = true.

Definition P (w : world) : Prop :=
  (stepping w = false -> intr w = None)
  /\ (forall a, pausing w = Some a -> intr w = Some a /\ pending_of w a is_pause)
  /\ (forall a, killing w = Some a -> intr w = Some a /\ pending_of w a is_kill)
  /\ (forall a, intr w = Some a -> a < List.length (acts w)).

(* the kinds of the actions ever created do not change *)
Definition kstab (w w' : world) : Prop :=
  forall id a, get_act w id = Some a -> exists a', get_act w' id = Some a' /\ a_kind a' = a_kind a.

Lemma kstab_refl w : kstab w w.
Proof. intros id a H. eauto. Qed.

Lemma kstab_trans a b c : kstab a b -> kstab b c -> kstab a c.
Proof. intros H1 H2 id x Hx. destruct (H1 _ _ Hx) as (y & Hy & Ky). destruct (H2 _ _ Hy) as (z & Hz & Kz). exists z. split; [exact Hz | congruence]. Qed.

(* control level: the invariant is kept, the stepping flag and the program counter of the stepping task are not touched *)
Definition RelP (w w' : world) : Prop := P w' /\ kstab w w' /\ stepping w' = stepping w /\ t0 w' = t0 w.

Lemma RelP_refl w : P w -> RelP w w.
Proof. intro H. split; [exact H | split; [apply kstab_refl | split; reflexivity]]. Qed.
Lemma RelP_trans a b c : RelP a b -> RelP b c -> RelP a c.
Proof. intros (_ & K1 & S1 & T1) (P2 & K2 & S2 & T2). split; [exact P2 | split; [eapply kstab_trans; eauto | split; congruence]]. Qed.
Lemma RelP_pre a b : P a -> RelP a b -> P b.
Proof. intros _ [H _]. exact H. Qed.

Notation Pat := (Hat P RelP).
Definition PK {A} (m : LM A) : Prop := forall w, Pat m w.

Section Comb.
  Context {A B : Type}.
  Lemma Pat_ret (a : A) w : Pat (ret a) w. Proof. apply Hat_ret. exact RelP_refl. Qed.
  Lemma Pat_raise e w : Pat (raise e : LM A) w. Proof. apply Hat_raise. exact RelP_refl. Qed.
  Lemma Pat_bind (m : LM A) (f : A -> LM B) w : Pat m w -> (forall a, PK (f a)) -> Pat (bind m f) w.
  Proof. intros H1 H2. eapply Hat_bind; [exact RelP_trans | exact RelP_pre | exact H1 | intros a w1; apply H2]. Qed.
  Lemma Pat_get (f : world -> LM A) w : Pat (f w) w -> Pat (bind get f) w. Proof. apply Hat_get. Qed.
  Lemma Pat_attempt (m : LM A) w : Pat m w -> Pat (attempt m) w. Proof. apply Hat_attempt. Qed.
  Lemma Pat_finally (m : LM A) f w : Pat m w -> PK f -> Pat (finally m f) w.
  Proof. intros H1 H2. eapply Hat_finally; [exact RelP_trans | exact RelP_pre | exact H1 | exact H2]. Qed.
  Lemma Pat_try_catch (m : LM A) h w : Pat m w -> (forall e, PK (h e)) -> Pat (try_catch m h) w.
  Proof. intros H1 H2. eapply Hat_try_catch; [exact RelP_trans | exact RelP_pre | exact H1 | intros e w1; apply H2]. Qed.
End Comb.
Lemma Pat_when b (m : LM unit) w : (b = true -> Pat m w) -> Pat (when b m) w.
Proof. apply Hat_when. exact RelP_refl. Qed.
Lemma PK_mapM {A} (f : A -> LM unit) l : (forall x, PK (f x)) -> PK (mapM_ f l).
Proof. intros H w. eapply Hat_mapM; [exact RelP_refl | exact RelP_trans | exact RelP_pre | intros x w1; apply H]. Qed.

Ltac pstep :=
  lazymatch goal with
  | |- PK _ => intro
  | |- Hat P RelP (bind get _) _ => apply Pat_get; cbv beta
  | |- Hat P RelP (bind _ _) _ => apply Pat_bind; [ | intro ]
  | |- Hat P RelP (ret _) _ => apply Pat_ret
  | |- Hat P RelP (raise _) _ => apply Pat_raise
  | |- Hat P RelP (attempt _) _ => apply Pat_attempt
  | |- Hat P RelP (finally _ _) _ => apply Pat_finally
  | |- Hat P RelP (try_catch _ _) _ => apply Pat_try_catch; [ | intro ]
  | |- Hat P RelP (when _ _) _ => apply Pat_when; intro
  | |- Hat _ _ (match ?x with _ => _ end) _ => destruct x eqn:?
  | |- Hat _ _ (if ?x then _ else _) _ => destruct x eqn:?
  | |- Hat _ _ (let _ := _ in _) _ => cbv zeta
  end.

(* ------------------------------------------------------------------ frames on the five bookkeeping fields *)
Definition peq (w w' : world) : Prop :=
  stepping w' = stepping w /\ intr w' = intr w /\ pausing w' = pausing w /\ killing w' = killing w /\ acts w' = acts w
  /\ t0 w' = t0 w.

Lemma peq_P w w' : peq w w' -> P w -> P w'.
Proof.
  intros (A1 & A2 & A3 & A4 & A5 & _) H. unfold P, pending_of, get_act in *. rewrite A1, A2, A3, A4, A5. exact H.
Qed.

Lemma peq_kstab w w' : peq w w' -> kstab w w'.
Proof. intros (_ & _ & _ & _ & A5 & _) id a H. unfold get_act in *. rewrite A5. eauto. Qed.

Lemma peq_RelP w w' : P w -> peq w w' -> RelP w w'.
Proof. intros H E. split; [eapply peq_P; eauto | split; [apply peq_kstab; exact E | split; apply E]]. Qed.

Definition FrP {A} (m : LM A) : Prop :=
  forall w (Q : result A -> world -> Prop), (forall r w', peq w w' -> Q r w') -> wp m Q w.

Lemma FrP_PK {A} (m : LM A) : FrP m -> PK m.
Proof. intros HF w Q HP HQ. apply HF. intros r w' E. apply HQ. apply peq_RelP; assumption. Qed.

(* a function made of monad primitives and case distinctions only, which writes none of the five fields *)
Ltac frp_auto :=
  let w := fresh "w" in let Q := fresh "Q" in let HQ := fresh "HQ" in
  intros w Q HQ; unfold emit, schedule, fresh; repeat (wp_prim || wp_case); apply HQ; repeat split; reflexivity.

Lemma emit_FrP e : FrP (emit e). Proof. frp_auto. Qed.
Lemma schedule_FrP r : FrP (schedule r). Proof. frp_auto. Qed.
Lemma hook_FrP name : FrP (hook name). Proof. unfold hook. frp_auto. Qed.
Lemma fresh_FrP : FrP fresh. Proof. frp_auto. Qed.
Lemma state_interrupt_FrP iid : FrP (state_interrupt iid). Proof. unfold state_interrupt. frp_auto. Qed.
Lemma state_recall_FrP iid : FrP (state_recall iid). Proof. unfold state_recall. frp_auto. Qed.
Lemma resume_FrP v : FrP (resume v). Proof. unfold resume. frp_auto. Qed.
Lemma FrP_ret {A} (a : A) : FrP (ret a : LM A). Proof. frp_auto. Qed.
Lemma FrP_raise {A} e : FrP (raise e : LM A). Proof. frp_auto. Qed.
Lemma modify_FrP f : (forall w, peq w (f w)) -> FrP (modify f).
Proof. intros H w Q HQ. wp_prim. apply HQ. apply H. Qed.

Lemma put_Pat w w' : peq w w' -> Pat (put w') w.
Proof. intros E Q HP HQ. wp_prim. apply HQ. apply peq_RelP; assumption. Qed.

Ltac pput := apply put_Pat; repeat split; reflexivity.
Ltac pfr := apply FrP_PK; first [ apply emit_FrP | apply schedule_FrP | apply hook_FrP | apply fresh_FrP
                                 | apply state_interrupt_FrP | apply state_recall_FrP | apply resume_FrP | apply FrP_ret | apply FrP_raise
                                 | (apply modify_FrP; intro; repeat split; reflexivity) ].
Ltac pauto := repeat first [ pstep | pput | pfr ].

(* ------------------------------------------------------------------ writes to the bookkeeping fields *)
(* dropping a pointer, or raising the stepping flag, never hurts *)
Lemma P_weaken w w' :
  P w -> intr w' = intr w -> acts w' = acts w ->
  (stepping w' = stepping w \/ stepping w' = true) ->
  (pausing w' = pausing w \/ pausing w' = None) -> (killing w' = killing w \/ killing w' = None) -> P w'.
Proof.
  intros (H1 & H2 & H3 & H4) Ei Ea Es Ep Ek. unfold P, pending_of, get_act in *. rewrite Ei, Ea. split; [|split; [|split]].
  - intro Hs. destruct Es as [Es|Es]; [apply H1; congruence | congruence].
  - intros a Ha. destruct Ep as [Ep|Ep]; [apply H2; congruence | congruence].
  - intros a Ha. destruct Ek as [Ek|Ek]; [apply H3; congruence | congruence].
  - exact H4.
Qed.

(* dropping a pointer at control level *)
Lemma weaken_Pat f w :
  intr (f w) = intr w -> acts (f w) = acts w -> stepping (f w) = stepping w -> t0 (f w) = t0 w ->
  (pausing (f w) = pausing w \/ pausing (f w) = None) -> (killing (f w) = killing w \/ killing (f w) = None) ->
  Pat (modify f) w.
Proof.
  intros A B C T D E Q HP HQ. wp_prim. apply HQ. split; [eapply P_weaken; eauto|]. split; [|split; assumption].
  intros id a H. unfold get_act in *. rewrite B. eauto.
Qed.

Ltac pweak := apply weaken_Pat; first [ reflexivity | (left; reflexivity) | (right; reflexivity) ].

(* nth_error / upd_nth *)
Lemma nth_error_upd_nth_ne {A} (f : A -> A) : forall l n m, n <> m -> nth_error (upd_nth n f l) m = nth_error l m.
Proof.
  induction l as [|x l IH]; intros n m H; [destruct n; reflexivity|].
  destruct n, m; cbn; try reflexivity; [congruence | apply IH; congruence].
Qed.

Lemma nth_error_upd_nth_eq {A} (f : A -> A) : forall l n, nth_error (upd_nth n f l) n = option_map f (nth_error l n).
Proof. induction l as [|x l IH]; intros n; [destruct n; reflexivity|]. destruct n; cbn; [reflexivity | apply IH]. Qed.

Lemma length_upd_nth {A} (f : A -> A) : forall l n, List.length (upd_nth n f l) = List.length l.
Proof. induction l as [|x l IH]; intros n; [destruct n; reflexivity|]. destruct n; cbn; [reflexivity | rewrite IH; reflexivity]. Qed.

(* changing the future of one action keeps all kinds *)
Lemma kstab_upd w w' id f :
  acts w' = upd_nth id (fun a => mk_act (a_kind a) (a_cookie a) f) (acts w) -> kstab w w'.
Proof.
  intros E j a H. unfold get_act in *. rewrite E. destruct (Nat.eq_dec id j) as [->|Hne].
  - rewrite nth_error_upd_nth_eq, H. cbn. eauto.
  - rewrite nth_error_upd_nth_ne by exact Hne. eauto.
Qed.

(* _set_interrupt_action: the old action is cancelled, the pointers at it dropped; afterwards nothing is pending but [new] *)
Definition P0 (w : world) : Prop :=
  (forall a, pausing w = Some a -> intr w = Some a /\ pending_of w a is_pause)
  /\ (forall a, killing w = Some a -> intr w = Some a /\ pending_of w a is_kill)
  /\ (forall a, intr w = Some a -> a < List.length (acts w)).

Lemma P_P0 w : P w -> P0 w.
Proof. intros (_ & H). exact H. Qed.

Lemma sia_spec new w (Q : result unit -> world -> Prop) :
  P0 w -> (new <> None -> stepping w = true) -> (forall n, new = Some n -> n < List.length (acts w)) ->
  (forall w', P w' -> kstab w w' -> intr w' = new -> pausing w' = None -> killing w' = None -> stepping w' = stepping w ->
              t0 w' = t0 w -> List.length (acts w') = List.length (acts w) ->
              (forall j, intr w <> Some j -> get_act w' j = get_act w j) -> Q (Ok tt) w') ->
  wp (set_interrupt_action new) Q w.
Proof.
  intros (H2 & H3 & H4) Hs Hn HQ. unfold set_interrupt_action. do 2 wp_prim.
  assert (Hfin : forall w1, stepping w1 = stepping w -> t0 w1 = t0 w -> List.length (acts w1) = List.length (acts w) -> kstab w w1 ->
                   (forall j, intr w <> Some j -> get_act w1 j = get_act w j) ->
                   (forall a, pausing w1 = Some a -> intr w <> Some a -> False) ->
                   (forall a, killing w1 = Some a -> intr w <> Some a -> False) ->
                   (forall a, intr w = Some a -> pausing w1 <> Some a /\ killing w1 <> Some a) ->
                   wp (modify (fun w => w <| intr := new |>)) Q w1).
  { intros w1 E1 ET E2 K1 G1 Np Nk Nold. wp_prim.
    assert (Xp : pausing w1 = None).
    { destruct (pausing w1) as [a|] eqn:Ep; [|reflexivity]. exfalso. destruct (intr w) as [o|] eqn:Eo.
      - destruct (Nat.eq_dec o a) as [->|Hne]; [destruct (Nold a eq_refl) as [X _]; congruence | apply (Np a eq_refl); congruence].
      - apply (Np a eq_refl). discriminate. }
    assert (Xk : killing w1 = None).
    { destruct (killing w1) as [a|] eqn:Ek; [|reflexivity]. exfalso. destruct (intr w) as [o|] eqn:Eo.
      - destruct (Nat.eq_dec o a) as [->|Hne]; [destruct (Nold a eq_refl) as [_ X]; congruence | apply (Nk a eq_refl); congruence].
      - apply (Nk a eq_refl). discriminate. }
    apply HQ; try assumption; try reflexivity.
    unfold P. cbn. rewrite Xp, Xk. split; [|split; [|split]]; try (intros; discriminate).
    - intro Hf. destruct new as [n|]; [|reflexivity]. rewrite E1 in Hf. rewrite Hs in Hf; discriminate.
    - intros a Ha. rewrite E2. apply Hn. exact Ha. }
  destruct (intr w) as [old|] eqn:Eo.
  - wp_prim. unfold cancel_act. do 3 wp_prim.
    assert (Hclear : forall w0, stepping w0 = stepping w -> t0 w0 = t0 w -> List.length (acts w0) = List.length (acts w) -> kstab w w0 ->
                       (forall j, Some old <> Some j -> get_act w0 j = get_act w j) ->
                       pausing w0 = pausing w -> killing w0 = killing w ->
                       wp (modify (fun w => w <| pausing := (match pausing w with Some a => if Nat.eqb a old then None else Some a | None => None end) |>
                                              <| killing := (match killing w with Some a => if Nat.eqb a old then None else Some a | None => None end) |>))
                          (fun r s' => match r with Ok _ => wp (modify (fun w => w <| intr := new |>)) Q s' | Err e => Q (Err e) s' end) w0).
    { intros w0 E1 ET E2 K0 G0 Ep Ek. wp_prim. apply Hfin; cbn; try assumption.
      - intros a Ha Hne. rewrite Ep in Ha. destruct (pausing w) as [b|] eqn:Eb; [|discriminate].
        destruct (H2 b eq_refl) as [X _]. injection X as ->. rewrite Nat.eqb_refl in Ha. discriminate.
      - intros a Ha Hne. rewrite Ek in Ha. destruct (killing w) as [b|] eqn:Eb; [|discriminate].
        destruct (H3 b eq_refl) as [X _]. injection X as ->. rewrite Nat.eqb_refl in Ha. discriminate.
      - intros a Ha. injection Ha as <-. rewrite Ep, Ek. split.
        + destruct (pausing w) as [b|]; [|discriminate]. destruct (Nat.eqb b old) eqn:Eb; [discriminate|].
          intro X. injection X as ->. rewrite Nat.eqb_refl in Eb. discriminate.
        + destruct (killing w) as [b|]; [|discriminate]. destruct (Nat.eqb b old) eqn:Eb; [discriminate|].
          intro X. injection X as ->. rewrite Nat.eqb_refl in Eb. discriminate. }
    destruct (get_act w old) as [ac|] eqn:Ea.
    + destruct (a_fut ac) eqn:Ef.
      * unfold set_act_fut. wp_prim. cbv beta iota. apply Hclear; cbn; try reflexivity.
        -- apply length_upd_nth.
        -- eapply kstab_upd. reflexivity.
        -- intros j Hj. unfold get_act. cbn. apply nth_error_upd_nth_ne. congruence.
      * wp_prim. cbv beta iota. apply Hclear; try reflexivity; first [apply kstab_refl | auto].
      * wp_prim. cbv beta iota. apply Hclear; try reflexivity; first [apply kstab_refl | auto].
      * wp_prim. cbv beta iota. apply Hclear; try reflexivity; first [apply kstab_refl | auto].
    + wp_prim. cbv beta iota. apply Hclear; try reflexivity; first [apply kstab_refl | auto].
  - wp_prim. cbv beta iota. apply Hfin; try reflexivity.
    + apply kstab_refl.
    + intros a Ha _. destruct (H2 a Ha) as [X _]. discriminate.
    + intros a Ha _. destruct (H3 a Ha) as [X _]. discriminate.
    + intros a X. discriminate.
Qed.

Lemma nth_error_snoc_old {A} (l : list A) x n : n < List.length l -> nth_error (l ++ [x]) n = nth_error l n.
Proof. intro H. apply nth_error_app1. exact H. Qed.

Lemma nth_error_snoc_new {A} (l : list A) x : nth_error (l ++ [x]) (List.length l) = Some x.
Proof. rewrite nth_error_app2 by lia. rewrite Nat.sub_diag. reflexivity. Qed.

Lemma get_act_lt w id a : get_act w id = Some a -> id < List.length (acts w).
Proof. unfold get_act. intro H. apply nth_error_Some. congruence. Qed.

(* _create_interrupt_action + _set_interrupt_action: during a step, a fresh pending action becomes THE armed action *)
Lemma sia_from_spec k c w (Q : result nat -> world -> Prop) :
  P w -> stepping w = true ->
  (forall n w', P w' -> kstab w w' -> intr w' = Some n -> pausing w' = None -> killing w' = None -> stepping w' = true ->
                t0 w' = t0 w -> get_act w' n = Some (mk_act k c AfPending) -> Q (Ok n) w') ->
  wp (set_interrupt_action_from k c) Q w.
Proof.
  intros HP Hs HQ. unfold set_interrupt_action_from. do 5 wp_prim.
  match goal with |- wp _ _ ?w1 => set (w1s := w1) end.
  destruct (P_P0 _ HP) as (H2 & H3 & H4).
  assert (Hold : forall j a, get_act w j = Some a -> get_act w1s j = Some a).
  { intros j a H. unfold get_act in *. cbn. rewrite nth_error_snoc_old; [exact H | eapply get_act_lt; exact H]. }
  assert (P01 : P0 w1s).
  { split; [|split].
    - intros a Ha. destruct (H2 a Ha) as [X (ac & G & F & S)]. split; [exact X|]. exists ac. split; [apply Hold; exact G | split; assumption].
    - intros a Ha. destruct (H3 a Ha) as [X (ac & G & F & S)]. split; [exact X|]. exists ac. split; [apply Hold; exact G | split; assumption].
    - intros a Ha. cbn. rewrite app_length. cbn. specialize (H4 a Ha). lia. }
  apply sia_spec; [exact P01 | intros _; exact Hs | |].
  { intros n Hn. injection Hn as <-. cbn. rewrite app_length. cbn. lia. }
  intros w' P' K' I' Pp Pk St T0' Len G'. cbv beta iota. wp_prim. apply HQ; try assumption.
  - intros j a H. destruct (K' j a (Hold _ _ H)) as (a' & G1 & G2). eauto.
  - rewrite St. exact Hs.
  - rewrite G'.
    + unfold get_act. cbn. apply nth_error_snoc_new.
    + change (intr w <> Some (List.length (acts w))). intro X. specialize (H4 _ X). lia.
Qed.

(* the body of `finally: self._pausing = None` / `self._killing = None` *)
Lemma finally_post {A} (m : LM A) f (R : world -> Prop) w :
  (forall s, R (f s)) -> wp (finally m (modify f)) (fun _ w' => R w') w.
Proof. intro H. unfold wp, finally, modify. destruct (m w) as [r s']. cbn. apply H. Qed.

Lemma wp_conj {A} (m : LM A) (Q1 Q2 : result A -> world -> Prop) w :
  wp m Q1 w -> wp m Q2 w -> wp m (fun r s => Q1 r s /\ Q2 r s) w.
Proof. unfold wp. auto. Qed.

Section Reentrant.
  Variable rec_ctl : ctl -> LM cret.
  Hypothesis Hrec : forall c, PK (rec_ctl c).

  Lemma fire_PK name : PK (fire rec_ctl name).
  Proof. intro w. unfold fire. pauto. apply PK_mapM. intros ls wx. pauto. apply Hrec. Qed.

  Lemma pfut_set_PK f : PK (pfut_set f).
  Proof. intro w. unfold pfut_set. pauto. Qed.

  Lemma close_PK : PK close.
  Proof. intro w. unfold close, on_close. pauto. apply PK_mapM. intros c wx. pfr. Qed.

  Lemma on_entering_PK ns : PK (on_entering ns).
  Proof. intro w. unfold on_entering. destruct ns; pauto; apply pfut_set_PK. Qed.

  Lemma on_entered_PK w0 : PK (on_entered rec_ctl w0).
  Proof. intro w. unfold on_entered. pauto; try apply fire_PK. pweak. Qed.

  Lemma exit_current_PK ns : PK (exit_current ns).
  Proof. intro w. unfold exit_current. pauto. Qed.

  Lemma enter_next_PK ns : PK (enter_next rec_ctl ns).
  Proof. intro w. unfold enter_next. pauto; first [apply on_entering_PK | apply on_entered_PK]. Qed.

  Lemma on_terminated_PK : PK on_terminated.
  Proof. intro w. unfold on_terminated. pauto; apply close_PK. Qed.

  Lemma transition_body_PK ns : PK (transition_body rec_ctl ns).
  Proof.
    intro w. unfold transition_body. pauto; first [apply exit_current_PK | apply enter_next_PK | apply on_terminated_PK].
  Qed.

  Lemma transition_to_failing_PK ns : PK (transition_to_failing rec_ctl ns).
  Proof. intro w. unfold transition_to_failing. pauto. apply transition_body_PK. Qed.

  Lemma transition_to_PK ns : PK (transition_to rec_ctl ns).
  Proof.
    intro w. unfold transition_to. pauto; first [apply transition_body_PK | apply transition_to_failing_PK].
  Qed.
  (* ---------------------------------------------------------------- control calls *)
  Lemma do_pause_PK msg next : PK (do_pause rec_ctl msg next).
  Proof.
    intro w. unfold do_pause. pstep; [|intro wz; pweak].
    pstep; [destruct next; [apply transition_to_PK | apply Pat_ret]|].
    pauto; try apply fire_PK. pweak.
  Qed.

  (* arming a request during a step: the new action becomes the armed one and the pointer is set to it *)
  Lemma arm_Pat (k : akind) (setptr : nat -> world -> world) (sel : akind -> bool) w :
    stepping w = true -> sel k = true ->
    (forall a s, intr (setptr a s) = intr s /\ acts (setptr a s) = acts s /\ stepping (setptr a s) = stepping s /\ t0 (setptr a s) = t0 s) ->
    (forall a s, P0 s -> intr s = Some a -> pausing s = None -> killing s = None ->
                 pending_of s a sel -> P0 (setptr a s)) ->
    Pat (bind fresh (fun iid => bind (set_interrupt_action_from k iid) (fun a =>
           bind (modify (setptr a)) (fun _ => bind (state_interrupt iid) (fun _ => ret (CrAction a)))))) w.
  Proof.
    intros Hs Hk Hfr Hset Q HP HQ. wp_prim. apply fresh_FrP. intros r w1 E1. destruct r as [iid|e]; cbv beta iota.
    2: { apply HQ. apply peq_RelP; assumption. }
    wp_prim. apply sia_from_spec; [eapply peq_P; eauto | destruct E1 as (X & _); congruence |].
    intros n w2 P2 K2 I2 Pp Pk S2 T2 G2. cbv beta iota. do 2 wp_prim.
    assert (P3 : P (setptr n w2)).
    { destruct (Hfr n w2) as (F1 & F2 & F3 & F4). split.
      - intro X. rewrite F3, S2 in X. discriminate.
      - apply Hset; try assumption; [apply P_P0; exact P2|]. eexists. split; [exact G2 | split; [reflexivity | exact Hk]]. }
    assert (R3 : RelP w (setptr n w2)).
    { destruct (Hfr n w2) as (F1 & F2 & F3 & F4). split; [exact P3|]. split; [|split].
      - eapply kstab_trans; [apply peq_kstab; exact E1|]. eapply kstab_trans; [exact K2|].
        intros j a H. unfold get_act in *. rewrite F2. eauto.
      - rewrite F3, S2. symmetry. exact Hs.
      - rewrite F4, T2. apply E1. }
    wp_prim. apply state_interrupt_FrP. intros r w4 E4. assert (R4 : RelP w w4).
    { eapply RelP_trans; [exact R3|]. apply peq_RelP; assumption. }
    destruct r; cbv beta iota; [wp_prim|]; apply HQ; exact R4.
  Qed.

  Lemma pause_PK msg : PK (pause rec_ctl msg).
  Proof.
    intro w. unfold pause. pstep. destruct (is_terminated w); [apply Pat_ret|]. destruct (paused w); [apply Pat_ret|].
    destruct (pausing w) eqn:Ep; [apply Pat_ret|]. destruct (killing w) eqn:Ek; [apply Pat_ret|].
    destruct (stepping w) eqn:Es; [|pstep; [apply do_pause_PK | intro; intro; apply Pat_ret]].
    apply (arm_Pat (KPause msg) (fun a s => s <| pausing := Some a |>) is_pause); try reflexivity; [exact Es | intros; repeat split |].
    intros a s (H2 & H3 & H4) Hi Hp Hk Hpend. split; [|split].
    - cbn. intros b Hb. injection Hb as <-. split; [exact Hi | exact Hpend].
    - cbn. intros b Hb. rewrite Hk in Hb. discriminate.
    - exact H4.
  Qed.

  Lemma kill_PK msg : PK (kill rec_ctl msg).
  Proof.
    intro w. unfold kill. pstep.
    assert (Hrest : Pat (if is_terminated w then ret (CrBool false)
                         else match killing w with
                              | Some a => ret (CrAction a)
                              | None =>
                                  if stepping w
                                  then bind fresh (fun iid => bind (set_interrupt_action_from (KKill msg) iid) (fun a =>
                                         bind (modify (fun w => w <| killing := Some a |>)) (fun _ =>
                                         bind (state_interrupt iid) (fun _ => ret (CrAction a)))))
                                  else bind (transition_to rec_ctl (Some (SKilled (Some msg)))) (fun _ => ret (CrBool true))
                              end) w).
    { destruct (is_terminated w); [apply Pat_ret|]. destruct (killing w) eqn:Ek; [apply Pat_ret|].
      destruct (stepping w) eqn:Es; [|pstep; [apply transition_to_PK | intro; intro; apply Pat_ret]].
      apply (arm_Pat (KKill msg) (fun a s => s <| killing := Some a |>) is_kill); try reflexivity; [exact Es | intros; repeat split |].
      intros a s (H2 & H3 & H4) Hi Hp Hk Hpend. split; [|split].
      - cbn. intros b Hb. rewrite Hp in Hb. discriminate.
      - cbn. intros b Hb. injection Hb as <-. split; [exact Hi | exact Hpend].
      - exact H4. }
    destruct (st w) as [[]|]; first [exact Hrest | apply Pat_ret].
  Qed.

  Lemma fail_PK e : PK (fail rec_ctl e).
  Proof. intro w. unfold fail. pauto. apply transition_to_PK. Qed.
  Lemma kinds_exclusive k : is_pause k = true -> is_kill k = true -> False.
  Proof. destruct k; discriminate. Qed.

  (* play() while a pause is pending: the pending pause is recalled, cancelled and disarmed *)
  Lemma play_cancel_Pat a w :
    pausing w = Some a ->
    Pat (bind (match get_act w a with Some ac => state_recall (a_cookie ac) | None => ret tt end)
              (fun _ => bind (cancel_act a) (fun _ => bind (modify (fun w => w <| pausing := None |>))
                                                         (fun _ => set_interrupt_action None)))) w.
  Proof.
    intros Ep Q HP HQ. destruct HP as (H1 & H2 & H3 & H4). destruct (H2 a Ep) as (Hi & ac & G & F & S).
    assert (Hk : killing w = None).
    { destruct (killing w) as [b|] eqn:Ek; [|reflexivity]. exfalso. destruct (H3 b eq_refl) as (Hi' & ac' & G' & F' & S').
      rewrite Hi in Hi'. injection Hi' as <-. rewrite G in G'. injection G' as <-. eapply kinds_exclusive; eauto. }
    rewrite G. wp_prim. apply state_recall_FrP. intros r w1 (E1 & E2 & E3 & E4 & E5 & E6).
    assert (K1 : kstab w w1) by (intros j x Hx; unfold get_act in *; rewrite E5; eauto).
    destruct r; cbv beta iota.
    2: { apply HQ. split; [|split; [exact K1 | split; assumption]]. unfold P, pending_of, get_act in *. rewrite E1, E2, E3, E4, E5.
         split; [exact H1 | split; [exact H2 | split; [exact H3 | exact H4]]]. }
    wp_prim. unfold cancel_act. do 2 wp_prim. unfold get_act at 1. rewrite E5. fold (get_act w a). rewrite G, F.
    unfold set_act_fut. wp_prim. cbv beta iota. do 2 wp_prim.
    match goal with |- wp _ _ ?w3 => set (w3s := w3) end.
    assert (K3 : kstab w1 w3s) by (eapply kstab_upd; reflexivity).
    assert (P03 : P0 w3s).
    { split; [|split].
      - intros b Hb. discriminate.
      - intros b Hb. change (killing w1 = Some b) in Hb. rewrite E4, Hk in Hb. discriminate.
      - intros b Hb. change (intr w1 = Some b) in Hb. cbn. rewrite length_upd_nth, E5. apply H4. congruence. }
    apply sia_spec; [exact P03 | intro X; congruence | intros n X; discriminate |].
    intros w' P' K' I' Pp Pk St T0' Len G'. apply HQ. split; [exact P'|]. split; [|split].
    - eapply kstab_trans; [exact K1|]. eapply kstab_trans; [exact K3 | exact K'].
    - rewrite St. exact E1.
    - rewrite T0'. exact E6.
  Qed.

  Lemma play_PK : PK (play rec_ctl).
  Proof.
    intro w. unfold play. pstep. destruct (paused w).
    - pauto; try apply fire_PK.
    - pstep; [|intro; intro; apply Pat_ret]. destruct (pausing w) eqn:Ep; [|apply Pat_ret]. apply play_cancel_Pat. exact Ep.
  Qed.

  Lemma ctl_body_PK c : PK (ctl_body rec_ctl c).
  Proof.
    destruct c; cbn [ctl_body].
    - apply pause_PK.
    - apply play_PK.
    - apply kill_PK.
    - apply FrP_PK. apply resume_FrP.
    - apply fail_PK.
    - intro w. apply Pat_raise.
  Qed.
End Reentrant.

Lemma do_ctl_PK fuel c : PK (do_ctl fuel c).
Proof.
  revert c. induction fuel as [|f IH]; intro c; cbn [do_ctl]; [intro w; apply Pat_raise|].
  apply ctl_body_PK. exact IH.
Qed.

Lemma ctl_call_PK c : PK (ctl_call c).
Proof. apply do_ctl_PK. Qed.

Lemma transition_PK ns : PK (transition ns).
Proof. apply transition_to_PK. apply do_ctl_PK. Qed.

Lemma ctl_observed_PK c : PK (ctl_observed c).
Proof. intro w. unfold ctl_observed. pauto. apply ctl_call_PK. Qed.

(* ------------------------------------------------------------------ the stepping coroutine *)
(* recording the outcome of an action no pointer refers to any more *)
Lemma set_result_RelP w id a f :
  P w -> get_act w id = Some a -> pausing w <> Some id -> killing w <> Some id ->
  RelP w (w <| acts := upd_nth id (fun a => mk_act (a_kind a) (a_cookie a) f) (acts w) |>).
Proof.
  intros (H1 & H2 & H3 & H4) G Np Nk.
  assert (K : kstab w (w <| acts := upd_nth id (fun a => mk_act (a_kind a) (a_cookie a) f) (acts w) |>)) by (eapply kstab_upd; reflexivity).
  split; [|split; [exact K | split; reflexivity]]. split; [exact H1|]. split; [|split].
  - intros b Hb. cbn in Hb. destruct (H2 b Hb) as (Hi & ac & Ga & Fa & Sa). split; [exact Hi|]. exists ac. split; [|split; assumption].
    unfold get_act in *. cbn. rewrite nth_error_upd_nth_ne; [exact Ga | congruence].
  - intros b Hb. cbn in Hb. destruct (H3 b Hb) as (Hi & ac & Ga & Fa & Sa). split; [exact Hi|]. exists ac. split; [|split; assumption].
    unfold get_act in *. cbn. rewrite nth_error_upd_nth_ne; [exact Ga | congruence].
  - intros b Hb. cbn. rewrite length_upd_nth. apply H4. exact Hb.
Qed.

Lemma do_pause_deferred_PK msg next : PK (do_pause_deferred msg next).
Proof.
  intro w. unfold do_pause_deferred. pstep. destruct next as [ns|]; [destruct (pausing w) as [a'|]|]; try (apply do_pause_PK; apply do_ctl_PK).
  pstep; [|intro wz; pweak]. pstep; [apply transition_PK|]. pstep. pstep.
  match goal with |- Hat _ _ (if ?c then _ else _) _ => destruct c end; [apply do_pause_PK; apply do_ctl_PK | apply Pat_ret].
Qed.

Lemma do_pause_deferred_clears msg next w : wp (do_pause_deferred msg next) (fun _ s => pausing s = None) w.
Proof.
  unfold do_pause_deferred. do 2 wp_prim.
  assert (Hold : wp (do_pause (do_ctl reent_fuel) msg next) (fun _ s => pausing s = None) w)
    by (unfold do_pause; apply (finally_post _ _ (fun s => pausing s = None)); intro s; reflexivity).
  destruct next as [ns|]; [|exact Hold]. destruct (pausing w) as [a'|]; [|exact Hold].
  apply (finally_post _ _ (fun s => pausing s = None)). intro s. reflexivity.
Qed.

Lemma run_action_PK id next : PK (run_action id next).
Proof.
  intro w. unfold run_action. pstep. destruct (get_act w id) as [a|] eqn:G; [|apply Pat_raise].
  destruct (a_fut a) eqn:F; try apply Pat_raise.
  intros Q HP HQ. do 2 wp_prim.
  assert (Hrest : forall (r : result bool) w1, RelP w w1 -> pausing w1 <> Some id -> killing w1 <> Some id ->
            wp (bind get (fun w' => match get_act w' id with
                                    | Some a' => match a_fut a' with
                                                 | AfPending => set_act_fut id (match r with Ok b => AfVal b | Err e => AfExn e end)
                                                 | _ => ret tt
                                                 end
                                    | None => raise EIndex
                                    end)) Q w1).
  { intros r w1 R1 Np Nk. do 2 wp_prim. destruct (get_act w1 id) as [a'|] eqn:G1; [|wp_prim; apply HQ; exact R1].
    destruct (a_fut a'); try (wp_prim; apply HQ; exact R1).
    unfold set_act_fut. wp_prim. apply HQ. eapply RelP_trans; [exact R1|]. eapply set_result_RelP; eauto. apply R1. }
  assert (Kind : forall w1 a1, RelP w w1 -> get_act w1 id = Some a1 -> a_kind a1 = a_kind a).
  { intros w1 a1 (_ & K1 & _) G1. destruct (K1 _ _ G) as (a2 & G2 & E2). congruence. }
  destruct (a_kind a) as [msg|msg] eqn:Kd.
  - pose proof (do_pause_deferred_PK msg next w (fun _ w1 => RelP w w1) HP (fun _ _ X => X)) as H1.
    eapply wp_use; [apply wp_conj; [exact H1 | apply do_pause_deferred_clears]|].
    intros r w1 [R1 C1]. cbv beta. apply Hrest; [exact R1 | congruence |].
    intro X. destruct R1 as (P1 & K1 & _). destruct P1 as (_ & _ & H3 & _). destruct (H3 id X) as (_ & ac & Ga & _ & Sa).
    destruct (K1 _ _ G) as (a2 & G2 & E2). rewrite Ga in G2. injection G2 as <-. rewrite E2, Kd in Sa. discriminate.
  - assert (H1 : wp (finally (match next with
                              | Some (SExcepted e) => bind (transition next) (fun _ => ret false)
                              | _ => bind (transition (Some (SKilled (Some msg)))) (fun _ => ret true)
                              end) (modify (fun w => w <| killing := None |>))) (fun _ w1 => RelP w w1) w).
    { assert (HK : Pat (finally (match next with
                              | Some (SExcepted e) => bind (transition next) (fun _ => ret false)
                              | _ => bind (transition (Some (SKilled (Some msg)))) (fun _ => ret true)
                              end) (modify (fun w => w <| killing := None |>))) w).
      { pstep; [|intro wz; pweak]. destruct next as [[]|]; (pstep; [apply transition_PK | intro; intro; apply Pat_ret]). }
      apply HK; [exact HP | auto]. }
    eapply wp_use; [apply wp_conj; [exact H1 | apply (finally_post _ _ (fun s => killing s = None)); intro s; reflexivity]|].
    intros r w1 [R1 C1]. cbv beta. apply Hrest; [exact R1 | | congruence].
    intro X. destruct R1 as (P1 & K1 & _). destruct P1 as (_ & H2 & _ & _). destruct (H2 id X) as (_ & ac & Ga & _ & Sa).
    destruct (K1 _ _ G) as (a2 & G2 & E2). rewrite Ga in G2. injection G2 as <-. rewrite E2, Kd in Sa. discriminate.
Qed.

(* in-step level: the stepping flag is up and stays up; the program counter may move *)
Definition PreI (w : world) : Prop := P w /\ stepping w = true.
Definition RelI (w w' : world) : Prop := PreI w' /\ kstab w w'.

Lemma RelI_refl w : PreI w -> RelI w w.
Proof. intro H. split; [exact H | apply kstab_refl]. Qed.
Lemma RelI_trans a b c : RelI a b -> RelI b c -> RelI a c.
Proof. intros [_ K1] [P2 K2]. split; [exact P2 | eapply kstab_trans; eauto]. Qed.
Lemma RelI_pre a b : PreI a -> RelI a b -> PreI b.
Proof. intros _ [H _]. exact H. Qed.

Notation Iat := (Hat PreI RelI).
Definition PI {A} (m : LM A) : Prop := forall w, Iat m w.

Lemma Pat_Iat {A} (m : LM A) w : Pat m w -> Iat m w.
Proof.
  intros H Q [HP Hs] HQ. apply H; [exact HP|]. intros r w' (P' & K' & S' & _). apply HQ. split; [split; [exact P' | congruence] | exact K'].
Qed.

Lemma PK_PI {A} (m : LM A) : PK m -> PI m.
Proof. intros H w. apply Pat_Iat. apply H. Qed.

Section CombI.
  Context {A B : Type}.
  Lemma Iat_ret (a : A) w : Iat (ret a) w. Proof. apply Hat_ret. exact RelI_refl. Qed.
  Lemma Iat_raise e w : Iat (raise e : LM A) w. Proof. apply Hat_raise. exact RelI_refl. Qed.
  Lemma Iat_bind (m : LM A) (f : A -> LM B) w : Iat m w -> (forall a, PI (f a)) -> Iat (bind m f) w.
  Proof. intros H1 H2. eapply Hat_bind; [exact RelI_trans | exact RelI_pre | exact H1 | intros a w1; apply H2]. Qed.
  Lemma Iat_get (f : world -> LM A) w : Iat (f w) w -> Iat (bind get f) w. Proof. apply Hat_get. Qed.
  Lemma Iat_attempt (m : LM A) w : Iat m w -> Iat (attempt m) w. Proof. apply Hat_attempt. Qed.
End CombI.

Ltac istep :=
  lazymatch goal with
  | |- PI _ => intro
  | |- Hat PreI RelI (bind get _) _ => apply Iat_get; cbv beta
  | |- Hat PreI RelI (bind _ _) _ => apply Iat_bind; [ | intro ]
  | |- Hat PreI RelI (ret _) _ => apply Iat_ret
  | |- Hat PreI RelI (raise _) _ => apply Iat_raise
  | |- Hat PreI RelI (attempt _) _ => apply Iat_attempt
  | |- Hat _ _ (match ?x with _ => _ end) _ => destruct x eqn:?
  | |- Hat _ _ (if ?x then _ else _) _ => destruct x eqn:?
  | |- Hat _ _ (let _ := _ in _) _ => cbv zeta
  end.

(* moving the program counter of the stepping task *)
Lemma set_t0_PI p : PI (set_t0 p).
Proof.
  intros w Q [HP Hs] HQ. unfold set_t0. wp_prim. apply HQ. split; [split; [|exact Hs]|].
  - eapply P_weaken; [exact HP | reflexivity | reflexivity | left; reflexivity | left; reflexivity | left; reflexivity].
  - intros j a H. eauto.
Qed.

Lemma set_t0'_PI p : PI (set_t0' p).
Proof. exact (set_t0_PI p). Qed.

Ltac ifr := apply Pat_Iat; first [ pput | pfr ].
Ltac iauto := repeat first [ istep | ifr | apply set_t0_PI | apply set_t0'_PI ].

Lemma do_out_PK path v : PK (do_out path v).
Proof.
  intro w. unfold do_out. pauto. apply fire_PK. apply do_ctl_PK.
Qed.

Lemma run_actions_PI acts r : PI (run_actions acts r).
Proof.
  induction acts as [|a rest IH]; cbn [run_actions]; [intro w; apply Iat_ret|]. destruct a.
  - intro w. istep; [istep; apply Pat_Iat; apply do_out_PK|]. istep. destruct a; [apply IH | apply Iat_ret].
  - intro w. iauto.
  - intro w. istep. destruct (find (fun kw => Nat.eqb (fst kw) k) (exts w)) as [[? []]|]; try apply IH; iauto.
  - intro w. istep; [apply Pat_Iat; apply ctl_observed_PK|]. istep. istep; [ifr|]. intro. apply IH.
  - intro w. istep; [ifr|]. intro. apply IH.
  - intro w. istep. istep; [ifr|]. intro. apply IH.
  - intro w. istep; [ifr|]. intro. apply IH.
Qed.

Lemma after_run_fn_PI o : PI (after_run_fn o).
Proof. intro w. unfold after_run_fn. iauto. Qed.

Lemma after_waiting_once_PI fn awaited wk again : (forall x, PI (again x)) -> PI (after_waiting_once fn awaited wk again).
Proof.
  intros Hagain w. unfold after_waiting_once. destruct wk; try apply Iat_ret. iauto. apply Hagain.
Qed.

Lemma await_current_PI fn k : (forall a b, PI (k a b)) -> PI (await_current fn k).
Proof. intros Hk w. unfold await_current. iauto. apply Hk. Qed.

Lemma after_waiting_PI fn awaited wk : PI (after_waiting fn awaited wk).
Proof.
  unfold after_waiting. apply after_waiting_once_PI. intro x. apply await_current_PI. intros a b.
  apply after_waiting_once_PI. intros y w. apply Iat_ret.
Qed.

Lemma execute_state_PI : PI execute_state.
Proof.
  intro w. unfold execute_state. istep. destruct (st w) as [[]|]; try apply Iat_ret.
  - istep; [ifr|]. intro w1. destruct (lookup_script w fn); [|apply Iat_ret]. istep; [apply run_actions_PI | intro o; apply after_run_fn_PI].
  - destruct wf; [iauto | apply after_waiting_PI].
Qed.

(* the end of a step: interruption bookkeeping, the armed action or the nominal transition, and the `finally` that lowers
   the stepping flag and disarms whatever is still armed *)
Lemma finish_step_spec x w (Q : result unit -> world -> Prop) :
  P w -> stepping w = true -> (forall r w', P w' -> Q r w') -> wp (finish_step x) Q w.
Proof.
  intros HP Hs HQ. unfold finish_step. wp_prim.
  (* the finally part, from any world satisfying P *)
  assert (Hfin : forall (r : result unit) w2, P w2 ->
            wp (bind (modify (fun w => w <| stepping := false |>)) (fun _ => set_interrupt_action None))
               (fun r2 s'' => match r2 with Ok _ => Q r s'' | Err e => Q (Err e) s'' end) w2).
  { intros r w2 P2. do 2 wp_prim. apply sia_spec; [apply (P_P0 _ P2) | intro X; congruence | intros n X; discriminate|].
    intros w' P' _ _ _ _ _ _ _ _. apply HQ. exact P'. }
  (* after the bookkeeping: run the armed action or make the transition *)
  assert (Hmid : forall next w1, P w1 ->
            wp (bind get (fun w => if is_terminated w then ret tt
                                   else match intr w with
                                        | Some a => bind (run_action a next) (fun _ => run_armed armed_fuel (Some a))
                                        | None => bind (transition next) (fun _ => run_armed armed_fuel None)
                                        end))
               (fun r s' => wp (bind (modify (fun w => w <| stepping := false |>)) (fun _ => set_interrupt_action None))
                               (fun r2 s'' => match r2 with Ok _ => Q r s'' | Err e => Q (Err e) s'' end) s') w1).
  { intros next w1 P1. do 2 wp_prim. destruct (is_terminated w1); [wp_prim; apply Hfin; exact P1|].
    assert (Harm : forall fuel ran, PK (run_armed fuel ran)).
    { induction fuel as [|f IHf]; intros ran wz; cbn [run_armed]; [apply Pat_raise|]. pstep. destruct (is_terminated wz); [apply Pat_ret|].
      destruct (intr wz); [|apply Pat_ret]. match goal with |- Hat _ _ (if ?c then _ else _) _ => destruct c end; [apply Pat_ret|].
      pstep; [apply run_action_PK | intro; apply IHf]. }
    destruct (intr w1).
    - assert (HK : Pat (bind (run_action n next) (fun _ => run_armed armed_fuel (Some n))) w1) by (pstep; [apply run_action_PK | intro; apply Harm]).
      apply HK; [exact P1|]. intros r w2 R2. apply Hfin. apply R2.
    - assert (HK : Pat (bind (transition next) (fun _ => run_armed armed_fuel None)) w1) by (pstep; [apply transition_PK | intro; apply Harm]).
      apply HK; [exact P1|]. intros r w2 R2. apply Hfin. apply R2. }
  wp_prim. destruct x.
  - wp_prim. cbv beta iota. apply Hmid. exact HP.
  - wp_prim. cbv beta iota. apply Hmid. exact HP.
  - do 3 wp_prim. cbv zeta.
    match goal with |- wp (if ?k then _ else _) _ _ => destruct k end.
    + do 2 wp_prim. apply Hmid. exact HP.
    + destruct (find (fun ac => Nat.eqb (a_cookie ac) iid) (acts w)).
      * wp_prim. apply sia_from_spec; [exact HP | exact Hs |]. intros n w1 P1 _ _ _ _ _ _ _. cbv beta iota.
        do 2 wp_prim. apply Hmid. exact P1.
      * do 2 wp_prim. apply Hmid. exact HP.
  - wp_prim. apply sia_spec; [apply (P_P0 _ HP) | intro X; congruence | intros n X; discriminate|].
    intros w1 P1 _ _ _ _ _ _ _ _. cbv beta iota. wp_prim. cbv beta iota. apply Hmid. exact P1.
Qed.

(* a suspended stepping task is inside a step *)
Definition in_step (p : pc) : bool := match p with PcInStep _ _ _ | PcAwaitWaiting _ => true | _ => false end.
Definition cl5 (w : world) : Prop := in_step (t0 w) = true -> stepping w = true.
Definition okc {A} (r : result A) (w : world) : Prop := match r with Ok _ => cl5 w | Err _ => True end.

(* run a step from its beginning, then go round the loop *)
Lemma step_body_spec (rest : LM unit) w (Q : result unit -> world -> Prop) :
  P w ->
  (forall w1 (Q1 : result unit -> world -> Prop), P w1 -> (forall r w', P w' -> okc r w' -> Q1 r w') -> wp rest Q1 w1) ->
  (forall r w', P w' -> okc r w' -> Q r w') ->
  wp (bind (modify (fun w => w <| stepping := true |>))
           (fun _ => bind execute_state (fun x => match x with XoSuspended => ret tt | _ => bind (finish_step x) (fun _ => rest) end))) Q w.
Proof.
  intros HP Hrest HQ. do 2 wp_prim.
  match goal with |- wp _ _ ?w1 => assert (P1 : PreI w1) end.
  { split; [|reflexivity]. eapply P_weaken; [exact HP | reflexivity | reflexivity | right; reflexivity | left; reflexivity | left; reflexivity]. }
  wp_prim. apply execute_state_PI; [exact P1|]. intros r w2 [[P2 S2] _]. destruct r as [x|e]; cbv beta iota.
  2: { apply HQ; [exact P2 | exact I]. }
  assert (Hfs : wp (bind (finish_step x) (fun _ => rest)) Q w2).
  { wp_prim. apply finish_step_spec; [exact P2 | exact S2 |]. intros r w3 P3. destruct r; cbv beta iota.
    - apply Hrest; [exact P3 | exact HQ].
    - apply HQ; [exact P3 | exact I]. }
  destruct x; try exact Hfs. wp_prim. apply HQ; [exact P2 | intros _; exact S2].
Qed.

Lemma loop_head_spec fuel : forall w (Q : result unit -> world -> Prop),
  P w -> (forall r w', P w' -> okc r w' -> Q r w') -> wp (loop_head fuel) Q w.
Proof.
  induction fuel as [|f IH]; intros w Q HP HQ; cbn [loop_head]; [wp_prim; apply HQ; [exact HP | exact I]|].
  do 2 wp_prim.
  assert (Hset : forall p, in_step p = false -> wp (set_t0 p) Q w).
  { intros p Hp. unfold set_t0. wp_prim. apply HQ.
    - eapply P_weaken; [exact HP | reflexivity | reflexivity | left; reflexivity | left; reflexivity | left; reflexivity].
    - intro X. cbn in X. rewrite Hp in X. discriminate. }
  destruct (is_terminated w); [apply Hset; reflexivity|]. destruct (closed w); [wp_prim; apply HQ; [exact HP | exact I]|].
  destruct (paused w); [apply Hset; reflexivity|].
  apply step_body_spec; [exact HP | | exact HQ]. intros w1 Q1 P1 HQ1. apply IH; assumption.
Qed.

Lemma resume_t0_spec wk w (Q : result unit -> world -> Prop) :
  P w -> cl5 w -> (forall r w', P w' -> okc r w' -> Q r w') -> wp (resume_t0 wk) Q w.
Proof.
  intros HP H5 HQ. unfold resume_t0. do 2 wp_prim.
  assert (Hloop : forall w1 (Q1 : result unit -> world -> Prop), P w1 -> (forall r w', P w' -> okc r w' -> Q1 r w') -> wp (loop_head chain_fuel) Q1 w1)
    by (intros; apply loop_head_spec; assumption).
  assert (Htail : forall (x : exec_out) w2, P w2 -> stepping w2 = true ->
             wp (match x with XoSuspended => ret tt | _ => bind (finish_step x) (fun _ => loop_head chain_fuel) end) Q w2).
  { intros x w2 P2 S2.
    assert (Hfs : wp (bind (finish_step x) (fun _ => loop_head chain_fuel)) Q w2).
    { wp_prim. apply finish_step_spec; [exact P2 | exact S2 |]. intros r w3 P3. destruct r; cbv beta iota.
      - apply Hloop; [exact P3 | exact HQ].
      - apply HQ; [exact P3 | exact I]. }
    destruct x; try exact Hfs. wp_prim. apply HQ; [exact P2 | intros _; exact S2]. }
  destruct (t0 w) eqn:Et.
  - apply Hloop; assumption.
  - assert (Hb : wp (bind (modify (fun w => w <| stepping := true |>))
                       (fun _ => bind execute_state (fun x => match x with XoSuspended => ret tt | _ => bind (finish_step x) (fun _ => loop_head chain_fuel) end))) Q w).
    { apply step_body_spec; [exact HP | exact Hloop | exact HQ]. }
    destruct (paused w); [destruct (is_terminated w); [exact Hb|] | exact Hb].
    unfold set_t0. wp_prim. apply HQ.
    + eapply P_weaken; [exact HP | reflexivity | reflexivity | left; reflexivity | left; reflexivity | left; reflexivity].
    + intro X. discriminate.
  - assert (Hs : stepping w = true) by (apply H5; rewrite Et; reflexivity).
    wp_prim.
    assert (Ho : Iat (match wk with WkExn e => ret (SoRaised e) | _ => run_actions rest r end) w).
    { destruct wk; first [apply run_actions_PI | apply Iat_ret]. }
    apply Ho; [split; assumption|]. intros ro w1 [[P1 S1] _]. destruct ro as [o|e]; cbv beta iota; [|apply HQ; [exact P1 | exact I]].
    wp_prim. apply after_run_fn_PI; [split; assumption|]. intros rx w2 [[P2 S2] _]. destruct rx as [x|e]; cbv beta iota; [|apply HQ; [exact P2 | exact I]].
    apply Htail; assumption.
  - assert (Hs : stepping w = true) by (apply H5; rewrite Et; reflexivity).
    do 3 wp_prim.
    assert (Hw : Iat (match st w with Some (SWaiting fn _ _ _ _) => after_waiting fn wid wk | _ => after_waiting None wid wk end) w).
    { destruct (st w) as [[]|]; apply after_waiting_PI. }
    apply Hw; [split; assumption|]. intros rx w2 [[P2 S2] _]. destruct rx as [x|e]; cbv beta iota; [|apply HQ; [exact P2 | exact I]].
    wp_prim. apply finish_step_spec; [exact P2 | exact S2 |]. intros r w3 P3. destruct r; cbv beta iota.
    + apply Hloop; [exact P3 | exact HQ].
    + apply HQ; [exact P3 | exact I].
  - wp_prim. apply HQ; [exact HP|]. intro X. rewrite Et in X. discriminate.
  - wp_prim. apply HQ; [exact HP|]. intro X. rewrite Et in X. discriminate.
Qed.

(* ------------------------------------------------------------------ the loop and the environment *)
Definition E (w : world) : Prop := P w /\ cl5 w.
Definition RelE (_ w' : world) : Prop := E w'.
Notation Eat := (Hat E RelE).
Definition EK {A} (m : LM A) : Prop := forall w, Eat m w.

Lemma Pat_Eat {A} (m : LM A) w : Pat m w -> Eat m w.
Proof.
  intros H Q [HP H5] HQ. apply H; [exact HP|]. intros r w' (P' & _ & S' & T'). apply HQ. split; [exact P'|].
  unfold cl5 in *. rewrite S', T'. exact H5.
Qed.

Section CombE.
  Context {A B : Type}.
  Lemma Eat_ret (a : A) w : Eat (ret a) w. Proof. apply Hat_ret. intros w0 H; exact H. Qed.
  Lemma Eat_bind (m : LM A) (f : A -> LM B) w : Eat m w -> (forall a, EK (f a)) -> Eat (bind m f) w.
  Proof. intros H1 H2. eapply Hat_bind; [intros a b c _ H; exact H | intros a b _ H; exact H | exact H1 | intros a w1; apply H2]. Qed.
  Lemma Eat_get (f : world -> LM A) w : Eat (f w) w -> Eat (bind get f) w. Proof. apply Hat_get. Qed.
  Lemma Eat_attempt (m : LM A) w : Eat m w -> Eat (attempt m) w. Proof. apply Hat_attempt. Qed.
End CombE.

Lemma Eat_when b (m : LM unit) w : (b = true -> Eat m w) -> Eat (when b m) w.
Proof. apply Hat_when. intros w0 H; exact H. Qed.

Ltac estep :=
  lazymatch goal with
  | |- EK _ => intro
  | |- Hat E RelE (when _ _) _ => apply Eat_when; intro
  | |- Hat E RelE (bind get _) _ => apply Eat_get; cbv beta
  | |- Hat E RelE (bind _ _) _ => apply Eat_bind; [ | intro ]
  | |- Hat E RelE (ret _) _ => apply Eat_ret
  | |- Hat E RelE (attempt _) _ => apply Eat_attempt
  | |- Hat _ _ (match ?x with _ => _ end) _ => destruct x eqn:?
  | |- Hat _ _ (if ?x then _ else _) _ => destruct x eqn:?
  end.
Ltac efr := apply Pat_Eat; first [ pput | pfr | apply Pat_ret | apply Pat_raise ].
Ltac eauto' := repeat first [ estep | efr ].

Lemma run_entry_EK r : EK (run_entry r).
Proof.
  intro w. unfold run_entry. destruct r.
  - intros Q [HP H5] HQ. do 2 wp_prim. apply resume_t0_spec; [exact HP | exact H5 |]. intros r w1 P1 O1. destruct r; cbv beta iota.
    + wp_prim. apply HQ. split; assumption.
    + unfold set_t0, emit. do 3 wp_prim. apply HQ. split.
      * eapply P_weaken; [exact P1 | reflexivity | reflexivity | left; reflexivity | left; reflexivity | left; reflexivity].
      * intro X. discriminate.
  - estep; [efr|]. intro w1. estep. estep.
    + estep. destruct (nth_error (cf_callbacks (cfg w1)) cb) as [[]|]; try efr.
      estep; [apply Pat_Eat; apply ctl_observed_PK | intro; intro; efr].
    + intro w2. destruct a0; [efr|]. estep. destruct (st w2) as [[]|]; try efr;
        (estep; [estep; apply Pat_Eat; apply ctl_call_PK | intro wz; destruct a0; eauto']).
  - estep. destruct (orig_fut_cancelled w); [|efr].
    estep; [estep; apply Pat_Eat; apply ctl_call_PK | intro wz; destruct a; eauto'].
Qed.

Lemma tick_EK : EK tick.
Proof. intro w. unfold tick. estep. destruct (ready w); [efr|]. estep; [efr | intro; apply run_entry_EK]. Qed.

Lemma drain_EK n : EK (drain n).
Proof.
  induction n as [|n IH]; cbn [drain]; intro w; [efr|]. estep. destruct (ready w); [efr|].
  estep; [apply tick_EK | intro; apply IH].
Qed.

Lemma env_step_m_EK e : EK (env_step_m e).
Proof.
  intro w. destruct e; cbn [env_step_m].
  - apply tick_EK.
  - estep; [apply Pat_Eat; apply ctl_observed_PK | intro; intro; efr].
  - eauto'.
  - efr.
  - eauto'.
  - apply drain_EK.
Qed.

Lemma env_step_E w e : E w -> E (env_step w e).
Proof.
  intro H. unfold env_step. apply (wp_run (env_step_m e) (fun _ w' => E w') w).
  apply env_step_m_EK; [exact H|]. intros r w' H'. exact H'.
Qed.

Lemma run_from_E es : forall w, E w -> E (run_from w es).
Proof.
  unfold run_from. induction es as [|e es IH]; intros w H; cbn [fold_left]; [exact H|]. apply IH. apply env_step_E. exact H.
Qed.

Lemma init_E c : E (init_world c).
Proof.
  split; [|intro X; discriminate]. split; [intros _; reflexivity|]. split; [|split]; intros a X; discriminate.
Qed.

Lemma constructed_E c r w : construct_process c = (r, w) -> E w.
Proof.
  intros Hc. unfold construct_process in Hc.
  assert (H : Eat (bind (transition (Some SCreated)) (fun _ => schedule (RWakeT0 WkNone))) (init_world c)).
  { estep; [apply Pat_Eat; apply transition_PK | intro; intro; efr]. }
  pose proof (wp_run _ (fun _ w' => E w') (init_world c) (H _ (init_E c) (fun _ _ X => X))) as H2.
  rewrite Hc in H2. exact H2.
Qed.

(* in every run — hooks may even raise: the bookkeeping does not depend on them *)
Theorem run_pointers c es w : run c es = Some w -> P w.
Proof.
  intros Hr. unfold run in Hr. destruct (construct_process c) as [[u|e] w0] eqn:Hc; [|discriminate].
  injection Hr as <-. apply (run_from_E es w0 (constructed_E _ _ _ Hc)).
Qed.

Theorem nothing_pending_between_steps c es w :
  run c es = Some w -> stepping w = false -> intr w = None /\ pausing w = None /\ killing w = None.
Proof.
  intros Hr Hs. destruct (run_pointers _ _ _ Hr) as (H1 & H2 & H3 & _). specialize (H1 Hs). split; [exact H1|]. split.
  - destruct (pausing w) as [a|] eqn:E1; [|reflexivity]. destruct (H2 a eq_refl) as [X _]. congruence.
  - destruct (killing w) as [a|] eqn:E1; [|reflexivity]. destruct (H3 a eq_refl) as [X _]. congruence.
Qed.

Theorem pending_pause_is_armed c es w a :
  run c es = Some w -> pausing w = Some a ->
  stepping w = true /\ intr w = Some a /\
  exists ac, get_act w a = Some ac /\ a_fut ac = AfPending /\ is_pause (a_kind ac) = true.
Proof.
  intros Hr Hp. destruct (run_pointers _ _ _ Hr) as (H1 & H2 & _). destruct (H2 a Hp) as [Hi Hx].
  split; [|split; [exact Hi | exact Hx]]. destruct (stepping w) eqn:E; [reflexivity|]. rewrite (H1 eq_refl) in Hi. discriminate.
Qed.
