(* Life/LifeFault6.v — C03, continued: faults in the termination hooks (on_terminated, on_close) of the transition
   RUNNING -> FINISHED. *)
From Coq Require Import List ZArith String Bool Arith Lia.
From RecordUpdate Require Import RecordUpdate.
From Plumpy Require Import Val Mon MonTac PortModel Model Run LifeSx LifeFault.
Import ListNotations.
Local Open Scope list_scope.
Local Open Scope mon_scope.
Local Open Scope string_scope.

Lemma nat_assoc_bump_same' h l : nat_assoc h (nat_bump h l) = S (nat_assoc h l).
Proof.
  induction l as [|[k n] l IH]; cbn.
  - rewrite String.eqb_refl. reflexivity.
  - destruct (String.eqb h k) eqn:E; cbn; rewrite E; [reflexivity | exact IH].
Qed.

Lemma eqb_succ' n : Nat.eqb n (S n) = false.
Proof. induction n; cbn; auto. Qed.

(* a hook that is called twice in the operation: the fault fires at the first call only *)
Ltac sxg_step :=
  first
    [ rewrite Nat.eqb_refl
    | rewrite eqb_succ'
    | rewrite nat_assoc_bump_same'
    | rewrite nat_assoc_bump_other by reflexivity
    | sx_step ].
Ltac sxg := repeat sxg_step.

Lemma fault_terminating w h e f a k v :
  In h ["on_terminated"; "on_close"] ->
  faulty w h e -> st w = Some (SRunning f a k) -> lookup_script w f = Some (mk_script [] (RUnsuccessful v)) ->
  wp step_once (contained e) w.
Proof.
  intros Hh HF Hst Hlk. open_faulty w HF. unfold lookup_script in Hlk. cbn in Hst, Hlk. subst.
  unfold step_once.
  cbn in Hh. destruct Hh as [<-|[<-|[]]]; sxg; finf.
Qed.
