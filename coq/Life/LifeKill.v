(* Life/LifeKill.v — property C04: a kill() made between steps of ANY reachable live process — whatever happened before,
   whatever listener scripts are attached — is carried out at once: kill() answers True, the process is KILLED with the
   kill text, its future raises KilledError with that text, it is closed, its listeners have been told once and the
   cleanups have run.  Combines the three all-run invariants: LifePtr (nothing is pending between steps), LifeAgree (the
   reports agree; a live process has an unresolved future and its hooks) and LifePath (a state exists). *)
From Coq Require Import List ZArith String Bool Arith Lia.
From RecordUpdate Require Import RecordUpdate.
From Plumpy Require Import Val Mon MonTac PortModel Model Run LifePath LifeAgree LifePtr.
Import ListNotations.
Local Open Scope list_scope.

Lemma tv_some s x : tv s = Some x -> s = Some x.
Proof. destruct s as [[]|]; cbn; intro H; congruence. Qed.

Section KillNow.
  Variable rec_ctl : ctl -> LM cret.
  Hypothesis Hrec : forall c, K (rec_ctl c).

  (* leaving a live state for an allowed target never fails *)
  Lemma exit_current_ok ns cur w (Q : result unit -> world -> Prop) :
    TI w -> st w = Some cur -> terminal (label_of cur) = false -> is_allowed (label_of cur) (label_of ns) = true ->
    (forall w', RelT w w' -> Q (Ok tt) w') -> wp (exit_current ns) Q w.
  Proof.
    intros HT Hst Hterm Hal HQ. unfold exit_current. do 2 wp_prim. rewrite Hst, Hal. cbn [negb].
    assert (Hrest : forall w1, RelT w w1 ->
              wp (if terminal (label_of cur) then raise EInvalidState
                  else match cur with
                       | SWaiting fn msg data wid WfPending =>
                           bind (modify (fun w => w <| st := Some (SWaiting fn msg data wid (WfDone WkNull)) |>))
                             (fun _ => bind get (fun w' => match t0 w' with
                                                       | PcAwaitWaiting wid' => when (Nat.eqb wid wid') (schedule (RWakeT0 WkNull))
                                                       | _ => ret tt
                                                       end))
                       | _ => ret tt
                       end) Q w1).
    { intros w1 R1. rewrite Hterm.
      destruct cur; try (wp_prim; apply HQ; exact R1).
      destruct wf; [|wp_prim; apply HQ; exact R1].
      do 3 wp_prim.
      match goal with |- wp _ _ ?w2 => assert (R2 : RelT w w2) end.
      { destruct R1 as (T1 & (A1 & A2 & A3 & A4 & A5 & A6 & A7) & F1). split; [exact T1|]. split; [|exact F1].
        repeat split; try assumption. cbn. rewrite Hst. reflexivity. }
      wp_prim. wp_case; try (wp_prim; apply HQ; exact R2).
      wp_case; [|apply HQ; exact R2].
      unfold schedule. wp_prim. apply HQ.
      eapply RelT_trans; [exact R2|]. destruct R2 as (T2 & _). split; [exact T2|]. split; [core_done | reflexivity]. }
    wp_prim. wp_case.
    - destruct cur; first [ wp_prim; cbv beta iota; apply Hrest; apply RelT_refl; exact HT
                          | eapply hook_ok; [exact HT|]; intros w1 R1; cbv beta iota; apply Hrest; exact R1 ].
    - cbv beta iota. apply Hrest. apply RelT_refl. exact HT.
  Qed.
  (* on_kill with an unresolved future: the future is resolved (or, when cancelled by its owner, replaced), nothing raises *)
  Lemma on_entering_killed_ok m w (Q : result (option pstate) -> world -> Prop) :
    TI w -> unresolved (pfut w) ->
    (forall w', side_eq w w' -> pfut w' = PfExn (EKilled (killed_text m)) -> Q (Ok None) w') ->
    wp (on_entering (SKilled m)) Q w.
  Proof.
    intros HT Hu HQ. unfold on_entering.
    use hook_ok; [exact HT|]. intros w1 R1. cbv beta iota. destruct (side_eq_of_RelT _ _ R1) as [S1 P1]. do 5 wp_prim.
    match goal with |- wp _ _ ?w1' => set (w1s := w1') end.
    assert (S1s : side_eq w w1s) by exact S1. assert (Pw : pfut w1s = pfut w) by exact P1.
    destruct Hu as [Hu|Hu]; rewrite Hu in Pw; rewrite Pw.
    - unfold pfut_set, schedule. do 2 wp_prim. unfold pfut_done. rewrite Pw.
      repeat (wp_prim || wp_case); (apply HQ; [|reflexivity]);
        (destruct S1s as (T1 & F1 & V1 & C1 & K1 & O1 & M1 & L1); split; [exact T1|]; repeat split; assumption).
    - repeat wp_prim. apply HQ; [|reflexivity].
      destruct S1s as (T1 & F1 & V1 & C1 & K1 & O1 & M1 & L1). split; [exact T1|]. repeat split; assumption.
  Qed.

  Lemma enter_next_killed m w (Q : result (option pstate) -> world -> Prop) :
    TI w -> hooks_alive w = true -> unresolved (pfut w) ->
    (forall w', entered (SKilled m) w w' -> Q (Ok None) w') ->
    wp (enter_next rec_ctl (SKilled m)) Q w.
  Proof.
    intros HT Hk Hu HQ. unfold enter_next. do 2 wp_prim. rewrite Hk. wp_prim.
    apply on_entering_killed_ok; [exact HT | exact Hu |]. intros w1 S1 P1. cbv beta iota.
    do 4 wp_prim. unfold emit. do 3 wp_prim.
    match goal with |- wp _ _ ?w2 => set (w2s := w2) end.
    destruct S1 as (T1 & F1 & V1 & C1 & K1 & O1 & M1 & L1).
    assert (T2 : TI w2s) by exact T1.
    assert (M2 : marks (trace w2s) = marks (trace w1)).
    { subst w2s. cbn [trace]. unfold RecordSet.set; cbn. apply marks_snoc. reflexivity. }
    wp_prim. replace (hooks_alive w2s) with true by (symmetry; change (hooks_alive w1 = true); congruence).
    unfold when. use on_entered_ok; [exact Hrec | exact T2|]. intros w3 (T3 & F3 & A1 & A2 & A3 & A4 & A5 & A6 & A7). cbv beta iota. wp_prim.
    apply HQ. split; [exact T3|]. split; [rewrite F3; exact F1|]. split; [rewrite A1; reflexivity|].
    split; [rewrite A3; exact C1|]. split; [rewrite A4; exact K1|]. split; [rewrite A5; exact O1|].
    split; [cbn; rewrite A2; exact P1|].
    split; [rewrite A6, M2, M1; reflexivity | rewrite A7; exact L1].
  Qed.
  (* as LifeAgree.entered_then_terminate, keeping track of the state that was entered *)
  Lemma entered_then_terminate_st ns w1 w2 (Q : result unit -> world -> Prop) :
    entered ns w1 w2 -> agree w1 -> is_terminated w1 = false ->
    (forall w3, TI w3 -> transition_failing w3 = transition_failing w1 -> agree w3 -> tv (st w3) = tv (Some ns) -> Q (Ok tt) w3) ->
    wp (bind get (fun w' => when (is_terminated w') on_terminated)) Q w2.
  Proof.
    intros He Ha Hl HQ.
    eapply wp_use.
    { apply LifeAgree.wp_conj.
      - apply (entered_then_terminate ns w1 w2 (fun r w3 => r = Ok tt /\ TI w3 /\ transition_failing w3 = transition_failing w1 /\ agree w3) He Ha Hl).
        intros w3 T3 F3 A3. split; [reflexivity | split; [exact T3 | split; [exact F3 | exact A3]]].
      - destruct He as (T2 & F2 & V2 & C2 & K2 & O2 & P2 & M2 & L2).
        destruct (agree_live _ Ha Hl) as (U1 & C1 & K1 & V1 & M1 & L1).
        assert (H : wp (bind get (fun w' => when (is_terminated w') on_terminated)) (fun _ w3 => tv (st w3) = tv (Some ns)) w2).
        { do 2 wp_prim. destruct (is_terminated w2); unfold when; [|wp_prim; exact V2].
          apply on_terminated_spec; [exact T2 | congruence |]. intros w3 _ _ V3 _ _ _ _ _ _. congruence. }
        exact H. }
    intros r w3 [(-> & T3 & F3 & A3) V3]. apply HQ; assumption.
  Qed.

  Lemma live_allows_killed cur : terminal (label_of cur) = false -> is_allowed (label_of cur) LKilled = true.
  Proof. destruct cur; cbn; intro H; (reflexivity || discriminate). Qed.

  (* the transition to KILLED from a live process, outside any other transition: it cannot fail *)
  Lemma transition_to_killed m cur w (Q : result unit -> world -> Prop) :
    J w -> transitioning w = false -> is_terminated w = false -> st w = Some cur ->
    (forall w', J w' -> transitioning w' = false -> st w' = Some (SKilled m) -> Q (Ok tt) w') ->
    wp (transition_to rec_ctl (Some (SKilled m))) Q w.
  Proof.
    intros (Hn & Hfi & Hag) Ht Hl Hst HQ. specialize (Hfi Ht). specialize (Hag Ht).
    destruct (agree_live _ Hag Hl) as (U0 & C0 & K0 & V0 & M0 & L0).
    assert (Hterm : terminal (label_of cur) = false) by (unfold is_terminated in Hl; rewrite Hst in Hl; exact Hl).
    unfold transition_to. do 2 wp_prim. rewrite Ht. do 2 wp_prim. rewrite transition_body_unfold. do 2 wp_prim.
    match goal with |- wp _ _ ?w0 => set (w0s := w0) end.
    assert (T0 : TI w0s) by (split; [exact Hn | reflexivity]).
    do 2 wp_prim. change (transition_failing w0s) with (transition_failing w). rewrite Hfi. cbn [negb when].
    wp_prim. apply (exit_current_ok (SKilled m) cur); [exact T0 | exact Hst | exact Hterm | apply live_allows_killed; exact Hterm |].
    intros w1 (T1 & (A1 & A2 & A3 & A4 & A5 & A6 & A7) & F1). cbv beta iota.
    assert (E01 : core_eq w w1) by (repeat split; assumption).
    assert (Ag1 : agree w1) by (eapply agree_core; [exact E01 | exact Hag]).
    assert (Hl1 : is_terminated w1 = false) by (rewrite (core_eq_terminated _ _ E01); exact Hl).
    change (hooks_alive w0s) with (hooks_alive w) in A4. change (pfut w0s) with (pfut w) in A2.
    unfold body_rest. wp_prim. apply enter_next_killed; [exact T1 | congruence | rewrite A2; exact U0 |].
    intros w2 He. cbv beta iota. do 2 wp_prim.
    apply (entered_then_terminate_st (SKilled m) w1 w2); [exact He | exact Ag1 | exact Hl1 |].
    intros w3 (N3 & T3) F3 Ag3 V3. cbv beta iota. wp_prim.
    apply HQ; [| reflexivity | apply tv_some; exact V3].
    split; [exact N3|]. split; [intros _; reflexivity | intros _; exact Ag3].
  Qed.
End KillNow.

Lemma run_PreS c es w : cf_fault c = None -> run c es = Some w -> PreS w.
Proof.
  intros Hf Hr. unfold run in Hr. destruct (construct_process c) as [[u|e] w0] eqn:Hc; [|discriminate].
  injection Hr as <-. exact (run_from_PreS es w0 (constructed_PreS _ _ _ Hf Hc)).
Qed.

(* what a kill() made between two steps of any reachable live process does *)
Definition killed_now (msg : option string) (r : result cret) (w' : world) : Prop :=
  r = Ok (CrBool true) /\ st w' = Some (SKilled (Some msg))
  /\ pfut w' = PfExn (EKilled (match msg with Some t => t | None => ""%string end))
  /\ closed w' = true /\ hooks_alive w' = false
  /\ marks (trace w') = [EvListener "on_process_killed"; EvCleanup 0] /\ transitioning w' = false.

Theorem kill_between_steps_every_run c es w msg :
  cf_fault c = None -> run c es = Some w -> is_terminated w = false -> stepping w = false ->
  wp (ctl_call (CKill msg)) (killed_now msg) w.
Proof.
  intros Hf Hr Hl Hs. destruct (run_PreS _ _ _ Hf Hr) as [HJ Ht].
  destruct (nothing_pending_between_steps _ _ _ Hr Hs) as (_ & _ & Hk).
  destruct (st w) as [cur|] eqn:Hst; [|exfalso; exact (run_started _ _ _ Hf Hr Hst)].
  unfold ctl_call, reent_fuel. cbn [do_ctl ctl_body]. unfold kill. do 2 wp_prim. rewrite Hst.
  assert (Hgo : wp (if is_terminated w then ret (CrBool false)
                    else match killing w with
                         | Some a => ret (CrAction a)
                         | None =>
                             if stepping w
                             then bind fresh (fun iid => bind (set_interrupt_action_from (KKill msg) iid) (fun a =>
                                    bind (modify (fun w => w <| killing := Some a |>)) (fun _ =>
                                    bind (state_interrupt iid) (fun _ => ret (CrAction a)))))
                             else bind (transition_to (do_ctl 5) (Some (SKilled (Some msg)))) (fun _ => ret (CrBool true))
                         end) (killed_now msg) w).
  { rewrite Hl, Hk, Hs. wp_prim. apply (transition_to_killed (do_ctl 5) (do_ctl_K 5) (Some msg) cur); try assumption.
    intros w' (N' & F' & A') T' S'. cbv beta iota. wp_prim. specialize (A' T'). unfold agree in A'. rewrite S' in A'. cbn in A'.
    destruct A' as (B1 & B2 & B3 & B4 & B5). unfold killed_now. repeat split; assumption. }
  destruct cur; try exact Hgo. unfold is_terminated in Hl. rewrite Hst in Hl. discriminate.
Qed.
