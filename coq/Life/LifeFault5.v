(* Life/LifeFault5.v — C03, continued: a callback scheduled with call_soon that raises fails the process (EXCEPTED
   with exactly that exception, nothing reaches the loop); a fault during construction propagates to the caller. *)
From Coq Require Import List ZArith String Bool Arith Lia.
From RecordUpdate Require Import RecordUpdate.
From Plumpy Require Import Val Mon MonTac PortModel Model Run LifeSx LifeFault.
Import ListNotations.
Local Open Scope list_scope.
Local Open Scope mon_scope.
Local Open Scope string_scope.

Definition contained_cb (e : exn) (w : world) (r : result unit) (w' : world) : Prop :=
  r = Ok tt /\ st w' = Some (SExcepted e) /\ pfut w' = PfExn e /\ closed w' = true /\
  exists tr, trace w' = (trace w ++ tr)%list /\ forallb (fun ev => match ev with EvLoopError _ => false | _ => true end) tr = true.

Lemma fault_in_callback w cb e f a k :
  quiet w -> stepping w = false -> st w = Some (SRunning f a k) ->
  nth_error (cf_callbacks (cfg w)) cb = Some (CbRaise e) ->
  wp (run_entry (RCallback cb)) (contained_cb e w) w.
Proof.
  intros [Q1 Q2 Q3 Q4 Q5 Q6 Q7 Q8 Q9 Q10 Q11 Q12] Hstp Hst Hcb.
  open_world w. cbn in *. subst. unfold run_entry, ctl_call.
  change (do_ctl reent_fuel (CFail e)) with (ctl_body (do_ctl 5) (CFail e)). cbn [ctl_body].
  sx; unfold contained_cb; repeat rewrite <- app_assoc; cbn [app];
    repeat match goal with
           | |- _ /\ _ => split
           | |- exists tr, _ = (_ ++ _)%list /\ _ => eexists; split; [reflexivity|]
           | |- _ = _ => reflexivity
           end.
Qed.

(* a fault in on_create: the constructor raises it, no process exists *)
Lemma fault_in_construction prog cbs ls ospec e :
  fst (construct_process (mk_config prog cbs ls (Some ("on_create", 0, e)) ospec)) = Err e.
Proof. vm_compute. reflexivity. Qed.
