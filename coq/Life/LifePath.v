(* Life/LifePath.v — proofs for property C01 over the life-cycle model M1 (Life/Model.v, Life/Run.v):
   in every run, whatever the program, the listeners' re-entrant control calls and the placement of
   control requests, late callbacks, future cancellation and completions between loop callbacks, the
   sequence of entered states is a path of the life-cycle graph that starts at CREATED, each entry is
   recorded with the state that was actually left, and a terminal state is never left.

   Method: a two-world relation [R w0 w] ("w extends w0 legally": same configuration, the trace of w is
   the trace of w0 followed by events whose state entries walk the graph from the state of w0 to the
   state of w).  R is reflexive and transitive; every operation of the model is shown to relate the world
   it starts in to the world it ends in (weakest-precondition calculus of Base/Mon.v); the run is a fold. *)
From Coq Require Import List ZArith String Bool Arith Lia.
From RecordUpdate Require Import RecordUpdate.
From Plumpy Require Import Val Mon MonTac PortModel Model Run.
Import ListNotations.
Local Open Scope list_scope.

(* ------------------------------------------------------------------ legality of a trace segment *)
Definition olabel_eqb (a b : option label) : bool :=
  match a, b with
  | None, None => true
  | Some x, Some y => label_eqb x y
  | _, _ => false
  end.

(* may [t] be entered when the current state is [cur] (None: no state yet) *)
Definition legal (cur : option label) (t : label) : bool :=
  match cur with
  | None => label_eqb t LCreated
  | Some a => is_allowed a t
  end.

(* follow the state entries of a trace segment from [cur]; None: some entry is illegal or is recorded
   with a source state that is not the current one *)
Fixpoint walk (cur : option label) (tr : list event) : option (option label) :=
  match tr with
  | [] => Some cur
  | EvEntered f t :: r => if olabel_eqb f cur && legal cur t then walk (Some t) r else None
  | _ :: r => walk cur r
  end.

Lemma label_eqb_eq a b : label_eqb a b = true <-> a = b.
Proof. destruct a, b; cbn; split; intro H; try reflexivity; try discriminate. Qed.

Lemma label_eqb_refl a : label_eqb a a = true.
Proof. destruct a; reflexivity. Qed.

Lemma olabel_eqb_eq a b : olabel_eqb a b = true <-> a = b.
Proof.
  destruct a as [a|], b as [b|]; cbn; try (split; intro H; (reflexivity || discriminate)).
  rewrite label_eqb_eq. split; intro H; [subst; reflexivity | injection H; auto].
Qed.

Lemma olabel_eqb_refl a : olabel_eqb a a = true.
Proof. apply olabel_eqb_eq. reflexivity. Qed.

Lemma walk_app c a b :
  walk c (a ++ b) = match walk c a with Some c' => walk c' b | None => None end.
Proof.
  revert c. induction a as [|e a IH]; intro c; cbn [app walk]; [reflexivity|].
  destruct e; try apply IH.
  destruct (olabel_eqb from c && legal c to); [apply IH | reflexivity].
Qed.

Definition is_entered (e : event) : bool := match e with EvEntered _ _ => true | _ => false end.

Lemma walk_one_other c e : is_entered e = false -> walk c [e] = Some c.
Proof. destruct e; cbn; intro H; (reflexivity || discriminate). Qed.

(* a terminal state has no legal exit: once terminal, the label never changes and nothing is entered *)
Lemma walk_terminal l tr c' :
  terminal l = true -> walk (Some l) tr = Some c' -> c' = Some l /\ forallb (fun e => negb (is_entered e)) tr = true.
Proof.
  intros Ht. induction tr as [|e tr IH]; cbn [walk forallb]; intro H.
  - injection H as <-. auto.
  - destruct e; cbn [is_entered negb andb]; try (apply IH; exact H).
    destruct l; cbn in Ht; try discriminate;
      (destruct from as [[]|]; destruct to; cbn in H; discriminate).
Qed.

(* ------------------------------------------------------------------ the relation *)
Definition nofault (w : world) : Prop := cf_fault (cfg w) = None.

(* the failure bypass of the exit check is only ever armed inside a transition *)
Definition FI (w : world) : Prop := transitioning w = false -> transition_failing w = false.

Definition started (w : world) : Prop := cur_label w <> None.

Definition R0 (w0 w : world) : Prop :=
  cfg w = cfg w0 /\ nofault w /\ started w /\
  exists tr, trace w = trace w0 ++ tr /\ walk (cur_label w0) tr = Some (cur_label w).

Definition R (w0 w : world) : Prop := R0 w0 w /\ FI w.

Lemma R0_refl w : nofault w -> started w -> R0 w w.
Proof. intros H S. split; [reflexivity|]. split; [exact H|]. split; [exact S|]. exists []. rewrite app_nil_r. auto. Qed.

Lemma R_refl w : nofault w -> started w -> FI w -> R w w.
Proof. intros H S F. split; [apply R0_refl; assumption | exact F]. Qed.

Lemma R0_trans w0 w1 w2 : R0 w0 w1 -> R0 w1 w2 -> R0 w0 w2.
Proof.
  intros (Hc1 & _ & _ & tr1 & Ht1 & Hw1) (Hc2 & Hn2 & Hs2 & tr2 & Ht2 & Hw2).
  split; [congruence|]. split; [exact Hn2|]. split; [exact Hs2|].
  exists (tr1 ++ tr2). rewrite Ht2, Ht1, app_assoc. split; [reflexivity|].
  rewrite walk_app, Hw1. exact Hw2.
Qed.

Lemma R_trans w0 w1 w2 : R w0 w1 -> R w1 w2 -> R w0 w2.
Proof. intros [H1 _] [H2 F]. split; [eapply R0_trans; eauto | exact F]. Qed.

Lemma R_nofault w0 w : R w0 w -> nofault w.
Proof. intros [(_ & H & _) _]. exact H. Qed.

(* a step that keeps configuration, trace and the state label *)
Lemma R0_frame w0 w w' :
  R0 w0 w -> cfg w' = cfg w -> trace w' = trace w -> cur_label w' = cur_label w -> R0 w0 w'.
Proof.
  intros (Hc & Hn & Hs & tr & Ht & Hw) Hc' Ht' Hl'. unfold R0, nofault, started in *.
  rewrite Hc', Ht', Hl'. repeat split; eauto.
Qed.

Lemma R_started w0 w : R w0 w -> started w.
Proof. intros [(_ & _ & H & _) _]. exact H. Qed.

Lemma R_frame w0 w w' :
  R w0 w -> cfg w' = cfg w -> trace w' = trace w -> cur_label w' = cur_label w ->
  transitioning w' = transitioning w -> transition_failing w' = transition_failing w -> R w0 w'.
Proof.
  intros [H F] Hc Ht Hl H1 H2. split; [eapply R0_frame; eauto|]. unfold FI in *. rewrite H1, H2. exact F.
Qed.

(* appending an event that is not a state entry *)
Lemma R_emit w0 w w' e :
  R w0 w -> is_entered e = false -> cfg w' = cfg w -> trace w' = trace w ++ [e] -> cur_label w' = cur_label w ->
  transitioning w' = transitioning w -> transition_failing w' = transition_failing w -> R w0 w'.
Proof.
  intros [(Hc & Hn & Hs & tr & Ht & Hw) F] He Hc' Ht' Hl' H1 H2. unfold R, R0, FI, nofault, started in *.
  rewrite Hc', Ht', Hl', H1, H2. split; [|exact F]. split; [exact Hc|]. split; [exact Hn|]. split; [exact Hs|].
  exists (tr ++ [e]). rewrite Ht, app_assoc. split; [reflexivity|].
  rewrite walk_app, Hw. apply walk_one_other. exact He.
Qed.

(* appending a legal state entry *)
Lemma R_enter w0 w w' t :
  R w0 w -> legal (cur_label w) t = true -> cfg w' = cfg w ->
  trace w' = trace w ++ [EvEntered (cur_label w) t] -> cur_label w' = Some t ->
  transitioning w' = transitioning w -> transition_failing w' = transition_failing w -> R w0 w'.
Proof.
  intros [(Hc & Hn & Hs & tr & Ht & Hw) F] Hl Hc' Ht' Hl' H1 H2. unfold R, R0, FI, nofault, started in *.
  rewrite Hc', Ht', Hl', H1, H2. split; [|exact F]. split; [exact Hc|]. split; [exact Hn|]. split; [discriminate|].
  exists (tr ++ [EvEntered (cur_label w) t]). rewrite Ht, app_assoc. split; [reflexivity|].
  rewrite walk_app, Hw. cbn [walk]. rewrite olabel_eqb_refl, Hl. reflexivity.
Qed.

(* only the two flags change *)
Lemma R_flags w0 w w' :
  R0 w0 w -> cfg w' = cfg w -> trace w' = trace w -> cur_label w' = cur_label w -> FI w' -> R w0 w'.
Proof. intros H Hc Ht Hl F. split; [eapply R0_frame; eauto | exact F]. Qed.

(* label-preserving extension *)
Definition LP (w0 w w' : world) : Prop := R w0 w' /\ cur_label w' = cur_label w.

Definition live (w : world) : Prop := exists s, st w = Some s /\ terminal (label_of s) = false.

Lemma live_not_terminated w : is_terminated w = false -> started w -> live w.
Proof.
  unfold is_terminated, live, started, cur_label. intros H Hs. destruct (st w) as [s|]; [eauto|].
  exfalso. apply Hs. reflexivity.
Qed.

Lemma live_legal_excepted w : live w -> legal (cur_label w) LExcepted = true.
Proof.
  intros (s & Hs & Ht). unfold cur_label. rewrite Hs. cbn.
  destruct s; cbn in *; (reflexivity || discriminate).
Qed.

Lemma live_label w w' : live w -> cur_label w' = cur_label w -> live w'.
Proof.
  intros (s & Hs & Ht) H. unfold cur_label in H. rewrite Hs in H. cbn in H.
  destruct (st w') as [s'|] eqn:E; [|discriminate]. cbn in H. injection H as H.
  exists s'. split; [exact E|]. unfold terminal in *. rewrite H. exact Ht.
Qed.

(* ------------------------------------------------------------------ tactics *)
(* close a goal [R w0 w'] / [LP w0 w w'] where w' is w with fields other than cfg / trace / label changed *)
Ltac r_frame :=
  match goal with
  | H : R ?w0 ?w |- R _ _ =>
      solve [ eapply (R_frame w0 w); [exact H | reflexivity | reflexivity | reflexivity | reflexivity | reflexivity] ]
  end.

Ltac r_emit :=
  match goal with
  | H : R ?w0 ?w |- R _ _ =>
      solve [ eapply (R_emit w0 w); [exact H | reflexivity | reflexivity | reflexivity | reflexivity | reflexivity | reflexivity] ]
  end.

(* ------------------------------------------------------------------ primitive operations *)
Lemma emit_spec w0 w e (Q : result unit -> world -> Prop) :
  R w0 w -> is_entered e = false ->
  (forall w', R w0 w' -> cur_label w' = cur_label w -> st w' = st w -> Q (Ok tt) w') ->
  wp (emit e) Q w.
Proof.
  intros HR He HQ. unfold emit. wp_prim. apply HQ; try reflexivity.
  eapply R_emit; eauto; reflexivity.
Qed.

Lemma schedule_spec w0 w r (Q : result unit -> world -> Prop) :
  R w0 w ->
  (forall w', R w0 w' -> cur_label w' = cur_label w -> st w' = st w -> Q (Ok tt) w') ->
  wp (schedule r) Q w.
Proof.
  intros HR HQ. unfold schedule. wp_prim. apply HQ; try reflexivity. r_frame.
Qed.

Lemma hook_spec w0 w name (Q : result unit -> world -> Prop) :
  R w0 w ->
  (forall w', R w0 w' -> st w' = st w -> Q (Ok tt) w') ->
  wp (hook name) Q w.
Proof.
  intros HR HQ. unfold hook. do 5 wp_prim.
  eapply emit_spec; [r_frame | reflexivity |].
  intros w' HR' Hl Hs. cbv beta iota.
  pose proof (R_nofault _ _ HR) as Hn. unfold nofault in Hn. rewrite Hn.
  wp_prim. apply HQ; [exact HR'|]. rewrite Hs. reflexivity.
Qed.

(* an operation that extends every world legally, whatever it returns *)
Definition keeps {A} (m : LM A) : Prop :=
  forall w0 w (Q : result A -> world -> Prop), R w0 w -> (forall r w', R w0 w' -> Q r w') -> wp m Q w.

Lemma keeps_run {A} (m : LM A) w0 w : keeps m -> R w0 w -> R w0 (snd (m w)).
Proof. intros Hk HR. apply (Hk w0 w (fun _ w' => R w0 w') HR). auto. Qed.

Lemma keeps_of_run {A} (m : LM A) : (forall w0 w, R w0 w -> R w0 (snd (m w))) -> keeps m.
Proof. intros H w0 w Q HR HQ. apply wp_of_run. apply HQ. apply H. exact HR. Qed.

Ltac use L := first [ eapply L | apply wp_bind_i; eapply L ].

Section Reentrant.
  Variable rec_ctl : ctl -> LM cret.
  Hypothesis Hrec : forall c, keeps (rec_ctl c).

  Lemma fire_spec name : keeps (fire rec_ctl name).
  Proof.
    intros w0 w Q HR HQ. unfold fire. do 4 wp_prim.
    use emit_spec; [r_frame | reflexivity |]. intros w1 HR1 _ _. cbv beta iota.
    eapply wp_mapM_inv with (I := R w0); [exact HR1 | | intros; apply HQ; assumption].
    intros ls s1 _ Hs1. wp_case.
    - wp_prim. wp_prim. eapply Hrec; [exact Hs1|]. intros r s2 Hs2. cbv beta iota.
      eapply emit_spec; [exact Hs2 | reflexivity |]. intros s3 Hs3 _ _. auto.
    - wp_prim. auto.
  Qed.

  (* never raises *)
  Lemma fire_ok name w0 w (Q : result unit -> world -> Prop) :
    R w0 w -> (forall w', R w0 w' -> Q (Ok tt) w') -> wp (fire rec_ctl name) Q w.
  Proof.
    intros HR HQ. unfold fire. do 4 wp_prim.
    use emit_spec; [r_frame | reflexivity |]. intros w1 HR1 _ _. cbv beta iota.
    eapply wp_mapM_inv with (I := R w0); [exact HR1 | | intros; apply HQ; assumption].
    intros ls s1 _ Hs1. wp_case.
    - wp_prim. wp_prim. eapply Hrec; [exact Hs1|]. intros r s2 Hs2. cbv beta iota.
      eapply emit_spec; [exact Hs2 | reflexivity |]. intros s3 Hs3 _ _. auto.
    - wp_prim. auto.
  Qed.

  Lemma pfut_set_spec f w0 w (Q : result unit -> world -> Prop) :
    R w0 w -> (forall r w', R w0 w' -> st w' = st w -> Q r w') -> wp (pfut_set f) Q w.
  Proof.
    intros HR HQ. unfold pfut_set. do 2 wp_prim. wp_case.
    - wp_prim. apply HQ; auto.
    - do 2 wp_prim. wp_case.
      + eapply schedule_spec; [r_frame|]. intros w' HR' _ Hs. apply HQ; auto.
      + apply HQ; [r_frame | reflexivity].
  Qed.

  Lemma on_close_spec w0 w (Q : result unit -> world -> Prop) :
    R w0 w -> (forall w', R w0 w' -> st w' = st w -> Q (Ok tt) w') -> wp on_close Q w.
  Proof.
    intros HR HQ. unfold on_close. use hook_spec; [exact HR|]. intros w1 HR1 Hs1. cbv beta iota.
    wp_prim. do 3 wp_prim.
    eapply wp_mapM_inv with (I := fun s => R w0 s /\ st s = st w).
    - split; [exact HR1 | exact Hs1].
    - intros c s1 _ [Hs1a Hs1b]. eapply emit_spec; [exact Hs1a | reflexivity |].
      intros s2 Hs2 _ Hst. split; [reflexivity|]. split; [exact Hs2 | congruence].
    - intros s' [Hs'a Hs'b]. cbv beta iota. do 2 wp_prim. apply HQ; [r_frame | exact Hs'b].
  Qed.

  Lemma close_spec w0 w (Q : result unit -> world -> Prop) :
    R w0 w -> (forall w', R w0 w' -> st w' = st w -> Q (Ok tt) w') -> wp close Q w.
  Proof.
    intros HR HQ. unfold close. do 2 wp_prim. wp_case.
    - wp_prim. apply HQ; auto.
    - eapply on_close_spec; eauto.
  Qed.
End Reentrant.

Section Transition.
  Variable rec_ctl : ctl -> LM cret.
  Hypothesis Hrec : forall c, keeps (rec_ctl c).

  (* on_entering never changes the state; it may raise (the process future may be done already) *)
  Lemma on_entering_spec ns w0 w (Q : result (option pstate) -> world -> Prop) :
    R w0 w -> (forall r w', R w0 w' -> st w' = st w -> Q r w') -> wp (on_entering ns) Q w.
  Proof.
    intros HR HQ. unfold on_entering. destruct ns.
    - use hook_spec; [exact HR|]. intros w1 H1 S1. cbv beta iota. wp_prim. apply HQ; auto.
    - use hook_spec; [exact HR|]. intros w1 H1 S1. cbv beta iota. wp_prim. apply HQ; auto.
    - use hook_spec; [exact HR|]. intros w1 H1 S1. cbv beta iota. wp_prim. apply HQ; auto.
    - use hook_spec; [exact HR|]. intros w1 H1 S1. cbv beta iota. do 2 wp_prim. wp_case.
      + wp_prim. apply HQ; auto.
      + use pfut_set_spec; [exact H1|]. intros r w2 H2 S2. destruct r; cbv beta iota.
        * wp_prim. apply HQ; [exact H2 | congruence].
        * apply HQ; [exact H2 | congruence].
    - use hook_spec; [exact HR|]. intros w1 H1 S1. cbv beta iota. do 3 wp_prim. wp_case.
      + repeat wp_prim. apply HQ; [r_frame | exact S1].
      + use pfut_set_spec; [exact H1|]. intros r w2 H2 S2. destruct r; cbv beta iota.
        * wp_prim. apply HQ; [exact H2 | congruence].
        * apply HQ; [exact H2 | congruence].
    - use hook_spec; [exact HR|]. intros w1 H1 S1. cbv beta iota. do 5 wp_prim.
      match goal with |- wp _ _ ?w' => assert (H1' : R w0 w') by r_frame end.
      assert (Hps : wp (pfut_set (PfExn (EKilled match msg with Some (Some t) => t | _ => ""%string end)))
                (fun r s' => match r with Ok _ => wp (ret None) Q s' | Err e => Q (Err e) s' end)
                (w1 <| status := Some match msg with Some (Some t) => t | _ => ""%string end |>)).
      { eapply pfut_set_spec; [exact H1'|]. intros r w2 H2 S2. destruct r; cbv beta iota.
        + wp_prim. apply HQ; [exact H2 | ]. rewrite S2. exact S1.
        + apply HQ; [exact H2 | ]. rewrite S2. exact S1. }
      wp_case; try exact Hps.
      do 2 wp_prim. apply HQ; [r_frame | exact S1].
  Qed.

  (* on_entered never raises (no hook fault; listeners' exceptions are swallowed by fire_event) *)
  Lemma on_entered_spec x w0 w (Q : result unit -> world -> Prop) :
    R w0 w -> (forall w', R w0 w' -> Q (Ok tt) w') -> wp (on_entered rec_ctl x) Q w.
  Proof.
    intros HR HQ. unfold on_entered. do 2 wp_prim. wp_case; [wp_case|]; try (wp_prim; apply HQ; exact HR).
    - use hook_spec; [exact HR|]. intros w1 H1 _. cbv beta iota. eapply fire_ok; eauto.
    - use hook_spec; [exact HR|]. intros w1 H1 _. cbv beta iota. eapply fire_ok; eauto.
    - use hook_spec; [exact HR|]. intros w1 H1 _. cbv beta iota. eapply fire_ok; eauto.
    - use hook_spec; [exact HR|]. intros w1 H1 _. cbv beta iota. eapply fire_ok; eauto.
    - use hook_spec; [exact HR|]. intros w1 H1 _. cbv beta iota. do 2 wp_prim.
      eapply fire_ok; [exact Hrec | r_frame | exact HQ].
  Qed.

  Lemma cur_label_st w w' : st w' = st w -> cur_label w' = cur_label w.
  Proof. unfold cur_label. intros ->. reflexivity. Qed.

  (* _exit_current_state: if it returns, the target may be entered from the current state *)
  Lemma exit_current_spec ns w0 w (Q : result unit -> world -> Prop) :
    R w0 w ->
    (forall r w', R w0 w' -> cur_label w' = cur_label w ->
                  (r = Ok tt -> legal (cur_label w) (label_of ns) = true) -> Q r w') ->
    wp (exit_current ns) Q w.
  Proof.
    intros HR HQ. unfold exit_current. do 2 wp_prim. destruct (st w) as [cur|] eqn:Hst.
    2:{ wp_case; wp_prim; apply HQ; auto; try discriminate.
        intros _. unfold cur_label. rewrite Hst. cbn. assumption. }
    wp_case; [wp_prim; apply HQ; auto; discriminate|].
    assert (Hleg : legal (cur_label w) (label_of ns) = true).
    { unfold cur_label. rewrite Hst. cbn. apply negb_false_iff. assumption. }
    wp_prim.
    assert (Hk : forall w1, R w0 w1 -> st w1 = st w ->
      wp (if terminal (label_of cur) then raise EInvalidState
          else match cur with
               | SWaiting fn msg data wid WfPending =>
                   bind (modify (fun w => w <| st := Some (SWaiting fn msg data wid (WfDone WkNull)) |>))
                     (fun _ => bind get (fun w' =>
                        match t0 w' with
                        | PcAwaitWaiting wid' => when (Nat.eqb wid wid') (schedule (RWakeT0 WkNull))
                        | _ => ret tt
                        end))
               | _ => ret tt
               end) Q w1).
    { intros w1 H1 S1. pose proof (cur_label_st _ _ S1) as L1.
      wp_case; [wp_prim; apply HQ; auto; discriminate|].
      assert (Hdone : Q (Ok tt) w1) by (apply HQ; auto).
      destruct cur; try (wp_prim; exact Hdone). destruct wf; [|wp_prim; exact Hdone].
      do 4 wp_prim.
      assert (H2 : R w0 (w1 <| st := Some (SWaiting fn msg data wid (WfDone WkNull)) |>)).
      { eapply R_frame; [exact H1 | reflexivity | reflexivity | | reflexivity | reflexivity].
        unfold cur_label. rewrite S1, Hst. reflexivity. }
      assert (L2 : cur_label (w1 <| st := Some (SWaiting fn msg data wid (WfDone WkNull)) |>) = cur_label w).
      { unfold cur_label. rewrite Hst. reflexivity. }
      wp_case; try (wp_prim; apply HQ; auto).
      wp_case; [|apply HQ; auto].
      eapply schedule_spec; [exact H2|]. intros w3 H3 L3 _. apply HQ; auto. etransitivity; [exact L3 | exact L2]. }
    wp_case.
    - destruct cur; try (wp_prim; apply Hk; auto).
      + use hook_spec; [exact HR|]. intros w1 H1 S1. cbv beta iota. apply Hk; auto.
      + use hook_spec; [exact HR|]. intros w1 H1 S1. cbv beta iota. apply Hk; auto.
    - apply Hk; auto.
  Qed.

  (* _enter_next_state from a world in which the target may legally be entered.
     Ok None: entered; Ok (Some s'): re-routed (StateEntryFailed), nothing entered; Err: nothing entered *)
  Lemma enter_next_spec ns w0 w (Q : result (option pstate) -> world -> Prop) :
    R w0 w -> legal (cur_label w) (label_of ns) = true ->
    (forall r w', R w0 w' -> (match r with Ok None => True | _ => cur_label w' = cur_label w end) -> Q r w') ->
    wp (enter_next rec_ctl ns) Q w.
  Proof.
    intros HR Hleg HQ. unfold enter_next. do 3 wp_prim.
    assert (Hk : forall r w1, R w0 w1 -> st w1 = st w ->
      wp (match r with
          | Some s' => ret (Some s')
          | None =>
              bind get (fun w1 => bind (put (w1 <| st := Some ns |> <| wintr := None |> <| wrecalled := [] |>)) (fun _ =>
              bind (emit (EvEntered (cur_label w) (label_of ns))) (fun _ =>
              bind get (fun w2 => bind (when (hooks_alive w2) (on_entered rec_ctl w)) (fun _ => ret None)))))
          end) Q w1).
    { intros r w1 H1 S1. pose proof (cur_label_st _ _ S1) as L1. destruct r as [s'|].
      - wp_prim. apply HQ; auto.
      - unfold emit. do 8 wp_prim.
        match goal with |- wp _ _ ?w' => assert (H2 : R w0 w') end.
        { eapply (R_enter w0 w1); [exact H1 | rewrite L1; exact Hleg | reflexivity | | reflexivity | reflexivity | reflexivity].
          cbn. rewrite L1. reflexivity. }
        wp_prim. wp_case.
        + eapply on_entered_spec; [exact H2|]. intros w3 H3. cbv beta iota. wp_prim. apply HQ; auto.
        + wp_prim. apply HQ; auto. }
    wp_case.
    - eapply on_entering_spec; [exact HR|]. intros r w1 H1 S1. destruct r as [r|e]; cbv beta iota.
      + apply Hk; auto.
      + apply HQ; auto. apply cur_label_st; exact S1.
    - wp_prim. apply (Hk None); auto.
  Qed.

  Lemma on_terminated_spec w0 w (Q : result unit -> world -> Prop) :
    R w0 w -> (forall w', R w0 w' -> st w' = st w -> Q (Ok tt) w') -> wp on_terminated Q w.
  Proof.
    intros HR HQ. unfold on_terminated. use hook_spec; [exact HR|]. intros w1 H1 S1. cbv beta iota.
    do 3 wp_prim.
    assert (Hk : forall w2, R w0 w2 -> st w2 = st w -> wp close Q w2).
    { intros w2 H2 S2. eapply close_spec; [exact H2|]. intros w3 H3 S3. apply HQ; auto. congruence. }
    wp_case; [wp_case|]; try (wp_prim; apply Hk; auto).
    wp_case; [|apply Hk; auto].
    eapply schedule_spec; [exact H1|]. intros w2 H2 _ S2. cbv beta iota. apply Hk; auto. congruence.
  Qed.

  Lemma R_R0 w0 w : R w0 w -> R0 w0 w.
  Proof. intros [H _]. exact H. Qed.

  (* the body of transition_to.  When the exit check is bypassed (a failed transition is being routed to
     EXCEPTED) the target must be enterable from the current state.  If the body raises, no state has
     been entered. *)
  Lemma transition_body_spec ns w0 w (Q : result unit -> world -> Prop) :
    R0 w0 w ->
    (transition_failing w = true -> legal (cur_label w) (label_of ns) = true) ->
    (forall r w', R w0 w' -> (forall e, r = Err e -> cur_label w' = cur_label w) -> Q r w') ->
    wp (transition_body rec_ctl ns) Q w.
  Proof.
    intros HR Hf HQ. unfold transition_body. do 4 wp_prim.
    set (w1 := w <| transitioning := true |>).
    assert (H1 : R w0 w1).
    { eapply R_flags; [exact HR | reflexivity | reflexivity | reflexivity |]. intro H. discriminate. }
    assert (L1 : cur_label w1 = cur_label w) by reflexivity.
    (* the tail after a successful entry *)
    assert (Htail : forall w2, R w0 w2 ->
      wp (bind get (fun w' => when (is_terminated w') on_terminated)) Q w2).
    { intros w2 H2. do 2 wp_prim. wp_case.
      - eapply on_terminated_spec; [exact H2|]. intros w3 H3 _. apply HQ; auto. discriminate.
      - apply HQ; auto. discriminate. }
    (* from the point where the target is known to be enterable *)
    assert (Hent : forall w2, R w0 w2 -> cur_label w2 = cur_label w ->
      legal (cur_label w) (label_of ns) = true ->
      wp (bind (enter_next rec_ctl ns) (fun r =>
            bind (match r with
                  | Some s' => bind (exit_current s') (fun _ => bind (enter_next rec_ctl s') (fun _ => ret tt))
                  | None => ret tt
                  end) (fun _ => bind get (fun w' => when (is_terminated w') on_terminated)))) Q w2).
    { intros w2 H2 L2 Hleg. use enter_next_spec; [exact H2 | rewrite L2; exact Hleg |].
      intros r w3 H3 L3. destruct r as [[s'|]|e]; cbv beta iota.
      - (* re-routed *)
        wp_prim. use exit_current_spec; [exact H3|]. intros r4 w4 H4 L4 Hl4. destruct r4 as [[]|e4]; cbv beta iota.
        + use enter_next_spec; [exact H4 | rewrite L4; apply Hl4; reflexivity |].
          intros r5 w5 H5 L5. destruct r5 as [r5|e5]; cbv beta iota.
          * wp_prim. cbv beta iota. apply Htail; exact H5.
          * apply HQ; auto. intros _ _. congruence.
        + apply HQ; auto. intros _ _. congruence.
      - wp_prim. wp_prim. cbv beta iota. apply Htail; exact H3.
      - apply HQ; auto. intros _ _. congruence. }
    wp_prim. wp_case.
    - (* the exit check runs *)
      eapply exit_current_spec; [exact H1|]. intros r w2 H2 L2 Hl2. destruct r as [[]|e]; cbv beta iota.
      + apply Hent; auto; congruence.
      + apply HQ; auto; intros _ _; congruence.
    - cbv beta iota. apply Hent; auto. apply Hf. apply negb_false_iff. assumption.
  Qed.

  (* the follow-up transition of a failed transition (exit check bypassed) *)
  Lemma reset_flags_spec w0 w2 (Q : result unit -> world -> Prop) (r' : result unit) :
    R0 w0 w2 -> (forall r w', R w0 w' -> Q r w') ->
    wp (modify (fun w => w <| transition_failing := false |> <| transitioning := false |>))
       (fun r2 s'' => match r2 with Ok _ => Q r' s'' | Err e => Q (Err e) s'' end) w2.
  Proof.
    intros H2 HQ. wp_prim. apply HQ.
    eapply R_flags; [exact H2 | reflexivity | reflexivity | reflexivity |]. intros _. reflexivity.
  Qed.

  Lemma transition_to_failing_spec ns w0 w (Q : result unit -> world -> Prop) :
    R0 w0 w -> transitioning w = false -> legal (cur_label w) (label_of ns) = true ->
    (forall r w', R w0 w' -> Q r w') ->
    wp (transition_to_failing rec_ctl ns) Q w.
  Proof.
    intros HR Ht Hleg HQ. unfold transition_to_failing. do 2 wp_prim. rewrite Ht. cbv iota.
    do 2 wp_prim. eapply transition_body_spec; [exact HR | intros _; exact Hleg |].
    intros r w1 H1 _.
    destruct r as [[]|e]; cbv beta iota.
    - eapply reset_flags_spec; [apply R_R0; exact H1 | exact HQ].
    - do 3 wp_prim. eapply reset_flags_spec; [|exact HQ].
      eapply R0_frame; [apply R_R0; exact H1 | reflexivity | reflexivity | reflexivity].
  Qed.

  (* StateMachine.transition_to + Process.transition_failed, from a live process (or the very first
     transition, to CREATED) *)
  Lemma transition_to_spec ns w0 w (Q : result unit -> world -> Prop) :
    R w0 w ->
    (match ns with
     | None => True
     | Some s => live w \/ (st w = None /\ label_of s = LCreated)
     end) ->
    (forall r w', R w0 w' -> Q r w') ->
    wp (transition_to rec_ctl ns) Q w.
  Proof.
    intros HR Hpre HQ. unfold transition_to. do 2 wp_prim. wp_case; [wp_prim; apply HQ; exact HR|].
    destruct ns as [ns|]; [|wp_prim; apply HQ; exact HR].
    pose proof HR as [HR0 F]. pose proof (F Heqb) as Hnf.
    do 2 wp_prim. eapply transition_body_spec; [exact HR0 | rewrite Hnf; discriminate |].
    intros r w1 H1 L1. destruct r as [[]|e]; cbv beta iota.
    - eapply reset_flags_spec; [apply R_R0; exact H1 | exact HQ].
    - do 4 wp_prim.
      set (w2 := w1 <| transitioning := false |>).
      assert (H2 : R0 w0 w2).
      { eapply R0_frame; [apply R_R0; exact H1 | reflexivity | reflexivity | reflexivity]. }
      wp_case; [wp_prim; eapply reset_flags_spec; [exact H2 | exact HQ]|].
      do 2 wp_prim.
      set (w3 := w2 <| transition_failing := true |>).
      assert (H3 : R0 w0 w3).
      { eapply R0_frame; [exact H2 | reflexivity | reflexivity | reflexivity]. }
      wp_case; [wp_prim; eapply reset_flags_spec; [exact H3 | exact HQ]|].
      eapply transition_to_failing_spec; [exact H3 | reflexivity | |].
      + (* EXCEPTED may be entered: the process was live and the failed body entered nothing *)
        assert (L3 : cur_label w3 = cur_label w) by (apply (L1 e); reflexivity).
        rewrite L3. destruct Hpre as [Hl | [Hn Hc]].
        * apply live_legal_excepted; exact Hl.
        * rewrite Hc in Heqb1. discriminate.
      + intros r w4 H4. eapply reset_flags_spec; [apply R_R0; exact H4 | exact HQ].
  Qed.
End Transition.

(* ------------------------------------------------------------------ bookkeeping operations: they touch
   neither the configuration, the state, the trace nor the transition flags *)
Definition frameop {A} (m : LM A) : Prop :=
  forall w0 w (Q : result A -> world -> Prop),
    R w0 w -> (forall r w', R w0 w' -> st w' = st w -> Q r w') -> wp m Q w.

Lemma set_act_fut_frame id f : frameop (set_act_fut id f).
Proof. intros w0 w Q HR HQ. unfold set_act_fut. wp_prim. apply HQ; [r_frame | reflexivity]. Qed.

Lemma cancel_act_frame id : frameop (cancel_act id).
Proof.
  intros w0 w Q HR HQ. unfold cancel_act. do 2 wp_prim. wp_case; [wp_case|]; try (wp_prim; apply HQ; auto).
  eapply set_act_fut_frame; eauto.
Qed.

Lemma set_interrupt_action_frame new : frameop (set_interrupt_action new).
Proof.
  intros w0 w Q HR HQ. unfold set_interrupt_action. do 3 wp_prim. wp_case.
  - use cancel_act_frame; [exact HR|]. intros r w1 H1 S1. destruct r; cbv beta iota.
    + do 2 wp_prim. apply HQ; [r_frame | exact S1].
    + apply HQ; auto.
  - do 2 wp_prim. apply HQ; [r_frame | reflexivity].
Qed.

Lemma set_interrupt_action_from_frame k c : frameop (set_interrupt_action_from k c).
Proof.
  intros w0 w Q HR HQ. unfold set_interrupt_action_from. do 5 wp_prim.
  eapply set_interrupt_action_frame; [r_frame|]. intros r w1 H1 S1. destruct r; cbv beta iota.
  - wp_prim. apply HQ; [exact H1 | exact S1].
  - apply HQ; [exact H1 | exact S1].
Qed.

Lemma fresh_frame : frameop fresh.
Proof. intros w0 w Q HR HQ. unfold fresh. do 5 wp_prim. apply HQ; [r_frame | reflexivity]. Qed.

Lemma set_t0_frame p : frameop (set_t0 p).
Proof. intros w0 w Q HR HQ. unfold set_t0. wp_prim. apply HQ; [r_frame | reflexivity]. Qed.

Lemma R_st_label w0 w w' :
  R w0 w -> cfg w' = cfg w -> trace w' = trace w -> transitioning w' = transitioning w ->
  transition_failing w' = transition_failing w ->
  (exists s s', st w = Some s /\ st w' = Some s' /\ label_of s' = label_of s) -> R w0 w'.
Proof.
  intros HR Hc Ht H1 H2 (s & s' & Hs & Hs' & Hl).
  eapply R_frame; eauto. unfold cur_label. rewrite Hs, Hs'. cbn. rewrite Hl. reflexivity.
Qed.

Section Control.
  Variable rec_ctl : ctl -> LM cret.
  Hypothesis Hrec : forall c, keeps (rec_ctl c).

  (* State.interrupt: a waiting state's future gets the interruption; the label does not change *)
  Lemma state_interrupt_spec iid w0 w (Q : result unit -> world -> Prop) :
    R w0 w -> (forall r w', R w0 w' -> cur_label w' = cur_label w -> Q r w') -> wp (state_interrupt iid) Q w.
  Proof.
    intros HR HQ. unfold state_interrupt. do 2 wp_prim.
    destruct (st w) as [cur|] eqn:Hst; [|wp_prim; apply HQ; auto].
    destruct cur; try (wp_prim; apply HQ; auto). destruct wf; [|wp_prim; apply HQ; auto].
    do 2 wp_prim.
    match goal with |- wp _ _ ?w' => assert (H1 : R w0 w'); [|assert (L1 : cur_label w' = cur_label w)] end.
    { eapply R_st_label; [exact HR | reflexivity | reflexivity | reflexivity | reflexivity |].
      do 2 eexists. split; [exact Hst|]. split; reflexivity. }
    { unfold cur_label. rewrite Hst. reflexivity. }
    wp_case; try (wp_prim; apply HQ; auto). wp_case; [|apply HQ; auto].
    eapply schedule_spec; [exact H1|]. intros w2 H2 L2 _. apply HQ; auto. etransitivity; [exact L2 | exact L1].
  Qed.

  Lemma state_recall_spec iid w0 w (Q : result unit -> world -> Prop) :
    R w0 w -> (forall r w', R w0 w' -> Q r w') -> wp (state_recall iid) Q w.
  Proof.
    intros HR HQ. unfold state_recall. do 2 wp_prim. wp_case; [|wp_prim; apply HQ; exact HR].
    wp_case; [|wp_prim; apply HQ; exact HR]. do 2 wp_prim.
    match goal with |- wp _ _ ?w' => assert (H1 : R w0 w') by r_frame end.
    destruct (st w) as [cur|] eqn:Hst; [|wp_prim; apply HQ; exact H1].
    destruct cur; try (wp_prim; apply HQ; exact H1). destruct wf as [|wk0]; [wp_prim; apply HQ; exact H1|].
    destruct wk0; try (wp_prim; apply HQ; exact H1).
    wp_case; [|wp_prim; apply HQ; exact H1].
    use fresh_frame; [exact H1|]. intros r w2 H2 S2. destruct r as [wid'|e]; cbv beta iota; [|apply HQ; exact H2].
    wp_prim. apply HQ.
    eapply R_st_label; [exact H2 | reflexivity | reflexivity | reflexivity | reflexivity |].
    do 2 eexists. split; [rewrite S2; exact Hst|]. split; reflexivity.
  Qed.

  Lemma do_pause_spec msg next w0 w (Q : result bool -> world -> Prop) :
    R w0 w -> (next = None \/ live w) -> (forall r w', R w0 w' -> Q r w') -> wp (do_pause rec_ctl msg next) Q w.
  Proof.
    intros HR Hpre HQ. unfold do_pause. wp_prim.
    assert (Hfin : forall (r : result bool) w1, R w0 w1 ->
      wp (modify (fun w => w <| pausing := None |>))
         (fun r2 s'' => match r2 with Ok _ => Q r s'' | Err e => Q (Err e) s'' end) w1).
    { intros r w1 H1. wp_prim. apply HQ. r_frame. }
    assert (Hrest : forall w1, R w0 w1 ->
      wp (bind (hook "on_pausing") (fun _ => bind (hook "on_paused") (fun _ => bind fresh (fun fid =>
          bind (modify (fun w => w <| pausing := None |> <| paused := Some fid |> <| pre_paused_status := status w |>)) (fun _ =>
          bind (match msg with Some m => modify (fun w => w <| status := Some m |>) | None => ret tt end) (fun _ =>
          bind (fire rec_ctl "on_process_paused") (fun _ => ret true)))))))
         (fun r s' => wp (modify (fun w => w <| pausing := None |>))
            (fun r2 s'' => match r2 with Ok _ => Q r s'' | Err e => Q (Err e) s'' end) s') w1).
    { intros w1 H1. use hook_spec; [exact H1|]. intros w2 H2 _. cbv beta iota.
      use hook_spec; [exact H2|]. intros w3 H3 _. cbv beta iota.
      use fresh_frame; [exact H3|]. intros r w4 H4 _. destruct r as [fid|e]; cbv beta iota; [|apply Hfin; exact H4].
      do 3 wp_prim.
      match goal with |- wp _ _ ?w' => assert (H5 : R w0 w') by r_frame end.
      assert (H6 : forall w6, R w0 w6 ->
         wp (bind (fire rec_ctl "on_process_paused") (fun _ => ret true))
            (fun r s' => wp (modify (fun w => w <| pausing := None |>))
              (fun r2 s'' => match r2 with Ok _ => Q r s'' | Err e => Q (Err e) s'' end) s') w6).
      { intros w6 H6. wp_prim. eapply fire_ok; [exact Hrec | exact H6|]. intros w7 H7. cbv beta iota. wp_prim.
        apply Hfin; exact H7. }
      destruct msg; wp_prim; apply H6; [r_frame | exact H5]. }
    destruct next as [ns|].
    - wp_prim. eapply transition_to_spec; [exact Hrec | exact HR | | ].
      + destruct Hpre as [Hn|Hl]; [discriminate | left; exact Hl].
      + intros r w1 H1. destruct r; cbv beta iota; [apply Hrest; exact H1 | apply Hfin; exact H1].
    - do 2 wp_prim. apply Hrest; exact HR.
  Qed.

  Lemma R_live w0 w : R w0 w -> is_terminated w = false -> live w.
  Proof. intros HR Ht. apply live_not_terminated; [exact Ht | eapply R_started; exact HR]. Qed.

  Lemma pause_spec msg : keeps (pause rec_ctl msg).
  Proof.
    intros w0 w Q HR HQ. unfold pause. do 2 wp_prim. wp_case; [wp_prim; apply HQ; exact HR|].
    wp_case; [wp_prim; apply HQ; exact HR|]. wp_case; [wp_prim; apply HQ; exact HR|].
    wp_case; [wp_prim; apply HQ; exact HR|]. wp_case.
    - use fresh_frame; [exact HR|]. intros r w1 H1 _. destruct r as [iid|e]; cbv beta iota; [|apply HQ; exact H1].
      use set_interrupt_action_from_frame; [exact H1|]. intros r w2 H2 _. destruct r as [a|e]; cbv beta iota; [|apply HQ; exact H2].
      do 2 wp_prim. use state_interrupt_spec; [r_frame|]. intros r w3 H3 _. destruct r; cbv beta iota.
      + wp_prim. apply HQ; exact H3.
      + apply HQ; exact H3.
    - use do_pause_spec; [exact HR | left; reflexivity |]. intros r w1 H1. destruct r; cbv beta iota.
      + wp_prim. apply HQ; exact H1.
      + apply HQ; exact H1.
  Qed.

  Lemma play_spec : keeps (play rec_ctl).
  Proof.
    intros w0 w Q HR HQ. unfold play. do 2 wp_prim. wp_case.
    - use hook_spec; [exact HR|]. intros w1 H1 _. cbv beta iota. wp_prim.
      assert (Hk : forall w2, R w0 w2 ->
        wp (bind (modify (fun w => w <| paused := None |> <| status := pre_paused_status w |> <| pre_paused_status := None |>))
              (fun _ => bind (fire rec_ctl "on_process_played") (fun _ => ret (CrBool true)))) Q w2).
      { intros w2 H2. do 2 wp_prim. use fire_ok; [exact Hrec | r_frame |]. intros w3 H3. cbv beta iota.
        wp_prim. apply HQ; exact H3. }
      wp_case; try (wp_prim; apply Hk; exact H1). wp_case; [|apply Hk; exact H1].
      eapply schedule_spec; [exact H1|]. intros w2 H2 _ _. cbv beta iota. apply Hk; exact H2.
    - wp_prim. wp_case.
      + assert (Hk : forall w1, R w0 w1 ->
          wp (bind (cancel_act n) (fun _ => bind (modify (fun w => w <| pausing := None |>)) (fun _ => set_interrupt_action None)))
             (fun r s' => match r with Ok _ => wp (ret (CrBool true)) Q s' | Err e => Q (Err e) s' end) w1).
        { intros w1 H1. use cancel_act_frame; [exact H1|]. intros r w2 H2 _. destruct r; cbv beta iota.
          * do 2 wp_prim. eapply set_interrupt_action_frame; [r_frame|]. intros r w3 H3 _. destruct r; cbv beta iota.
            -- wp_prim. apply HQ; exact H3.
            -- apply HQ; exact H3.
          * apply HQ; exact H2. }
        wp_prim. wp_case.
        * eapply state_recall_spec; [exact HR|]. intros r w1 H1. destruct r; cbv beta iota; [apply Hk; exact H1 | apply HQ; exact H1].
        * wp_prim. apply Hk; exact HR.
      + do 2 wp_prim. apply HQ; exact HR.
  Qed.

  Lemma kill_spec msg : keeps (kill rec_ctl msg).
  Proof.
    intros w0 w Q HR HQ. unfold kill. do 2 wp_prim.
    assert (Hk : wp (if is_terminated w then ret (CrBool false)
                     else match killing w with
                          | Some a => ret (CrAction a)
                          | None =>
                              if stepping w
                              then bind fresh (fun iid => bind (set_interrupt_action_from (KKill msg) iid) (fun a =>
                                   bind (modify (fun w => w <| killing := Some a |>)) (fun _ =>
                                   bind (state_interrupt iid) (fun _ => ret (CrAction a)))))
                              else bind (transition_to rec_ctl (Some (SKilled (Some msg)))) (fun _ => ret (CrBool true))
                          end) Q w).
    { wp_case; [wp_prim; apply HQ; exact HR|]. wp_case; [wp_prim; apply HQ; exact HR|]. wp_case.
      - use fresh_frame; [exact HR|]. intros r w1 H1 _. destruct r as [iid|e]; cbv beta iota; [|apply HQ; exact H1].
        use set_interrupt_action_from_frame; [exact H1|]. intros r w2 H2 _. destruct r as [a|e]; cbv beta iota; [|apply HQ; exact H2].
        do 2 wp_prim. use state_interrupt_spec; [r_frame|]. intros r w3 H3 _. destruct r; cbv beta iota.
        + wp_prim. apply HQ; exact H3.
        + apply HQ; exact H3.
      - use transition_to_spec; [exact Hrec | exact HR | left; eapply R_live; eassumption |].
        intros r w1 H1. destruct r; cbv beta iota; [wp_prim|]; apply HQ; exact H1. }
    destruct (st w) as [[]|]; try exact Hk. wp_prim. apply HQ; exact HR.
  Qed.

  Lemma resume_spec v : keeps (resume v).
  Proof.
    intros w0 w Q HR HQ. unfold resume. do 2 wp_prim.
    destruct (st w) as [cur|] eqn:Hst; [|wp_prim; apply HQ; exact HR].
    destruct cur; try (wp_prim; apply HQ; exact HR). cbv zeta. destruct wf as [|wk0].
    - do 2 wp_prim.
      match goal with |- wp _ _ ?w' => assert (H1 : R w0 w') end.
      { eapply R_st_label; [exact HR | reflexivity | reflexivity | reflexivity | reflexivity |].
        do 2 eexists. split; [exact Hst|]. split; reflexivity. }
      wp_prim.
      wp_case; try (wp_prim; cbv beta iota; wp_prim; apply HQ; exact H1).
      wp_case.
      + eapply schedule_spec; [exact H1|]. intros w2 H2 _ _. cbv beta iota. wp_prim. apply HQ; exact H2.
      + cbv beta iota. wp_prim. apply HQ; exact H1.
    - destruct wk0; try (wp_prim; apply HQ; exact HR).
      use fresh_frame; [exact HR|]. intros r w1 H1 S1. destruct r as [wid'|e]; cbv beta iota; [|apply HQ; exact H1].
      do 3 wp_prim. apply HQ.
      eapply R_st_label; [exact H1 | reflexivity | reflexivity | reflexivity | reflexivity |].
      do 2 eexists. split; [rewrite S1; exact Hst|]. split; reflexivity.
  Qed.

  Lemma fail_spec e : keeps (fail rec_ctl e).
  Proof.
    intros w0 w Q HR HQ. unfold fail. do 2 wp_prim. wp_case; [wp_prim; apply HQ; exact HR|].
    use transition_to_spec; [exact Hrec | exact HR | left; eapply R_live; eassumption |].
    intros r w1 H1. destruct r; cbv beta iota; [|apply HQ; exact H1].
    do 2 wp_prim. wp_case; [wp_case|]; wp_prim; apply HQ; exact H1.
  Qed.

  Lemma ctl_body_spec c : keeps (ctl_body rec_ctl c).
  Proof.
    destruct c; cbn [ctl_body].
    - apply pause_spec.
    - apply play_spec.
    - apply kill_spec.
    - apply resume_spec.
    - apply fail_spec.
    - intros w0 w Q HR HQ. wp_prim. apply HQ; exact HR.
  Qed.
End Control.

Lemma do_ctl_spec fuel c : keeps (do_ctl fuel c).
Proof.
  revert c. induction fuel as [|f IH]; intro c; cbn [do_ctl].
  - intros w0 w Q HR HQ. wp_prim. apply HQ; exact HR.
  - apply ctl_body_spec. exact IH.
Qed.

Lemma ctl_call_spec c : keeps (ctl_call c).
Proof. apply do_ctl_spec. Qed.

Lemma ctl_observed_spec c : keeps (ctl_observed c).
Proof.
  intros w0 w Q HR HQ. unfold ctl_observed. do 2 wp_prim.
  eapply ctl_call_spec; [exact HR|]. intros r w1 H1. cbv beta iota. wp_prim. apply HQ; exact H1.
Qed.

Lemma transition_spec ns w0 w (Q : result unit -> world -> Prop) :
  R w0 w -> (match ns with None => True | Some _ => live w end) -> (forall r w', R w0 w' -> Q r w') ->
  wp (transition ns) Q w.
Proof.
  intros HR Hpre HQ. unfold transition. eapply transition_to_spec; [apply do_ctl_spec | exact HR | | exact HQ].
  destruct ns; [left; exact Hpre | exact I].
Qed.

(* ------------------------------------------------------------------ the stepping coroutine *)
Lemma do_pause_deferred_spec msg next w0 w (Q : result bool -> world -> Prop) :
  R w0 w -> live w -> (forall r w', R w0 w' -> Q r w') -> wp (do_pause_deferred msg next) Q w.
Proof.
  intros HR Hpre HQ. unfold do_pause_deferred. do 2 wp_prim.
  assert (Hold : wp (do_pause (do_ctl reent_fuel) msg next) Q w).
  { eapply do_pause_spec; [apply do_ctl_spec | exact HR | right; exact Hpre | exact HQ]. }
  destruct next as [ns|]; [|exact Hold]. destruct (pausing w) as [a'|]; [|exact Hold].
  wp_prim. wp_prim. apply (transition_spec (Some ns) w0); [exact HR | exact Hpre|]. intros r1 w1 H1. destruct r1; cbv beta iota.
  - do 2 wp_prim.
    match goal with |- wp (if ?c then _ else _) _ _ => destruct c end.
    + eapply do_pause_spec; [apply do_ctl_spec | exact H1 | left; reflexivity|]. intros r w2 H2. wp_prim. destruct r; apply HQ; r_frame.
    + do 2 wp_prim. apply HQ. r_frame.
  - wp_prim. apply HQ. r_frame.
Qed.

Lemma run_action_spec id next w0 w (Q : result unit -> world -> Prop) :
  R w0 w -> live w -> (forall r w', R w0 w' -> Q r w') -> wp (run_action id next) Q w.
Proof.
  intros HR Hpre HQ. unfold run_action. do 2 wp_prim. wp_case; [|wp_prim; apply HQ; exact HR].
  wp_case; try (wp_prim; apply HQ; exact HR). do 2 wp_prim.
  assert (Hk : forall (r : result bool) w1, R w0 w1 ->
     wp (bind get (fun w' =>
           match get_act w' id with
           | Some a' => match a_fut a' with
                        | AfPending => set_act_fut id (match r with Ok b => AfVal b | Err e => AfExn e end)
                        | _ => ret tt
                        end
           | None => raise EIndex
           end)) Q w1).
  { intros r w1 H1. do 2 wp_prim. wp_case; [|wp_prim; apply HQ; exact H1].
    wp_case; try (wp_prim; apply HQ; exact H1).
    eapply set_act_fut_frame; [exact H1|]. intros r2 w2 H2 _. apply HQ; exact H2. }
  wp_case.
  - eapply do_pause_deferred_spec; [exact HR | exact Hpre |]. intros r w1 H1. cbv beta iota. apply Hk; exact H1.
  - wp_prim.
    assert (Hcase : forall (tgt : option pstate) (b : bool),
       match tgt with None => True | Some _ => live w end ->
       wp (bind (transition tgt) (fun _ => ret b))
          (fun r s' => wp (modify (fun w => w <| killing := None |>))
             (fun r2 s'' => match r2 with
                            | Ok _ => wp (bind get (fun w' =>
                                match get_act w' id with
                                | Some a' => match a_fut a' with
                                             | AfPending => set_act_fut id (match r with Ok b => AfVal b | Err e => AfExn e end)
                                             | _ => ret tt
                                             end
                                | None => raise EIndex
                                end)) Q s''
                            | Err e => wp (bind get (fun w' =>
                                match get_act w' id with
                                | Some a' => match a_fut a' with
                                             | AfPending => set_act_fut id (AfExn e)
                                             | _ => ret tt
                                             end
                                | None => raise EIndex
                                end)) Q s''
                            end) s') w).
    { intros tgt b Hl. use transition_spec; [exact HR | exact Hl |]. intros r w1 H1. destruct r; cbv beta iota.
      + do 2 wp_prim. apply (Hk (Ok b)). r_frame.
      + wp_prim. apply (Hk (Err e)). r_frame. }
    destruct next as [[]|]; apply Hcase; exact Hpre.
Qed.

Lemma do_out_spec path v : keeps (do_out path v).
Proof.
  intros w0 w Q HR HQ. unfold do_out. do 2 wp_prim. wp_case; [wp_prim; apply HQ; exact HR|].
  use hook_spec; [exact HR|]. intros w1 H1 _. cbv beta iota. do 4 wp_prim.
  match goal with |- wp _ _ ?w' => assert (H2 : R w0 w') by r_frame end.
  wp_case; [wp_prim; apply HQ; exact H2|]. destruct p as [outs' dyn].
  do 2 wp_prim. use emit_spec; [r_frame | reflexivity |]. intros w3 H3 _ _. cbv beta iota.
  eapply fire_spec; [apply do_ctl_spec | exact H3 | exact HQ].
Qed.

Lemma run_actions_spec acts r : keeps (run_actions acts r).
Proof.
  induction acts as [|a rest IH]; intros w0 w Q HR HQ; cbn [run_actions].
  - wp_prim. apply HQ; exact HR.
  - destruct a.
    + do 2 wp_prim. eapply do_out_spec; [exact HR|]. intros x w1 H1. cbv beta iota.
      destruct x; [eapply IH; eauto | wp_prim; apply HQ; exact H1].
    + use schedule_spec; [exact HR|]. intros w1 H1 _ _. cbv beta iota.
      use set_t0_frame; [exact H1|]. intros x w2 H2 _. destruct x; cbv beta iota; [wp_prim|]; apply HQ; exact H2.
    + do 2 wp_prim. wp_case.
      * destruct p as [k' wk]. destruct wk; try (eapply IH; eauto). wp_prim. apply HQ; exact HR.
      * use set_t0_frame; [exact HR|]. intros x w2 H2 _. destruct x; cbv beta iota; [wp_prim|]; apply HQ; exact H2.
    + use ctl_observed_spec; [exact HR|]. intros x w1 H1. destruct x as [x|e]; cbv beta iota; [|apply HQ; exact H1].
      use emit_spec; [exact H1 | reflexivity |]. intros w2 H2 _ _. cbv beta iota. eapply IH; eauto.
    + use schedule_spec; [exact HR|]. intros w1 H1 _ _. cbv beta iota. eapply IH; eauto.
    + do 2 wp_prim. use emit_spec; [exact HR | reflexivity |]. intros w2 H2 _ _. cbv beta iota. eapply IH; eauto.
    + do 2 wp_prim. eapply IH; [r_frame | exact HQ].
Qed.

Lemma after_run_fn_spec o : keeps (after_run_fn o).
Proof.
  intros w0 w Q HR HQ. unfold after_run_fn. destruct o; try (wp_prim; apply HQ; exact HR).
  use fresh_frame; [exact HR|]. intros x w1 H1 _. destruct x as [wid|e]; cbv beta iota; [|apply HQ; exact H1].
  wp_case; wp_prim; apply HQ; exact H1.
Qed.

Lemma after_waiting_once_spec fn aw wk again :
  (forall i, keeps (again i)) -> keeps (after_waiting_once fn aw wk again).
Proof.
  intros Hag w0 w Q HR HQ. unfold after_waiting_once. destruct wk; try (wp_prim; apply HQ; exact HR).
  do 4 wp_prim.
  match goal with |- wp _ _ ?w' => assert (H0 : R w0 w') by r_frame end.
  match goal with |- wp _ _ ?w' => destruct (st w') as [cur|] eqn:Hst end; [|wp_prim; apply HQ; exact H0].
  destruct cur; try (wp_prim; apply HQ; exact H0).
  assert (Hk : forall w1, R w0 w1 ->
     wp (bind get (fun w' =>
          if existsb (Nat.eqb id) (wrecalled w')
          then bind (modify (fun w => w <| wrecalled := filter (fun r => negb (Nat.eqb id r)) (wrecalled w) |>)) (fun _ => again (Some id))
          else ret (XoInterrupted id))) Q w1).
  { intros w1 H1. do 2 wp_prim. wp_case; [|wp_prim; apply HQ; exact H1].
    do 2 wp_prim. eapply Hag; [r_frame | exact HQ]. }
  wp_prim. wp_case.
  - use fresh_frame; [exact H0|]. intros r w1 H1 S1. destruct r as [wid'|e]; cbv beta iota; [|apply HQ; exact H1].
    wp_prim. apply Hk.
    eapply R_st_label; [exact H1 | reflexivity | reflexivity | reflexivity | reflexivity |].
    do 2 eexists. split; [rewrite S1; exact Hst|]. split; reflexivity.
  - wp_prim. apply Hk; exact H0.
Qed.

Lemma await_current_spec fn k : (forall a b, keeps (k a b)) -> keeps (await_current fn k).
Proof.
  intros Hk w0 w Q HR HQ. unfold await_current. do 2 wp_prim.
  destruct (st w) as [cur|]; [|wp_prim; apply HQ; exact HR].
  destruct cur; try (wp_prim; apply HQ; exact HR). destruct wf.
  - unfold set_t0'. do 2 wp_prim. wp_prim. apply HQ. r_frame.
  - eapply Hk; eauto.
Qed.

Lemma after_waiting_spec fn aw wk : keeps (after_waiting fn aw wk).
Proof.
  unfold after_waiting. apply after_waiting_once_spec. intro i.
  apply await_current_spec. intros a b. apply after_waiting_once_spec. intro j.
  intros w0 w Q HR HQ. wp_prim. apply HQ; exact HR.
Qed.

Lemma execute_state_spec : keeps execute_state.
Proof.
  intros w0 w Q HR HQ. unfold execute_state. do 2 wp_prim.
  destruct (st w) as [cur|] eqn:Hst; [|wp_prim; apply HQ; exact HR].
  destruct cur; try (wp_prim; apply HQ; exact HR).
  - use emit_spec; [exact HR | reflexivity |]. intros w1 H1 _ _. cbv beta iota. wp_case.
    + use run_actions_spec; [exact H1|]. intros x w2 H2. destruct x; cbv beta iota; [|apply HQ; exact H2].
      eapply after_run_fn_spec; eauto.
    + wp_prim. apply HQ; exact H1.
  - destruct wf.
    + use set_t0_frame; [exact HR|]. intros x w1 H1 _. destruct x; cbv beta iota; [wp_prim|]; apply HQ; exact H1.
    + eapply after_waiting_spec; eauto.
Qed.

Lemma run_armed_spec fuel : forall ran, keeps (run_armed fuel ran).
Proof.
  induction fuel as [|f IH]; intros ran w0 w Q HR HQ; cbn [run_armed]; [wp_prim; apply HQ; exact HR|].
  do 2 wp_prim. wp_case; [wp_prim; apply HQ; exact HR|].
  assert (Hl : live w) by (eapply R_live; eassumption).
  wp_case; [|wp_prim; apply HQ; exact HR].
  wp_case; [wp_prim; apply HQ; exact HR|].
  wp_prim. eapply run_action_spec; [exact HR | exact Hl |]. intros r w2 H2. destruct r; cbv beta iota; [eapply IH; eauto | apply HQ; exact H2].
Qed.

Lemma finish_step_spec x : keeps (finish_step x).
Proof.
  intros w0 w Q HR HQ. unfold finish_step. wp_prim.
  assert (Hfin : forall (r : result unit) w1, R w0 w1 ->
     wp (bind (modify (fun w => w <| stepping := false |>)) (fun _ => set_interrupt_action None))
        (fun r2 s'' => match r2 with Ok _ => Q r s'' | Err e => Q (Err e) s'' end) w1).
  { intros r w1 H1. do 2 wp_prim. eapply set_interrupt_action_frame; [r_frame|].
    intros r2 w2 H2 _. destruct r2; apply HQ; exact H2. }
  assert (Hk : forall next w1, R w0 w1 ->
     wp (bind get (fun w => if is_terminated w then ret tt
                            else match intr w with
                                 | Some a => bind (run_action a next) (fun _ => run_armed armed_fuel (Some a))
                                 | None => bind (transition next) (fun _ => run_armed armed_fuel None)
                                 end))
        (fun r s' => wp (bind (modify (fun w => w <| stepping := false |>)) (fun _ => set_interrupt_action None))
           (fun r2 s'' => match r2 with Ok _ => Q r s'' | Err e => Q (Err e) s'' end) s') w1).
  { intros next w1 H1. do 2 wp_prim. wp_case; [wp_prim; apply Hfin; exact H1|].
    assert (Hl : live w1) by (eapply R_live; eassumption).
    wp_case.
    - wp_prim. eapply run_action_spec; [exact H1 | exact Hl |]. intros r w2 H2. destruct r; cbv beta iota; [|apply Hfin; exact H2].
      eapply run_armed_spec; [exact H2|]. intros r3 w3 H3. apply Hfin; exact H3.
    - wp_prim. eapply transition_spec; [exact H1 | destruct next; [exact Hl | exact I] |]. intros r w2 H2. destruct r; cbv beta iota; [|apply Hfin; exact H2].
      eapply run_armed_spec; [exact H2|]. intros r3 w3 H3. apply Hfin; exact H3. }
  wp_prim. destruct x.
  - wp_prim. apply Hk; exact HR.
  - wp_prim. apply Hk; exact HR.
  - do 3 wp_prim. wp_case.
    + do 2 wp_prim. apply (Hk None); exact HR.
    + wp_case.
      * use set_interrupt_action_from_frame; [exact HR|]. intros r w1 H1 _. destruct r; cbv beta iota.
        -- do 2 wp_prim. apply (Hk None); exact H1.
        -- apply Hfin; exact H1.
      * do 2 wp_prim. apply (Hk None); exact HR.
  - use set_interrupt_action_frame; [exact HR|]. intros r w1 H1 _. destruct r; cbv beta iota.
    + wp_prim. apply Hk; exact H1.
    + apply Hfin; exact H1.
Qed.

Lemma loop_head_spec fuel : keeps (loop_head fuel).
Proof.
  induction fuel as [|f IH]; intros w0 w Q HR HQ; cbn [loop_head].
  - wp_prim. apply HQ; exact HR.
  - do 2 wp_prim. wp_case; [eapply set_t0_frame; [exact HR|]; intros r w1 H1 _; apply HQ; exact H1|].
    wp_case; [wp_prim; apply HQ; exact HR|].
    wp_case; [eapply set_t0_frame; [exact HR|]; intros r w1 H1 _; apply HQ; exact H1|].
    do 2 wp_prim. use execute_state_spec; [r_frame|]. intros x w1 H1. destruct x as [x|e]; cbv beta iota; [|apply HQ; exact H1].
    destruct x; try (wp_prim; apply HQ; exact H1);
      (use finish_step_spec; [exact H1|]; intros r w2 H2; destruct r; cbv beta iota; [eapply IH; eauto | apply HQ; exact H2]).
Qed.

Lemma resume_t0_spec wk : keeps (resume_t0 wk).
Proof.
  intros w0 w Q HR HQ. unfold resume_t0. do 2 wp_prim.
  assert (Hcont : forall x w1, R w0 w1 ->
     wp (match x with
         | XoSuspended => ret tt
         | _ => bind (finish_step x) (fun _ => loop_head chain_fuel)
         end) Q w1).
  { intros x w1 H1. destruct x; try (wp_prim; apply HQ; exact H1);
      (use finish_step_spec; [exact H1|]; intros r w2 H2; destruct r; cbv beta iota;
       [eapply loop_head_spec; eauto | apply HQ; exact H2]). }
  destruct (t0 w).
  - eapply loop_head_spec; eauto.
  - assert (Hgo : wp (bind (modify (fun w => w <| stepping := true |>)) (fun _ => bind execute_state (fun x =>
                        match x with
                        | XoSuspended => ret tt
                        | _ => bind (finish_step x) (fun _ => loop_head chain_fuel)
                        end))) Q w).
    { do 2 wp_prim. use execute_state_spec; [r_frame|]. intros x w1 H1. destruct x as [x|e]; cbv beta iota; [|apply HQ; exact H1].
      apply Hcont; exact H1. }
    wp_case; [wp_case|]; try exact Hgo.
    eapply set_t0_frame; [exact HR|]. intros r w1 H1 _. apply HQ; exact H1.
  - wp_prim.
    assert (Hk : forall o w1, R w0 w1 ->
       wp (bind (after_run_fn o) (fun x => match x with
         | XoSuspended => ret tt
         | _ => bind (finish_step x) (fun _ => loop_head chain_fuel)
         end)) Q w1).
    { intros o w1 H1. use after_run_fn_spec; [exact H1|]. intros x w2 H2. destruct x as [x|e]; cbv beta iota; [|apply HQ; exact H2].
      apply Hcont; exact H2. }
    destruct wk; try (eapply run_actions_spec; [exact HR|]; intros o w1 H1; destruct o; cbv beta iota; [apply Hk; exact H1 | apply HQ; exact H1]).
    wp_prim. apply Hk; exact HR.
  - do 3 wp_prim.
    assert (Hk : forall fn w1, R w0 w1 ->
       wp (after_waiting fn wid wk) (fun r s' => match r with
          | Ok a => wp (bind (finish_step a) (fun _ => loop_head chain_fuel)) Q s'
          | Err e => Q (Err e) s' end) w1).
    { intros fn w1 H1. eapply after_waiting_spec; [exact H1|]. intros x w2 H2. destruct x as [x|e]; [|apply HQ; exact H2].
      use finish_step_spec; [exact H2|]. intros r w3 H3. destruct r; cbv beta iota; [eapply loop_head_spec; eauto | apply HQ; exact H3]. }
    destruct (st w) as [[]|]; apply Hk; exact HR.
  - wp_prim. apply HQ; exact HR.
  - wp_prim. apply HQ; exact HR.
Qed.

Lemma run_entry_spec r : keeps (run_entry r).
Proof.
  intros w0 w Q HR HQ. unfold run_entry. destruct r as [wk|cb|].
  - do 2 wp_prim. eapply resume_t0_spec; [exact HR|]. intros x w1 H1. cbv beta iota. destruct x.
    + wp_prim. apply HQ; exact H1.
    + use set_t0_frame; [exact H1|]. intros r w2 H2 _. destruct r; cbv beta iota; [|apply HQ; exact H2].
      eapply emit_spec; [exact H2 | reflexivity |]. intros w3 H3 _ _. apply HQ; exact H3.
  - use emit_spec; [exact HR | reflexivity |]. intros w1 H1 _ _. cbv beta iota. do 4 wp_prim.
    assert (Hk : forall (x : result unit) w2, R w0 w2 ->
      wp (match x with
          | Ok _ => ret tt
          | Err e =>
              bind get (fun w => match st w with
                                 | Some (SExcepted _) => ret tt
                                 | _ => bind (attempt (ctl_call (CFail e)))
                                          (fun y => match y with Ok _ => ret tt | Err e' => emit (EvLoopError e') end)
                                 end)
          end) Q w2).
    { intros x w2 H2. destruct x; [wp_prim; apply HQ; exact H2|]. do 2 wp_prim.
      assert (Hf : wp (bind (attempt (ctl_call (CFail e)))
                         (fun y => match y with Ok _ => ret tt | Err e' => emit (EvLoopError e') end)) Q w2).
      { do 2 wp_prim. eapply ctl_call_spec; [exact H2|]. intros y w3 H3. cbv beta iota. destruct y.
        - wp_prim. apply HQ; exact H3.
        - eapply emit_spec; [exact H3 | reflexivity |]. intros w4 H4 _ _. apply HQ; exact H4. }
      destruct (st w2) as [[]|]; try exact Hf. wp_prim. apply HQ; exact H2. }
    wp_case; [wp_case|].
    + wp_prim. apply (Hk (Ok tt)); exact H1.
    + wp_prim. apply (Hk (Err e)); exact H1.
    + use ctl_observed_spec; [exact H1|]. intros x w2 H2. destruct x; cbv beta iota.
      * eapply emit_spec; [exact H2 | reflexivity |]. intros w3 H3 _ _. apply (Hk (Ok tt)); exact H3.
      * apply (Hk (Err e)); exact H2.
    + wp_prim. apply (Hk (Ok tt)); exact H1.
  - do 2 wp_prim. wp_case; [|wp_prim; apply HQ; exact HR].
    do 2 wp_prim. eapply ctl_call_spec; [exact HR|]. intros y w3 H3. cbv beta iota. destruct y.
    + wp_prim. apply HQ; exact H3.
    + eapply emit_spec; [exact H3 | reflexivity |]. intros w4 H4 _ _. apply HQ; exact H4.
Qed.

(* ------------------------------------------------------------------ the environment *)
Lemma tick_spec : keeps tick.
Proof.
  intros w0 w Q HR HQ. unfold tick. do 2 wp_prim. wp_case; [wp_prim; apply HQ; exact HR|].
  do 2 wp_prim. eapply run_entry_spec; [r_frame | exact HQ].
Qed.

Lemma drain_spec n : keeps (drain n).
Proof.
  induction n as [|n IH]; intros w0 w Q HR HQ; cbn [drain].
  - wp_prim. apply HQ; exact HR.
  - do 2 wp_prim. wp_case; [wp_prim; apply HQ; exact HR|].
    use tick_spec; [exact HR|]. intros x w1 H1. destruct x; cbv beta iota; [eapply IH; eauto | apply HQ; exact H1].
Qed.

Lemma env_step_m_spec e : keeps (env_step_m e).
Proof.
  intros w0 w Q HR HQ. destruct e as [|c| |cb|k wk|n]; cbn [env_step_m].
  - eapply tick_spec; eauto.
  - use ctl_observed_spec; [exact HR|]. intros r w1 H1. destruct r; cbv beta iota; [|apply HQ; exact H1].
    eapply emit_spec; [exact H1 | reflexivity |]. intros w2 H2 _ _. apply HQ; exact H2.
  - do 2 wp_prim. wp_case; try (wp_prim; apply HQ; exact HR). wp_case.
    + do 2 wp_prim. eapply schedule_spec; [r_frame|]. intros w1 H1 _ _. apply HQ; exact H1.
    + wp_prim. apply HQ. r_frame.
  - eapply schedule_spec; [exact HR|]. intros w1 H1 _ _. apply HQ; exact H1.
  - do 2 wp_prim. wp_case; [wp_prim; apply HQ; exact HR|]. do 2 wp_prim.
    match goal with |- wp _ _ ?w' => assert (H1 : R w0 w') by r_frame end.
    wp_case; try (wp_prim; apply HQ; exact H1). wp_case; try (wp_prim; apply HQ; exact H1).
    wp_case; [|apply HQ; exact H1].
    eapply schedule_spec; [exact H1|]. intros w2 H2 _ _. apply HQ; exact H2.
  - eapply drain_spec; eauto.
Qed.

Lemma env_step_R w0 w e : R w0 w -> R w0 (env_step w e).
Proof. intro HR. unfold env_step. apply keeps_run; [apply env_step_m_spec | exact HR]. Qed.

Lemma run_from_R w0 w es : R w0 w -> R w0 (run_from w es).
Proof.
  unfold run_from. revert w. induction es as [|e es IH]; intros w HR; cbn [fold_left]; [exact HR|].
  apply IH. apply env_step_R. exact HR.
Qed.

(* ------------------------------------------------------------------ construction *)
(* the world the constructor produces when no fault is injected: computed *)
Lemma construct_world c :
  cf_fault c = None ->
  exists w, construct_process c = (Ok tt, w) /\ cfg w = c /\ st w = Some SCreated /\
            trace w = [EvHook "on_create"; EvEntered None LCreated] /\
            transitioning w = false /\ transition_failing w = false.
Proof.
  intro Hf. destruct c as [prog cbs ls fault ospec]. cbn in Hf. subst fault.
  eexists. split; [vm_compute; reflexivity|]. repeat split; reflexivity.
Qed.

Lemma construct_base c w :
  cf_fault c = None -> construct_process c = (Ok tt, w) ->
  R w w /\ walk None (trace w) = Some (cur_label w) /\ cur_label w = Some LCreated.
Proof.
  intros Hf Hc. destruct (construct_world c Hf) as (w' & Hc' & Hcfg & Hst & Htr & Ht1 & Ht2).
  rewrite Hc in Hc'. injection Hc' as <-.
  assert (Hl : cur_label w = Some LCreated) by (unfold cur_label; rewrite Hst; reflexivity).
  split; [|split; [|exact Hl]].
  - apply R_refl.
    + unfold nofault. rewrite Hcfg. exact Hf.
    + unfold started. rewrite Hl. discriminate.
    + intros _. exact Ht2.
  - rewrite Htr, Hl. reflexivity.
Qed.

Lemma construct_only_ok c r w : cf_fault c = None -> construct_process c = (r, w) -> r = Ok tt.
Proof.
  intros Hf Hc. destruct (construct_world c Hf) as (w' & Hc' & _). rewrite Hc in Hc'. congruence.
Qed.

(* ------------------------------------------------------------------ the theorems *)
(* every run: the whole trace walks the life-cycle graph from "no state" and ends in the current state *)
Theorem run_walks c es w :
  cf_fault c = None -> run c es = Some w -> walk None (trace w) = Some (cur_label w).
Proof.
  intros Hf Hrun. unfold run in Hrun.
  destruct (construct_process c) as [r w1] eqn:Hc.
  pose proof (construct_only_ok _ _ _ Hf Hc) as ->. injection Hrun as <-.
  destruct (construct_base _ _ Hf Hc) as (HR & Hw & Hl).
  pose proof (run_from_R w1 w1 es HR) as [(_ & _ & _ & tr & Ht & Hwk) _].
  rewrite Ht, walk_app, Hw. exact Hwk.
Qed.

(* a run extends any of its prefixes legally *)
Theorem run_extends c es1 es2 w1 w2 :
  cf_fault c = None -> run c es1 = Some w1 -> run c (es1 ++ es2) = Some w2 ->
  exists tr, trace w2 = trace w1 ++ tr /\ walk (cur_label w1) tr = Some (cur_label w2).
Proof.
  intros Hf H1 H2. unfold run in *.
  destruct (construct_process c) as [r w0] eqn:Hc.
  pose proof (construct_only_ok _ _ _ Hf Hc) as ->. injection H1 as <-. injection H2 as <-.
  destruct (construct_base _ _ Hf Hc) as (HR & _ & _).
  unfold run_from. rewrite fold_left_app. fold (run_from w0 es1). fold (run_from (run_from w0 es1) es2).
  pose proof (run_from_R w0 w0 es1 HR) as HR1.
  assert (HR11 : R (run_from w0 es1) (run_from w0 es1)).
  { apply R_refl; [eapply R_nofault; exact HR1 | eapply R_started; exact HR1 | destruct HR1 as [_ F]; exact F]. }
  pose proof (run_from_R _ _ es2 HR11) as [(_ & _ & _ & tr & Ht & Hwk) _].
  exists tr. auto.
Qed.

(* terminal states are final: after any further events (control calls, failing late callbacks, resume,
   cancellation, ticks) the state is the same and nothing has been entered *)
Theorem terminal_final c es1 es2 w1 w2 :
  cf_fault c = None -> run c es1 = Some w1 -> is_terminated w1 = true -> run c (es1 ++ es2) = Some w2 ->
  cur_label w2 = cur_label w1 /\
  exists tr, trace w2 = trace w1 ++ tr /\ forallb (fun e => negb (is_entered e)) tr = true.
Proof.
  intros Hf H1 Ht H2. destruct (run_extends _ _ _ _ _ Hf H1 H2) as (tr & Htr & Hw).
  unfold is_terminated in Ht. unfold cur_label in *. destruct (st w1) as [s|]; [|discriminate]. cbn in *.
  destruct (walk_terminal _ _ _ Ht Hw) as [Hl Hn]. split; [exact Hl|]. exists tr. auto.
Qed.

(* ------------------------------------------------------------------ the statement in the property's own words *)
(* the documented life-cycle graph, edge by edge *)
Inductive lifecycle_edge : label -> label -> Prop :=
| e_created_running : lifecycle_edge LCreated LRunning
| e_running_running : lifecycle_edge LRunning LRunning
| e_running_waiting : lifecycle_edge LRunning LWaiting
| e_running_finished : lifecycle_edge LRunning LFinished
| e_waiting_running : lifecycle_edge LWaiting LRunning
| e_waiting_waiting : lifecycle_edge LWaiting LWaiting
| e_waiting_finished : lifecycle_edge LWaiting LFinished
| e_live_killed a : terminal a = false -> lifecycle_edge a LKilled
| e_live_excepted a : terminal a = false -> lifecycle_edge a LExcepted.

Lemma allowed_is_documented a b : is_allowed a b = true <-> lifecycle_edge a b.
Proof.
  split.
  - destruct a, b; cbn; intro H; try discriminate; try constructor; reflexivity.
  - intro H. destruct H; try reflexivity; destruct a; cbn in *; (reflexivity || discriminate).
Qed.

(* the state entries recorded in a trace: (state left, state entered) *)
Fixpoint entries (tr : list event) : list (option label * label) :=
  match tr with
  | [] => []
  | EvEntered f t :: r => (f, t) :: entries r
  | _ :: r => entries r
  end.

(* a list of entries is a life-cycle history from [cur]: every entry leaves the state the process is in,
   the first state is CREATED, later entries follow documented edges *)
Inductive history : option label -> list (option label * label) -> option label -> Prop :=
| h_nil cur : history cur [] cur
| h_first l last : history (Some LCreated) l last -> history None ((None, LCreated) :: l) last
| h_step a b l last : lifecycle_edge a b -> history (Some b) l last -> history (Some a) ((Some a, b) :: l) last.

Lemma walk_history cur tr last : walk cur tr = Some last -> history cur (entries tr) last.
Proof.
  revert cur. induction tr as [|e tr IH]; intros cur H; cbn [walk entries] in *.
  - injection H as <-. constructor.
  - destruct e; try (apply IH; exact H).
    destruct (olabel_eqb from cur && legal cur to) eqn:E; [|discriminate].
    apply andb_true_iff in E. destruct E as [E1 E2]. apply olabel_eqb_eq in E1. subst from.
    destruct cur as [a|]; cbn in E2.
    + apply h_step; [apply allowed_is_documented; exact E2 | apply IH; exact H].
    + apply label_eqb_eq in E2. subst to. apply h_first. apply IH. exact H.
Qed.

Theorem run_history c es w :
  cf_fault c = None -> run c es = Some w -> history None (entries (trace w)) (cur_label w).
Proof. intros Hf Hr. apply walk_history. eapply run_walks; eauto. Qed.

Lemma entries_none tr : forallb (fun e => negb (is_entered e)) tr = true -> entries tr = [].
Proof.
  induction tr as [|e tr IH]; cbn; [reflexivity|]. destruct e; cbn; try exact IH. discriminate.
Qed.

Lemma entries_app a b : entries (a ++ b) = entries a ++ entries b.
Proof. induction a as [|e a IH]; cbn; [reflexivity|]. destruct e; cbn; rewrite ?IH; reflexivity. Qed.

Theorem terminal_final_entries c es1 es2 w1 w2 :
  cf_fault c = None -> run c es1 = Some w1 -> is_terminated w1 = true -> run c (es1 ++ es2) = Some w2 ->
  cur_label w2 = cur_label w1 /\ entries (trace w2) = entries (trace w1).
Proof.
  intros Hf H1 Ht H2. destruct (terminal_final _ _ _ _ _ Hf H1 Ht H2) as (Hl & tr & Htr & Hn).
  split; [exact Hl|]. rewrite Htr, entries_app, (entries_none _ Hn), app_nil_r. reflexivity.
Qed.

(* the constructor cannot fail without an injected fault, and a process starts in CREATED *)
Theorem run_defined c es : cf_fault c = None -> exists w, run c es = Some w.
Proof.
  intro Hf. unfold run. destruct (construct_process c) as [r w] eqn:Hc.
  rewrite (construct_only_ok _ _ _ Hf Hc). eauto.
Qed.

Theorem starts_created c : cf_fault c = None -> exists w, run c [] = Some w /\ cur_label w = Some LCreated.
Proof.
  intro Hf. unfold run. destruct (construct_process c) as [r w] eqn:Hc.
  pose proof (construct_only_ok _ _ _ Hf Hc) as ->. exists w. split; [reflexivity|].
  apply (construct_base _ _ Hf Hc).
Qed.

(* after construction there is always a state *)
Theorem run_started c es w : cf_fault c = None -> run c es = Some w -> st w <> None.
Proof.
  intros Hf Hrun. unfold run in Hrun.
  destruct (construct_process c) as [r w1] eqn:Hc.
  pose proof (construct_only_ok _ _ _ Hf Hc) as ->. injection Hrun as <-.
  destruct (construct_base _ _ Hf Hc) as (HR & Hw & Hl).
  pose proof (R_started _ _ (run_from_R w1 w1 es HR)) as Hs. unfold started, cur_label in Hs.
  intro X. rewrite X in Hs. apply Hs. reflexivity.
Qed.
