(* Life/LifePaused.v — C05: while the process reports paused, nothing is in flight and nothing is pending.  In every run
   (hooks that do not raise) and at every point between two environment events: paused => no step is in flight, no
   interrupt action is armed, no pause and no kill is pending.  LifeBook (a process whose step is in flight is not paused)
   combined with LifePtr (an action is armed only while a step is in flight; _pausing / _killing, when set, are that action). *)
From Coq Require Import List String Bool.
From Plumpy Require Import Val Mon PortModel Model Run LifeBook LifePtr.
Import ListNotations.

Theorem paused_means_quiescent c es w :
  cf_fault c = None -> run c es = Some w -> paused w <> None ->
  stepping w = false /\ intr w = None /\ pausing w = None /\ killing w = None.
Proof.
  intros Hf Hr Hp. pose proof (run_pointers _ _ _ Hr) as (P1 & P2 & P3 & _).
  assert (Hs : stepping w = false).
  { destruct (stepping w) eqn:E; [|reflexivity]. exfalso. apply Hp. apply (stepping_not_paused _ _ _ Hf Hr E). }
  pose proof (P1 Hs) as Hi. split; [exact Hs|]. split; [exact Hi|]. split.
  - destruct (pausing w) as [a|] eqn:E; [|reflexivity]. destruct (P2 a eq_refl) as [X _]. congruence.
  - destruct (killing w) as [a|] eqn:E; [|reflexivity]. destruct (P3 a eq_refl) as [X _]. congruence.
Qed.
