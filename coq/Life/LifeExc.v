(* Life/LifeExc.v — property C03 over every run, the second half: the process ends EXCEPTED WITH EXACTLY THE INJECTED EXCEPTION.

   For a fault (h, k, e) in one of the life-cycle hooks of a transition (entering / entered / exit / terminated / close hooks),
   any program, listener scripts with re-entrant control calls, callbacks and any schedule that does not cancel the future
   from outside: at every point between two environment events, if the fault has fired (hook h has been called more than k
   times) the state is EXCEPTED e.

   Built on LifeEsc (which shows that a transition with a legal target fails only by firing the fault and that the second
   transition then goes through).  Added here, as separate passes over the same operations combined with the first by
   conjunction of weakest preconditions:
     EX  (control level, no precondition): inside a transition a control call runs no transition hook and leaves a terminal
         state alone;
     NP  (inside a transition): an operation that returns normally has not fired the fault; one that fails either raises
         the fault's exception or has not fired it;
     the second transition leaves exactly EXCEPTED e1 for the exception e1 it was given;
     HK  (control level): the invariant [handled] is kept. *)
From Coq Require Import List ZArith String Bool Arith Lia.
From RecordUpdate Require Import RecordUpdate.
From Plumpy Require Import Val Mon MonTac PortModel Model Run LifeAgree LifePtr LifeEsc.
Import ListNotations.
Local Open Scope list_scope.
Local Open Scope string_scope.

(* the hooks run by transitions *)
Definition smhook (h : string) : bool :=
  existsb (String.eqb h)
    ["on_run"; "on_wait"; "on_finish"; "on_kill"; "on_except"; "on_running"; "on_waiting"; "on_finished"; "on_excepted";
     "on_killed"; "on_exit_waiting"; "on_exit_running"; "on_terminated"; "on_close"].

Lemma nat_assoc_bump_other h x l : String.eqb h x = false -> nat_assoc h (nat_bump x l) = nat_assoc h l.
Proof.
  intro Hne. induction l as [|[k0 n] l IH]; cbn.
  - rewrite Hne. reflexivity.
  - destruct (String.eqb x k0) eqn:E; cbn.
    + destruct (String.eqb h k0) eqn:E2; [|reflexivity]. apply String.eqb_eq in E. apply String.eqb_eq in E2. subst.
      rewrite String.eqb_refl in Hne. discriminate.
    + destruct (String.eqb h k0); [reflexivity | exact IH].
Qed.

(* ------------------------------------------------------------------ no operation touches the configuration *)
Definition Tr1 (_ : world) : Prop := True.
Definition CFr (w w' : world) : Prop := cfg w' = cfg w.
Lemma CFr_refl w : Tr1 w -> CFr w w. Proof. reflexivity. Qed.
Lemma CFr_trans a b c : CFr a b -> CFr b c -> CFr a c. Proof. unfold CFr. congruence. Qed.
Lemma CFr_pre a b : Tr1 a -> CFr a b -> Tr1 b. Proof. intros; exact I. Qed.
Notation Cat := (Hat Tr1 CFr).
Definition CK {A} (m : LM A) : Prop := forall w, Cat m w.

Ltac cstep :=
  lazymatch goal with
  | |- CK _ => intro
  | |- Hat Tr1 CFr (bind get _) _ => apply Hat_get; cbv beta
  | |- Hat Tr1 CFr (bind _ _) _ => eapply Hat_bind; [exact CFr_trans | exact CFr_pre | | intros ? ? ]
  | |- Hat Tr1 CFr (ret _) _ => apply Hat_ret; exact CFr_refl
  | |- Hat Tr1 CFr (raise _) _ => apply Hat_raise; exact CFr_refl
  | |- Hat Tr1 CFr (attempt _) _ => apply Hat_attempt
  | |- Hat Tr1 CFr (finally _ _) _ => eapply Hat_finally; [exact CFr_trans | exact CFr_pre | | intro ]
  | |- Hat Tr1 CFr (try_catch _ _) _ => eapply Hat_try_catch; [exact CFr_trans | exact CFr_pre | | intros ? ? ]
  | |- Hat Tr1 CFr (when _ _) _ => apply Hat_when; [exact CFr_refl | intro ]
  | |- Hat Tr1 CFr (modify _) _ => apply Hat_modify; reflexivity
  | |- Hat Tr1 CFr (put _) _ => apply Hat_put; reflexivity
  | |- Hat Tr1 CFr (mapM_ _ _) _ => eapply Hat_mapM; [exact CFr_refl | exact CFr_trans | exact CFr_pre | intros ? ? ]
  | |- Hat _ _ (match ?x with _ => _ end) _ => destruct x eqn:?
  | |- Hat _ _ (if ?x then _ else _) _ => destruct x eqn:?
  | |- Hat _ _ (let _ := _ in _) _ => cbv zeta
  end.
Ltac cgo := repeat cstep.

Lemma emit_CK ev : CK (emit ev). Proof. intro w. unfold emit. cgo. Qed.
Lemma schedule_CK r : CK (schedule r). Proof. intro w. unfold schedule. cgo. Qed.
Lemma fresh_CK : CK fresh. Proof. intro w. unfold fresh. cgo. Qed.
Lemma hook_CK name : CK (hook name). Proof. intro w. unfold hook, emit. cgo. Qed.
Lemma sia_CK new : CK (set_interrupt_action new). Proof. intro w. unfold set_interrupt_action, cancel_act, set_act_fut. cgo. Qed.
Lemma sia_from_CK kd c : CK (set_interrupt_action_from kd c).
Proof. intro w. unfold set_interrupt_action_from, set_interrupt_action, cancel_act, set_act_fut. cgo. Qed.

Section CfgReentrant.
  Variable rec_ctl : ctl -> LM cret.
  Hypothesis Hrec : forall c, CK (rec_ctl c).

  Lemma fire_CK name : CK (fire rec_ctl name).
  Proof. intro w. unfold fire, emit. cgo. apply Hrec. Qed.
  Lemma pfut_set_CK f : CK (pfut_set f). Proof. intro w. unfold pfut_set, schedule. cgo. Qed.
  Lemma on_close_CK : CK on_close. Proof. intro w. unfold on_close, emit. cgo; apply hook_CK. Qed.
  Lemma close_CK : CK close. Proof. intro w. unfold close. cgo. apply on_close_CK. Qed.
  Lemma on_entering_CK ns : CK (on_entering ns).
  Proof. intro w. unfold on_entering. cgo; first [apply hook_CK | apply pfut_set_CK]. Qed.
  Lemma on_entered_CK w0 : CK (on_entered rec_ctl w0).
  Proof. intro w. unfold on_entered. cgo; first [apply hook_CK | apply fire_CK]. Qed.
  Lemma exit_current_CK ns : CK (exit_current ns).
  Proof. intro w. unfold exit_current. cgo; first [apply hook_CK | apply schedule_CK]. Qed.
  Lemma enter_next_CK ns : CK (enter_next rec_ctl ns).
  Proof. intro w. unfold enter_next. cgo; first [apply on_entering_CK | apply emit_CK | apply on_entered_CK]. Qed.
  Lemma on_terminated_CK : CK on_terminated.
  Proof. intro w. unfold on_terminated. cgo; first [apply hook_CK | apply schedule_CK | apply close_CK]. Qed.
  Lemma transition_body_CK ns : CK (transition_body rec_ctl ns).
  Proof. intro w. unfold transition_body. cgo; first [apply exit_current_CK | apply enter_next_CK | apply on_terminated_CK]. Qed.
  Lemma transition_to_failing_CK ns : CK (transition_to_failing rec_ctl ns).
  Proof. intro w. unfold transition_to_failing. cgo. apply transition_body_CK. Qed.
  Lemma transition_to_CK ns : CK (transition_to rec_ctl ns).
  Proof. intro w. unfold transition_to. cgo; first [apply transition_body_CK | apply transition_to_failing_CK]. Qed.
End CfgReentrant.

Section CfgControl.
  Variable rec_ctl : ctl -> LM cret.
  Hypothesis Hrec : forall c, CK (rec_ctl c).
  Lemma state_interrupt_CK iid : CK (state_interrupt iid). Proof. intro w. unfold state_interrupt, schedule. cgo. Qed.
  Lemma state_recall_CK iid : CK (state_recall iid). Proof. intro w. unfold state_recall, fresh. cgo. Qed.
  Lemma do_pause_CK msg next : CK (do_pause rec_ctl msg next).
  Proof. intro w. unfold do_pause. cgo; first [apply transition_to_CK; exact Hrec | apply hook_CK | apply fresh_CK | apply fire_CK; exact Hrec]. Qed.
  Lemma pause_CK msg : CK (pause rec_ctl msg).
  Proof. intro w. unfold pause. cgo; first [apply fresh_CK | apply sia_from_CK | apply state_interrupt_CK | apply do_pause_CK]. Qed.
  Lemma play_CK : CK (play rec_ctl).
  Proof.
    intro w. unfold play, cancel_act, set_act_fut. cgo;
      first [apply state_recall_CK | apply sia_CK | apply hook_CK | apply schedule_CK | apply fire_CK; exact Hrec].
  Qed.
  Lemma kill_CK msg : CK (kill rec_ctl msg).
  Proof. intro w. unfold kill. cgo; first [apply fresh_CK | apply sia_from_CK | apply state_interrupt_CK | apply transition_to_CK; exact Hrec]. Qed.
  Lemma resume_CK v : CK (resume v). Proof. intro w. unfold resume, fresh, schedule. cgo. Qed.
  Lemma fail_CK x : CK (fail rec_ctl x). Proof. intro w. unfold fail. cgo. apply transition_to_CK; exact Hrec. Qed.
  Lemma ctl_body_CK c : CK (ctl_body rec_ctl c).
  Proof. destruct c; cbn [ctl_body]; [apply pause_CK | apply play_CK | apply kill_CK | apply resume_CK | apply fail_CK | intro w; cgo]. Qed.
End CfgControl.

Lemma do_ctl_CK fuel : forall c, CK (do_ctl fuel c).
Proof. induction fuel as [|f IH]; intro c; cbn [do_ctl]; [intro w; cgo | apply ctl_body_CK; exact IH]. Qed.
Lemma ctl_observed_CK c : CK (ctl_observed c). Proof. intro w. unfold ctl_observed, ctl_call. cgo. apply do_ctl_CK. Qed.
Lemma transition_CK ns : CK (transition ns). Proof. unfold transition. apply transition_to_CK. apply do_ctl_CK. Qed.
Lemma do_out_CK path v : CK (do_out path v).
Proof. intro w. unfold do_out. cgo; first [apply hook_CK | apply emit_CK | apply fire_CK; apply do_ctl_CK]. Qed.
Lemma set_t0_CK p : CK (set_t0 p). Proof. intro w. unfold set_t0. cgo. Qed.
Lemma run_actions_CK acts r : CK (run_actions acts r).
Proof.
  induction acts as [|a rest IH]; intro w; cbn [run_actions]; [cgo|].
  destruct a; cgo; first [apply IH | apply do_out_CK | apply schedule_CK | apply set_t0_CK | apply ctl_observed_CK | apply emit_CK].
Qed.
Lemma after_run_fn_CK o : CK (after_run_fn o). Proof. intro w. unfold after_run_fn. cgo. apply fresh_CK. Qed.
Lemma after_waiting_CK fn aw wk : CK (after_waiting fn aw wk).
Proof. intro w. unfold after_waiting, after_waiting_once, await_current, set_t0'. cgo; apply fresh_CK. Qed.
Lemma execute_state_CK : CK execute_state.
Proof. intro w. unfold execute_state. cgo; first [apply emit_CK | apply run_actions_CK | apply after_run_fn_CK | apply after_waiting_CK | apply set_t0_CK]. Qed.
Lemma do_pause_deferred_CK msg next : CK (do_pause_deferred msg next).
Proof. intro w. unfold do_pause_deferred. cgo; first [apply transition_CK | apply do_pause_CK; apply do_ctl_CK]. Qed.
Lemma run_action_CK id next : CK (run_action id next).
Proof. intro w. unfold run_action, set_act_fut. cgo; first [apply do_pause_deferred_CK | apply transition_CK]. Qed.
Lemma run_armed_CK fuel : forall ran, CK (run_armed fuel ran).
Proof. induction fuel as [|f IH]; intros ran w; cbn [run_armed]; cgo; first [apply run_action_CK | apply IH]. Qed.
Lemma finish_step_CK x : CK (finish_step x).
Proof. intro w. unfold finish_step. cgo; first [apply sia_from_CK | apply sia_CK | apply run_action_CK | apply run_armed_CK | apply transition_CK]. Qed.
Lemma loop_head_CK fuel : CK (loop_head fuel).
Proof. induction fuel as [|f IH]; intro w; cbn [loop_head]; cgo; first [apply set_t0_CK | apply execute_state_CK | apply finish_step_CK | apply IH]. Qed.
Lemma resume_t0_CK wk : CK (resume_t0 wk).
Proof.
  intro w. unfold resume_t0. cgo;
    first [apply loop_head_CK | apply set_t0_CK | apply execute_state_CK | apply finish_step_CK | apply run_actions_CK | apply after_run_fn_CK | apply after_waiting_CK].
Qed.
Lemma run_entry_CK r : CK (run_entry r).
Proof. intro w. unfold run_entry, ctl_call. cgo; first [apply resume_t0_CK | apply set_t0_CK | apply emit_CK | apply ctl_observed_CK | apply do_ctl_CK]. Qed.
Lemma tick_CK : CK tick. Proof. intro w. unfold tick. cgo. apply run_entry_CK. Qed.
Lemma drain_CK n : CK (drain n). Proof. induction n as [|n IH]; intro w; cbn [drain]; cgo; first [apply tick_CK | apply IH]. Qed.
Lemma env_step_m_CK ev : CK (env_step_m ev).
Proof. intro w. destruct ev; cbn [env_step_m]; cgo; first [apply tick_CK | apply ctl_observed_CK | apply emit_CK | apply schedule_CK | apply drain_CK]. Qed.

Lemma run_from_cfg es : forall w, cfg (run_from w es) = cfg w.
Proof.
  induction es as [|ev es IH]; intro w; [reflexivity|]. change (cfg (run_from (env_step w ev) es) = cfg w). rewrite IH. unfold env_step.
  apply (wp_run (env_step_m ev) (fun _ w' => cfg w' = cfg w) w). apply env_step_m_CK; [exact I | auto].
Qed.


Section Fault.
  Variables (h : string) (k : nat) (e : exn).
  Hypothesis Hsm : smhook h = true.

  Definition flt (w : world) : Prop := cf_fault (cfg w) = Some (h, k, e).
  Definition cnt (w : world) : nat := nat_assoc h (occ w).
  Definition nofire (w w' : world) : Prop := flt w -> k < cnt w' -> k < cnt w.
  Definition cl_same (w w' : world) : Prop := closed w' = closed w /\ hooks_alive w' = hooks_alive w.
  Definition cl_set (w' : world) : Prop := closed w' = true /\ hooks_alive w' = false.
  Lemma cl_same_trans a b c : cl_same a b -> cl_same b c -> cl_same a c.
  Proof. intros [X1 Y1] [X2 Y2]. split; congruence. Qed.
  (* alive unless closed *)
  Definition AL (w : world) : Prop := hooks_alive w = false -> closed w = true.
  Lemma AL_step w w' : AL w -> (cl_same w w' \/ cl_set w') -> AL w'.
  Proof. intros H [[X Y]|[X Y]] Ha; [rewrite X; apply H; rewrite <- Y; exact Ha | exact X]. Qed.

  Definition handled (w : world) : Prop :=
    AL w /\ (flt w -> k < cnt w -> st w = Some (SExcepted e) /\ pfut w = PfExn e /\ closed w = true).

  Lemma spent_cnt w : flt w -> (spent w <-> k < cnt w).
  Proof. unfold flt, spent, cnt. intros ->. reflexivity. Qed.

  Ltac sm_cases H :=
    unfold smhook in H; cbn [existsb] in H;
    repeat (apply orb_true_iff in H; destruct H as [H|H]); try discriminate H; apply String.eqb_eq in H; subst.

  Lemma sm_not_listener name : String.eqb h ("L:" ++ name) = false.
  Proof. pose proof Hsm as H. sm_cases H; reflexivity. Qed.

  Lemma sm_not_other x : In x ["on_pausing"; "on_paused"; "on_playing"; "on_output_emitting"; "on_create"] -> String.eqb h x = false.
  Proof.
    intro Hx. pose proof Hsm as H. cbn in Hx. repeat (destruct Hx as [<-|Hx]); try contradiction; sm_cases H; reflexivity.
  Qed.

  (* ---------------------------------------------------------------- EX: control level, inside a transition *)
  Definition EXr (w w' : world) : Prop :=
    transitioning w' = transitioning w /\ cfg w' = cfg w
    /\ (transitioning w = true ->
        cnt w' = cnt w /\ closed w' = closed w /\ hooks_alive w' = hooks_alive w /\ pfut w' = pfut w
        /\ (is_terminated w = true -> st w' = st w)).

  Lemma EXr_refl w : Tr1 w -> EXr w w.
  Proof. intros _. repeat split; reflexivity. Qed.
  Lemma EXr_trans a b c : EXr a b -> EXr b c -> EXr a c.
  Proof.
    intros (T1 & C1 & H1) (T2 & C2 & H2). split; [congruence|]. split; [congruence|]. intro Ht.
    destruct (H1 Ht) as (N1 & L1 & A1 & P1 & S1). destruct (H2 (eq_trans T1 Ht)) as (N2 & L2 & A2 & P2 & S2).
    split; [congruence|]. split; [congruence|]. split; [congruence|]. split; [congruence|].
    intro Hterm. rewrite S2; [apply S1; exact Hterm|]. unfold is_terminated in *. rewrite (S1 Hterm). exact Hterm.
  Qed.
  Lemma EXr_pre a b : Tr1 a -> EXr a b -> Tr1 b.
  Proof. intros; exact I. Qed.

  Notation Eat := (Hat Tr1 EXr).
  Definition EK {A} (m : LM A) : Prop := forall w, Eat m w.

  Section CombE.
    Context {A B : Type}.
    Lemma Eat_ret (a : A) w : Eat (ret a) w. Proof. apply Hat_ret. exact EXr_refl. Qed.
    Lemma Eat_raise x w : Eat (raise x : LM A) w. Proof. apply Hat_raise. exact EXr_refl. Qed.
    Lemma Eat_bind (m : LM A) (f : A -> LM B) w : Eat m w -> (forall a, EK (f a)) -> Eat (bind m f) w.
    Proof. intros H1 H2. eapply Hat_bind; [exact EXr_trans | exact EXr_pre | exact H1 | intros a w1; apply H2]. Qed.
    Lemma Eat_get (f : world -> LM A) w : Eat (f w) w -> Eat (bind get f) w. Proof. apply Hat_get. Qed.
    Lemma Eat_attempt (m : LM A) w : Eat m w -> Eat (attempt m) w. Proof. apply Hat_attempt. Qed.
    Lemma Eat_finally (m : LM A) f w : Eat m w -> EK f -> Eat (finally m f) w.
    Proof. intros H1 H2. eapply Hat_finally; [exact EXr_trans | exact EXr_pre | exact H1 | exact H2]. Qed.
  End CombE.
  Lemma Eat_when b (m : LM unit) w : (b = true -> Eat m w) -> Eat (when b m) w.
  Proof. apply Hat_when. exact EXr_refl. Qed.
  Lemma EK_mapM {A} (f : A -> LM unit) l : (forall x, EK (f x)) -> EK (mapM_ f l).
  Proof. intros H w. eapply Hat_mapM; [exact EXr_refl | exact EXr_trans | exact EXr_pre | intros x w1; apply H]. Qed.

  Ltac estep2 :=
    lazymatch goal with
    | |- EK _ => intro
    | |- Hat Tr1 EXr (bind get _) _ => apply Eat_get; cbv beta
    | |- Hat Tr1 EXr (bind _ _) _ => apply Eat_bind; [ | intro ]
    | |- Hat Tr1 EXr (ret _) _ => apply Eat_ret
    | |- Hat Tr1 EXr (raise _) _ => apply Eat_raise
    | |- Hat Tr1 EXr (attempt _) _ => apply Eat_attempt
    | |- Hat Tr1 EXr (finally _ _) _ => apply Eat_finally
    | |- Hat Tr1 EXr (when _ _) _ => apply Eat_when; intro
    | |- Hat _ _ (match ?x with _ => _ end) _ => destruct x eqn:?
    | |- Hat _ _ (if ?x then _ else _) _ => destruct x eqn:?
    | |- Hat _ _ (let _ := _ in _) _ => cbv zeta
    end.

  (* strict frames: configuration, flags and hook counters untouched, a terminal state left alone *)
  Definition neq (w w' : world) : Prop :=
    transitioning w' = transitioning w /\ cfg w' = cfg w /\ occ w' = occ w /\ closed w' = closed w /\ hooks_alive w' = hooks_alive w
    /\ pfut w' = pfut w /\ (is_terminated w = true -> st w' = st w).
  Definition FrN {A} (m : LM A) : Prop :=
    forall w (Q : result A -> world -> Prop), (forall r w', neq w w' -> Q r w') -> wp m Q w.
  Lemma FrN_EK {A} (m : LM A) : FrN m -> EK m.
  Proof.
    intros H w Q _ HQ. apply H. intros r w' (T & C & O & L & Al & P & S). apply HQ. split; [exact T|]. split; [exact C|]. intros _.
    split; [unfold cnt; rewrite O; reflexivity | repeat split; assumption].
  Qed.
  Ltac neq_done :=
    repeat split;
    first [ reflexivity
          | (let Hterm := fresh "Hterm" in
             intro Hterm; exfalso; unfold is_terminated in Hterm;
             repeat match goal with H : st _ = _ |- _ => cbn in H; rewrite H in Hterm end; cbn in Hterm; revert Hterm; discriminate) ].
  Ltac frn_auto := intros w Q HQ; repeat (wp_prim || wp_case); apply HQ; neq_done.

  Lemma emit_FrN ev : FrN (emit ev). Proof. unfold emit. frn_auto. Qed.
  Lemma schedule_FrN r : FrN (schedule r). Proof. unfold schedule. frn_auto. Qed.
  Lemma fresh_FrN : FrN fresh. Proof. unfold fresh. frn_auto. Qed.
  Lemma state_interrupt_FrN iid : FrN (state_interrupt iid). Proof. unfold state_interrupt, schedule. frn_auto. Qed.
  Lemma state_recall_FrN iid : FrN (state_recall iid). Proof. unfold state_recall, fresh. frn_auto. Qed.
  Lemma resume_FrN v : FrN (resume v). Proof. unfold resume, fresh, schedule. frn_auto. Qed.
  Lemma cancel_act_FrN id : FrN (cancel_act id). Proof. unfold cancel_act, set_act_fut. frn_auto. Qed.
  Lemma sia_FrN new : FrN (set_interrupt_action new). Proof. unfold set_interrupt_action, cancel_act, set_act_fut. frn_auto. Qed.
  Lemma sia_from_FrN kd c : FrN (set_interrupt_action_from kd c).
  Proof. unfold set_interrupt_action_from, set_interrupt_action, cancel_act, set_act_fut. frn_auto. Qed.
  Lemma modify_FrN f : (forall w, neq w (f w)) -> FrN (modify f).
  Proof. intros H w Q HQ. wp_prim. apply HQ. apply H. Qed.

  (* a hook other than h *)
  Lemma hook_other_EK name : String.eqb h name = false -> EK (hook name).
  Proof.
    intros Hne w Q _ HQ. unfold hook, emit. repeat (wp_prim || wp_case); apply HQ; (split; [reflexivity|]; split; [reflexivity|]; intros _;
      split; [unfold cnt; cbn; apply nat_assoc_bump_other; exact Hne | repeat split; reflexivity]).
  Qed.

  Lemma FrN_ret {A} (a : A) : FrN (ret a : LM A). Proof. frn_auto. Qed.

  Section ControlE.
    Variable rec_ctl : ctl -> LM cret.
    Hypothesis Hrec : forall c, EK (rec_ctl c).

    Lemma fire_EK name : EK (fire rec_ctl name).
    Proof.
      intro w. unfold fire. estep2. estep2.
      - intros Q _ HQ. wp_prim. apply HQ. split; [reflexivity|]. split; [reflexivity|]. intros _.
        split; [unfold cnt; cbn; apply nat_assoc_bump_other; apply sm_not_listener | repeat split; reflexivity].
      - estep2. estep2; [apply FrN_EK; apply emit_FrN|]. estep2. apply EK_mapM. intros ls w2.
        estep2; [|apply Eat_ret]. estep2; [apply Eat_attempt; apply Hrec|]. estep2. apply FrN_EK. apply emit_FrN.
    Qed.

    Ltac eleaf :=
      first [ apply fire_EK
            | apply hook_other_EK; apply sm_not_other; cbn; tauto
            | apply FrN_EK; first [ apply fresh_FrN | apply schedule_FrN | apply state_interrupt_FrN | apply state_recall_FrN
                                  | apply resume_FrN | apply cancel_act_FrN | apply sia_FrN | apply sia_from_FrN | apply emit_FrN
                                  | (apply modify_FrN; intro; repeat split; reflexivity) ] ].
    Ltac eauto2 := repeat first [ estep2 | eleaf ].

    Lemma Hrec_CK c : CK (rec_ctl c).
    Proof. intros w Q _ HQ. apply Hrec; [exact I|]. intros r w' (_ & C & _). apply HQ. exact C. Qed.

    (* a transition requested while another one is under way is refused at once; otherwise the flags are lowered again *)
    Lemma transition_to_EK ns : EK (transition_to rec_ctl ns).
    Proof.
      intros w Q _ HQ.
      eapply wp_use; [apply (wp_conj _ (fun _ w' => cfg w' = cfg w) (fun _ w' => cfg w' = cfg w -> EXr w w')); [apply (transition_to_CK rec_ctl Hrec_CK ns w (fun _ w' => cfg w' = cfg w)); [exact I | auto]|]|].
      2: { intros r w' [C X]. apply HQ. exact (X C). }
      unfold transition_to. do 2 wp_prim. destruct (transitioning w) eqn:Ht.
      - wp_prim. intros _. apply EXr_refl. exact I.
      - destruct ns as [ns|]; [|wp_prim; intros _; apply EXr_refl; exact I].
        eapply wp_use; [apply (finally_post _ _ (fun s => transitioning s = false)); intro; reflexivity|].
        intros r w' T C. split; [congruence|]. split; [exact C|]. intro X. congruence.
    Qed.

    Lemma do_pause_EK msg : EK (do_pause rec_ctl msg None).
    Proof. intro w. unfold do_pause. eauto2. Qed.

    Lemma pause_EK msg : EK (pause rec_ctl msg).
    Proof. intro w. unfold pause. eauto2. apply do_pause_EK. Qed.

    Lemma play_EK : EK (play rec_ctl).
    Proof. intro w. unfold play. eauto2. Qed.

    Lemma kill_EK msg : EK (kill rec_ctl msg).
    Proof. intro w. unfold kill. eauto2; apply transition_to_EK. Qed.

    Lemma fail_EK x : EK (fail rec_ctl x).
    Proof. intro w. unfold fail. eauto2; apply transition_to_EK. Qed.

    Lemma ctl_body_EK c : EK (ctl_body rec_ctl c).
    Proof.
      destruct c; cbn [ctl_body]; [apply pause_EK | apply play_EK | apply kill_EK | apply FrN_EK; apply resume_FrN | apply fail_EK |].
      intro w. apply Eat_raise.
    Qed.
  End ControlE.

  Lemma do_ctl_EK fuel : forall c, EK (do_ctl fuel c).
  Proof.
    induction fuel as [|f IH]; intros c; cbn [do_ctl]; [intro w; apply Eat_raise|]. apply ctl_body_EK. exact IH.
  Qed.

  (* ---------------------------------------------------------------- NP: inside a transition *)
  Definition NPr {A} (r : result A) (w w' : world) : Prop :=
    transitioning w' = true /\ cfg w' = cfg w /\ (is_ok r -> nofire w w')
    /\ (forall e1, r = Err e1 -> (flt w -> e1 = e) \/ nofire w w').

  Definition NPat {A} (m : LM A) (w : world) : Prop :=
    forall Q : result A -> world -> Prop, transitioning w = true -> (forall r w', NPr r w w' -> Q r w') -> wp m Q w.
  Definition NK {A} (m : LM A) : Prop := forall w, NPat m w.

  Lemma nofire_refl w : nofire w w. Proof. intros _ H. exact H. Qed.
  Lemma nofire_trans a b c : cfg b = cfg a -> nofire a b -> nofire b c -> nofire a c.
  Proof. intros C H1 H2 F X. apply H1; [exact F|]. apply H2; [unfold flt in *; rewrite C; exact F | exact X]. Qed.
  Lemma nofire_cnt w w' : cnt w' = cnt w -> nofire w w'.
  Proof. intros E _ H. rewrite <- E. exact H. Qed.

  Lemma NP_ret {A} (a : A) w : NPat (ret a) w.
  Proof. intros Q T HQ. wp_prim. apply HQ. split; [exact T|]. split; [reflexivity|]. split; [intros _; apply nofire_refl | discriminate]. Qed.
  Lemma NP_raise {A} x w : NPat (raise x : LM A) w.
  Proof. intros Q T HQ. wp_prim. apply HQ. split; [exact T|]. split; [reflexivity|]. split; [intros [] | intros e1 _; right; apply nofire_refl]. Qed.
  Lemma NP_bind {A B} (m : LM A) (f : A -> LM B) w : NPat m w -> (forall a, NK (f a)) -> NPat (bind m f) w.
  Proof.
    intros Hm Hf Q T HQ. wp_prim. apply Hm; [exact T|]. intros r w1 (T1 & C1 & O1 & E1). destruct r as [a|x]; cbv beta iota.
    - apply Hf; [exact T1|]. intros r2 w2 (T2 & C2 & O2 & E2). apply HQ. split; [exact T2|]. split; [congruence|]. split.
      + intro H. eapply nofire_trans; [exact C1 | apply O1; exact I | apply O2; exact H].
      + intros e1 H. destruct (E2 e1 H) as [X|X]; [left; intro F; apply X; unfold flt in *; rewrite C1; exact F|].
        right. eapply nofire_trans; [exact C1 | apply O1; exact I | exact X].
    - apply HQ. split; [exact T1|]. split; [exact C1|]. split; [intros [] | intros e1 H; injection H as <-; apply E1; reflexivity].
  Qed.
  Lemma NP_get {A} (f : world -> LM A) w : NPat (f w) w -> NPat (bind get f) w.
  Proof. intros H Q T HQ. do 2 wp_prim. apply H; assumption. Qed.
  Lemma NP_when b (m : LM unit) w : (b = true -> NPat m w) -> NPat (when b m) w.
  Proof. destruct b; intro H; [apply H; reflexivity | apply NP_ret]. Qed.

  (* frames: flags, configuration and counters untouched *)
  Definition teq (w w' : world) : Prop := transitioning w' = transitioning w /\ cfg w' = cfg w /\ occ w' = occ w.
  Definition FrT {A} (m : LM A) : Prop :=
    forall w (Q : result A -> world -> Prop), (forall r w', teq w w' -> Q r w') -> wp m Q w.
  Lemma FrT_NK {A} (m : LM A) : FrT m -> NK m.
  Proof.
    intros H w Q T HQ. apply H. intros r w' (T1 & C1 & O1). apply HQ. split; [congruence|]. split; [exact C1|].
    assert (N : nofire w w') by (apply nofire_cnt; unfold cnt; rewrite O1; reflexivity). split; [intros _; exact N | intros e1 _; right; exact N].
  Qed.
  Ltac frt_auto := intros w Q HQ; repeat (wp_prim || wp_case); apply HQ; repeat split; reflexivity.
  Lemma emit_FrT ev : FrT (emit ev). Proof. unfold emit. frt_auto. Qed.
  Lemma schedule_FrT r : FrT (schedule r). Proof. unfold schedule. frt_auto. Qed.
  Lemma pfut_set_FrT f : FrT (pfut_set f). Proof. unfold pfut_set, schedule. frt_auto. Qed.
  Lemma modify_FrT f : (forall w, teq w (f w)) -> FrT (modify f).
  Proof. intros H w Q HQ. wp_prim. apply HQ. apply H. Qed.

  Lemma hook_NK name : NK (hook name).
  Proof.
    intros w Q T HQ. unfold hook, emit. repeat wp_prim.
    destruct (cf_fault (cfg w)) as [[[h' k'] e']|] eqn:Hf; cbn [cfg set]; rewrite ?Hf.
    - destruct (String.eqb h' name && Nat.eqb k' (nat_assoc name (occ w))) eqn:Hc; wp_prim; apply HQ.
      + split; [exact T|]. split; [reflexivity|]. split; [intros []|]. intros e1 H1. injection H1 as <-. left.
        unfold flt. cbn. rewrite Hf. intro X. injection X as _ _ <-. reflexivity.
      + split; [exact T|]. split; [reflexivity|]. split; [|discriminate]. intros _ F. unfold flt in F. cbn in F. rewrite Hf in F.
        injection F as -> -> ->. unfold cnt. cbn. destruct (String.eqb h name) eqn:Hn.
        * apply String.eqb_eq in Hn. subst name. rewrite nat_assoc_bump_same. cbn in Hc.
          apply Nat.eqb_neq in Hc. lia.
        * rewrite (nat_assoc_bump_other _ _ _ Hn). auto.
    - wp_prim. apply HQ. split; [exact T|]. split; [reflexivity|]. split; [|discriminate]. intros _ F. unfold flt in F. cbn in F. congruence.
  Qed.

  Ltac nstep :=
    lazymatch goal with
    | |- NK _ => intro
    | |- NPat (bind get _) _ => apply NP_get; cbv beta
    | |- NPat (bind _ _) _ => apply NP_bind; [ | intro ]
    | |- NPat (ret _) _ => apply NP_ret
    | |- NPat (raise _) _ => apply NP_raise
    | |- NPat (when _ _) _ => apply NP_when; intro
    | |- NPat (match ?x with _ => _ end) _ => destruct x eqn:?
    | |- NPat (if ?x then _ else _) _ => destruct x eqn:?
    | |- NPat (let _ := _ in _) _ => cbv zeta
    end.

  Lemma put_NP w w' : teq w w' -> NPat (put w') w.
  Proof.
    intros (T1 & C1 & O1) Q T HQ. wp_prim. apply HQ. split; [congruence|]. split; [exact C1|].
    assert (N : nofire w w') by (apply nofire_cnt; unfold cnt; rewrite O1; reflexivity). split; [intros _; exact N | discriminate].
  Qed.

  Section TransitionN.
    Variable rec_ctl : ctl -> LM cret.
    Hypothesis Hrec : forall c, EK (rec_ctl c).

    Lemma mapM_ok {A} (f : A -> LM unit) l : (forall x w, wp (f x) (fun r _ => is_ok r) w) -> forall w, wp (mapM_ f l) (fun r _ => is_ok r) w.
    Proof.
      intro Hf. induction l as [|x l IH]; intro w; cbn [mapM_]; [wp_prim; exact I|].
      wp_prim. eapply wp_use; [apply Hf|]. intros r w1 Hr. destruct r; [|destruct Hr]. apply IH.
    Qed.

    Lemma wp_any {A} (m : LM A) (Q : result A -> world -> Prop) w : (forall r s, Q r s) -> wp m Q w.
    Proof. intro H. unfold wp. apply H. Qed.

    Lemma fire_ok name w : wp (fire rec_ctl name) (fun r _ => is_ok r) w.
    Proof.
      unfold fire, emit. repeat wp_prim. apply mapM_ok. intros ls w1.
      destruct (String.eqb (ls_event ls) name && Nat.eqb (ls_occ ls) (nat_assoc ("L:" ++ name) (occ w))); [|wp_prim; exact I].
      do 2 wp_prim. apply wp_any. intros r s. unfold emit. wp_prim. exact I.
    Qed.

    (* notifying the listeners never fails and, inside a transition, runs no transition hook *)
    Lemma fire_NK name : NK (fire rec_ctl name).
    Proof.
      intros w Q T HQ.
      eapply wp_use; [apply wp_conj; [apply (fire_EK rec_ctl Hrec name w (fun _ w' => EXr w w')); [exact I | auto] | apply fire_ok]|].
      intros r w' [(T1 & C1 & X1) Hr]. destruct (X1 T) as [N1 _]. apply HQ. split; [congruence|]. split; [exact C1|].
      split; [intros _; apply nofire_cnt; exact N1|]. intros e1 He. subst r. destruct Hr.
    Qed.

    Ltac nleaf :=
      first [ apply hook_NK | apply fire_NK
            | apply FrT_NK; first [ apply emit_FrT | apply schedule_FrT | apply pfut_set_FrT
                                  | (apply modify_FrT; intro; repeat split; reflexivity) ]
            | (apply put_NP; repeat split; reflexivity) ].
    Ltac nauto := repeat first [ nstep | nleaf ].

    Lemma on_close_NK : NK on_close.
    Proof.
      intros w Q T HQ. unfold on_close. wp_prim. apply hook_NK; [exact T|]. intros r w1 N1. destruct r as [u|x]; cbv beta iota.
      2: { apply HQ. exact N1. }
      destruct N1 as (T1 & C1 & O1 & _). wp_prim.
      assert (HB : FrT (bind get (fun w => bind (mapM_ (fun c => emit (EvCleanup c)) (cleanups w)) (fun _ => modify (fun w => w <| cleanups := [] |>))))).
      { intros wz Qz Hz. do 3 wp_prim.
        assert (Hm : forall l wy (Qy : result unit -> world -> Prop), (forall r w', teq wy w' -> Qy r w') -> wp (mapM_ (fun c => emit (EvCleanup c)) l) Qy wy).
        { induction l as [|c l IH]; intros wy Qy Hy; cbn [mapM_]; [wp_prim; apply Hy; repeat split; reflexivity|].
          wp_prim. apply emit_FrT. intros r w' E1. destruct r; cbv beta iota; [|apply Hy; exact E1].
          apply IH. intros r2 w2 E2. apply Hy. destruct E1 as (A1 & A2 & A3). destruct E2 as (B1 & B2 & B3). repeat split; congruence. }
        apply Hm. intros r w' E1. destruct r; cbv beta iota; [wp_prim|]; apply Hz; [|exact E1].
        destruct E1 as (A1 & A2 & A3). repeat split; assumption. }
      apply HB. intros r2 w2 (A1 & A2 & A3). wp_prim.
      assert (N : nofire w (w2 <| hooks_alive := false |> <| closed := true |>)).
      { eapply nofire_trans; [exact C1 | apply O1; exact I | apply nofire_cnt; unfold cnt; cbn; rewrite A3; reflexivity]. }
      destruct r2; apply HQ; (split; [cbn; congruence|]; split; [cbn; congruence|]; split; [intros _; exact N | intros e1 _; right; exact N]).
    Qed.

    Lemma close_NK : NK close.
    Proof. intro w. unfold close. nstep. nstep; [nstep | apply on_close_NK]. Qed.

    Lemma on_entering_NK ns : NK (on_entering ns).
    Proof. intro w. unfold on_entering. nauto. Qed.

    Lemma on_entered_NK w0 : NK (on_entered rec_ctl w0).
    Proof. intro w. unfold on_entered. nauto. Qed.

    Lemma exit_current_NK ns : NK (exit_current ns).
    Proof. intro w. unfold exit_current. nauto. Qed.

    Lemma enter_next_NK ns : NK (enter_next rec_ctl ns).
    Proof.
      intro w. unfold enter_next. nstep. nstep; [nstep; [apply on_entering_NK | nstep]|]. nstep. nstep; [nstep|].
      nstep. nstep; [nleaf|]. nstep. nstep; [nleaf|]. nstep. nstep. nstep; [nstep; apply on_entered_NK | nstep; nstep].
    Qed.

    Lemma on_terminated_NK : NK on_terminated.
    Proof. intro w. unfold on_terminated. nstep; [nleaf|]. nstep. nstep. nstep; [nauto | nstep; apply close_NK]. Qed.

    Lemma transition_body_N ns w (Q : result unit -> world -> Prop) :
      transitioning w = false -> (forall r w', NPr r w w' -> Q r w') -> wp (transition_body rec_ctl ns) Q w.
    Proof.
      intros T HQ. unfold transition_body. do 2 wp_prim.
      assert (H : NK (bind get (fun w => bind (when (negb (transition_failing w)) (exit_current ns))
                    (fun _ => bind (enter_next rec_ctl ns) (fun r => bind (match r with
                       | Some s' => bind (exit_current s') (fun _ => bind (enter_next rec_ctl s') (fun _ => ret tt))
                       | None => ret tt end) (fun _ => bind get (fun w' => when (is_terminated w') on_terminated))))))).
      { intro w0. nstep. nstep; [nstep; apply exit_current_NK|]. nstep. nstep; [apply enter_next_NK|]. nstep.
        nstep; [nstep; [nstep; [apply exit_current_NK|]; nstep; nstep; [apply enter_next_NK | nstep; nstep] | nstep]|].
        nstep. nstep. nstep. apply on_terminated_NK. }
      apply H; [reflexivity|]. intros r w' N. apply HQ. exact N.
    Qed.

    (* ---------------------------------------------------------------- a terminal state is left alone by what follows its entry *)
    Definition SSr (w w' : world) : Prop :=
      transitioning w' = transitioning w
      /\ (transitioning w = true -> pfut w' = pfut w /\ (is_terminated w = true -> st w' = st w)).
    Lemma SSr_refl w : Tr1 w -> SSr w w. Proof. intros _. split; auto. Qed.
    Lemma SSr_trans a b c : SSr a b -> SSr b c -> SSr a c.
    Proof.
      intros [T1 S1] [T2 S2]. split; [congruence|]. intros Ht. destruct (S1 Ht) as [P1 M1]. destruct (S2 (eq_trans T1 Ht)) as [P2 M2].
      split; [congruence|]. intro Hm. rewrite M2; [apply M1; exact Hm|]. unfold is_terminated in *. rewrite (M1 Hm). exact Hm.
    Qed.
    Lemma SSr_pre a b : Tr1 a -> SSr a b -> Tr1 b. Proof. intros; exact I. Qed.
    Definition SK {A} (m : LM A) : Prop := forall w, Hat Tr1 SSr m w.

    Ltac sstep :=
      lazymatch goal with
      | |- SK _ => intro
      | |- Hat Tr1 SSr (bind get _) _ => apply Hat_get; cbv beta
      | |- Hat Tr1 SSr (bind _ _) _ => eapply Hat_bind; [exact SSr_trans | exact SSr_pre | | intros ? ? ]
      | |- Hat Tr1 SSr (ret _) _ => apply Hat_ret; exact SSr_refl
      | |- Hat Tr1 SSr (raise _) _ => apply Hat_raise; exact SSr_refl
      | |- Hat Tr1 SSr (attempt _) _ => apply Hat_attempt
      | |- Hat Tr1 SSr (finally _ _) _ => eapply Hat_finally; [exact SSr_trans | exact SSr_pre | | intro ]
      | |- Hat Tr1 SSr (when _ _) _ => apply Hat_when; [exact SSr_refl | intro ]
      | |- Hat Tr1 SSr (modify _) _ => apply Hat_modify; split; [reflexivity | intros _; split; reflexivity]
      | |- Hat Tr1 SSr (put _) _ => apply Hat_put; split; [reflexivity | intros _; split; reflexivity]
      | |- Hat Tr1 SSr (mapM_ _ _) _ => eapply Hat_mapM; [exact SSr_refl | exact SSr_trans | exact SSr_pre | intros ? ? ]
      | |- Hat _ _ (match ?x with _ => _ end) _ => destruct x eqn:?
      | |- Hat _ _ (if ?x then _ else _) _ => destruct x eqn:?
      | |- Hat _ _ (let _ := _ in _) _ => cbv zeta
      end.
    Ltac sgo := repeat sstep.

    Lemma hook_SK name : SK (hook name). Proof. intro w. unfold hook, emit. sgo. Qed.
    Lemma rec_SK c : SK (rec_ctl c).
    Proof. intros w Q _ HQ. apply Hrec; [exact I|]. intros r w' (T1 & _ & X). apply HQ. split; [exact T1|]. intros Ht. destruct (X Ht) as (_ & _ & _ & P & S). split; assumption. Qed.
    Lemma fire_SK name : SK (fire rec_ctl name).
    Proof. intro w. unfold fire, emit. sgo. apply rec_SK. Qed.
    Lemma on_entered_SK w0 : SK (on_entered rec_ctl w0).
    Proof. intro w. unfold on_entered. sgo; first [apply hook_SK | apply fire_SK]. Qed.
    Lemma on_close_SK : SK on_close. Proof. intro w. unfold on_close, emit. sgo; apply hook_SK. Qed.
    Lemma close_SK : SK close. Proof. intro w. unfold close. sgo. apply on_close_SK. Qed.
    Lemma on_terminated_SK : SK on_terminated.
    Proof. intro w. unfold on_terminated, schedule. sgo; first [apply hook_SK | apply close_SK]. Qed.

    (* ---------------------------------------------------------------- closed / hooks released: unchanged, or set together *)
    Definition NCr (w w' : world) : Prop :=
      transitioning w' = transitioning w /\ (transitioning w = true -> cl_same w w' \/ cl_set w').
    Lemma NCr_refl w : Tr1 w -> NCr w w. Proof. intros _. split; [reflexivity | intros _; left; split; reflexivity]. Qed.
    Lemma NCr_trans a b c : NCr a b -> NCr b c -> NCr a c.
    Proof.
      intros [T1 S1] [T2 S2]. split; [congruence|]. intros Ht.
      destruct (S2 (eq_trans T1 Ht)) as [[X Y]|X]; [|right; exact X].
      destruct (S1 Ht) as [[X1 Y1]|[X1 Y1]]; [left; split; congruence | right; split; congruence].
    Qed.
    Lemma NCr_pre a b : Tr1 a -> NCr a b -> Tr1 b. Proof. intros; exact I. Qed.
    Definition NCK {A} (m : LM A) : Prop := forall w, Hat Tr1 NCr m w.

    Ltac ncstep :=
      lazymatch goal with
      | |- NCK _ => intro
      | |- Hat Tr1 NCr (bind get _) _ => apply Hat_get; cbv beta
      | |- Hat Tr1 NCr (bind _ _) _ => eapply Hat_bind; [exact NCr_trans | exact NCr_pre | | intros ? ? ]
      | |- Hat Tr1 NCr (ret _) _ => apply Hat_ret; exact NCr_refl
      | |- Hat Tr1 NCr (raise _) _ => apply Hat_raise; exact NCr_refl
      | |- Hat Tr1 NCr (attempt _) _ => apply Hat_attempt
      | |- Hat Tr1 NCr (finally _ _) _ => eapply Hat_finally; [exact NCr_trans | exact NCr_pre | | intro ]
      | |- Hat Tr1 NCr (when _ _) _ => apply Hat_when; [exact NCr_refl | intro ]
      | |- Hat Tr1 NCr (modify _) _ => apply Hat_modify; split; [reflexivity | intros _; first [left; split; reflexivity | right; split; reflexivity]]
      | |- Hat Tr1 NCr (put _) _ => apply Hat_put; split; [reflexivity | intros _; first [left; split; reflexivity | right; split; reflexivity]]
      | |- Hat Tr1 NCr (mapM_ _ _) _ => eapply Hat_mapM; [exact NCr_refl | exact NCr_trans | exact NCr_pre | intros ? ? ]
      | |- Hat _ _ (match ?x with _ => _ end) _ => destruct x eqn:?
      | |- Hat _ _ (if ?x then _ else _) _ => destruct x eqn:?
      | |- Hat _ _ (let _ := _ in _) _ => cbv zeta
      end.
    Ltac ncgo := repeat ncstep.

    Lemma hook_NCK name : NCK (hook name). Proof. intro w. unfold hook, emit. ncgo. Qed.
    Lemma rec_NCK c : NCK (rec_ctl c).
    Proof.
      intros w Q _ HQ. apply Hrec; [exact I|]. intros r w' (T1 & _ & X). apply HQ. split; [exact T1|]. intros Ht.
      destruct (X Ht) as (_ & L & A & _). left. split; assumption.
    Qed.
    Lemma fire_NCK name : NCK (fire rec_ctl name). Proof. intro w. unfold fire, emit. ncgo. apply rec_NCK. Qed.
    Lemma pfut_set_NCK f : NCK (pfut_set f). Proof. intro w. unfold pfut_set, schedule. ncgo. Qed.
    Lemma on_entering_NCK ns : NCK (on_entering ns).
    Proof. intro w. unfold on_entering. ncgo; first [apply hook_NCK | apply pfut_set_NCK]. Qed.
    Lemma on_entered_NCK w0 : NCK (on_entered rec_ctl w0).
    Proof. intro w. unfold on_entered. ncgo; first [apply hook_NCK | apply fire_NCK]. Qed.
    Lemma exit_current_NCK ns : NCK (exit_current ns).
    Proof. intro w. unfold exit_current, schedule. ncgo; apply hook_NCK. Qed.
    Lemma enter_next_NCK ns : NCK (enter_next rec_ctl ns).
    Proof. intro w. unfold enter_next, emit. ncgo; first [apply on_entering_NCK | apply on_entered_NCK]. Qed.
    Lemma on_close_NCK : NCK on_close. Proof. intro w. unfold on_close, emit. ncgo; apply hook_NCK. Qed.
    Lemma close_NCK : NCK close. Proof. intro w. unfold close. ncgo. apply on_close_NCK. Qed.
    Lemma on_terminated_NCK : NCK on_terminated.
    Proof. intro w. unfold on_terminated, schedule. ncgo; first [apply hook_NCK | apply close_NCK]. Qed.

    (* the operations that never close: closed / hooks_alive untouched (inside a transition) *)
    Definition NSr (w w' : world) : Prop :=
      transitioning w' = transitioning w /\ (transitioning w = true -> cl_same w w').
    Lemma NSr_refl w : Tr1 w -> NSr w w. Proof. intros _. split; [reflexivity | intros _; split; reflexivity]. Qed.
    Lemma NSr_trans a b c : NSr a b -> NSr b c -> NSr a c.
    Proof.
      intros [T1 S1] [T2 S2]. split; [congruence|]. intros Ht. destruct (S1 Ht) as [X1 Y1]. destruct (S2 (eq_trans T1 Ht)) as [X2 Y2].
      split; congruence.
    Qed.
    Lemma NSr_pre a b : Tr1 a -> NSr a b -> Tr1 b. Proof. intros; exact I. Qed.
    Definition NSK {A} (m : LM A) : Prop := forall w, Hat Tr1 NSr m w.
    Ltac nsstep :=
      lazymatch goal with
      | |- NSK _ => intro
      | |- Hat Tr1 NSr (bind get _) _ => apply Hat_get; cbv beta
      | |- Hat Tr1 NSr (bind _ _) _ => eapply Hat_bind; [exact NSr_trans | exact NSr_pre | | intros ? ? ]
      | |- Hat Tr1 NSr (ret _) _ => apply Hat_ret; exact NSr_refl
      | |- Hat Tr1 NSr (raise _) _ => apply Hat_raise; exact NSr_refl
      | |- Hat Tr1 NSr (attempt _) _ => apply Hat_attempt
      | |- Hat Tr1 NSr (when _ _) _ => apply Hat_when; [exact NSr_refl | intro ]
      | |- Hat Tr1 NSr (modify _) _ => apply Hat_modify; split; [reflexivity | intros _; split; reflexivity]
      | |- Hat Tr1 NSr (put _) _ => apply Hat_put; split; [reflexivity | intros _; split; reflexivity]
      | |- Hat Tr1 NSr (mapM_ _ _) _ => eapply Hat_mapM; [exact NSr_refl | exact NSr_trans | exact NSr_pre | intros ? ? ]
      | |- Hat _ _ (match ?x with _ => _ end) _ => destruct x eqn:?
      | |- Hat _ _ (if ?x then _ else _) _ => destruct x eqn:?
      | |- Hat _ _ (let _ := _ in _) _ => cbv zeta
      end.
    Ltac nsgo := repeat nsstep.
    Lemma hook_NSK name : NSK (hook name). Proof. intro w. unfold hook, emit. nsgo. Qed.
    Lemma rec_NSK c : NSK (rec_ctl c).
    Proof.
      intros w Q _ HQ. apply Hrec; [exact I|]. intros r w' (T1 & _ & X). apply HQ. split; [exact T1|]. intros Ht.
      destruct (X Ht) as (_ & L & A & _). split; assumption.
    Qed.
    Lemma fire_NSK name : NSK (fire rec_ctl name). Proof. intro w. unfold fire, emit. nsgo. apply rec_NSK. Qed.
    Lemma pfut_set_NSK f : NSK (pfut_set f). Proof. intro w. unfold pfut_set, schedule. nsgo. Qed.
    Lemma on_entering_NSK ns : NSK (on_entering ns).
    Proof. intro w. unfold on_entering. nsgo; first [apply hook_NSK | apply pfut_set_NSK]. Qed.
    Lemma on_entered_NSK w0 : NSK (on_entered rec_ctl w0).
    Proof. intro w. unfold on_entered. nsgo; first [apply hook_NSK | apply fire_NSK]. Qed.
    Lemma exit_current_NSK ns : NSK (exit_current ns).
    Proof. intro w. unfold exit_current, schedule. nsgo; apply hook_NSK. Qed.
    Lemma enter_next_NSK ns : NSK (enter_next rec_ctl ns).
    Proof. intro w. unfold enter_next, emit. nsgo; first [apply on_entering_NSK | apply on_entered_NSK]. Qed.

    (* an operation that never touches closed / hooks_alive (inside a transition) *)
    Definition NC0 {A} (m : LM A) : Prop :=
      forall w (Q : result A -> world -> Prop), transitioning w = true ->
        (forall r w', transitioning w' = true -> cl_same w w' -> Q r w') -> wp m Q w.
    Lemma hook_NC0 name : NC0 (hook name).
    Proof. intros w Q T HQ. unfold hook, emit. repeat (wp_prim || wp_case); apply HQ; first [exact T | split; reflexivity]. Qed.

    (* the closing operations fail only before they close *)
    Lemma on_close_err w :
      transitioning w = true -> wp on_close (fun r w' => is_err r -> cl_same w w') w.
    Proof.
      intros T. unfold on_close. wp_prim. apply hook_NC0; [exact T|]. intros r w1 T1 C1. destruct r; cbv beta iota; [|intros _; exact C1].
      wp_prim.
      assert (Hb : forall wz, wp (bind get (fun w => bind (mapM_ (fun c => emit (EvCleanup c)) (cleanups w)) (fun _ => modify (fun w => w <| cleanups := [] |>))))
                            (fun r _ => is_ok r) wz).
      { intro wz. do 3 wp_prim. eapply wp_use; [apply (mapM_ok (fun c => emit (EvCleanup c))); intros c wy; unfold emit; wp_prim; exact I|].
        intros r w2 Hr. destruct r; [|destruct Hr]. cbv beta iota. wp_prim. exact I. }
      eapply wp_use; [apply Hb|]. intros r2 w2 Hr. destruct r2; [|destruct Hr]. wp_prim. intros [].
    Qed.

    Lemma close_err w : transitioning w = true -> wp close (fun r w' => is_err r -> cl_same w w') w.
    Proof.
      intros T. unfold close. do 2 wp_prim. destruct (closed w); [wp_prim; intros [] | apply on_close_err; exact T].
    Qed.

    Lemma on_terminated_err w : transitioning w = true -> wp on_terminated (fun r w' => is_err r -> cl_same w w') w.
    Proof.
      intros T. unfold on_terminated. wp_prim. apply hook_NC0; [exact T|]. intros r w1 T1 C1. destruct r; cbv beta iota; [|intros _; exact C1].
      do 3 wp_prim.
      assert (Hm : wp (match paused w1, t0 w1 with Some fid, PcAwaitPaused f => when (Nat.eqb f fid) (schedule (RWakeT0 WkNone)) | _, _ => ret tt end)
                      (fun r w2 => is_ok r /\ transitioning w2 = true /\ cl_same w1 w2) w1).
      { unfold schedule. repeat (wp_prim || wp_case); (split; [exact I | split; [exact T1 | split; reflexivity]]). }
      eapply wp_use; [exact Hm|]. intros r2 w2 (Hr & T2 & C2). destruct r2; [|destruct Hr]. cbv beta iota.
      eapply wp_use; [apply close_err; exact T2|]. intros r3 w3 H3 He. eapply cl_same_trans; [exact C1|]. eapply cl_same_trans; [exact C2 | exact (H3 He)].
    Qed.

    Lemma NCK_same {A} (m : LM A) w (Q : result A -> world -> Prop) :
      NCK m -> transitioning w = true -> closed w = false -> hooks_alive w = true ->
      (forall r w', transitioning w' = true -> (cl_same w w' \/ cl_set w') -> Q r w') -> wp m Q w.
    Proof. intros H T _ _ HQ. apply H; [exact I|]. intros r w' [T1 X]. apply HQ; [congruence | apply X; exact T]. Qed.

    Lemma on_entering_excepted w e1 :
      wp (on_entering (SExcepted e1)) (fun r w' => (forall s', r <> Ok (Some s')) /\ (is_ok r -> pfut w' = PfExn e1)) w.
    Proof.
      unfold on_entering, hook, emit, pfut_set, schedule. repeat (wp_prim || wp_case); (split; [intros s' X; discriminate X | intros X; try reflexivity; destruct X]).
    Qed.

    Lemma on_close_ok_closed w : wp on_close (fun r w' => is_ok r -> closed w' = true) w.
    Proof.
      unfold on_close. wp_prim. apply wp_any. intros r1 w1. destruct r1; cbv beta iota; [|intros []].
      wp_prim. apply wp_any. intros r2 w2. wp_prim. destruct r2; intros _; reflexivity.
    Qed.

    Lemma on_terminated_ok_closed w : wp on_terminated (fun r w' => is_ok r -> closed w' = true) w.
    Proof.
      unfold on_terminated. wp_prim. apply wp_any. intros r1 w1. destruct r1; cbv beta iota; [|intros []].
      do 3 wp_prim. apply wp_any. intros r2 w2. destruct r2; cbv beta iota; [|intros []].
      unfold close. do 2 wp_prim. destruct (closed w2) eqn:Ec; [wp_prim; intros _; exact Ec | apply on_close_ok_closed].
    Qed.

    (* the second transition (exit phase skipped), started on a process that is not closed: it leaves exactly EXCEPTED e1, the
       future raising e1, and the process closed *)
    Lemma body_excepted_full e1 w :
      transitioning w = false -> transition_failing w = true -> hooks_alive w = true ->
      wp (transition_body rec_ctl (SExcepted e1))
         (fun r w' => is_ok r -> st w' = Some (SExcepted e1) /\ pfut w' = PfExn e1 /\ closed w' = true) w.
    Proof.
      intros T Hf Ha. unfold transition_body. do 4 wp_prim. cbn [transition_failing set]. rewrite Hf. cbn [negb when]. do 2 wp_prim.
      set (w0 := w <| transitioning := true |>).
      wp_prim. unfold enter_next. do 3 wp_prim. change (hooks_alive w0) with (hooks_alive w). rewrite Ha.
      eapply wp_use; [apply (wp_conj _ (fun _ w' => NCr w0 w') (fun r w' => (forall s', r <> Ok (Some s')) /\ (is_ok r -> pfut w' = PfExn e1)));
                      [apply (on_entering_NCK (SExcepted e1) w0 (fun _ w' => NCr w0 w')); [exact I | auto] | apply on_entering_excepted]|].
      intros r1 w1 [[T1 _] [Hn Hp]]. destruct r1 as [[s'|]|x]; cbv beta iota; [exfalso; apply (Hn s'); reflexivity | | intros []].
      assert (T1' : transitioning w1 = true) by (rewrite T1; reflexivity).
      pose proof (Hp I) as P1. unfold emit. do 8 wp_prim.
      match goal with |- wp _ _ ?wx => assert (S2 : st wx = Some (SExcepted e1)) by reflexivity;
                                        assert (P2 : pfut wx = PfExn e1) by exact P1;
                                        assert (T2 : transitioning wx = true) by exact T1'; generalize dependent wx end.
      intros w2 S2 P2 T2.
      assert (M2 : is_terminated w2 = true) by (unfold is_terminated; rewrite S2; reflexivity).
      assert (Hoe : Hat Tr1 SSr (when (hooks_alive w2) (on_entered rec_ctl w0)) w2).
      { apply Hat_when; [exact SSr_refl | intro; apply on_entered_SK]. }
      wp_prim. apply Hoe; [exact I|]. intros r3 w3 [T3 S3]. destruct r3; cbv beta iota; [|intros []].
      repeat wp_prim. destruct (S3 T2) as [P3 M3].
      assert (S3' : st w3 = Some (SExcepted e1)) by (rewrite (M3 M2); exact S2).
      assert (M3' : is_terminated w3 = true) by (unfold is_terminated; rewrite S3'; reflexivity).
      rewrite M3'. cbn [when].
      eapply wp_use; [apply (wp_conj _ (fun _ w' => SSr w3 w') (fun r w' => is_ok r -> closed w' = true));
                      [apply (on_terminated_SK w3 (fun _ w' => SSr w3 w')); [exact I | auto] | apply on_terminated_ok_closed]|].
      intros r4 w4 [[T4 S4] C4] Hr. destruct (S4 (eq_trans T3 T2)) as [P4 M4].
      split; [rewrite (M4 M3'); exact S3' | split; [congruence | apply C4; exact Hr]].
    Qed.

    Lemma transition_body_cl ns w :
      transitioning w = false ->
      wp (transition_body rec_ctl ns) (fun r w' => (cl_same w w' \/ cl_set w') /\ (is_err r -> cl_same w w')) w.
    Proof.
      intros T. unfold transition_body. do 2 wp_prim. set (w0 := w <| transitioning := true |>).
      apply (wp_conj _ (fun _ w' => cl_same w w' \/ cl_set w') (fun r w' => is_err r -> cl_same w w')).
      - assert (H : Hat Tr1 NCr (bind get (fun w => bind (when (negb (transition_failing w)) (exit_current ns))
                      (fun _ => bind (enter_next rec_ctl ns) (fun r => bind (match r with
                         | Some s' => bind (exit_current s') (fun _ => bind (enter_next rec_ctl s') (fun _ => ret tt))
                         | None => ret tt end) (fun _ => bind get (fun w' => when (is_terminated w') on_terminated)))))) w0).
        { ncgo; first [apply exit_current_NCK | apply enter_next_NCK | apply on_terminated_NCK]. }
        apply H; [exact I|]. intros r w' [_ X]. exact (X eq_refl).
      - assert (T0 : transitioning w0 = true) by reflexivity.
        assert (C0 : cl_same w w0) by (split; reflexivity).
        do 2 wp_prim.
        assert (Hex : Hat Tr1 NSr (when (negb (transition_failing w0)) (exit_current ns)) w0).
        { apply Hat_when; [exact NSr_refl | intro; apply exit_current_NSK]. }
        wp_prim. apply Hex; [exact I|]. intros r1 w1 [T1 S1]. pose proof (S1 T0) as C1. assert (T1' : transitioning w1 = true) by congruence.
        destruct r1; cbv beta iota; [|intros _; exact C1].
        wp_prim. apply enter_next_NSK; [exact I|]. intros r2 w2 [T2 S2]. pose proof (cl_same_trans _ _ _ C1 (S2 T1')) as C2.
        assert (T2' : transitioning w2 = true) by congruence.
        destruct r2 as [ro|x]; cbv beta iota; [|intros _; exact C2].
        assert (Htail : forall w3, transitioning w3 = true -> cl_same w w3 ->
                  wp (bind get (fun w' => when (is_terminated w') on_terminated)) (fun r w' => is_err r -> cl_same w w') w3).
        { intros w3 T3 C3. do 2 wp_prim. destruct (is_terminated w3); cbn [when]; [|wp_prim; intros []].
          eapply wp_use; [apply on_terminated_err; exact T3|]. intros r w4 H He. eapply cl_same_trans; [exact C3 | exact (H He)]. }
        wp_prim. destruct ro as [s'|].
        + wp_prim. apply exit_current_NSK; [exact I|]. intros r3 w3 [T3 S3]. pose proof (cl_same_trans _ _ _ C2 (S3 T2')) as C3.
          assert (T3' : transitioning w3 = true) by congruence.
          destruct r3; cbv beta iota; [|intros _; exact C3].
          wp_prim. apply enter_next_NSK; [exact I|]. intros r4 w4 [T4 S4]. pose proof (cl_same_trans _ _ _ C3 (S4 T3')) as C4.
          destruct r4; cbv beta iota; [|intros _; exact C4]. wp_prim. apply Htail; [congruence | exact C4].
        + wp_prim. apply Htail; assumption.
    Qed.

    Hypothesis HrecX : forall c, XK (rec_ctl c).

    (* a transition with a legal target during which the fault fires ends EXCEPTED e, future raising e, closed *)
    Lemma transition_to_exc ns w :
      GA w ->
      wp (transition_to rec_ctl (Some ns))
         (fun r w' => (AL w -> AL w') /\
                      (to_ok w ns -> flt w -> AL w -> ~ k < cnt w -> k < cnt w' ->
                       st w' = Some (SExcepted e) /\ pfut w' = PfExn e /\ closed w' = true)) w.
    Proof.
      intros G. unfold transition_to. do 2 wp_prim. destruct (transitioning w) eqn:Htr.
      { wp_prim. split; [auto|]. intros (X & _). congruence. }
      pose proof G as [G0 G4]. pose proof (G4 Htr) as Hfl. do 2 wp_prim.
      (* the first body: four views of it *)
      eapply wp_use.
      { apply (wp_conj _ (fun r w1 => (RT (Some (label_of ns)) (w <| transitioning := true |>) w1 /\ (body_ok w ns -> is_err r -> fired w w1)) /\ NPr r w w1)
                         (fun r w1 => (cl_same w w1 \/ cl_set w1) /\ (is_err r -> cl_same w w1))).
        - apply (wp_conj _ (fun r w1 => RT (Some (label_of ns)) (w <| transitioning := true |>) w1 /\ (body_ok w ns -> is_err r -> fired w w1))
                           (fun r w1 => NPr r w w1)).
          + apply transition_body_spec; [exact HrecX | exact G0 | exact Htr | congruence|]. intros r w1 R F _. split; assumption.
          + apply transition_body_N; [exact Htr | auto].
        - apply transition_body_cl. exact Htr. }
      intros r1 w1 [[[R1 F1] N1] [D1 E1c]]. destruct R1 as (G1 & C1 & Q1 & _ & _ & _ & X1 & Fl1 & _). cbn in C1, X1, Fl1.
      destruct N1 as (_ & _ & O1 & E1).
      destruct r1 as [u|e1]; cbv beta iota.
      - wp_prim. split; [intro A; apply (AL_step w); [exact A | exact D1]|].
        intros Hto F _ Hn Hs. exfalso. apply Hn. apply (O1 I F). exact Hs.
      - do 4 wp_prim. cbn [transition_failing set]. rewrite Fl1, Hfl. do 2 wp_prim.
        destruct (label_eqb (label_of ns) LCreated) eqn:Hcr.
        { do 2 wp_prim. split; [intro A; apply (AL_step w); [exact A | exact D1]|].
          intros (_ & _ & X). exfalso. apply X. destruct (label_of ns); try discriminate. reflexivity. }
        set (w2 := w1 <| transitioning := false |> <| transition_failing := true |>).
        unfold transition_to_failing. do 2 wp_prim. change (transitioning w2) with false. cbv iota. do 2 wp_prim.
        pose proof (E1c I) as Cs1.
        eapply wp_use.
        { apply (wp_conj _ (fun r w3 => (is_err r -> fired w2 w3) /\ (cl_same w2 w3 \/ cl_set w3))
                           (fun r w3 => hooks_alive w2 = true -> is_ok r -> st w3 = Some (SExcepted e1) /\ pfut w3 = PfExn e1 /\ closed w3 = true)).
          - apply (wp_conj _ (fun r w3 => is_err r -> fired w2 w3) (fun r w3 => cl_same w2 w3 \/ cl_set w3)).
            + apply transition_body_spec; [exact HrecX | apply GA0_flags; apply G1 | reflexivity | reflexivity|].
              intros r w3 _ F _ He. apply F; [intro X; discriminate X | exact He].
            + eapply wp_use; [apply transition_body_cl; reflexivity|]. intros r w3 [D _]. exact D.
          - destruct (hooks_alive w2) eqn:Ha2.
            + eapply wp_use; [apply body_excepted_full; [reflexivity | reflexivity | exact Ha2]|]. intros r w3 H _. exact H.
            + apply wp_any. intros r s X. discriminate X. }
        intros r3 w3 [[F3 D3] S3].
        assert (HAL : AL w -> AL w3).
        { intro A. apply (AL_step w2); [|exact D3]. apply (AL_step w); [exact A | left; exact Cs1]. }
        assert (Hfin : to_ok w ns -> flt w -> AL w -> ~ k < cnt w ->
                       is_ok r3 /\ st w3 = Some (SExcepted e) /\ pfut w3 = PfExn e /\ closed w3 = true).
        { intros Hto F A Hn. pose proof Hto as (_ & Hl & _).
          assert (Hfd : fired w w1) by (apply F1; [intros _; exact Hl | exact I]).
          assert (F1' : flt w1) by (unfold flt in *; rewrite C1; exact F).
          assert (Hs1 : k < cnt w1) by (apply (spent_cnt w1 F1'); apply Hfd).
          assert (He1 : e1 = e).
          { destruct (E1 e1 eq_refl) as [X|X]; [apply X; exact F | exfalso; apply Hn; apply (X F); exact Hs1]. }
          assert (Hok : is_ok r3).
          { destruct r3; [exact I|]. exfalso. destruct (F3 I) as [Hns _]. apply Hns. unfold w2, spent. cbn. apply Hfd. }
          assert (Hal : hooks_alive w2 = true).
          { destruct Cs1 as [Xc Yc]. change (hooks_alive w2) with (hooks_alive w1). rewrite Yc.
            destruct (hooks_alive w) eqn:Ea; [reflexivity|]. exfalso.
            pose proof (A Ea) as Hc. destruct G0 as (_ & G2 & _). pose proof (G2 Hc) as Ht.
            destruct Hl as (l & Hl1 & Hl2). rewrite is_terminated_lbl, Hl1 in Ht. cbn in Ht. rewrite (allowed_not_terminal _ _ Hl2) in Ht. discriminate. }
          split; [exact Hok|]. rewrite <- He1. apply S3; assumption. }
        destruct r3 as [u3|e3]; cbv beta iota.
        + do 2 wp_prim. split; [exact HAL|]. intros Hto F A Hn _. destruct (Hfin Hto F A Hn) as [_ S]. exact S.
        + do 4 wp_prim. split; [exact HAL|]. intros Hto F A Hn _. destruct (Hfin Hto F A Hn) as [[] _].
    Qed.
  End TransitionN.

  (* ---------------------------------------------------------------- HK: the invariant [handled] at control level *)
  Definition HPre (w : world) : Prop := GA w /\ handled w.
  Definition HRel (w w' : world) : Prop := RT None w w' /\ handled w'.
  Lemma HRel_refl w : HPre w -> HRel w w. Proof. intros [G H]. split; [apply RT_refl; exact G | exact H]. Qed.
  Lemma HRel_trans a b c : HRel a b -> HRel b c -> HRel a c.
  Proof. intros [R1 _] [R2 H2]. split; [eapply RT_trans; eauto | exact H2]. Qed.
  Lemma HRel_pre a b : HPre a -> HRel a b -> HPre b.
  Proof. intros _ [R H]. split; [apply R | exact H]. Qed.
  Notation Hkat := (Hat HPre HRel).
  Definition HK {A} (m : LM A) : Prop := forall w, Hkat m w.

  Section CombH.
    Context {A B : Type}.
    Lemma Hk_ret (a : A) w : Hkat (ret a) w. Proof. apply Hat_ret. exact HRel_refl. Qed.
    Lemma Hk_raise x w : Hkat (raise x : LM A) w. Proof. apply Hat_raise. exact HRel_refl. Qed.
    Lemma Hk_bind (m : LM A) (f : A -> LM B) w : Hkat m w -> (forall a, HK (f a)) -> Hkat (bind m f) w.
    Proof. intros H1 H2. eapply Hat_bind; [exact HRel_trans | exact HRel_pre | exact H1 | intros a w1; apply H2]. Qed.
    Lemma Hk_get (f : world -> LM A) w : Hkat (f w) w -> Hkat (bind get f) w. Proof. apply Hat_get. Qed.
    Lemma Hk_attempt (m : LM A) w : Hkat m w -> Hkat (attempt m) w. Proof. apply Hat_attempt. Qed.
    Lemma Hk_finally (m : LM A) f w : Hkat m w -> HK f -> Hkat (finally m f) w.
    Proof. intros H1 H2. eapply Hat_finally; [exact HRel_trans | exact HRel_pre | exact H1 | exact H2]. Qed.
  End CombH.
  Lemma Hk_when b (m : LM unit) w : (b = true -> Hkat m w) -> Hkat (when b m) w.
  Proof. apply Hat_when. exact HRel_refl. Qed.
  Lemma HK_mapM {A} (f : A -> LM unit) l : (forall x, HK (f x)) -> HK (mapM_ f l).
  Proof. intros H w. eapply Hat_mapM; [exact HRel_refl | exact HRel_trans | exact HRel_pre | intros x w1; apply H]. Qed.

  Ltac hstep :=
    lazymatch goal with
    | |- HK _ => intro
    | |- Hat HPre HRel (bind get _) _ => apply Hk_get; cbv beta
    | |- Hat HPre HRel (bind _ _) _ => apply Hk_bind; [ | intro ]
    | |- Hat HPre HRel (ret _) _ => apply Hk_ret
    | |- Hat HPre HRel (raise _) _ => apply Hk_raise
    | |- Hat HPre HRel (attempt _) _ => apply Hk_attempt
    | |- Hat HPre HRel (finally _ _) _ => apply Hk_finally
    | |- Hat HPre HRel (when _ _) _ => apply Hk_when; intro
    | |- Hat _ _ (match ?x with _ => _ end) _ => destruct x eqn:?
    | |- Hat _ _ (if ?x then _ else _) _ => destruct x eqn:?
    | |- Hat _ _ (let _ := _ in _) _ => cbv zeta
    end.

  (* what keeps [handled]: the counter of h and a terminal state are left alone *)
  Definition keepH (w w' : world) : Prop :=
    cnt w' = cnt w /\ closed w' = closed w /\ hooks_alive w' = hooks_alive w
    /\ (is_terminated w = true -> st w' = st w) /\ (is_terminated w = true -> pfut w' = pfut w).
  Lemma keepH_handled w w' : cfg w' = cfg w -> keepH w w' -> handled w -> handled w'.
  Proof.
    intros C (N & L & Al & S & P) [HA H]. split; [apply (AL_step w); [exact HA | left; split; assumption]|].
    intros F Hk. unfold flt in F. rewrite C in F. rewrite N in Hk. destruct (H F Hk) as (Hs & Hp & Hc).
    assert (Ht : is_terminated w = true) by (unfold is_terminated; rewrite Hs; reflexivity).
    rewrite (S Ht), (P Ht), L. auto.
  Qed.

  (* a first-pass control-level operation that is also such a frame *)
  Lemma leaf_HK {A} (m : LM A) : XK m -> (forall w, wp m (fun _ w' => keepH w w') w) -> HK m.
  Proof.
    intros HX HN w Q [G H] HQ.
    eapply wp_use; [apply wp_conj; [apply (HX w (fun _ w' => RK w w')); [exact G | auto] | apply HN]|].
    intros r w' [R Kp]. apply HQ. split; [exact R|]. apply (keepH_handled w w'); [apply R | exact Kp | exact H].
  Qed.

  Lemma FrN_keepH {A} (m : LM A) : FrN m -> forall w, wp m (fun _ w' => keepH w w') w.
  Proof. intros H w. apply H. intros r w' (_ & _ & O & L & Al & P & S). split; [unfold cnt; rewrite O; reflexivity | repeat split; auto]. Qed.

  Lemma hook_other_keepH name : String.eqb h name = false -> forall w, wp (hook name) (fun _ w' => keepH w w') w.
  Proof.
    intros Hne w. unfold hook, emit. repeat (wp_prim || wp_case); (split; [unfold cnt; cbn; apply nat_assoc_bump_other; exact Hne | repeat split; reflexivity]).
  Qed.

  Lemma cancel_disarm_FrN a : FrN (bind (cancel_act a) (fun _ => bind (modify (fun w => w <| pausing := None |>)) (fun _ => set_interrupt_action None))).
  Proof. unfold set_interrupt_action, cancel_act, set_act_fut. frn_auto. Qed.

  Section ControlH.
    Variable rec_ctl : ctl -> LM cret.
    Hypothesis HrecH : forall c, HK (rec_ctl c).
    Hypothesis HrecE : forall c, EK (rec_ctl c).
    Hypothesis HrecX : forall c, XK (rec_ctl c).

    Lemma fire_HK name : HK (fire rec_ctl name).
    Proof.
      intros w Q [G H] HQ. unfold fire, emit. repeat wp_prim.
      match goal with |- wp _ _ ?w1 => assert (R1 : HRel w w1) end.
      { split.
        - eapply (bump_RT None); try reflexivity; [exact G|]. apply errs_ok_snoc; [apply G | reflexivity].
        - apply (keepH_handled w); [reflexivity | | exact H]. split; [|repeat split; reflexivity].
          unfold cnt. cbn. apply nat_assoc_bump_other. apply sm_not_listener. }
      apply (wp_mapM_inv _ (fun s => HRel w s)); [exact R1 | | intros s' Hs; apply HQ; exact Hs].
      intros ls s1 _ R. destruct (String.eqb (ls_event ls) name && Nat.eqb (ls_occ ls) (nat_assoc ("L:" ++ name) (occ w))).
      - do 2 wp_prim. apply HrecH; [eapply HRel_pre; [split; [exact G | exact H] | exact R]|]. intros r s2 R2. wp_prim. split; [reflexivity|].
        eapply HRel_trans; [exact R|]. eapply HRel_trans; [exact R2|]. destruct R2 as [R2 H2]. split.
        + apply eeq_RT; [apply R2|]. repeat split; try reflexivity. intro X. apply errs_ok_snoc; [exact X | reflexivity].
        + apply (keepH_handled s2); [reflexivity | repeat split; reflexivity | exact H2].
      - wp_prim. split; [reflexivity | exact R].
    Qed.

    Ltac hmod := apply leaf_HK; [apply FrX_XT; apply modify_FrX; intro; repeat split; auto
                               | apply FrN_keepH; apply modify_FrN; intro; repeat split; reflexivity].
    Ltac hleaf :=
      first [ apply fire_HK
            | apply leaf_HK; [apply hook_XT | apply hook_other_keepH; apply sm_not_other; cbn; tauto]
            | apply leaf_HK; [apply FrX_XT; apply fresh_FrX | apply FrN_keepH; apply fresh_FrN]
            | apply leaf_HK; [apply FrX_XT; apply schedule_FrX | apply FrN_keepH; apply schedule_FrN]
            | apply leaf_HK; [apply FrX_XT; apply state_interrupt_FrX | apply FrN_keepH; apply state_interrupt_FrN]
            | apply leaf_HK; [apply FrX_XT; apply state_recall_FrX | apply FrN_keepH; apply state_recall_FrN]
            | apply leaf_HK; [apply FrX_XT; apply resume_FrX | apply FrN_keepH; apply resume_FrN]
            | apply leaf_HK; [apply sia_from_XT | apply FrN_keepH; apply sia_from_FrN]
            | apply leaf_HK; [apply cancel_disarm_XT | apply FrN_keepH; apply cancel_disarm_FrN]
            | hmod ].
    Ltac hauto := repeat first [ hstep | hleaf ].

    Lemma do_pause_HK msg : HK (do_pause rec_ctl msg None).
    Proof. intro w. unfold do_pause. hauto. Qed.

    Lemma pause_HK msg : HK (pause rec_ctl msg).
    Proof. intro w. unfold pause. hauto. apply do_pause_HK. Qed.

    Lemma play_HK : HK (play rec_ctl).
    Proof.
      intro w. unfold play. hstep. hstep.
      - hauto.
      - hstep; [|hauto]. hstep; [|hauto]. hstep; [hauto | hstep; hleaf].
    Qed.

    (* a transition to KILLED / EXCEPTED requested by a control call on a live process *)
    Lemma transition_terminal_H ns w (Q : result unit -> world -> Prop) :
      HPre w -> (label_of ns = LKilled \/ label_of ns = LExcepted) -> is_terminated w = false ->
      (forall r w', HRel w w' -> Q r w') -> wp (transition_to rec_ctl (Some ns)) Q w.
    Proof.
      intros [G H] Hlab Hl HQ.
      assert (Ht : terminal (label_of ns) = true) by (destruct Hlab as [-> | ->]; reflexivity).
      eapply wp_use; [apply wp_conj; [apply wp_conj; [apply (transition_terminal rec_ctl HrecX ns w (fun _ w' => RK w w')); [exact G | exact Ht | auto] |
                                      apply (transition_to_exc rec_ctl HrecE HrecX ns w G)] |
                                      apply (transition_to_EK rec_ctl HrecE (Some ns) w (fun _ w' => EXr w w')); [exact I | auto]]|].
      intros r w' [[R [XA X]] (_ & _ & E3)]. apply HQ. split; [exact R|]. destruct H as [HA H]. split; [apply XA; exact HA|]. intros F' Hk'.
      assert (F : flt w) by (unfold flt in *; destruct R as (_ & C & _); rewrite <- C; exact F').
      assert (Hn : ~ k < cnt w).
      { intro Hk. destruct (H F Hk) as [Hs _]. unfold is_terminated in Hl. rewrite Hs in Hl. discriminate. }
      destruct (transitioning w) eqn:Etr.
      - exfalso. apply Hn. destruct (E3 eq_refl) as [N _]. rewrite <- N. exact Hk'.
      - apply X; [| exact F | exact HA | exact Hn | exact Hk'].
        split; [exact Etr|]. split; [apply (live_to_terminal _ _ G Hl Hlab) | destruct Hlab as [-> | ->]; discriminate].
    Qed.

    Lemma kill_HK msg : HK (kill rec_ctl msg).
    Proof.
      intros w Q P HQ. unfold kill. do 2 wp_prim.
      assert (Hret : forall c, wp (ret c) Q w) by (intro c; wp_prim; apply HQ; apply HRel_refl; exact P).
      assert (Hmain : wp (if is_terminated w then ret (CrBool false) else
                          match killing w with
                          | Some a => ret (CrAction a)
                          | None => if stepping w
                                    then bind fresh (fun iid => bind (set_interrupt_action_from (KKill msg) iid) (fun a =>
                                         bind (modify (fun w => w <| killing := Some a |>)) (fun _ => bind (state_interrupt iid) (fun _ => ret (CrAction a)))))
                                    else bind (transition_to rec_ctl (Some (SKilled (Some msg)))) (fun _ => ret (CrBool true))
                          end) Q w).
      { destruct (is_terminated w) eqn:Et; [apply Hret|]. destruct (killing w); [apply Hret|]. destruct (stepping w).
        - assert (Harm : Hkat (bind fresh (fun iid => bind (set_interrupt_action_from (KKill msg) iid) (fun a =>
                           bind (modify (fun w => w <| killing := Some a |>)) (fun _ => bind (state_interrupt iid) (fun _ => ret (CrAction a)))))) w) by hauto.
          apply Harm; assumption.
        - wp_prim. apply transition_terminal_H; [exact P | left; reflexivity | exact Et|]. intros r1 w1 R1. destruct r1; cbv beta iota.
          + wp_prim. apply HQ. exact R1.
          + apply HQ. exact R1. }
      destruct (st w) as [[]|]; try exact Hmain. apply Hret.
    Qed.

    Lemma fail_HK x : HK (fail rec_ctl x).
    Proof.
      intros w Q P HQ. unfold fail. do 2 wp_prim. destruct (is_terminated w) eqn:Et.
      { wp_prim. apply HQ. apply HRel_refl. exact P. }
      wp_prim. apply transition_terminal_H; [exact P | right; reflexivity | exact Et|]. intros r1 w1 R1. destruct r1; cbv beta iota; [|apply HQ; exact R1].
      do 2 wp_prim. destruct (st w1) as [[]|]; wp_prim; apply HQ; exact R1.
    Qed.

    Lemma ctl_body_HK c : HK (ctl_body rec_ctl c).
    Proof.
      destruct c; cbn [ctl_body]; [apply pause_HK | apply play_HK | apply kill_HK | | apply fail_HK | intro w; apply Hk_raise].
      apply leaf_HK; [apply FrX_XT; apply resume_FrX | apply FrN_keepH; apply resume_FrN].
    Qed.
  End ControlH.

  Lemma do_ctl_HK fuel : forall c, HK (do_ctl fuel c).
  Proof.
    induction fuel as [|f IH]; intros c; cbn [do_ctl]; [intro w; apply Hk_raise|].
    apply ctl_body_HK; [exact IH | apply do_ctl_EK | intro; apply do_ctl_XK].
  Qed.

  (* ---------------------------------------------------------------- step level with [handled] *)
  Definition OPreH (w : world) : Prop := OPre w /\ handled w.
  Definition ROH (w w' : world) : Prop := RO w w' /\ handled w'.
  Lemma ROH_refl w : OPreH w -> ROH w w. Proof. intros [P H]. split; [apply RO_refl; exact P | exact H]. Qed.
  Lemma ROH_trans a b c : ROH a b -> ROH b c -> ROH a c.
  Proof. intros [R1 _] [R2 H2]. split; [eapply RO_trans; eauto | exact H2]. Qed.
  Lemma ROH_pre a b : ROH a b -> OPreH b. Proof. intros [R H]. split; [eapply RO_pre; eauto | exact H]. Qed.
  Lemma HRel_ROH w w' : OPreH w -> HRel w w' -> ROH w w'.
  Proof. intros [P _] [R H]. split; [apply RK_RO; assumption | exact H]. Qed.
  Lemma frame_ROH w w' : OPreH w -> oeq w w' -> keepH w w' -> ROH w w'.
  Proof. intros [P H] E Kp. split; [apply oeq_RO; assumption|]. apply (keepH_handled w); [apply E | exact Kp | exact H]. Qed.

  Definition OatH {A} (m : LM A) (w : world) : Prop :=
    forall Q : result A -> world -> Prop, OPreH w -> (forall a w', ROH w w' -> Q (Ok a) w') -> wp m Q w.
  Lemma OatH_bind {A B} (m : LM A) (f : A -> LM B) w : OatH m w -> (forall a w1, OatH (f a) w1) -> OatH (bind m f) w.
  Proof.
    intros Hm Hf Q P HQ. wp_prim. apply Hm; [exact P|]. intros a w1 R1. cbv beta iota.
    apply Hf; [eapply ROH_pre; eauto|]. intros b w2 R2. apply HQ. eapply ROH_trans; eauto.
  Qed.
  Lemma OatH_ret {A} (a : A) w : OatH (ret a) w.
  Proof. intros Q P HQ. wp_prim. apply HQ. apply ROH_refl. exact P. Qed.

  Definition FrOH {A} (m : LM A) : Prop :=
    forall w (Q : result A -> world -> Prop), (forall a w', oeq w w' -> keepH w w' -> Q (Ok a) w') -> wp m Q w.
  Lemma FrOH_OatH {A} (m : LM A) w : FrOH m -> OatH m w.
  Proof. intros H Q P HQ. apply H. intros a w' E Kp. apply HQ. apply frame_ROH; assumption. Qed.

  Ltac oh_done :=
    first [ (split; [eeq_done | split; [reflexivity | neq_done]]) ].
  Ltac froh_auto := intros w Q HQ; repeat (wp_prim || wp_case); apply HQ; [eeq_done | split; [reflexivity | neq_done]].

  Lemma set_t0_FrOH p : okpc p -> FrOH (set_t0 p).
  Proof. intros Hp w Q HQ. unfold set_t0. wp_prim. apply HQ; [repeat split; auto | split; [reflexivity | neq_done]]. Qed.
  Lemma schedule_FrOH r : FrOH (schedule r). Proof. unfold schedule. froh_auto. Qed.
  Lemma emit_FrOH ev : ev_ok ev = true -> FrOH (emit ev).
  Proof.
    intros He w Q HQ. unfold emit. wp_prim. apply HQ; [|split; [reflexivity | neq_done]].
    repeat split; try reflexivity; [intro H; apply errs_ok_snoc; assumption | exact (fun H => H)].
  Qed.

  Lemma put_Hk w w' : eeq w w' -> keepH w w' -> Hkat (put w') w.
  Proof.
    intros E Kp Q [G H] HQ. wp_prim. apply HQ. split; [apply eeq_RT; assumption|]. apply (keepH_handled w); [apply E | exact Kp | exact H].
  Qed.
  Lemma modify_HK f : (forall w, eeq w (f w)) -> (forall w, neq w (f w)) -> HK (modify f).
  Proof. intros H1 H2. apply leaf_HK; [apply FrX_XT; apply modify_FrX; exact H1 | apply FrN_keepH; apply modify_FrN; exact H2]. Qed.
  Lemma emit_HK ev : ev_ok ev = true -> HK (emit ev).
  Proof. intro He. apply leaf_HK; [apply FrX_XT; apply emit_FrX; exact He | apply FrN_keepH; apply emit_FrN]. Qed.

  Lemma do_out_HK path v : HK (do_out path v).
  Proof.
    intros w. unfold do_out. hstep. hstep; [hstep|].
    hstep; [apply leaf_HK; [apply hook_XT | apply hook_other_keepH; apply sm_not_other; cbn; tauto]|]. hstep. hstep.
    hstep; [apply put_Hk; [repeat split; auto | split; [reflexivity | neq_done]]|].
    hstep. hstep; [hstep|]. destruct p as [outs' dyn].
    hstep; [apply modify_HK; intro; repeat split; auto|]. hstep.
    hstep; [apply emit_HK; reflexivity|]. hstep.
    apply (fire_HK (do_ctl reent_fuel)); [apply do_ctl_HK].
  Qed.

  Lemma K_OatH {A} (m : LM A) w : HK m -> OatH (attempt m) w.
  Proof. intros H Q P HQ. wp_prim. apply H; [split; [apply P | apply P]|]. intros r w' R. apply HQ. apply HRel_ROH; assumption. Qed.

  Lemma ctl_observed_H c w (Q : result cret -> world -> Prop) :
    HPre w -> (forall x w', HRel w w' -> Q (Ok x) w') -> wp (ctl_observed c) Q w.
  Proof.
    intros P HQ. unfold ctl_observed, ctl_call. do 2 wp_prim. apply do_ctl_HK; [exact P|]. intros r w' R. wp_prim. apply HQ. exact R.
  Qed.

  Lemma run_actions_OH acts r : forall w, OatH (run_actions acts r) w.
  Proof.
    induction acts as [|a rest IH]; intro w; cbn [run_actions]; [apply OatH_ret|].
    destruct a.
    - apply OatH_bind; [apply K_OatH; apply do_out_HK|]. intros [u|x] w1; [apply IH | apply OatH_ret].
    - apply OatH_bind; [apply FrOH_OatH; apply schedule_FrOH|]. intros _ w1. apply OatH_bind; [apply FrOH_OatH; apply set_t0_FrOH; exact I|]. intros _ w2. apply OatH_ret.
    - intros Q P HQ. do 2 wp_prim. destruct (find (fun kw => Nat.eqb (fst kw) k0) (exts w)) as [[k' wk]|].
      + destruct wk; first [apply IH; assumption | apply OatH_ret; assumption].
      + apply (OatH_bind (set_t0 _) _ w); [apply FrOH_OatH; apply set_t0_FrOH; exact I | intros _ w2; apply OatH_ret | exact P | exact HQ].
    - intros Q P HQ. wp_prim. apply ctl_observed_H; [split; [apply P | apply P]|]. intros x w1 R1. cbv beta iota.
      pose proof (HRel_ROH _ _ P R1) as O1. wp_prim. apply emit_FrOH; [reflexivity|]. intros _ w2 E2 K2. cbv beta iota.
      pose proof (ROH_trans _ _ _ O1 (frame_ROH _ _ (ROH_pre _ _ O1) E2 K2)) as O2.
      apply IH; [eapply ROH_pre; eauto|]. intros o w3 O3. apply HQ. eapply ROH_trans; eauto.
    - apply OatH_bind; [apply FrOH_OatH; apply schedule_FrOH|]. intros _ w1. apply IH.
    - intros Q P HQ. do 2 wp_prim. apply (OatH_bind (emit _) _ w); [apply FrOH_OatH; apply emit_FrOH; reflexivity | intros _ w1; apply IH | exact P | exact HQ].
    - apply OatH_bind; [|intros _ w1; apply IH]. apply FrOH_OatH. intros w0 Q HQ. wp_prim. apply HQ; [repeat split; auto | split; [reflexivity | neq_done]].
  Qed.

  Lemma after_run_fn_specH o w (Q : result exec_out -> world -> Prop) :
    OPreH w -> run_or_term w ->
    (forall x w', ROH w w' -> xo_ok x w' -> Q (Ok x) w') -> wp (after_run_fn o) Q w.
  Proof.
    intros [P H] Hr HQ.
    eapply wp_use; [apply (wp_conj _ (fun r w' => exists x, r = Ok x /\ RO w w' /\ xo_ok x w') (fun _ w' => cfg w' = cfg w /\ keepH w w'))|].
    - apply after_run_fn_spec; [exact P | exact Hr | intros x w' R X; exists x; auto].
    - unfold after_run_fn, fresh. destruct o; repeat (wp_prim || wp_case); (split; [reflexivity | split; [reflexivity | neq_done]]).
    - intros r w' [(x & -> & R & X) [C Kp]]. apply HQ; [|exact X]. split; [exact R|]. apply (keepH_handled w); assumption.
  Qed.

  Lemma after_waiting_specH fn awaited wk w (Q : result exec_out -> world -> Prop) :
    OPreH w ->
    (forall x w', ROH w w' -> xo_ok x w' -> Q (Ok x) w') -> wp (after_waiting fn awaited wk) Q w.
  Proof.
    intros [P H] HQ.
    eapply wp_use; [apply (wp_conj _ (fun r w' => exists x, r = Ok x /\ oeq w w' /\ xo_ok x w') (fun _ w' => keepH w w'))|].
    - apply after_waiting_spec; [apply GA_lbl; apply P | intros x w' E X; exists x; auto].
    - unfold after_waiting, after_waiting_once, await_current, fresh, set_t0'. repeat (wp_prim || wp_case); (split; [reflexivity | neq_done]).
    - intros r w' [(x & -> & E & X) Kp]. apply HQ; [|exact X]. apply frame_ROH; [split; assumption | exact E | exact Kp].
  Qed.

  Lemma execute_state_specH w (Q : result exec_out -> world -> Prop) :
    OPreH w -> (forall x w', ROH w w' -> xo_ok x w' -> Q (Ok x) w') -> wp execute_state Q w.
  Proof.
    intros P HQ. unfold execute_state. do 2 wp_prim. pose proof (GA_lbl _ (proj1 (proj1 P))) as G5.
    destruct (st w) as [cur|] eqn:Hst; [|exfalso; apply G5; unfold cur_label; rewrite Hst; reflexivity].
    destruct cur.
    - wp_prim. apply HQ; [apply ROH_refl; exact P | apply legal_always; [exact G5 | left; reflexivity]].
    - wp_prim. apply emit_FrOH; [reflexivity|]. intros _ w1 E1 K1. cbv beta iota.
      pose proof (frame_ROH _ _ P E1 K1) as R1.
      assert (Hr1 : run_or_term w1).
      { right. destruct E1 as (_ & E1 & _). rewrite E1. unfold cur_label. rewrite Hst. reflexivity. }
      destruct (lookup_script w fn).
      + wp_prim. apply run_actions_OH; [eapply ROH_pre; eauto|]. intros o w2 R2. cbv beta iota.
        apply after_run_fn_specH; [eapply ROH_pre; eauto | eapply run_or_term_stable; [apply R2 | exact Hr1]|].
        intros x w3 R3 X3. apply HQ; [eapply ROH_trans; [exact R1|]; eapply ROH_trans; eauto | exact X3].
      + wp_prim. apply HQ; [exact R1 | apply legal_always; [apply GA_lbl; apply R1 | right; left; reflexivity]].
    - destruct wf.
      + unfold set_t0. do 3 wp_prim. apply HQ; [apply frame_ROH; [exact P | eeq_done | split; [reflexivity | neq_done]] | exact I].
      + apply after_waiting_specH; [exact P|]. intros x w1 R1 X1. apply HQ; assumption.
    - wp_prim. apply HQ; [apply ROH_refl; exact P | exact I].
    - wp_prim. apply HQ; [apply ROH_refl; exact P | exact I].
    - wp_prim. apply HQ; [apply ROH_refl; exact P | exact I].
  Qed.

  (* ---------------------------------------------------------------- the end of a step with [handled] *)
  Lemma to_ok_live w ns : to_ok w ns -> is_terminated w = false.
  Proof.
    intros (_ & (l & Hl & Ha) & _). rewrite is_terminated_lbl, Hl. cbn. apply (allowed_not_terminal _ _ Ha).
  Qed.

  Lemma transition_H ns w (Q : result unit -> world -> Prop) :
    OPreH w -> to_ok w ns -> (forall w', OPreH w' -> t0 w' = t0 w -> List.length (acts w) <= List.length (acts w') -> Q (Ok tt) w') ->
    wp (transition (Some ns)) Q w.
  Proof.
    intros [P H] Hto HQ.
    eapply wp_use; [apply (wp_conj _ (fun r w' => RT (Some (label_of ns)) w w' /\ is_ok r)
                                     (fun r w' => (AL w -> AL w') /\ (to_ok w ns -> flt w -> AL w -> ~ k < cnt w -> k < cnt w' ->
                                                   st w' = Some (SExcepted e) /\ pfut w' = PfExn e /\ closed w' = true)))|].
    - apply transition_spec; [apply P|]. intros r w' R Hok. split; [exact R | apply Hok; exact Hto].
    - unfold transition. apply transition_to_exc; [apply do_ctl_EK | intro; apply do_ctl_XK | apply P].
    - intros r w' [[R Hr] [XA X]]. destruct r as [[]|]; [|destruct Hr]. apply HQ; [|apply R|apply R]. destruct H as [HA H].
      split; [eapply OPre_of_RT; eauto|]. split; [apply XA; exact HA|]. intros F' Hk'.
      assert (F : flt w) by (unfold flt in *; destruct R as (_ & C & _); rewrite <- C; exact F').
      apply X; [exact Hto | exact F | exact HA | | exact Hk'].
      intro Hk. destruct (H F Hk) as [Hs _]. pose proof (to_ok_live _ _ Hto) as Hl. unfold is_terminated in Hl. rewrite Hs in Hl. discriminate.
  Qed.

  (* do_pause with a next state = the transition, then do_pause without one *)
  Lemma do_pause_split rec msg ns w (Q : result bool -> world -> Prop) :
    wp (transition_to rec (Some ns))
       (fun r1 w1 => match r1 with
                     | Ok _ => wp (do_pause rec msg None) Q w1
                     | Err x => Q (Err x) (w1 <| pausing := None |>)
                     end) w ->
    wp (do_pause rec msg (Some ns)) Q w.
  Proof.
    unfold wp, do_pause, finally, bind. destruct (transition_to rec (Some ns) w) as [[u|x] w1]; cbn; intro H; exact H.
  Qed.

  Lemma legal_to_ok w ns : transitioning w = false -> is_terminated w = false -> legal w (Some ns) -> to_ok w ns.
  Proof. intros T Hl [X|[L1 L2]]; [congruence|]. split; [exact T | split; assumption]. Qed.

  Lemma do_pause_deferred_handled msg next w :
    OPreH w -> is_terminated w = false -> legal w next ->
    wp (do_pause_deferred msg next) (fun _ w' => handled w') w.
  Proof.
    intros P Hl Hleg. pose proof P as [[G [T _]] H]. unfold do_pause_deferred. do 2 wp_prim.
    assert (Hold : wp (do_pause (do_ctl reent_fuel) msg next) (fun _ w' => handled w') w).
    { destruct next as [ns|].
      + apply do_pause_split. fold (transition (Some ns)). apply transition_H; [exact P | apply legal_to_ok; assumption|].
        intros w1 [P1 H1] _ _. apply (do_pause_HK (do_ctl reent_fuel)); [apply do_ctl_HK | split; [apply P1 | exact H1]|].
        intros r w2 [_ H2]. exact H2.
      + apply (do_pause_HK (do_ctl reent_fuel)); [apply do_ctl_HK | split; assumption|]. intros r w2 [_ H2]. exact H2. }
    destruct next as [ns|]; [|exact Hold]. destruct (pausing w) as [a'|]; [|exact Hold].
    assert (Hfin : forall (r : result bool) w2, handled w2 ->
              wp (modify (fun w => w <| pausing := None |>)) (fun r2 s'' => match r2 with Ok _ => handled s'' | Err _ => handled s'' end) w2).
    { intros r w2 H2. wp_prim. apply (keepH_handled w2); [reflexivity | repeat split; reflexivity | exact H2]. }
    do 2 wp_prim. apply transition_H; [exact P | apply legal_to_ok; assumption|].
    intros w1 [P1 H1] _ _. cbv beta iota. do 2 wp_prim.
    match goal with |- wp (if ?c then _ else _) _ _ => destruct c end.
    - apply (do_pause_HK (do_ctl reent_fuel)); [apply do_ctl_HK | split; [apply P1 | exact H1]|].
      intros r w2 [_ H2]. apply (Hfin r). exact H2.
    - wp_prim. apply (Hfin (Ok false)). exact H1.
  Qed.

  Lemma action_body_handled kd next w :
    OPreH w -> is_terminated w = false -> legal w next ->
    wp (match kd with
        | KPause msg => do_pause_deferred msg next
        | KKill msg => finally (match next with
                                | Some (SExcepted x) => bind (transition next) (fun _ => ret false)
                                | _ => bind (transition (Some (SKilled (Some msg)))) (fun _ => ret true)
                                end)
                               (modify (fun w => w <| killing := None |>))
        end) (fun _ w' => handled w') w.
  Proof.
    intros P Hl Hleg. pose proof P as [[G [T _]] H]. destruct kd as [msg|msg].
    - apply do_pause_deferred_handled; assumption.
    - assert (Hk : wp (finally (bind (transition (Some (SKilled (Some msg)))) (fun _ => ret true)) (modify (fun w => w <| killing := None |>)))
                      (fun _ w' => handled w') w).
      { do 2 wp_prim. apply transition_H; [exact P | |].
        - split; [exact T|]. split; [apply live_to_terminal; [exact G | exact Hl | left; reflexivity] | discriminate].
        - intros w1 [_ H1] _ _. cbv beta iota. do 2 wp_prim. exact H1. }
      destruct next as [[| | | |x|]|]; [exact Hk | exact Hk | exact Hk | exact Hk | | exact Hk | exact Hk].
      do 2 wp_prim. apply transition_H; [exact P | |].
      + split; [exact T|]. split; [apply live_to_terminal; [exact G | exact Hl | right; reflexivity] | discriminate].
      + intros w1 [_ H1] _ _. cbv beta iota. do 2 wp_prim. exact H1.
  Qed.

  Lemma run_action_handled id next w :
    OPreH w -> pend w id -> is_terminated w = false -> legal w next ->
    wp (run_action id next) (fun _ w' => handled w') w.
  Proof.
    intros P (ac & Hg & Hp) Hl Hleg. unfold run_action. do 2 wp_prim. rewrite Hg, Hp. do 2 wp_prim.
    eapply wp_use; [apply action_body_handled; assumption|]. intros r w1 H1. do 2 wp_prim.
    destruct (get_act w1 id) as [a'|]; [|wp_prim; exact H1].
    destruct (a_fut a'); try (wp_prim; exact H1). unfold set_act_fut. wp_prim. exact H1.
  Qed.

  Lemma run_action_specH id next w (Q : result unit -> world -> Prop) :
    OPreH w -> pend w id -> is_terminated w = false -> legal w next ->
    (forall w', GAr (Some id) w' -> transitioning w' = false -> t0 w' = t0 w -> handled w' -> Q (Ok tt) w') -> wp (run_action id next) Q w.
  Proof.
    intros P Hp Hl Hleg HQ.
    eapply wp_use; [apply (wp_conj _ (fun r w' => r = Ok tt /\ GAr (Some id) w' /\ transitioning w' = false /\ t0 w' = t0 w) (fun _ w' => handled w'))|].
    - apply run_action_spec; [apply P | apply P | exact Hp|]. intros w' A B C. auto.
    - apply run_action_handled; assumption.
    - intros r w' [(-> & A & B & C) H]. apply HQ; assumption.
  Qed.

  Lemma run_armed_specH fuel : forall ran w (Q : result unit -> world -> Prop),
    GAr ran w -> transitioning w = false -> nf w -> handled w ->
    (forall r w', (exists ran', GAr ran' w') -> transitioning w' = false -> t0 w' = t0 w -> handled w' -> okf r -> Q r w') ->
    wp (run_armed fuel ran) Q w.
  Proof.
    induction fuel as [|f IH]; intros ran w Q G T N H HQ; cbn [run_armed].
    - wp_prim. apply HQ; [eexists; exact G | exact T | reflexivity | exact H | reflexivity].
    - do 2 wp_prim.
      assert (Hret : wp (ret tt) Q w) by (wp_prim; apply HQ; [eexists; exact G | exact T | reflexivity | exact H | exact I]).
      destruct (is_terminated w) eqn:Et; [exact Hret|]. destruct (intr w) as [a|] eqn:Hi; [|exact Hret].
      destruct (match ran with Some b => Nat.eqb a b | None => false end) eqn:Hsame; [exact Hret|].
      assert (Hne : ran <> Some a).
      { intro X. subst ran. rewrite Nat.eqb_refl in Hsame. discriminate. }
      pose proof (GAr_GA _ _ _ G Hi Hne) as G'.
      wp_prim. apply run_action_specH; [split; [split; [exact G' | split; assumption] | exact H] | apply G'; exact Hi | exact Et | exact I|].
      intros w1 G1 T1 T01 H1. cbv beta iota. apply IH; [exact G1 | exact T1 | unfold nf in *; rewrite T01; exact N | exact H1|].
      intros r w2 G2 T2 T02 H2 Hr. apply HQ; [exact G2 | exact T2 | congruence | exact H2 | exact Hr].
  Qed.

  Lemma finish_step_specH x w (Q : result unit -> world -> Prop) :
    OPreH w -> (forall next, x = XoNext next -> legal w next) ->
    (forall r w', OPreH w' -> okf r -> Q r w') -> wp (finish_step x) Q w.
  Proof.
    intros P Hleg HQ. unfold finish_step. wp_prim.
    assert (Hfin : forall (r : result unit) ran w2, GAr ran w2 -> transitioning w2 = false -> nf w2 -> handled w2 -> okf r ->
              wp (bind (modify (fun w => w <| stepping := false |>)) (fun _ => set_interrupt_action None))
                 (fun r2 s'' => match r2 with Ok _ => Q r s'' | Err e => Q (Err e) s'' end) w2).
    { intros r ran w2 G2 T2 N2 H2 Hr. do 2 wp_prim.
      set (w3 := w2 <| stepping := false |>).
      assert (G3 : GAr ran w3) by exact G2.
      eapply wp_use; [apply wp_conj; [apply wp_conj; [apply (sia_FrL None w3 (fun r w' => leq w3 w')); auto | apply (sia_fun None w3 (fun r w' => r = Ok tt /\ intr w' = None)); auto] | apply (FrN_keepH _ (sia_FrN None))]|].
      intros r4 w4 [[L4 [-> I4]] S4]. apply HQ; [|exact Hr].
      split.
      - split; [eapply GAr_disarmed; eauto|]. destruct L4 as (_ & _ & _ & _ & _ & X & _ & T04 & _). split; [rewrite X; exact T2|].
        unfold nf in *. rewrite T04. exact N2.
      - apply (keepH_handled w3); [apply L4 | exact S4 | exact H2]. }
    assert (Hmid : forall next w1, OPreH w1 -> legal w1 next ->
              wp (bind get (fun w => if is_terminated w then ret tt
                                     else match intr w with
                                          | Some a => bind (run_action a next) (fun _ => run_armed armed_fuel (Some a))
                                          | None => bind (transition next) (fun _ => run_armed armed_fuel None)
                                          end))
                 (fun r s' => wp (bind (modify (fun w => w <| stepping := false |>)) (fun _ => set_interrupt_action None))
                                 (fun r2 s'' => match r2 with Ok _ => Q r s'' | Err e => Q (Err e) s'' end) s') w1).
    { intros next w1 P1 L1. pose proof P1 as [(G1 & T1 & N1) H1]. do 2 wp_prim. destruct (is_terminated w1) eqn:Et.
      { wp_prim. apply (Hfin (Ok tt) None); [apply GA_GAr; exact G1 | exact T1 | exact N1 | exact H1 | exact I]. }
      assert (Harm : forall ran w2, GAr ran w2 -> transitioning w2 = false -> nf w2 -> handled w2 ->
                wp (run_armed armed_fuel ran)
                   (fun r s' => wp (bind (modify (fun w => w <| stepping := false |>)) (fun _ => set_interrupt_action None))
                                 (fun r2 s'' => match r2 with Ok _ => Q r s'' | Err e => Q (Err e) s'' end) s') w2).
      { intros ran w2 G2 T2 N2 H2. apply run_armed_specH; [exact G2 | exact T2 | exact N2 | exact H2|]. intros r w3 [ran' G3] T3' T03 H3 Hr.
        apply (Hfin r ran'); [exact G3 | exact T3' | unfold nf in *; rewrite T03; exact N2 | exact H3 | exact Hr]. }
      destruct (intr w1) as [a|] eqn:Hi.
      - wp_prim. apply run_action_specH; [exact P1 | apply G1; exact Hi | exact Et | exact L1|]. intros w2 G2 T2 T02 H2. cbv beta iota.
        apply Harm; [exact G2 | exact T2 | unfold nf in *; rewrite T02; exact N1 | exact H2].
      - wp_prim. destruct next as [ns|].
        + apply transition_H; [exact P1 | apply legal_to_ok; assumption|]. intros w2 [(G2 & T2 & N2) H2] _ _. cbv beta iota.
          apply Harm; [apply GA_GAr; exact G2 | exact T2 | exact N2 | exact H2].
        + unfold transition, transition_to. do 2 wp_prim. rewrite T1. wp_prim. cbv beta iota.
          apply Harm; [apply GA_GAr; exact G1 | exact T1 | exact N1 | exact H1]. }
    pose proof P as [P0 H0].
    wp_prim. destruct x as [next| |iid|x].
    - wp_prim. cbv beta iota. apply Hmid; [exact P | apply Hleg; reflexivity].
    - wp_prim. cbv beta iota. apply Hmid; [exact P | exact I].
    - do 3 wp_prim. cbv zeta.
      match goal with |- wp (if ?b then _ else _) _ _ => destruct b end.
      + do 2 wp_prim. apply Hmid; [exact P | exact I].
      + destruct (find (fun ac => Nat.eqb (a_cookie ac) iid) (acts w)).
        * wp_prim. eapply wp_use; [apply wp_conj; [apply wp_conj; [apply (sia_from_XT None (a_kind a) iid w (fun r w1 => RK w w1)); [apply P0 | auto] | apply sia_from_total] | apply (FrN_keepH _ (sia_from_FrN (a_kind a) iid))]|].
          intros r w1 [[R1 Hr] S1]. pose proof (OPre_of_RT _ _ _ P0 R1) as P1. destruct r; [|destruct Hr]. cbv beta iota.
          do 2 wp_prim. apply Hmid; [|exact I]. split; [exact P1|].
          apply (keepH_handled w); [apply R1 | exact S1 | exact H0].
        * do 2 wp_prim. apply Hmid; [exact P | exact I].
    - wp_prim. eapply wp_use; [apply wp_conj; [apply (sia_X None None w (fun r w1 => r = Ok tt /\ RK w w1)); [apply P0 | intros a X; discriminate | auto] | apply (FrN_keepH _ (sia_FrN None))]|].
      intros r w1 [[-> R1] S1]. cbv beta iota.
      pose proof (OPre_of_RT _ _ _ P0 R1) as P1. wp_prim. cbv beta iota.
      apply Hmid; [|apply legal_always; [apply GA_lbl; apply P1 | right; left; reflexivity]].
      split; [exact P1|]. apply (keepH_handled w); [apply R1 | exact S1 | exact H0].
  Qed.

  (* ---------------------------------------------------------------- the stepping loop, one callback, the environment *)
  Definition LPostH (r : result unit) (w' : world) : Prop := OPreH w' /\ okf r /\ (is_ok r -> T3 w').

  Lemma step_body_specH (rest : LM unit) w (Q : result unit -> world -> Prop) :
    OPreH w ->
    (forall w1 (Q1 : result unit -> world -> Prop), OPreH w1 -> (forall r w', LPostH r w' -> Q1 r w') -> wp rest Q1 w1) ->
    (forall r w', LPostH r w' -> Q r w') ->
    wp (bind (modify (fun w => w <| stepping := true |>))
             (fun _ => bind execute_state (fun x => match x with XoSuspended => ret tt | _ => bind (finish_step x) (fun _ => rest) end))) Q w.
  Proof.
    intros [(G & T & N) H] Hrest HQ. do 2 wp_prim.
    match goal with |- wp _ _ ?w1 => assert (P1 : OPreH w1) by (split; [split; [apply GA_stepping; exact G | split; assumption] | exact H]) end.
    wp_prim. apply execute_state_specH; [exact P1|]. intros x w2 R2 X2. cbv beta iota.
    pose proof (ROH_pre _ _ R2) as P2.
    assert (Hfs : wp (bind (finish_step x) (fun _ => rest)) Q w2).
    { wp_prim. apply finish_step_specH; [exact P2 | intros next ->; exact X2|]. intros r w3 P3 Hr. destruct r; cbv beta iota.
      - apply Hrest; [exact P3 | exact HQ].
      - apply HQ. split; [exact P3|]. split; [exact Hr | intros []]. }
    destruct x; try exact Hfs. wp_prim. apply HQ. split; [exact P2|]. split; [exact I | intros _; exact X2].
  Qed.

  Lemma set_t0_LH p w (Q : result unit -> world -> Prop) :
    OPreH w -> okpc p -> (match p with PcInStep _ _ _ => False | _ => True end) ->
    (forall r w', LPostH r w' -> Q r w') -> wp (set_t0 p) Q w.
  Proof.
    intros [(G & T & N) H] Hp Hn HQ. unfold set_t0. wp_prim. apply HQ.
    split; [split; [split; [apply GA_t0; exact G | split; [exact T | exact Hp]] | exact H]|]. split; [exact I|]. intros _.
    unfold T3. cbn. destruct p; try exact I. contradiction.
  Qed.

  Lemma loop_head_specH fuel : forall w (Q : result unit -> world -> Prop),
    OPreH w -> (forall r w', LPostH r w' -> Q r w') -> wp (loop_head fuel) Q w.
  Proof.
    induction fuel as [|f IH]; intros w Q P HQ; cbn [loop_head].
    - wp_prim. apply HQ. split; [exact P|]. split; [reflexivity | intros []].
    - do 2 wp_prim. destruct (is_terminated w) eqn:Et; [apply set_t0_LH; [exact P | exact I | exact I | exact HQ]|].
      destruct (closed w) eqn:Ec.
      { exfalso. destruct P as [(((_ & G2 & _) & _) & _) _]. rewrite (G2 Ec) in Et. discriminate. }
      destruct (paused w); [apply set_t0_LH; [exact P | exact I | exact I | exact HQ]|].
      apply step_body_specH; [exact P | | exact HQ]. intros w1 Q1 P1 HQ1. apply IH; assumption.
  Qed.

  Definition TopH (w : world) : Prop := Top w /\ handled w.

  Lemma resume_t0_specH wk w (Q : result unit -> world -> Prop) :
    TopH w -> (forall r w', LPostH r w' -> Q r w') -> wp (resume_t0 wk) Q w.
  Proof.
    intros [[P0 H3] H0] HQ. assert (P : OPreH w) by (split; assumption). unfold resume_t0. do 2 wp_prim.
    assert (Hloop : forall w1 (Q1 : result unit -> world -> Prop), OPreH w1 -> (forall r w', LPostH r w' -> Q1 r w') -> wp (loop_head chain_fuel) Q1 w1)
      by (intros; apply loop_head_specH; assumption).
    assert (Htail : forall (x : exec_out) w2, OPreH w2 -> xo_ok x w2 ->
               wp (match x with XoSuspended => ret tt | _ => bind (finish_step x) (fun _ => loop_head chain_fuel) end) Q w2).
    { intros x w2 P2 X2.
      assert (Hfs : wp (bind (finish_step x) (fun _ => loop_head chain_fuel)) Q w2).
      { wp_prim. apply finish_step_specH; [exact P2 | intros next ->; exact X2|]. intros r w3 P3 Hr. destruct r; cbv beta iota.
        - apply Hloop; [exact P3 | exact HQ].
        - apply HQ. split; [exact P3|]. split; [exact Hr | intros []]. }
      destruct x; try exact Hfs. wp_prim. apply HQ. split; [exact P2|]. split; [exact I | intros _; exact X2]. }
    destruct (t0 w) eqn:Et.
    - apply Hloop; assumption.
    - assert (Hb : wp (bind (modify (fun w => w <| stepping := true |>))
                         (fun _ => bind execute_state (fun x => match x with XoSuspended => ret tt | _ => bind (finish_step x) (fun _ => loop_head chain_fuel) end))) Q w).
      { apply step_body_specH; [exact P | exact Hloop | exact HQ]. }
      destruct (paused w); [destruct (is_terminated w); [exact Hb|] | exact Hb].
      apply set_t0_LH; [exact P | exact I | exact I | exact HQ].
    - assert (Hr : run_or_term w) by (unfold T3 in H3; rewrite Et in H3; exact H3).
      wp_prim.
      assert (Ho : OatH (match wk with WkExn x => ret (SoRaised x) | _ => run_actions rest r end) w).
      { destruct wk; first [apply run_actions_OH | apply OatH_ret]. }
      apply Ho; [exact P|]. intros o w1 R1. cbv beta iota.
      wp_prim. apply after_run_fn_specH; [eapply ROH_pre; eauto | eapply run_or_term_stable; [apply R1 | exact Hr]|].
      intros x w2 R2 X2. cbv beta iota. apply Htail; [eapply ROH_pre; eauto | exact X2].
    - do 3 wp_prim.
      assert (Hw : forall fn, wp (after_waiting fn wid wk) (fun rx w2 => match rx with
                      | Ok x => wp (bind (finish_step x) (fun _ => loop_head chain_fuel)) Q w2 | Err x => Q (Err x) w2 end) w).
      { intro fn. apply after_waiting_specH; [exact P|]. intros x w2 R2 X2.
        pose proof (ROH_pre _ _ R2) as P2.
        wp_prim. apply finish_step_specH; [exact P2 | intros next ->; exact X2|]. intros r w3 P3 Hr. destruct r; cbv beta iota.
        - apply Hloop; [exact P3 | exact HQ].
        - apply HQ. split; [exact P3|]. split; [exact Hr | intros []]. }
      destruct (st w) as [[]|]; apply Hw.
    - wp_prim. apply HQ. split; [exact P|]. split; [exact I | intros _; exact H3].
    - wp_prim. apply HQ. split; [exact P|]. split; [exact I | intros _; exact H3].
  Qed.

  Lemma TopH_K w w' : TopH w -> HRel w w' -> TopH w'.
  Proof. intros [T H] [R H']. split; [eapply Top_K; eauto | exact H']. Qed.

  Lemma TopH_frame w w' : TopH w -> eeq w w' -> keepH w w' -> TopH w'.
  Proof. intros [T H] E Kp. split; [eapply Top_eeq; eauto|]. apply (keepH_handled w); [apply E | exact Kp | exact H]. Qed.

  Lemma emit_TopH ev w (Q : result unit -> world -> Prop) :
    TopH w -> ev_ok ev = true -> (forall w', TopH w' -> Q (Ok tt) w') -> wp (emit ev) Q w.
  Proof.
    intros H He HQ. unfold emit. wp_prim. apply HQ. eapply TopH_frame; [exact H | | repeat split; reflexivity].
    repeat split; try reflexivity. intro X. apply errs_ok_snoc; assumption.
  Qed.

  Lemma TopH_HPre w : TopH w -> HPre w.
  Proof. intros [[P _] H]. split; [apply P | exact H]. Qed.

  Lemma ctl_call_TopH c w (Q : result cret -> world -> Prop) :
    TopH w -> (forall r w', TopH w' -> (must_return c = true -> is_ok r) -> Q r w') -> wp (ctl_call c) Q w.
  Proof.
    intros H HQ.
    eapply wp_use; [apply (wp_conj _ (fun r w' => must_return c = true -> is_ok r) (fun _ w' => HRel w w'))|].
    - apply ctl_call_spec; [apply H|]. intros r w' _ T. apply T. apply H.
    - unfold ctl_call. apply do_ctl_HK; [apply TopH_HPre; exact H | auto].
    - intros r w' [A R]. apply HQ; [eapply TopH_K; eauto | exact A].
  Qed.

  Lemma ctl_observed_TopH c w (Q : result cret -> world -> Prop) :
    TopH w -> (forall x w', TopH w' -> Q (Ok x) w') -> wp (ctl_observed c) Q w.
  Proof.
    intros H HQ. apply ctl_observed_H; [apply TopH_HPre; exact H|]. intros x w' R. apply HQ. eapply TopH_K; eauto.
  Qed.

  Lemma run_entry_specH r w (Q : result unit -> world -> Prop) :
    TopH w -> (forall w', TopH w' -> Q (Ok tt) w') -> wp (run_entry r) Q w.
  Proof.
    intros H HQ. destruct r as [wk|cb|]; cbn [run_entry].
    - do 2 wp_prim. apply resume_t0_specH; [exact H|]. intros r w1 (P1 & Hr & H3). destruct r as [u|x]; cbv beta iota.
      + wp_prim. apply HQ. destruct P1 as [P1 H1]. split; [split; [exact P1 | apply H3; exact I] | exact H1].
      + cbn in Hr. subst x. unfold set_t0, emit. do 3 wp_prim. apply HQ.
        destruct P1 as [(G1 & T1 & N1) H1]. destruct G1 as ((A1 & A2 & A3 & A5 & A6) & A4).
        split; [|exact H1].
        split; [split; [split; [repeat split; try assumption|exact A4] | split; [exact T1 | reflexivity]] | exact I].
        apply errs_ok_snoc; [exact A6 | reflexivity].
    - wp_prim. apply emit_TopH; [exact H | reflexivity|]. intros w1 H1. cbv beta iota. do 4 wp_prim.
      assert (Hbody : wp (match nth_error (cf_callbacks (cfg w1)) cb with
                          | Some CbOk | None => ret tt
                          | Some (CbRaise x) => raise x
                          | Some (CbCtl c) => bind (ctl_observed c) (fun r => emit (EvCtl c r))
                          end) (fun r w2 => TopH w2) w1).
      { destruct (nth_error (cf_callbacks (cfg w1)) cb) as [[]|]; try (wp_prim; exact H1).
        wp_prim. apply ctl_observed_TopH; [exact H1|]. intros x w2 H2. cbv beta iota.
        apply emit_TopH; [exact H2 | reflexivity|]. intros w3 H3'. exact H3'. }
      eapply wp_use; [exact Hbody|]. intros r2 w2 H2. cbv beta iota. destruct r2 as [u|x]; cbv beta iota; [wp_prim; apply HQ; exact H2|].
      do 2 wp_prim.
      assert (Hfail : wp (bind (attempt (ctl_call (CFail x))) (fun y => match y with Ok _ => ret tt | Err e' => emit (EvLoopError e') end)) Q w2).
      { do 2 wp_prim. apply ctl_call_TopH; [exact H2|]. intros r3 w3 H3' Hr. destruct r3; [|destruct (Hr eq_refl)]. cbv beta iota. wp_prim. apply HQ. exact H3'. }
      destruct (st w2) as [[]|]; try exact Hfail. wp_prim. apply HQ. exact H2.
    - do 2 wp_prim. destruct (orig_fut_cancelled w); [|wp_prim; apply HQ; exact H].
      do 2 wp_prim. apply ctl_call_TopH; [exact H|]. intros r3 w3 H3' Hr. destruct r3; [|destruct (Hr eq_refl)]. cbv beta iota. wp_prim. apply HQ. exact H3'.
  Qed.

  Lemma tick_specH w (Q : result unit -> world -> Prop) :
    TopH w -> (forall w', TopH w' -> Q (Ok tt) w') -> wp tick Q w.
  Proof.
    intros H HQ. unfold tick. do 2 wp_prim. destruct (ready w) as [|r rest]; [wp_prim; apply HQ; exact H|].
    do 2 wp_prim. apply run_entry_specH; [|exact HQ]. eapply TopH_frame; [exact H | repeat split; auto | repeat split; reflexivity].
  Qed.

  Lemma drain_specH n : forall w (Q : result unit -> world -> Prop),
    TopH w -> (forall w', TopH w' -> Q (Ok tt) w') -> wp (drain n) Q w.
  Proof.
    induction n as [|n IH]; intros w Q H HQ; cbn [drain]; [wp_prim; apply HQ; exact H|].
    do 2 wp_prim. destruct (ready w) eqn:Er; [wp_prim; apply HQ; exact H|].
    wp_prim. apply tick_specH; [exact H|]. intros w1 H1. cbv beta iota. apply IH; assumption.
  Qed.

  Lemma env_step_m_specH ev w (Q : result unit -> world -> Prop) :
    TopH w -> ev <> ECancelFuture -> (forall w', TopH w' -> Q (Ok tt) w') -> wp (env_step_m ev) Q w.
  Proof.
    intros H Hne HQ. destruct ev; cbn [env_step_m].
    - apply tick_specH; assumption.
    - wp_prim. apply ctl_observed_TopH; [exact H|]. intros x w1 H1. cbv beta iota.
      apply emit_TopH; [exact H1 | reflexivity | exact HQ].
    - contradiction.
    - unfold schedule. wp_prim. apply HQ. eapply TopH_frame; [exact H | repeat split; auto | repeat split; reflexivity].
    - do 2 wp_prim. destruct (find (fun kw => Nat.eqb (fst kw) k0) (exts w)); [wp_prim; apply HQ; exact H|].
      do 2 wp_prim.
      match goal with |- wp _ _ ?wx => assert (H1 : TopH wx) by (eapply TopH_frame; [exact H | repeat split; auto | repeat split; reflexivity]) end.
      destruct (t0 w); try (wp_prim; apply HQ; exact H1). destruct await_ext; [|wp_prim; apply HQ; exact H1].
      apply wp_when_i; intro; [|apply HQ; exact H1]. unfold schedule. wp_prim. apply HQ.
      eapply TopH_frame; [exact H1 | repeat split; auto | repeat split; reflexivity].
    - apply drain_specH; assumption.
  Qed.

  Lemma env_step_TopH w ev : TopH w -> ev <> ECancelFuture -> TopH (env_step w ev).
  Proof.
    intros H Hne. unfold env_step. apply (wp_run (env_step_m ev) (fun _ w' => TopH w') w).
    apply env_step_m_specH; [exact H | exact Hne | auto].
  Qed.

  Lemma run_from_TopH es : forall w, TopH w -> ~ In ECancelFuture es -> TopH (run_from w es).
  Proof.
    induction es as [|ev es IH]; intros w H Hn; cbn; [exact H|].
    apply IH; [apply env_step_TopH; [exact H | intro X; apply Hn; left; exact X] | intro X; apply Hn; right; exact X].
  Qed.
End Fault.

(* ------------------------------------------------------------------ construction, every run *)
Lemma constructed_shape c u w :
  construct_process c = (Ok u, w) -> cfg w = c /\ occ w = [("on_create", 1)] /\ hooks_alive w = true.
Proof.
  intro Hc. destruct c as [prog cbs ls fault osp]. unfold construct_process in Hc.
  unfold transition in Hc. revert Hc. generalize (do_ctl reent_fuel). intros rec Hc.
  destruct fault as [[[h k] e]|].
  - vm_compute in Hc.
    match type of Hc with context [match ?b with true => _ | false => _ end] => destruct b end; [discriminate Hc|].
    injection Hc as _ <-. repeat split; reflexivity.
  - vm_compute in Hc. injection Hc as _ <-. repeat split; reflexivity.
Qed.

(* C03, every run: once the injected fault of a transition hook has fired, the process is EXCEPTED with exactly that exception,
   its future raises it and it is closed *)
Theorem fault_ends_excepted c es w h k e :
  run c es = Some w -> ~ In ECancelFuture es ->
  cf_fault c = Some (h, k, e) -> smhook h = true -> k < nat_assoc h (occ w) ->
  st w = Some (SExcepted e) /\ pfut w = PfExn e /\ closed w = true.
Proof.
  intros Hr Hn Hf Hsm Hk. unfold run in Hr. destruct (construct_process c) as [[u|x] w0] eqn:Hc; [|discriminate].
  injection Hr as <-. destruct (constructed_shape _ _ _ Hc) as (C0 & O0 & A0).
  assert (T0 : TopH h k e w0).
  { split; [eapply constructed_Top; eauto|]. split; [intro X; congruence|]. intros _ X. exfalso. unfold cnt in X. rewrite O0 in X. cbn in X.
    rewrite (sm_not_other h Hsm "on_create") in X; [lia | cbn; tauto]. }
  destruct (run_from_TopH h k e Hsm es w0 T0 Hn) as [_ [_ H]]. apply H; [|exact Hk].
  unfold flt. rewrite run_from_cfg, C0. exact Hf.
Qed.
